#!/bin/bash
# tools/quickmut.sh <ID> <name> <file-in-repo> <sed-expression> — makes mutants/<ID>-<name>.patch from a one-line sed
# edit of /repo HEAD, checks that it compiles and whether the package's own tests still pass, runs the quick check.
ID="$1"; NAME="$2"; F="$3"; EXPR="$4"
export GOFLAGS=-mod=mod GOPROXY=off
WT=/var/tmp/qm-$ID-$NAME; rm -rf $WT; git -C /repo worktree add -q $WT HEAD || exit 3
sed -i "$EXPR" "$WT/$F"
if git -C $WT diff --quiet; then echo "NOCHANGE $ID-$NAME"; git -C /repo worktree remove --force $WT; exit 3; fi
git -C $WT diff > /verif/mutants/$ID-$NAME.patch
pk=./$(dirname $F)/
if ! (cd $WT && go build ./... 2>/dev/null); then echo "NOCOMPILE $ID-$NAME"; rm -f /verif/mutants/$ID-$NAME.patch; git -C /repo worktree remove --force $WT; exit 3; fi
t=$(/verif/tools/baseline.sh $WT $pk 2>/dev/null | head -1)
git -C /repo worktree remove --force $WT
r=$(/verif/tools/mutant.sh $ID /verif/mutants/$ID-$NAME.patch | tail -1)
echo "$r | own tests: $t"
