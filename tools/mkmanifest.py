#!/usr/bin/env python3
"""Regenerates /verif/MANIFEST.json from the table below (kept in one place so the
manifest is always schema-valid). Run: python3 tools/mkmanifest.py"""
import json, os, subprocess, sys
HERE = os.path.dirname(os.path.dirname(os.path.abspath(__file__)))

# id -> (category, engine, technique, level text, level note, design ref)
CHECKS = {}
def check(id, cat, engine, technique, text, note, ref):
    CHECKS[id] = dict(cat=cat, engine=engine, technique=technique, text=text, note=note, ref=ref)

NOT_APPLICABLE = {}

exec(open(os.path.join(HERE, "tools", "checks_table.py")).read())

hook_commits = subprocess.run(["git", "-C", "/repo", "log", "--format=%H %s"], capture_output=True, text=True).stdout.splitlines()
hook_commits = [l.split()[0] for l in hook_commits if " verif hook" in l]

man = {
  "version": 1,
  "setup_cmd": "./setup.sh",
  "hooks": {
    "guard": "verif (Go build tag)",
    "enable": "go build -tags verif (the ./check driver always passes it); C16 additionally instruments three files (cache.go, common.go, combined_native_client.go) through a build overlay generated from /repo's working tree, nothing committed",
    "baseline_off_cmd": "for m in $(cat /w/out/gomods.txt); do MF=$(cd /repo/$m && . /w/out/goenv.sh && gomodflag); (cd /repo/$m && go test $MF -json -vet=off -count=1 -timeout 25m ./...); done",
    "source_commits": hook_commits,
    "add_only": True,
  },
  "engines": [
    {"name": "E", "path": "harness/cmd/*", "kind_free_text": "bounded-exhaustive enumerator of inputs/configurations against a reference model, run on the real code", "serves_properties": [k for k,v in CHECKS.items() if v["engine"]=="E"]},
    {"name": "B", "path": "harness/cmd/*", "kind_free_text": "explicit-state breadth-first search over operation histories, each state rebuilt on fresh real objects", "serves_properties": [k for k,v in CHECKS.items() if v["engine"]=="B"]},
    {"name": "F", "path": "harness/memfs", "kind_free_text": "deviation-bounded environment-fault explorer: every single fault / pair of faults over numbered operation sites", "serves_properties": [k for k,v in CHECKS.items() if v["engine"]=="F"]},
    {"name": "S", "path": "harness/sched", "kind_free_text": "controlled cooperative scheduler + DFS with iterative preemption bounding over real goroutines (sync/chan/go rewritten by build overlay)", "serves_properties": [k for k,v in CHECKS.items() if v["engine"]=="S"]},
  ],
  "checks": [],
  "not_applicable": [{"property_id": k, "reason": v} for k, v in sorted(NOT_APPLICABLE.items())],
  "notes": "All checks: ./check <ID> quick|thorough [--replay file]; rebuilds from /repo's working tree with -tags verif. known_findings.json lists open/fixed genuine defects; evidence/<ID>.json is rewritten by every run.",
}
for id in sorted(CHECKS):
    c = CHECKS[id]
    man["checks"].append({
        "property_id": id,
        "quick_cmd": f"./check {id} quick",
        "thorough_cmd": f"./check {id} thorough",
        "evidence_file": f"/verif/evidence/{id}.json",
        "replay_cmd_template": f"./check {id} quick --replay {{path}}",
        "engine": c["engine"],
        "level_claimed": {"category": c["cat"], "text": c["text"], "design_ref": c["ref"]},
        "level_note": c["note"],
        "technique": c["technique"],
    })
json.dump(man, open(os.path.join(HERE, "MANIFEST.json"), "w"), indent=1)
print("checks:", len(man["checks"]), "not_applicable:", len(man["not_applicable"]))
try:
    import jsonschema
    jsonschema.validate(man, json.load(open("/root/.vp/MANIFEST.schema.json")))
    print("manifest validates")
except ImportError:
    print("jsonschema not importable here; run with python3-vt to validate")
