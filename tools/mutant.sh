#!/bin/bash
# tools/mutant.sh <ID> <patch-file> [quick|thorough] — applies a patch to a scratch worktree of /repo HEAD,
# runs the check against it, prints CAUGHT / MISSED, removes the worktree.
ID="$1"; PATCH="$(readlink -f "$2")"; TIER="${3:-quick}"
WT=/var/tmp/mut-$ID-$$
git -C /repo worktree add -q "$WT" HEAD || exit 3
if ! git -C "$WT" apply "$PATCH"; then echo "PATCH-DOES-NOT-APPLY $PATCH"; git -C /repo worktree remove --force "$WT"; exit 3; fi
if ! (cd "$WT" && GOFLAGS=-mod=mod GOPROXY=off go build ./... >/dev/null 2>&1); then echo "MUTANT-DOES-NOT-COMPILE $PATCH"; git -C /repo worktree remove --force "$WT"; exit 3; fi
out=$(VERIF_REPO="$WT" /verif/check "$ID" "$TIER" 2>/dev/null); rc=$?
echo "$out" | grep -E "^VIOLATION|^KNOWN" | cut -c1-220 | head -5
if [ $rc -eq 1 ]; then echo "CAUGHT $ID $(basename "$PATCH")"; else echo "MISSED $ID $(basename "$PATCH") (exit $rc)"; fi
git -C /repo worktree remove --force "$WT"; rm -rf "$WT.out" /verif/bin/*$(echo "$WT" | tr -c 'A-Za-z0-9' '_')*
[ $rc -eq 1 ]
