#!/usr/bin/env python3
"""Regenerates the defect table of DESIGN.md §10.3 (and the counts in its prose) from known_findings.json."""
import json, re, os
V=os.path.join(os.path.dirname(os.path.abspath(__file__)),'..')
d=json.load(open(os.path.join(V,'known_findings.json')))
rows=["| property | cause key | status | failing input / what fails |","|---|---|---|---|"]
for f in d:
    what=f.get('what','')
    what=re.sub(r'^fixed: property=\S+ \S+ ','',what)
    what=what.replace('|','\\|').replace('\n',' ')
    if len(what)>230: what=what[:227]+'...'
    st='fixed '+f['commit'] if f['status']=='fixed' else f['status']
    rows.append(f"| {f['property']} | `{f['key']}` | {st} | {what} |")
p=os.path.join(V,'DESIGN.md'); s=open(p).read()
i=s.index('| property | cause key | status |'); j=s.index('\n\n',i)
s=s[:i]+"\n".join(rows)+s[j:]
fixed=[f for f in d if f['status']=='fixed']; opn=[f for f in d if f['status']!='fixed']
commits=len({f['commit'] for f in fixed})
s=re.sub(r'\(\d+ commits for \d+ cause keys',f'({commits} commits for {len(fixed)} cause keys',s)
s=re.sub(r'both kinds are `open` findings \(\d+ keys\)',f'both kinds are `open` findings ({len(opn)} keys)',s)
open(p,'w').write(s)
print(f"{len(fixed)} fixed keys in {commits} commits, {len(opn)} open")
