#!/usr/bin/env python3
"""Refreshes the generated seed table at the end of DESIGN.md."""
import subprocess, os
here=os.path.dirname(os.path.abspath(__file__))
p=os.path.join(here,'..','DESIGN.md')
s=open(p).read()
m='<!-- SEEDTABLE -->'
i=s.index(m)+len(m)
tbl=subprocess.run(['python3',os.path.join(here,'seed_table.py')],capture_output=True,text=True).stdout
open(p,'w').write(s[:i]+'\n'+tbl)
print(tbl.splitlines()[0])
