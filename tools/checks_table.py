# One entry per claimed property. Everything not claimed yet is listed as
# not_applicable with the reason "check not built yet" until its check lands.
check("C19", "exploration", "E", "bounded exhaustive enumeration (complete: 60 capability tuples x whole registry x all names) against a reference predicate",
      "Complete enumeration of the finite configuration space the property quantifies over (capability tuples x plugins x names); nothing is left outside the bound except plugins added later, which are picked up automatically from the registries.",
      "Trusted: the 15-line reference predicate written from plugin.go's comments; hook VerifNames() returns the real name-table keys.", "DESIGN §5 C19")

ALL = ["C%02d" % i for i in range(1, 21)]
for p in ALL:
    if p not in CHECKS:
        NOT_APPLICABLE[p] = "check not built yet in this round (planned: see DESIGN.md §5); not a claim that the technique cannot apply"
