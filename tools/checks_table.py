# One entry per claimed property. Everything not claimed yet is listed as
# not_applicable with the reason "check not built yet" until its check lands.
check("C19", "exploration", "E", "bounded exhaustive enumeration (complete: 60 capability tuples x whole registry x all names) against a reference predicate",
      "Complete enumeration of the finite configuration space the property quantifies over (capability tuples x plugins x names); nothing is left outside the bound except plugins added later, which are picked up automatically from the registries.",
      "Trusted: the 15-line reference predicate written from plugin.go's comments; hook VerifNames() returns the real name-table keys.", "DESIGN §5 C19")

check("C01", "exploration", "E", "bounded exhaustive enumeration of trees x option vectors (deviation-bounded) x extractor sets on the real Scanner.Scan, against a reference dispatch model",
      "Every tree up to the node bound and every option vector up to the deviation bound is executed on the real scan engine over an in-memory file system and compared call-for-call with an independent dispatch model; interactions of 2-3 options on small trees are exactly where the defects of this property live (3 found and fixed).",
      "Trusted: the ~200-line reference model (git .gitignore semantics for a 5-pattern alphabet, skip rules as the property states them); regexp/glob matching libraries; memfs. Outside the bound: trees > 4 (quick) / 6 (thorough) nodes, > 2/3 simultaneous option deviations, gitignore negation.", "DESIGN §5 C01")
check("C08", "exploration", "E", "exhaustive enumeration of every per-directory listing permutation x plugin-list permutation x root selection, differential against the canonical-order scan",
      "All permutations of every directory listing of every tree up to the node bound, all orders of the plugin lists and all ordered selections of 2-3 roots are executed; the oracle is another run of the implementation (canonical order / single-root scans), so no expected value is hand-written.",
      "Trusted: memfs returns entries exactly in the parameterised order; Go map iteration order is represented by its consequence (plugin list order). Outside the bound: trees > 5/6 nodes, > 3 roots.", "DESIGN §5 C08")

check("C04", "exploration", "E", "bounded exhaustive enumeration of layer sequences x entry orders x name styles x histories x requirers on the real FromV1Image, against an independent OCI overlay model (+ variant models to attribute open findings)",
      "Every well-formed 1- and 2-layer image (thorough: 3-layer) over the path universe is loaded by the real code and every view is queried on every path and by listing and walk, then compared with a 60-line overlay model; 5 genuine defects found this way were fixed, 3 are open findings matched only when the implementation agrees exactly with the corresponding variant model.",
      "Trusted: imgkit.Model.Apply (OCI change-set rules), the light v1.Image. Outside the bound: >2 entries per layer in quick, >3 layers, hard links, path depth >3, symlinked directory components (C17), directory permission bits.", "DESIGN §5 C04")
check("C09", "fault_enumeration", "F", "deviation-bounded fault enumeration: every single fault and every pair of faults over all numbered FS operation sites, differential against the fault-free scan",
      "For every small tree/config the fault-free run fixes the list of operation sites; every site x error kind and every pair is injected and the faulted scan compared with the fault-free one (containment, status rules, fatal-on-request).",
      "Trusted: memfs site numbering; the oracle's mapping from a reached site to the owning extractor. Outside the bound: >2 simultaneous faults, trees >5/6 nodes, gitignore enabled.", "DESIGN §5 C09")

check("C07", "exploration", "E", "bounded exhaustive enumeration: all strings up to a length over raw/token alphabets, all ordered pairs, full comparison matrix + all triples, against algebraic laws and independent reference comparators",
      "Totality/reflexivity on every string up to the bound, antisymmetry on all ordered pairs of accepted token strings, transitivity and congruence on ALL triples of a generated grammar-valid set via the full comparison matrix, and agreement with independent reference comparators on canonical sub-grammars; two genuine defects found and fixed.",
      "Trusted: reference comparators (self-tested against published example chains and the repository's own real-tool fixture files at start-up); grammar generators. Outside: strings longer than the bound, characters outside the alphabets, Maven's own non-transitive qualifier families (don't-care).", "DESIGN §5 C07")
check("C14", "exploration", "E", "complete sweep of every package harvested from every fixture of every built-in extractor (x os-release environments x percent-encoding substitutions) through all conversion laws",
      "The finite harvest (all fixtures x 8 os-release environments x 18/82 name/version substitutions) is swept completely; every conversion law of the property is checked on every package.",
      "Trusted: harvest driver (direct Extract on a scratch copy of testdata). Outside: packages no fixture or substitution produces; C02 mutants / C03 generated files are not streamed in.", "DESIGN §5 C14")
check("C15", "exploration", "E", "exhaustive enumeration of inventories over a PURL pool (every emitted type x 12 shapes) x 5 export formats, round trip through the library's own writers and SBOM extractors",
      "Every inventory of 0..2 (thorough 0..3) packages over the pool is exported in all 5 formats and re-imported with the library's own extractors; the reference is the in-memory document itself.",
      "Trusted: third-party packageurl parser used to filter spec-invalid pool entries. Outside: inventories > 3 packages, PURL shapes outside the 12.", "DESIGN §5 C15")
check("C17", "exploration", "E", "exhaustive enumeration of every symlink graph on <=4 (thorough 5) entries x every depth 0..6 x every entry and operation, on real images, against a reference resolver",
      "The property's own quantifier (all graphs on up to 5 entries x depths 0..6) is enumerated completely in the thorough tier (4 entries in quick) on the real image views, final and intermediate.",
      "Trusted: 20-line reference resolver. Don't-care: cycle vs depth error; not-exist vs depth when the (max+1)-th hop finds a missing target.", "DESIGN §5 C17")
check("C18", "exploration", "E", "exhaustive enumeration of every well-formed event list (<=4/5 events) in every listing permutation x probes x range types x multi-range / multi-entry / versions-list records, against the OSV specification's linear evaluation",
      "All well-formed ranges up to the bound, in every listing order, are evaluated at every probe version for npm, Maven and PyPI and compared with two independent formulations of the OSV algorithm; one genuine defect found and fixed.",
      "Trusted: the 3-integer version comparator on the plain ladder; records are passed as structs (no JSON decoding). Don't-care: SEMVER ranges for Maven/PyPI, malformed lists, string-unequal version spellings in versions lists.", "DESIGN §5 C18")

check("C05", "model_checking", "B", "explicit-state breadth-first search over layer histories; every state rebuilt as a real image, scanned by ScanContainer, attribution compared with a brute-force oracle over all views",
      "All layer histories up to the depth bound over the operation alphabet (write each package subset, delete, delete parent, touch, empty history entry; one/two files; one/two extractors) are explored breadth-first with state deduplication on (views, diffs); every transition executes the real image loader and tracer.",
      "Trusted: the state key captures everything attribution can depend on (sequence of per-view file contents, per-layer file-in-diff, empty-layer flags); oracle reads the implementation's own views (C04 checks those). Outside: depth > 5/7, >2 files, >3 packages per file, symlinked package files.", "DESIGN §5 C05")

check("C20", "exploration", "E", "exhaustive enumeration of every ordered list of scripted detectors x every inventory on the real Scanner.Scan, against a reference model of the detector run",
      "The property's quantifier (0..4 fake detectors, finding lists with shared/distinct ids, equal/unequal bodies, missing advisories, errors; arbitrary inventories incl. packages without PURL) is enumerated completely up to lists of 2 full scripts / 3-4 short scripts.",
      "Trusted: 60-line reference model. Don't-care: overall status when a detector errs but findings are consistent.", "DESIGN §5 C20")

check("C10", "fault_enumeration", "F", "exhaustive enumeration of limit values around each boundary and of every cancellation point of the uncancelled event log, differential against the uncancelled run",
      "For every small tree the inode/size limits take every value around their boundary, and the context is cancelled inside every event of the uncancelled run (each inode visit, Extract, AfterExtractorRun, standalone extractor, detector, and before Scan); the hard-bound invariants are checked on each run; image byte limit at L-1/L/L+1.",
      "Trusted: the cancelling hooks run synchronously inside the scan's own callbacks, so the cancellation instant is exact. Outside: trees > 5/6 nodes; cancellation from another goroutine at arbitrary instruction boundaries.", "DESIGN §5 C10")

check("C16", "model_checking", "S", "stateless model checking of the real instrumented code: controlled cooperative scheduler + DFS over choice sequences with preemption bounding (sync/go/chan rewritten by a build overlay); linearizability by brute force; free-running -race pass as stated complement",
      "Every interleaving with <= 2 (thorough 3) preemptions of every RequestCache program (2-3 threads x 1-2 ops on colliding keys) and of the real override/relax ComputePatches on small universes (all channel delivery orders, callback points) is executed on the real code; each execution is checked for fetch-once, linearizability, deadlock, sortedness/dedup and schedule-independence of the patch list.",
      "Trusted: scheduling points at sync/channel/spawn operations, after release operations and at harness callbacks suffice; unsynchronised accesses are only seen by the separate free-running -race pass (not model checking; counted as race_runs). Resolve-client calls other than Versions are not scheduling points because the resolver's call order depends on Go map iteration. Outside: > 3 preemptions, > 4 threads, concurrent SetMap.", "DESIGN §5 C16, appendix A")

check("C03", "exploration", "E", "bounded exhaustive enumeration of package lists x serialisation layouts per format, generators that never parse provide the ground truth",
      "For each of the 14 format variants every ordered tuple of 0..2 (thorough 0..4) records from a corner-case pool is rendered in every combination of the layout dimensions (line endings, trailing newline, blank lines, comments, extra fields, field/section order, continuation lines, not-installed markers on every position) and the real extractor's output is compared with what the generator wrote.",
      "Trusted: the write-only generators and the documented extractor quirks they encode (each cited). Outside: > 4 records, layouts outside the dimensions, CRLF for dpkg/apk databases.", "DESIGN §5 C03")

ALL = ["C%02d" % i for i in range(1, 21)]
for p in ALL:
    if p not in CHECKS:
        NOT_APPLICABLE[p] = "check not built yet in this round (planned: see DESIGN.md §5); not a claim that the technique cannot apply"
