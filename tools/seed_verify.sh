#!/bin/bash
# tools/seed_verify.sh <ID> <X> <seed-dir> <demo-target-dir-in-repo> [pkg-test-pattern ...]
# Confirms an independently produced breaking change: patch applies to /repo HEAD, builds, the demo
# fails with it and passes without it, the repository's own tests of the touched packages keep their
# baseline status; then runs the check against it. Copies the artefacts to /verif/seeded/<ID>-<X>/.
ID="$1"; X="$2"; SD="$3"; TGT="$4"; shift 4; PKGS="$*"
export GOFLAGS=-mod=mod GOPROXY=off
WT=/var/tmp/seedv-$ID-$X
rm -rf "$WT"; git -C /repo worktree prune; git -C /repo worktree add -q "$WT" HEAD || exit 3
OUT=/verif/seeded/$ID-$X; mkdir -p "$OUT"
cp "$SD/patch.diff" "$OUT/patch.diff"; cp "$SD"/demo*.go "$OUT/" 2>/dev/null; cp "$SD/README.md" "$OUT/AUTHOR_README.md" 2>/dev/null
demo=$(ls "$SD"/demo*.go | head -1); dn="seedv_$(echo $ID$X | tr 'A-Z' 'a-z')_test.go"
cp "$demo" "$WT/$TGT/$dn"
run=$(grep -o 'func Test[A-Za-z0-9_]*' "$demo" | sed 's/func //' | paste -sd'|')
base=$( (cd "$WT" && go test $SEED_RACE -vet=off -count=1 -run "^($run)\$" "./$TGT/" 2>&1 | tail -3) ); base_rc=$?
(cd "$WT" && go test $SEED_RACE -vet=off -count=1 -run "^($run)\$" "./$TGT/" >/dev/null 2>&1); base_rc=$?
git -C "$WT" apply "$SD/patch.diff" || { echo "PATCH DOES NOT APPLY"; exit 3; }
(cd "$WT" && go build ./... ) || { echo "DOES NOT BUILD"; exit 3; }
(cd "$WT" && go test $SEED_RACE -vet=off -count=1 -run "^($run)\$" "./$TGT/" >/dev/null 2>&1); mut_rc=$?
rm -f "$WT/$TGT/$dn"
tests="not run"
if [ -n "$PKGS" ]; then tests=$(/verif/tools/baseline.sh "$WT" $PKGS | head -4 | tr '\n' ' '); fi
chk=$(VERIF_REPO="$WT" /verif/check "$ID" quick 2>/dev/null); rc=$?
verdict="MISSED"; [ $rc -eq 1 ] && verdict="CAUGHT"; [ $rc -gt 1 ] && verdict="CHECK-ERROR-rc$rc"
keys=$(echo "$chk" | grep '^VIOLATION' | sed 's/.*key=\([^ ]*\).*/\1/' | sort -u | head -5 | paste -sd',')
echo "SEED $ID-$X: demo without change rc=$base_rc (want 0), with change rc=$mut_rc (want !=0); own tests: $tests; check: $verdict [$keys]"
cat > "$OUT/meta.json" <<J
{"property": "$ID", "seed": "$X", "demo_target_dir": "$TGT", "demo_passes_without_change": $([ $base_rc -eq 0 ] && echo true || echo false), "demo_fails_with_change": $([ $mut_rc -ne 0 ] && echo true || echo false), "repo_tests_with_change": "$tests", "check_quick_verdict": "$verdict", "violation_keys": "$keys", "verified_with": "tools/seed_verify.sh $ID $X $SD $TGT $PKGS"}
J
git -C /repo worktree remove --force "$WT"; rm -rf "$WT.out" /verif/bin/*seedv_${ID}_${X}_*
