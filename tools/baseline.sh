#!/bin/bash
# Runs the repository's own test suite (guard OFF) in $1 (default /repo) and compares with BASELINE.json's stable_pass.
# usage: tools/baseline.sh [repo-dir] [package-pattern ...]   exit 0 iff no stable-pass test of the packages run is missing.
REPO="${1:-/repo}"; shift || true
PKGS="${*:-./...}"
export GOFLAGS=-mod=mod GOPROXY=off
OUT=$(mktemp /var/tmp/baseline.XXXXXX.json)
(cd "$REPO" && go test -json -vet=off -count=1 -timeout 25m $PKGS) > "$OUT" 2>/dev/null
python3 - "$OUT" <<'PY'
import json,sys
passed=set(); pk=set(); failed=set()
for l in open(sys.argv[1]):
    try: e=json.loads(l)
    except Exception: continue
    if e.get('Package'): pk.add(e['Package'])
    if e.get('Test'):
        k=e['Package']+'::'+e['Test']
        if e.get('Action')=='pass': passed.add(k)
        if e.get('Action')=='fail': failed.add(k)
b=json.load(open('/root/.vp/BASELINE.json'))
sp=[t for t in b['stable_pass'] if t.split('::')[0] in pk]
missing=[t for t in sp if t not in passed]
print(f"packages run: {len(pk)}  stable_pass in scope: {len(sp)}  passed now: {len([t for t in sp if t in passed])}  missing: {len(missing)}")
for t in missing[:40]: print("  MISSING", t, "(failed)" if t in failed else "(not run)")
sys.exit(1 if missing else 0)
PY
rc=$?
rm -f "$OUT"
exit $rc
