#!/bin/bash
# tools/seed_batch.sh <round> <ID> ... — verifies /tmp/seed<round>-<ID>/SEED/{A,B,...} with seed_verify.sh,
# detecting the demo's package directory from its header comment. Stores under seeded/<ID>-<round><X>/.
R="$1"; shift
for ID in "$@"; do
  for d in /tmp/seed$R-$ID/SEED/[A-Z]; do
    [ -f "$d/demo_test.go" ] || { echo "SEED $ID-$R$(basename $d): no demo_test.go"; continue; }
    X=$(basename $d)
    tgt=$(python3 - "$d/demo_test.go" <<'PY'
import re,sys,os
lines=open(sys.argv[1]).read().splitlines()[:40]
hdr="\n".join(l for l in lines if l.startswith("//"))
cands=re.findall(r'([A-Za-z0-9_.-]+(?:/[A-Za-z0-9_.-]+)+)/?', hdr)
for c in cands:
    c=c.strip('/')
    c=re.sub(r'/[^/]*_test\.go$','',c)
    if os.path.isdir(os.path.join('/repo',c)) and not c.startswith('tmp'):
        print(c); break
else:
    for c in re.findall(r'\b(semantic|purl|plugin|detector|converter|packageindex)\b/?', hdr):
        if os.path.isdir('/repo/'+c): print(c); break
    else:
        print('.')
PY
)
    race=""; grep -q -- "-race" "$d/demo_test.go" && head -30 "$d/demo_test.go" | grep -qi "race.*\(needed\|required\)\|requires.*-race\|needs -race" && race="(mentions -race)"
    /verif/tools/seed_verify.sh "$ID" "$R$X" "$d" "$tgt" "./$tgt/" 2>&1 | tail -1 | sed "s/demo without change/dw/; s/own tests.*check:/tgt=$(echo $tgt | tr '/' ':') $race chk:/" | cut -c1-260
  done
done
