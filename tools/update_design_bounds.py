#!/usr/bin/env python3
"""Refreshes DESIGN.md §10.6 (as-built alphabet and bound per check) from the evidence files' rule texts."""
import json, glob, os
here=os.path.dirname(os.path.abspath(__file__))
p=os.path.join(here,'..','DESIGN.md')
s=open(p).read()
a='<!-- BOUNDS-BEGIN -->'; b='<!-- BOUNDS-END -->'
rows=[]
for f in sorted(glob.glob(os.path.join(here,'..','evidence','*.json'))):
    e=json.load(open(f)); c=e['coverage']
    n=c.get('evaluations'); extra=''
    if e['level']=='model_checking':
        extra=f"; states {c.get('states')}, transitions {c.get('transitions')}, complete executions {c.get('traces_validated_against_impl')}"
    rows.append(f"**{e['property_id']}** ({e['level']}, quick tier: {n} cases{extra}, exhaustive={c.get('exhaustive')}, {e['wall_s']:.0f} s) — {c.get('rule','').strip()}\n")
block=a+"\n\n"+"\n".join(rows)+"\n"+b
if a in s:
    s=s[:s.index(a)]+block+s[s.index(b)+len(b):]
else:
    marker="### 10.3 Genuine defects found"
    i=s.index(marker)
    s=s[:i]+"### 10.6 As-built alphabet and bound per check\n\nGenerated from the `coverage.rule` text each check writes into its evidence file (quick tier of the last committed run; `tools/update_design_bounds.py` refreshes it). The thorough tier widens the same dimensions as stated in each rule.\n\n"+block+"\n\n"+s[i:]
open(p,'w').write(s)
print(len(rows),'checks')
