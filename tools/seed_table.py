#!/usr/bin/env python3
"""Prints the markdown table of independently seeded changes (DESIGN §10.5) from seeded/*/meta.json."""
import json, glob, os, re
rows=[]
for d in sorted(glob.glob(os.path.join(os.path.dirname(os.path.abspath(__file__)),'..','seeded','*'))):
    try: m=json.load(open(os.path.join(d,'meta.json')))
    except Exception: continue
    readme=''
    p=os.path.join(d,'AUTHOR_README.md')
    if os.path.exists(p): readme=open(p).read()
    desc=''
    for l in readme.splitlines():
        l=l.strip()
        if l and not l.startswith('#') and len(l)>30:
            desc=re.sub(r'[|`*]','',l)[:170]; break
    if m.get('history','').startswith(('MISSED','The first run')):
        first='missed, then caught after strengthening'
    elif m.get('check_quick_verdict')=='CAUGHT':
        first='caught'
    else:
        first='MISSED (not yet addressed)'
    rows.append(f"| {os.path.basename(d)} | {desc} | {first} | {m.get('violation_keys','')[:90]} |")
n=len(rows); missed=sum("missed, then" in r for r in rows); open_=sum("MISSED (not" in r for r in rows)
print(f"Totals: {n} seeds; {n-missed-open_} caught by the quick tier as it stood, {missed} missed and caught after strengthening, {open_} missed and not yet addressed.\n")
print("| seed | change (author's words) | quick tier | reported keys |\n|---|---|---|---|")
print("\n".join(rows))
