#!/usr/bin/env python3
"""Prints the markdown table of independently seeded changes (DESIGN §10.5) from seeded/*/meta.json."""
import json, glob, os, re
rows=[]
for d in sorted(glob.glob(os.path.join(os.path.dirname(__file__),'..','seeded','*'))):
    try: m=json.load(open(os.path.join(d,'meta.json')))
    except Exception: continue
    readme=''
    p=os.path.join(d,'AUTHOR_README.md')
    if os.path.exists(p): readme=open(p).read()
    # first non-heading, non-empty line of the author's README as the one-line description
    desc=''
    for l in readme.splitlines():
        l=l.strip()
        if l and not l.startswith('#') and len(l)>30:
            desc=re.sub(r'[|`*]','',l)[:170]; break
    first='missed, then caught after strengthening' if m.get('history','').startswith('MISSED') else 'caught'
    rows.append(f"| {os.path.basename(d)} | {desc} | {first} | {m.get('violation_keys','')[:90]} |")
print("| seed | change (author's words) | quick tier | reported keys |\n|---|---|---|---|")
print("\n".join(rows))
