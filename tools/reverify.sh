#!/bin/bash
# tools/reverify.sh <ID> <X> <demo-target-dir> [pkgs...] — re-runs seed_verify for a seed already stored under seeded/<ID>-<X>/
ID="$1"; X="$2"; TGT="$3"; shift 3
D=/var/tmp/sd-$ID-$X; rm -rf $D; mkdir -p $D
cp /verif/seeded/$ID-$X/patch.diff /verif/seeded/$ID-$X/demo*.go $D/; cp /verif/seeded/$ID-$X/AUTHOR_README.md $D/README.md 2>/dev/null
hist=$(python3 -c "import json;print(json.load(open('/verif/seeded/$ID-$X/meta.json')).get('history',''))" 2>/dev/null)
/verif/tools/seed_verify.sh "$ID" "$X" "$D" "$TGT" "$@" | tail -1 | sed 's/demo without change/dw/; s/own tests.*check:/chk:/' | cut -c1-250
[ -n "$hist" ] && python3 - "$ID-$X" "$hist" <<'PY'
import json,sys
p=f'/verif/seeded/{sys.argv[1]}/meta.json'; m=json.load(open(p)); m['history']=sys.argv[2]; json.dump(m,open(p,'w'),indent=1)
PY
rm -rf $D
