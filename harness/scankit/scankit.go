// Package scankit holds harness plugins shared by the scan-level checks: a silent
// logger, recording filesystem extractors, and a recording stats collector.
package scankit

import (
	"context"
	"io"
	"io/fs"
	"path"
	"sync"
	"time"

	"github.com/google/osv-scalibr/detector"
	"github.com/google/osv-scalibr/extractor"
	"github.com/google/osv-scalibr/extractor/filesystem"
	"github.com/google/osv-scalibr/extractor/standalone"
	scalibrfs "github.com/google/osv-scalibr/fs"
	"github.com/google/osv-scalibr/inventory"
	"github.com/google/osv-scalibr/log"
	"github.com/google/osv-scalibr/packageindex"
	"github.com/google/osv-scalibr/plugin"
	"github.com/google/osv-scalibr/purl"
	"github.com/google/osv-scalibr/stats"
)

type quiet struct{}

func (quiet) Errorf(string, ...any) {}
func (quiet) Error(...any)          {}
func (quiet) Warnf(string, ...any)  {}
func (quiet) Warn(...any)           {}
func (quiet) Infof(string, ...any)  {}
func (quiet) Info(...any)           {}
func (quiet) Debugf(string, ...any) {}
func (quiet) Debug(...any)          {}

// Quiet silences the library's logger.
func Quiet() { log.SetLogger(quiet{}) }

// Event is one recorded call.
type Event struct {
	Kind string // "required", "extract", "inode", "after-extract"
	Ex   string
	Path string
	Size int64
	Root string // ScanInput.Root of an "extract" event
}

// Rec collects events from extractors and the collector of one scan.
type Rec struct {
	mu     sync.Mutex
	Events []Event
}

// Add appends an event.
func (r *Rec) Add(e Event) { r.mu.Lock(); r.Events = append(r.Events, e); r.mu.Unlock() }

// Of returns the events of one kind.
func (r *Rec) Of(kind string) []Event {
	var out []Event
	for _, e := range r.Events {
		if e.Kind == kind {
			out = append(out, e)
		}
	}
	return out
}

// Ex is a recording filesystem extractor.
type Ex struct {
	N   string
	Rec *Rec
	// Preset, if set, is what the default output puts into Package.Extractor before returning
	// (a package object that arrives already attributed, e.g. taken from a cache).
	Preset extractor.Extractor
	// OnlyFinding makes the default output carry a finding and NO package.
	OnlyFinding bool
	// EmitFinding makes the default output carry one finding (advisory reference = N, Extra = path)
	// next to the package.
	EmitFinding bool
	// Req decides FileRequired. It may call api.Stat().
	Req func(api filesystem.FileAPI) bool
	// Out produces the inventory for a file; nil means one package named "<N>|<path>".
	Out func(e *Ex, in *filesystem.ScanInput, data []byte, rerr error) (inventory.Inventory, error)
	// Hook runs inside Extract before reading (used to cancel contexts etc.).
	Hook func(in *filesystem.ScanInput)
	// NoRead skips reading the file.
	NoRead bool
}

// Name implements plugin.Plugin.
func (e *Ex) Name() string { return e.N }

// Version implements plugin.Plugin.
func (e *Ex) Version() int { return 1 }

// Requirements implements plugin.Plugin.
func (e *Ex) Requirements() *plugin.Capabilities { return &plugin.Capabilities{} }

// FileRequired implements filesystem.Extractor.
func (e *Ex) FileRequired(api filesystem.FileAPI) bool {
	ok := e.Req(api)
	if e.Rec != nil {
		e.Rec.Add(Event{Kind: "required", Ex: e.N, Path: api.Path()})
	}
	return ok
}

// Extract implements filesystem.Extractor.
func (e *Ex) Extract(ctx context.Context, in *filesystem.ScanInput) (inventory.Inventory, error) {
	var sz int64 = -1
	if in.Info != nil {
		sz = in.Info.Size()
	}
	if e.Rec != nil {
		e.Rec.Add(Event{Kind: "extract", Ex: e.N, Path: in.Path, Size: sz, Root: in.Root})
	}
	if e.Hook != nil {
		e.Hook(in)
	}
	var data []byte
	var rerr error
	if !e.NoRead && in.Reader != nil && (in.Info == nil || !in.Info.IsDir()) {
		data, rerr = io.ReadAll(in.Reader)
	}
	if e.Out != nil {
		return e.Out(e, in, data, rerr)
	}
	if rerr != nil {
		return inventory.Inventory{}, rerr
	}
	inv := inventory.Inventory{Packages: []*extractor.Package{{Name: e.N + "|" + in.Path, Version: "1", Locations: []string{in.Path}, Extractor: e.Preset}}}
	if e.OnlyFinding {
		inv.Packages = nil
	}
	if e.EmitFinding || e.OnlyFinding {
		inv.Findings = []*detector.Finding{{Adv: &detector.Advisory{ID: &detector.AdvisoryID{Publisher: "ex", Reference: e.N}, Title: "t-" + e.N}, Extra: in.Path}}
	}
	return inv, nil
}

// ToPURL implements extractor.Extractor.
func (e *Ex) ToPURL(p *extractor.Package) *purl.PackageURL {
	return &purl.PackageURL{Type: purl.TypeGeneric, Name: p.Name, Version: p.Version}
}

// Ecosystem implements extractor.Extractor.
func (e *Ex) Ecosystem(*extractor.Package) string { return "generic" }

// ReqBase requires files whose base name is in set.
func ReqBase(set ...string) func(filesystem.FileAPI) bool {
	return func(api filesystem.FileAPI) bool {
		b := path.Base(api.Path())
		for _, s := range set {
			if s == b {
				return true
			}
		}
		return false
	}
}

// ReqAlways requires everything.
func ReqAlways(filesystem.FileAPI) bool { return true }

// ReqNever requires nothing.
func ReqNever(filesystem.FileAPI) bool { return false }

// ReqExec calls Stat() and requires files with an executable bit.
func ReqExec(api filesystem.FileAPI) bool {
	fi, err := api.Stat()
	return err == nil && fi.Mode()&0o111 != 0 && fi.Mode()&fs.ModeDir == 0
}

// Collector records inode visits and extractor runs.
type Collector struct {
	stats.NoopCollector
	Rec *Rec
	// OnInode is called on every AfterInodeVisited (for cancellation points).
	OnInode func(path string, n int)
	n       int
}

// AfterInodeVisited implements stats.Collector.
func (c *Collector) AfterInodeVisited(p string) {
	c.n++
	c.Rec.Add(Event{Kind: "inode", Path: p})
	if c.OnInode != nil {
		c.OnInode(p, c.n)
	}
}

// AfterExtractorRun implements stats.Collector.
func (c *Collector) AfterExtractorRun(name string, _ time.Duration, _ error) {
	c.Rec.Add(Event{Kind: "after-extract", Ex: name})
}

// Det is a scripted detector.
type Det struct {
	N        string
	Required []string
	// Fn is the scripted behaviour; it receives the index it was run with.
	Fn func(ctx context.Context, root *scalibrfs.ScanRoot, px *packageindex.PackageIndex) ([]*detector.Finding, error)
}

// Name implements plugin.Plugin.
func (d *Det) Name() string { return d.N }

// Version implements plugin.Plugin.
func (d *Det) Version() int { return 1 }

// Requirements implements plugin.Plugin.
func (d *Det) Requirements() *plugin.Capabilities { return &plugin.Capabilities{} }

// RequiredExtractors implements detector.Detector.
func (d *Det) RequiredExtractors() []string { return d.Required }

// Scan implements detector.Detector.
func (d *Det) Scan(ctx context.Context, root *scalibrfs.ScanRoot, px *packageindex.PackageIndex) ([]*detector.Finding, error) {
	return d.Fn(ctx, root, px)
}

// StEx is a scripted standalone extractor.
type StEx struct {
	N  string
	Fn func(ctx context.Context, in *standalone.ScanInput) (inventory.Inventory, error)
}

// Name implements plugin.Plugin.
func (e *StEx) Name() string { return e.N }

// Version implements plugin.Plugin.
func (e *StEx) Version() int { return 1 }

// Requirements implements plugin.Plugin.
func (e *StEx) Requirements() *plugin.Capabilities { return &plugin.Capabilities{} }

// Extract implements standalone.Extractor.
func (e *StEx) Extract(ctx context.Context, in *standalone.ScanInput) (inventory.Inventory, error) {
	return e.Fn(ctx, in)
}

// ToPURL implements extractor.Extractor.
func (e *StEx) ToPURL(p *extractor.Package) *purl.PackageURL {
	if pu, ok := p.Metadata.(*purl.PackageURL); ok {
		return pu
	}
	return &purl.PackageURL{Type: purl.TypeGeneric, Name: p.Name, Version: p.Version}
}

// Ecosystem implements extractor.Extractor.
func (e *StEx) Ecosystem(*extractor.Package) string { return "generic" }
