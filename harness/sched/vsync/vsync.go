// Package sync is the drop-in replacement that instrumented repository files import
// instead of the standard "sync" (only through the C16 build overlay).
package sync

import "github.com/google/osv-scalibr/verifsched"

// Mutex is the controlled mutex.
type Mutex = verifsched.Mutex

// RWMutex is the controlled read-write mutex.
type RWMutex = verifsched.RWMutex

// WaitGroup is the controlled wait group.
type WaitGroup = verifsched.WaitGroup
