// Package verifsched is a controlled cooperative scheduler for exhaustive
// exploration of goroutine interleavings (engine S of /verif).
//
// It is compiled INTO the repository's module by a build overlay (import path
// github.com/google/osv-scalibr/verifsched) so that instrumented repository files
// (sync -> vsync shim, go statements, channel operations) and the harness share it.
//
// Exactly one controlled thread runs at any time. A thread reports the operation it
// is about to perform (Point) and parks; the explorer computes the set of enabled
// actions, picks one according to the current choice sequence, applies the operation's
// effect and resumes that thread. Blocking operations are modelled as disabled actions,
// never as spinning. See DESIGN.md appendix A.
package verifsched

import (
	"fmt"
	"strings"
)

// OpKind enumerates the hooked operations.
type OpKind int

// Operation kinds.
const (
	OpStart OpKind = iota // thread created, not yet run
	OpYield               // plain scheduling point (harness callbacks, spawn)
	OpLock
	OpUnlock
	OpRLock
	OpRUnlock
	OpWgAdd
	OpWgDone
	OpWgWait
	OpSend
	OpRecv
	OpReady // rendezvous completed, thread just needs the CPU
)

var kindNames = []string{"start", "yield", "lock", "unlock", "rlock", "runlock", "wg.add", "wg.done", "wg.wait", "send", "recv", "ready"}

type op struct {
	kind  OpKind
	obj   any // *mutexState, *wgState, *chanState
	n     int
	val   any
	label string
}

type thread struct {
	id       int
	resume   chan struct{}
	pending  op
	finished bool
	recvVal  any
	name     string
}

type mutexState struct {
	locked  bool
	readers int
	id      int
}
type wgState struct {
	n  int
	id int
}
type chanState struct {
	id int
}

// Step records one scheduling decision.
type Step struct {
	Enabled        int  // number of enabled actions
	Chosen         int  // index chosen
	CurrentEnabled bool // the thread that ran last was among the enabled actions (switching away = preemption)
	CurActions     int  // how many of the enabled actions (listed first) involve that thread
	Desc           string
}

// Exec is one controlled execution.
type Exec struct {
	threads []*thread
	yield   chan *thread
	cur     *thread
	prefix  []int
	Steps   []Step
	nobj    int
	// Deadlock is set when no action is enabled while some thread has not finished.
	Deadlock bool
	// Diverged is set if a replayed prefix met a different number of enabled actions.
	Diverged string
	clock    int
	maxSteps int
	Aborted  string
}

var current *Exec

// Now returns a logical timestamp (the number of scheduling steps so far); used by
// harnesses to record call/return order.
func Now() int {
	if current == nil {
		return 0
	}
	current.clock++
	return current.clock
}

// Active reports whether code runs under the controlled scheduler.
func Active() bool { return current != nil }

type action struct {
	t    *thread // thread to resume (sender for a rendezvous)
	peer *thread // receiver of a rendezvous
}

func (e *Exec) enabled() []action {
	var as []action
	for _, t := range e.threads {
		if t.finished {
			continue
		}
		switch t.pending.kind {
		case OpLock:
			m := t.pending.obj.(*mutexState)
			if !m.locked && m.readers == 0 {
				as = append(as, action{t: t})
			}
		case OpRLock:
			if !t.pending.obj.(*mutexState).locked {
				as = append(as, action{t: t})
			}
		case OpWgWait:
			if t.pending.obj.(*wgState).n == 0 {
				as = append(as, action{t: t})
			}
		case OpSend:
			for _, r := range e.threads {
				if !r.finished && r.pending.kind == OpRecv && r.pending.obj == t.pending.obj {
					as = append(as, action{t: t, peer: r})
				}
			}
		case OpRecv:
			// enabled only as the peer of a sender
		default:
			as = append(as, action{t: t})
		}
	}
	// canonical order: actions of the current thread first, then ascending thread id
	if e.cur != nil {
		var first, rest []action
		for _, a := range as {
			if a.t == e.cur || a.peer == e.cur {
				first = append(first, a)
			} else {
				rest = append(rest, a)
			}
		}
		as = append(first, rest...)
	}
	return as
}

func (e *Exec) apply(a action) {
	t := a.t
	switch t.pending.kind {
	case OpLock:
		t.pending.obj.(*mutexState).locked = true
	case OpUnlock:
		m := t.pending.obj.(*mutexState)
		if !m.locked {
			e.Aborted = "unlock of unlocked mutex"
		}
		m.locked = false
	case OpRLock:
		t.pending.obj.(*mutexState).readers++
	case OpRUnlock:
		t.pending.obj.(*mutexState).readers--
	case OpWgAdd:
		w := t.pending.obj.(*wgState)
		w.n += t.pending.n
		if w.n < 0 {
			e.Aborted = "negative WaitGroup counter"
		}
	case OpWgDone:
		w := t.pending.obj.(*wgState)
		w.n--
		if w.n < 0 {
			e.Aborted = "negative WaitGroup counter"
		}
	case OpSend:
		a.peer.recvVal = t.pending.val
		a.peer.pending = op{kind: OpReady}
	}
}

func (a action) desc() string {
	d := fmt.Sprintf("t%d:%s", a.t.id, kindNames[a.t.pending.kind])
	if a.t.pending.label != "" {
		d += "(" + a.t.pending.label + ")"
	}
	if a.peer != nil {
		d += fmt.Sprintf("->t%d", a.peer.id)
	}
	return d
}

// Run executes body as thread 0 under the scheduler, replaying prefix and then always
// taking choice 0 (keep running the current thread if it is enabled, else the lowest id).
func Run(prefix []int, maxSteps int, body func()) *Exec {
	e := &Exec{yield: make(chan *thread), prefix: prefix, maxSteps: maxSteps}
	current = e
	defer func() { current = nil }()
	e.spawn(body, "main")
	for {
		as := e.enabled()
		if len(as) == 0 {
			for _, t := range e.threads {
				if !t.finished {
					e.Deadlock = true
				}
			}
			return e
		}
		i := len(e.Steps)
		choice := 0
		if i < len(prefix) {
			choice = prefix[i]
			if choice >= len(as) {
				e.Diverged = fmt.Sprintf("step %d: prefix wants choice %d of %d", i, choice, len(as))
				return e
			}
		}
		curActions := 0
		if e.cur != nil && !e.cur.finished {
			for _, a := range as {
				if a.t == e.cur || a.peer == e.cur {
					curActions++
				}
			}
		}
		a := as[choice]
		e.Steps = append(e.Steps, Step{Enabled: len(as), Chosen: choice, CurrentEnabled: curActions > 0, CurActions: curActions, Desc: a.desc()})
		if len(e.Steps) > e.maxSteps {
			e.Aborted = "step horizon exceeded"
			return e
		}
		e.apply(a)
		if e.Aborted != "" {
			return e
		}
		e.cur = a.t
		a.t.pending = op{kind: OpReady}
		a.t.resume <- struct{}{}
		<-e.yield // the resumed thread reached its next point or finished
	}
}

func (e *Exec) spawn(fn func(), name string) *thread {
	t := &thread{id: len(e.threads), resume: make(chan struct{}), pending: op{kind: OpStart}, name: name}
	e.threads = append(e.threads, t)
	go func() {
		<-t.resume
		setCur(t)
		fn()
		t.finished = true
		e.yield <- t
	}()
	return t
}

// the running thread (only one runs at a time, so a plain variable is enough)
var running *thread

func setCur(t *thread) { running = t }

func point(o op) {
	e := current
	t := running
	t.pending = o
	e.yield <- t
	<-t.resume
	running = t
}

// Go starts fn as a new controlled thread (replacement for the go statement).
func Go(fn func()) {
	if current == nil {
		go fn()
		return
	}
	current.spawn(fn, "")
	point(op{kind: OpYield, label: "spawn"})
}

// Point is a plain scheduling point (harness callbacks).
func Point(label string) {
	if current == nil {
		return
	}
	point(op{kind: OpYield, label: label})
}

// Schedule renders the choices of an execution.
func (e *Exec) Schedule() string {
	var s []string
	for _, st := range e.Steps {
		s = append(s, st.Desc)
	}
	return strings.Join(s, " ")
}

// Choices returns the choice sequence of an execution.
func (e *Exec) Choices() []int {
	c := make([]int, len(e.Steps))
	for i, s := range e.Steps {
		c[i] = s.Chosen
	}
	return c
}

// ---- shimmed primitives -------------------------------------------------

// Mutex replaces sync.Mutex.
type Mutex struct{ st *mutexState }

func (m *Mutex) state() *mutexState {
	if m.st == nil {
		m.st = &mutexState{}
	}
	return m.st
}

// Lock implements sync.Locker.
func (m *Mutex) Lock() {
	if current == nil {
		panic("verifsched: instrumented Mutex used outside a controlled execution")
	}
	point(op{kind: OpLock, obj: m.state()})
}

// Unlock implements sync.Locker.
func (m *Mutex) Unlock() {
	point(op{kind: OpUnlock, obj: m.state()})
	// a second point right after a release lets another thread run between the release and
	// the releasing thread's next statement (catches publish-after-release orderings that a
	// point-before-operation scheduler would execute atomically)
	point(op{kind: OpYield, label: "after-unlock"})
}

// RWMutex replaces sync.RWMutex.
type RWMutex struct{ Mutex }

// RLock locks for reading.
func (m *RWMutex) RLock() { point(op{kind: OpRLock, obj: m.state()}) }

// RUnlock unlocks a read lock.
func (m *RWMutex) RUnlock() { point(op{kind: OpRUnlock, obj: m.state()}) }

// WaitGroup replaces sync.WaitGroup.
type WaitGroup struct{ st *wgState }

func (w *WaitGroup) state() *wgState {
	if w.st == nil {
		w.st = &wgState{}
	}
	return w.st
}

// Add adds delta to the counter.
func (w *WaitGroup) Add(n int) { point(op{kind: OpWgAdd, obj: w.state(), n: n}) }

// Done decrements the counter.
func (w *WaitGroup) Done() {
	point(op{kind: OpWgDone, obj: w.state()})
	point(op{kind: OpYield, label: "after-done"})
}

// Wait blocks until the counter is zero.
func (w *WaitGroup) Wait() { point(op{kind: OpWgWait, obj: w.state()}) }

// Chan replaces an unbuffered channel of T.
type Chan[T any] struct{ st *chanState }

// NewChan replaces make(chan T).
func NewChan[T any]() Chan[T] { return Chan[T]{st: &chanState{}} }

// Send replaces c <- v.
func (c Chan[T]) Send(v T) { point(op{kind: OpSend, obj: c.st, val: v}) }

// Recv replaces <-c.
func (c Chan[T]) Recv() T {
	point(op{kind: OpRecv, obj: c.st})
	v, _ := running.recvVal.(T)
	running.recvVal = nil
	return v
}
