// Package ev is the plumbing every check shares: tier/seed/budget handling,
// violation recording with cause keys, known-finding matching, replay files and
// the evidence file. It decides nothing itself.
package ev

import (
	"encoding/json"
	"fmt"
	"os"
	"path/filepath"
	"runtime"
	"sort"
	"strconv"
	"strings"
	"sync"
	"sync/atomic"
	"time"
)

// VerifDir is /verif unless VERIF_DIR overrides it (used by vp run snapshots).
func VerifDir() string {
	if d := os.Getenv("VERIF_DIR"); d != "" {
		return d
	}
	return "/verif"
}

// OutDir is where evidence/ and replays/ are written: VERIF_OUT if set (runs
// against a scratch copy of the repository), else VerifDir().
func OutDir() string {
	if d := os.Getenv("VERIF_OUT"); d != "" {
		return d
	}
	return VerifDir()
}

// RepoDir is the repository the check was built against (/repo unless VERIF_REPO redirected it).
func RepoDir() string {
	if d := os.Getenv("VERIF_REPO_DIR"); d != "" {
		return d
	}
	return "/repo"
}

// Finding is one entry of known_findings.json.
type Finding struct {
	Property string `json:"property"`
	Key      string `json:"key"`
	Status   string `json:"status"` // "open" | "fixed"
	Commit   string `json:"commit,omitempty"`
	What     string `json:"what"`
}

// Run is the state of one check execution.
type Run struct {
	ID      string
	Tier    string
	Seed    int
	Level   string
	start   time.Time
	budget  time.Duration
	aborted atomic.Bool

	mu        sync.Mutex
	known     map[string]*Finding // open findings of this property by key
	knownHits map[string]int
	knownEx   map[string]string
	viol      map[string]int    // cause key -> count
	violFile  map[string]string // cause key -> first replay path
	violOrder []string
	samples   []any
	caps      []string
	assume    []string
	extra     map[string]any

	Evals      atomic.Int64
	Nontrivial atomic.Int64
	States     atomic.Int64
	Trans      atomic.Int64
	Traces     atomic.Int64
	distinct   sync.Map
	distinctN  atomic.Int64
}

// Start reads VERIF_TIER / VERIF_SEED / VERIF_BUDGET_S and the known findings.
func Start(id, level string, quickBudget, thoroughBudget time.Duration) *Run {
	r := &Run{ID: id, Level: level, start: time.Now(), known: map[string]*Finding{}, knownHits: map[string]int{}, knownEx: map[string]string{},
		viol: map[string]int{}, violFile: map[string]string{}, extra: map[string]any{}}
	r.Tier = os.Getenv("VERIF_TIER")
	if r.Tier != "thorough" {
		r.Tier = "quick"
	}
	if s, err := strconv.Atoi(os.Getenv("VERIF_SEED")); err == nil {
		r.Seed = s
	}
	r.budget = quickBudget
	if r.Tier == "thorough" {
		r.budget = thoroughBudget
	}
	if s, err := strconv.Atoi(os.Getenv("VERIF_BUDGET_S")); err == nil && s > 0 {
		r.budget = time.Duration(s) * time.Second
	}
	b, err := os.ReadFile(filepath.Join(VerifDir(), "known_findings.json"))
	if err == nil {
		var fs []Finding
		if err := json.Unmarshal(b, &fs); err != nil {
			fmt.Fprintf(os.Stderr, "known_findings.json: %v\n", err)
			os.Exit(3)
		}
		for i := range fs {
			if fs[i].Property == id && fs[i].Status == "open" {
				r.known[fs[i].Key] = &fs[i]
			}
		}
	}
	return r
}

// Thorough reports whether the thorough tier was requested.
func (r *Run) Thorough() bool { return r.Tier == "thorough" }

// Pick returns q for quick and t for thorough.
func Pick[T any](r *Run, q, t T) T {
	if r.Thorough() {
		return t
	}
	return q
}

// Expired reports whether the internal budget is used up. Checks stop scheduling
// new work, record a cap and finish with exhaustive=false.
func (r *Run) Expired() bool { return r.aborted.Load() || time.Since(r.start) > r.budget }

// Abort makes Expired true from now on: used after a violation that leaves a runaway goroutine
// behind (non-termination), so that no further work is scheduled next to it.
func (r *Run) Abort() { r.aborted.Store(true) }

// Elapsed since Start.
func (r *Run) Elapsed() time.Duration { return time.Since(r.start) }

// Cap records that a bound or deadline cut the exploration short.
func (r *Run) Cap(format string, a ...any) {
	s := fmt.Sprintf(format, a...)
	r.mu.Lock()
	defer r.mu.Unlock()
	for _, c := range r.caps {
		if c == s {
			return
		}
	}
	r.caps = append(r.caps, s)
}

// Assume records an assumption for the evidence file.
func (r *Run) Assume(s string) { r.mu.Lock(); r.assume = append(r.assume, s); r.mu.Unlock() }

// Set adds an extra coverage key.
func (r *Run) Set(k string, v any) { r.mu.Lock(); r.extra[k] = v; r.mu.Unlock() }

// Sample keeps up to 6 written-out cases.
func (r *Run) Sample(v any) {
	r.mu.Lock()
	if len(r.samples) < 6 {
		r.samples = append(r.samples, v)
	}
	r.mu.Unlock()
}

// SampleN reports how many samples were stored.
func (r *Run) SampleN() int { r.mu.Lock(); defer r.mu.Unlock(); return len(r.samples) }

// Distinct counts key as one distinct non-trivial case (deduplicated).
func (r *Run) Distinct(key string) {
	if _, loaded := r.distinct.LoadOrStore(key, struct{}{}); !loaded {
		r.distinctN.Add(1)
	}
}

// Violation records a failing case under a cause key. If the key is an open
// known finding it is reported as KNOWN-FINDING, otherwise a replay file is
// written (first occurrence per key) and the run will exit 1.
func (r *Run) Violation(key, what string, replay any) {
	r.mu.Lock()
	defer r.mu.Unlock()
	if _, ok := r.known[key]; ok {
		r.knownHits[key]++
		if r.knownEx[key] == "" {
			r.knownEx[key] = what
		}
		return
	}
	r.viol[key]++
	if r.viol[key] > 1 {
		return
	}
	r.violOrder = append(r.violOrder, key)
	dir := filepath.Join(OutDir(), "replays", r.ID)
	_ = os.MkdirAll(dir, 0o755)
	name := sanitize(key)
	if len(name) > 80 {
		name = name[:80]
	}
	p := filepath.Join(dir, name+".json")
	b, _ := json.MarshalIndent(map[string]any{"property": r.ID, "key": key, "what": what, "replay": replay}, "", " ")
	_ = os.WriteFile(p, b, 0o644)
	r.violFile[key] = p
	fmt.Fprintf(os.Stderr, "violation[%s] %s: %s\n", r.ID, key, what)
}

// ViolationCount is the number of distinct unknown cause keys so far.
func (r *Run) ViolationCount() int { r.mu.Lock(); defer r.mu.Unlock(); return len(r.viol) }

func sanitize(s string) string {
	var b strings.Builder
	for _, c := range s {
		switch {
		case c >= 'a' && c <= 'z', c >= 'A' && c <= 'Z', c >= '0' && c <= '9', c == '-', c == '_', c == '.':
			b.WriteRune(c)
		default:
			b.WriteByte('_')
		}
	}
	return b.String()
}

// Finish writes the evidence file, prints KNOWN-FINDING / VIOLATION lines and exits.
func (r *Run) Finish(rule string, exhaustive bool) {
	r.mu.Lock()
	cov := map[string]any{}
	for k, v := range r.extra {
		cov[k] = v
	}
	cov["rule"] = rule
	cov["evaluations"] = r.Evals.Load()
	dn := r.distinctN.Load()
	if n := r.Nontrivial.Load(); n > dn {
		dn = n
	}
	cov["distinct_nontrivial"] = dn
	if len(r.caps) > 0 {
		exhaustive = false
	}
	cov["exhaustive"] = exhaustive
	cov["caps_hit"] = append([]string{}, r.caps...)
	if len(r.samples) == 0 {
		r.samples = append(r.samples, "no case was executed")
	}
	cov["samples"] = r.samples
	if r.Level == "model_checking" {
		cov["states"] = r.States.Load()
		cov["transitions"] = r.Trans.Load()
		cov["traces_validated_against_impl"] = r.Traces.Load()
	}
	kf := []map[string]any{}
	keys := make([]string, 0, len(r.knownHits))
	for k := range r.knownHits {
		keys = append(keys, k)
	}
	sort.Strings(keys)
	for _, k := range keys {
		kf = append(kf, map[string]any{"key": k, "count": r.knownHits[k], "example": r.knownEx[k]})
	}
	cov["known_findings"] = kf
	vk := []map[string]any{}
	for _, k := range r.violOrder {
		vk = append(vk, map[string]any{"key": k, "count": r.viol[k], "replay": r.violFile[k]})
	}
	cov["violation_keys"] = vk
	e := map[string]any{
		"property_id": r.ID, "tier": r.Tier, "seed": r.Seed, "level": r.Level,
		"coverage": cov, "assumptions": append([]string{}, r.assume...),
		"wall_s": float64(time.Since(r.start).Milliseconds()) / 1000, "violations": len(r.viol),
	}
	r.mu.Unlock()
	b, _ := json.MarshalIndent(e, "", " ")
	dir := filepath.Join(OutDir(), "evidence")
	_ = os.MkdirAll(dir, 0o755)
	if err := os.WriteFile(filepath.Join(dir, r.ID+".json"), append(b, '\n'), 0o644); err != nil {
		fmt.Fprintln(os.Stderr, "evidence:", err)
		os.Exit(3)
	}
	for _, k := range keys {
		fmt.Printf("KNOWN-FINDING: property=%s %s (%d cases, e.g. %s)\n", r.ID, k, r.knownHits[k], r.knownEx[k])
	}
	// an open finding that no longer reproduces is worth a note but is not an alarm
	for k := range r.known {
		if r.knownHits[k] == 0 {
			fmt.Printf("note: open finding %s/%s did not reproduce in this run\n", r.ID, k)
		}
	}
	fmt.Printf("%s %s: evaluations=%d distinct_nontrivial=%d states=%d transitions=%d exhaustive=%v caps=%v wall=%.1fs\n",
		r.ID, r.Tier, r.Evals.Load(), dn, r.States.Load(), r.Trans.Load(), exhaustive, r.caps, time.Since(r.start).Seconds())
	if len(r.viol) > 0 {
		for _, k := range r.violOrder {
			fmt.Printf("VIOLATION property=%s replay=%s key=%s count=%d\n", r.ID, r.violFile[k], k, r.viol[k])
		}
		os.Exit(1)
	}
	os.Exit(0)
}

// Workers is the number of parallel workers (16 cores by default).
func Workers() int {
	if s, err := strconv.Atoi(os.Getenv("VERIF_WORKERS")); err == nil && s > 0 {
		return s
	}
	n := runtime.NumCPU()
	if n > 16 {
		n = 16
	}
	return n
}

// ParallelFor runs fn(i) for i in [0,n) on Workers() goroutines; it stops
// handing out new items once the run's budget is expired and returns the number
// of items completed in prefix order (items < returned value are all done).
func (r *Run) ParallelFor(n int, fn func(i int)) (done int) {
	var next atomic.Int64
	var wg sync.WaitGroup
	var cut atomic.Bool
	w := Workers()
	for k := 0; k < w; k++ {
		wg.Add(1)
		go func() {
			defer wg.Done()
			for {
				if r.Expired() {
					cut.Store(true)
					return
				}
				i := int(next.Add(1) - 1)
				if i >= n {
					return
				}
				fn(i)
			}
		}()
	}
	wg.Wait()
	d := int(next.Load())
	if d > n {
		d = n
	}
	if cut.Load() && d < n {
		r.Cap("deadline: %d of %d work items scheduled", d, n)
	}
	return d
}

// Recover runs fn and returns the panic value and stack, if any.
func Recover(fn func()) (p any, stack string) {
	defer func() {
		if x := recover(); x != nil {
			p = x
			buf := make([]byte, 8192)
			stack = string(buf[:runtime.Stack(buf, false)])
		}
	}()
	fn()
	return nil, ""
}

// PanicSite extracts a stable "file.go:func" cause from a stack (first frame
// inside the repository that is not the runtime or the harness).
func PanicSite(stack string) string {
	lines := strings.Split(stack, "\n")
	for i := 0; i+1 < len(lines); i++ {
		l := lines[i]
		if strings.HasPrefix(l, "github.com/google/osv-scalibr/") && !strings.Contains(l, "verif") {
			fn := strings.TrimPrefix(l, "github.com/google/osv-scalibr/")
			if j := strings.LastIndex(fn, "("); j > 0 {
				fn = fn[:j]
			}
			return fn
		}
	}
	return "unknown-site"
}
