// Package harvest is shared by C14 and C15. It runs every built-in filesystem
// extractor directly on every fixture of its own testdata/ directory (on a
// scratch copy, never on the repository itself), produces the bounded closure of
// the harvested packages under name/version substitution, and collects the set of
// package-URL types the built-in extractors can emit. It decides nothing.
package harvest

import (
	"context"
	"fmt"
	"go/ast"
	"go/parser"
	"go/token"
	"io"
	"io/fs"
	"os"
	"path/filepath"
	"reflect"
	"sort"
	"strconv"
	"strings"
	"sync"
	"time"

	"github.com/google/osv-scalibr/extractor"
	"github.com/google/osv-scalibr/extractor/filesystem"
	el "github.com/google/osv-scalibr/extractor/filesystem/list"
	scalibrfs "github.com/google/osv-scalibr/fs"
	"github.com/google/osv-scalibr/inventory"
	"github.com/google/osv-scalibr/plugin"
	"github.com/google/osv-scalibr/purl"
	packageurl "github.com/package-url/packageurl-go"
)

const modPrefix = "github.com/google/osv-scalibr/"

// SkipExtractors are built-in extractors that are not run: they need the network.
var SkipExtractors = map[string]string{"java/pomxmlnet": "needs network access (deps.dev / Maven Central)"}

// Ex is one instantiated built-in extractor and the repository directory of its package.
type Ex struct {
	E      filesystem.Extractor
	Name   string
	PkgDir string // e.g. extractor/filesystem/os/dpkg
}

// Extractors instantiates el.All (minus SkipExtractors), sorted by name.
func Extractors() []Ex {
	var out []Ex
	for _, inits := range el.All {
		for _, init := range inits {
			e := init()
			if _, skip := SkipExtractors[e.Name()]; skip {
				continue
			}
			t := reflect.TypeOf(e)
			for t.Kind() == reflect.Pointer {
				t = t.Elem()
			}
			out = append(out, Ex{E: e, Name: e.Name(), PkgDir: strings.TrimPrefix(t.PkgPath(), modPrefix)})
		}
	}
	sort.Slice(out, func(i, j int) bool { return out[i].Name < out[j].Name })
	return out
}

// Item is one package to be judged.
type Item struct {
	Ex       Ex
	Fixture  string // path relative to the repository root
	Required bool   // FileRequired(fixture) was true
	Index    int    // index in the extractor's result for this fixture
	Pkg      *extractor.Package
	Env      string // os-release environment label ("" = testdata directory as is)
	Synth    string // "" for a package exactly as extracted, else the substitution label
	Base     *Item  // for a synthetic item: the harvested item it was derived from
}

// ID is a stable identifier of the item (used for replay and distinct keys).
func (it *Item) ID() string {
	return fmt.Sprintf("%s|%s|os-release=%s|%d|%s", it.Ex.Name, it.Fixture, it.Env, it.Index, it.Synth)
}

// Stats describes one harvest.
type Stats struct {
	Extractors      int            `json:"extractors"`
	ExtractorsNoFix []string       `json:"extractors_without_fixture_packages"`
	Files           int            `json:"fixture_files"`
	EmptyFiles      int            `json:"fixture_files_0_bytes"`
	Extracts        int            `json:"extract_calls"`
	ExtractErrors   int            `json:"extract_errors"`
	ExtractPanics   []string       `json:"extract_panics_skipped"`
	ExtractTimeouts []string       `json:"extract_timeouts_skipped"`
	Packages        int            `json:"packages_harvested"`
	PerExtractor    map[string]int `json:"packages_per_extractor"`
}

// OSEnv is one os-release environment under which the fixtures of the OS package
// extractors (extractor/filesystem/os/**) are extracted: the file is written to
// etc/os-release of the scratch copy of the testdata directory (the scan root).
type OSEnv struct {
	Label   string
	Content string // "" with Label "" = no os-release file
}

// OSEnvs is the enumerated set of os-release environments.
func OSEnvs() []OSEnv {
	return []OSEnv{
		{"", ""},
		{"typical", "NAME=\"Debian GNU/Linux\"\nID=debian\nVERSION_ID=\"12.4\"\nVERSION=\"12 (bookworm)\"\nVERSION_CODENAME=bookworm\nBUILD_ID=18244.85.29\n"},
		{"dotless-version", "ID=alpine\nVERSION_ID=3\n"},
		{"needs-escaping", "NAME=\"N a/me\"\nID=\"my os+1\"\nVERSION_ID=\"1 2/3@x#y?%é+z&w=v:u\"\nVERSION=\"v 1/2+3\"\nVERSION_CODENAME=\"code name/α+β&γ=δ\"\nBUILD_ID=\"b 1/2+3\"\n"},
		{"id-only", "ID=ubuntu\n"},
		{"codename-only", "VERSION_CODENAME=jammy\n"},
		{"version-only", "VERSION_ID=\"22.04\"\n"},
		{"empty-file", "\n"},
	}
}

// OSDirPrefix: package directories whose extractors read os-release.
const OSDirPrefix = "extractor/filesystem/os/"

type task struct {
	ex       Ex
	env      string
	root     string // scratch testdata dir
	rel      string // path inside the testdata dir
	repoPath string
}

type fileAPI struct {
	fsys fs.FS
	p    string
}

func (f fileAPI) Path() string               { return f.p }
func (f fileAPI) Stat() (fs.FileInfo, error) { return fs.Stat(f.fsys, f.p) }

// CopyTree copies src to dst (regular files, directories, symlinks).
func CopyTree(src, dst string) error {
	return filepath.WalkDir(src, func(p string, d fs.DirEntry, err error) error {
		if err != nil {
			return err
		}
		rel, _ := filepath.Rel(src, p)
		to := filepath.Join(dst, rel)
		switch {
		case d.IsDir():
			return os.MkdirAll(to, 0o755)
		case d.Type()&fs.ModeSymlink != 0:
			t, err := os.Readlink(p)
			if err != nil {
				return err
			}
			return os.Symlink(t, to)
		case d.Type().IsRegular():
			in, err := os.Open(p)
			if err != nil {
				return err
			}
			defer in.Close()
			out, err := os.OpenFile(to, os.O_CREATE|os.O_WRONLY|os.O_TRUNC, 0o644)
			if err != nil {
				return err
			}
			if _, err := io.Copy(out, in); err != nil {
				out.Close()
				return err
			}
			return out.Close()
		}
		return nil
	})
}

// osReleaseMarker is the os-release file the harness adds; it is not a fixture.
const osReleaseMarker = "etc/os-release"

// PrepareTestdata copies the testdata directory src to dst and installs the
// os-release environment (never over a file the fixture tree already has).
func PrepareTestdata(src, dst string, env OSEnv) error {
	if err := os.MkdirAll(dst, 0o755); err != nil {
		return err
	}
	if err := CopyTree(src, dst); err != nil {
		return err
	}
	if env.Label == "" {
		return nil
	}
	for _, p := range []string{"etc/os-release", "usr/lib/os-release"} {
		if _, err := os.Lstat(filepath.Join(dst, p)); err == nil {
			return nil
		}
	}
	if err := os.MkdirAll(filepath.Join(dst, "etc"), 0o755); err != nil {
		return err
	}
	return os.WriteFile(filepath.Join(dst, osReleaseMarker), []byte(env.Content), 0o644)
}

// ExtractOne runs ex on one file of the testdata directory root (Path relative,
// complete ScanInput). Panics are contained; a call that does not return within
// two minutes is abandoned.
func ExtractOne(ex filesystem.Extractor, root, rel string) (pkgs []*extractor.Package, required bool, err error, panicked any, timedOut bool) {
	fsys := scalibrfs.DirFS(root)
	func() {
		defer func() { _ = recover() }()
		required = ex.FileRequired(fileAPI{fsys, rel})
	}()
	f, oerr := fsys.Open(rel)
	if oerr != nil {
		return nil, required, oerr, nil, false
	}
	defer f.Close()
	info, serr := f.Stat()
	if serr != nil {
		return nil, required, serr, nil, false
	}
	ctx, cancel := context.WithTimeout(context.Background(), 2*time.Minute)
	defer cancel()
	type res struct {
		inv inventory.Inventory
		err error
		p   any
	}
	ch := make(chan res, 1)
	go func() {
		var r res
		defer func() {
			if x := recover(); x != nil {
				r.p = x
			}
			ch <- r
		}()
		r.inv, r.err = ex.Extract(ctx, &filesystem.ScanInput{FS: fsys, Path: rel, Root: root, Info: info, Reader: f})
	}()
	select {
	case r := <-ch:
		if r.p != nil {
			return nil, required, nil, r.p, false
		}
		return r.inv.Packages, required, r.err, nil, false
	case <-time.After(150 * time.Second):
		return nil, required, nil, nil, true
	}
}

// Run copies every extractor/filesystem/**/testdata directory of repoDir below
// scratch and feeds each regular file to the extractor(s) of that package
// directory. parallel(n, fn) must call fn(i) for every i in [0,n) (any order, any
// concurrency) and return how many were scheduled. The result order is
// deterministic (extractor name, fixture path, package index).
func Run(repoDir, scratch string, parallel func(n int, fn func(i int)) int) ([]*Item, *Stats, error) {
	exs := Extractors()
	st := &Stats{Extractors: len(exs), PerExtractor: map[string]int{}}
	byDir := map[string][]Ex{}
	for _, e := range exs {
		byDir[e.PkgDir] = append(byDir[e.PkgDir], e)
	}
	var tasks []task
	dirs := make([]string, 0, len(byDir))
	for d := range byDir {
		dirs = append(dirs, d)
	}
	sort.Strings(dirs)
	for _, d := range dirs {
		for ei, env := range OSEnvs() {
			if ei > 0 && !strings.HasPrefix(d+"/", OSDirPrefix) {
				break
			}
			src := filepath.Join(repoDir, d, "testdata")
			if fi, err := os.Stat(src); err != nil || !fi.IsDir() {
				continue
			}
			dst := filepath.Join(scratch, "fixtures", "env-"+env.Label, d, "testdata")
			if err := PrepareTestdata(src, dst, env); err != nil {
				return nil, nil, err
			}
			var rels []string
			err := filepath.WalkDir(dst, func(p string, de fs.DirEntry, err error) error {
				if err != nil {
					return err
				}
				if de.Type().IsRegular() {
					rel, _ := filepath.Rel(dst, p)
					if rel = filepath.ToSlash(rel); rel != osReleaseMarker {
						rels = append(rels, rel)
					}
				}
				return nil
			})
			if err != nil {
				return nil, nil, err
			}
			sort.Strings(rels)
			for _, rel := range rels {
				if ei == 0 {
					st.Files++
					if fi, err := os.Stat(filepath.Join(dst, rel)); err == nil && fi.Size() == 0 {
						st.EmptyFiles++
					}
				}
				for _, e := range byDir[d] {
					tasks = append(tasks, task{ex: e, env: env.Label, root: dst, rel: rel, repoPath: d + "/testdata/" + rel})
				}
			}
		}
	}
	sort.SliceStable(tasks, func(i, j int) bool {
		if tasks[i].ex.Name != tasks[j].ex.Name {
			return tasks[i].ex.Name < tasks[j].ex.Name
		}
		if tasks[i].repoPath != tasks[j].repoPath {
			return tasks[i].repoPath < tasks[j].repoPath
		}
		return false // stable: environments stay in OSEnvs() order
	})
	results := make([][]*Item, len(tasks))
	var mu sync.Mutex
	done := parallel(len(tasks), func(i int) {
		t := tasks[i]
		pkgs, req, err, pv, to := ExtractOne(t.ex.E, t.root, t.rel)
		mu.Lock()
		st.Extracts++
		switch {
		case pv != nil:
			st.ExtractPanics = append(st.ExtractPanics, t.ex.Name+"|"+t.repoPath)
		case to:
			st.ExtractTimeouts = append(st.ExtractTimeouts, t.ex.Name+"|"+t.repoPath)
		case err != nil:
			st.ExtractErrors++
		}
		mu.Unlock()
		for k, p := range pkgs {
			if p == nil {
				continue
			}
			p.Extractor = t.ex.E // what the core library does after Extract
			results[i] = append(results[i], &Item{Ex: t.ex, Fixture: t.repoPath, Required: req, Env: t.env, Index: k, Pkg: p})
		}
	})
	_ = done
	sort.Strings(st.ExtractPanics)
	sort.Strings(st.ExtractTimeouts)
	var items []*Item
	for _, r := range results {
		for _, it := range r {
			items = append(items, it)
			st.PerExtractor[it.Ex.Name]++
		}
	}
	st.Packages = len(items)
	for _, e := range exs {
		if st.PerExtractor[e.Name] == 0 {
			st.ExtractorsNoFix = append(st.ExtractorsNoFix, e.Name)
		}
	}
	return items, st, nil
}

// Subst is one name/version substitution of the closure.
type Subst struct {
	Label   string
	Name    string // "" = keep
	Version string // "" = keep
	// Locations != nil: the package was found at these paths instead.
	Locations []string
	// PurlEdit != "": edit every *purl.PackageURL held in an exported top-level field of the
	// metadata (packages of the SBOM extractors keep the PURL they read there): "no-version",
	// "no-namespace", "no-qualifiers", "no-subpath", "name-only", "with-subpath", "with-namespace",
	// "with-qualifiers", "with-everything", "with-reserved-characters".
	PurlEdit string
}

// PurlFieldSubstitutions: an SBOM may give any subset of the optional PURL components; the SBOM
// extractors store what they parsed. Variants the purl library itself rejects (purl-spec rules of
// the type) are not produced.
func PurlFieldSubstitutions() []Subst {
	var out []Subst
	for _, e := range []string{"no-version", "no-namespace", "no-qualifiers", "no-subpath", "name-only",
		"with-subpath", "with-namespace", "with-qualifiers", "with-everything", "with-reserved-characters"} {
		out = append(out, Subst{Label: "purlfield:" + e, PurlEdit: e})
	}
	return out
}

// QualifierFields returns the exported top-level string fields of the package's metadata that
// feed a PURL qualifier: blanking the field alone removes qualifier keys from what ToPURL
// returns and changes nothing else of the PURL (optional data such as Maven classifier/type,
// architecture, distro, epoch, source name).
func QualifierFields(it *Item) []string {
	v := reflect.ValueOf(it.Pkg.Metadata)
	if v.Kind() != reflect.Pointer || v.IsNil() || v.Elem().Kind() != reflect.Struct {
		return nil
	}
	base := safePURL(it.Ex.E, it.Pkg)
	if base == nil || len(base.Qualifiers) == 0 {
		return nil
	}
	var out []string
	t := v.Elem().Type()
	for i := 0; i < t.NumField(); i++ {
		f := v.Elem().Field(i)
		if f.Kind() != reflect.String || !t.Field(i).IsExported() || f.String() == "" {
			continue
		}
		x := ApplyBlank(it, []string{t.Field(i).Name})
		if x == nil {
			continue
		}
		u := safePURL(x.Ex.E, x.Pkg)
		if u == nil || u.Type != base.Type || u.Namespace != base.Namespace || u.Name != base.Name || u.Version != base.Version || u.Subpath != base.Subpath {
			continue
		}
		if len(u.Qualifiers) < len(base.Qualifiers) {
			out = append(out, t.Field(i).Name)
		}
	}
	return out
}

func safePURL(e filesystem.Extractor, p *extractor.Package) (u *purl.PackageURL) {
	defer func() {
		if recover() != nil {
			u = nil
		}
	}()
	return e.ToPURL(p)
}

// BlankLabel is the substitution label of ApplyBlank.
func BlankLabel(fields []string) string { return "blank:" + strings.Join(fields, "+") }

// ApplyBlank returns a copy of base whose metadata has the named exported string fields emptied.
func ApplyBlank(base *Item, fields []string) *Item {
	v := reflect.ValueOf(base.Pkg.Metadata)
	if v.Kind() != reflect.Pointer || v.IsNil() || v.Elem().Kind() != reflect.Struct {
		return nil
	}
	cp := reflect.New(v.Elem().Type())
	cp.Elem().Set(v.Elem())
	for _, n := range fields {
		f := cp.Elem().FieldByName(n)
		if !f.IsValid() || f.Kind() != reflect.String || !f.CanSet() {
			return nil
		}
		f.SetString("")
	}
	p := *base.Pkg
	p.Locations = append([]string(nil), base.Pkg.Locations...)
	p.Metadata = cp.Interface()
	return &Item{Ex: base.Ex, Fixture: base.Fixture, Env: base.Env, Required: base.Required, Index: base.Index, Pkg: &p, Synth: BlankLabel(fields), Base: base}
}

// BlankVariants: every subset of one and of two qualifier-feeding fields blanked.
func BlankVariants(it *Item) []*Item {
	fs := QualifierFields(it)
	var out []*Item
	for i := range fs {
		if x := ApplyBlank(it, fs[i:i+1]); x != nil {
			out = append(out, x)
		}
		for j := i + 1; j < len(fs); j++ {
			if x := ApplyBlank(it, []string{fs[i], fs[j]}); x != nil {
				out = append(out, x)
			}
		}
	}
	return out
}

var purlPtrType = reflect.TypeOf((*purl.PackageURL)(nil))

// editPurlFields edits (copies of) the PURLs held by the metadata copy m; reports whether any changed.
func editPurlFields(m any, edit string) bool {
	v := reflect.ValueOf(m)
	if v.Kind() != reflect.Pointer || v.IsNil() || v.Elem().Kind() != reflect.Struct {
		return false
	}
	changed := false
	e := v.Elem()
	for i := 0; i < e.NumField(); i++ {
		f := e.Field(i)
		if f.Type() != purlPtrType || !f.CanSet() || f.IsNil() {
			continue
		}
		u := *(f.Interface().(*purl.PackageURL))
		u.Qualifiers = append(purl.Qualifiers(nil), u.Qualifiers...)
		before := u.String()
		switch edit {
		case "no-version":
			u.Version = ""
		case "no-namespace":
			u.Namespace = ""
		case "no-qualifiers":
			u.Qualifiers = nil
		case "no-subpath":
			u.Subpath = ""
		case "name-only":
			u.Version, u.Namespace, u.Qualifiers, u.Subpath = "", "", nil, ""
		case "with-subpath":
			if u.Subpath == "" {
				u.Subpath = "sub/dir"
			}
		case "with-namespace":
			if u.Namespace == "" {
				u.Namespace = "ns1/ns2"
			}
		case "with-qualifiers":
			if len(u.Qualifiers) == 0 {
				u.Qualifiers = purl.Qualifiers{{Key: "arch", Value: "x86 64"}, {Key: "distro", Value: "d-1"}}
			}
		case "with-reserved-characters":
			// every reserved character class in every component the exporters carry
			const reserved = "a+b c%d&e=f?g#h@i:jé世"
			u.Namespace = "g++/" + reserved
			u.Subpath = "c++/" + reserved
			u.Qualifiers = purl.Qualifiers{{Key: "classifier", Value: reserved}, {Key: "download_url", Value: "https://x.y/a+b?c=d&e=f#g"},
				{Key: "sourcerpm", Value: "perl-Text-Tabs+Wrap-2013.0523-460.el9.src.rpm"}, {Key: "sourceversion", Value: "12.2.0-14+deb12u1"}}
			if u.Version == "" {
				u.Version = "1.0+b2"
			}
		case "with-everything":
			if u.Subpath == "" {
				u.Subpath = "sub/dir"
			}
			if u.Namespace == "" {
				u.Namespace = "ns1/ns2"
			}
			if len(u.Qualifiers) == 0 {
				u.Qualifiers = purl.Qualifiers{{Key: "arch", Value: "x86 64"}, {Key: "distro", Value: "d-1"}}
			}
			if u.Version == "" {
				u.Version = "1.0"
			}
		}
		if u.String() == before {
			continue
		}
		// the SBOM extractors store what the parser returned, i.e. a canonical PURL
		ref := packageurl.PackageURL{Type: u.Type, Namespace: u.Namespace, Name: u.Name, Version: u.Version, Qualifiers: packageurl.Qualifiers(u.Qualifiers), Subpath: u.Subpath}
		can, err := packageurl.FromString(ref.ToString())
		if err != nil {
			continue // not a PURL an SBOM extractor could have stored
		}
		u = purl.PackageURL{Type: can.Type, Namespace: can.Namespace, Name: can.Name, Version: can.Version, Qualifiers: purl.Qualifiers(can.Qualifiers), Subpath: can.Subpath}
		f.Set(reflect.ValueOf(&u))
		changed = true
	}
	return changed
}

var charClasses = []struct{ l, s string }{
	{"space", "a b"}, {"at", "a@b"}, {"slash", "a/b"}, {"qmark", "a?b"}, {"hash", "a#b"},
	{"percent", "a%b"}, {"plus", "a+b"}, {"nonascii", "aé世b"},
}

// PairSubstitutions: every (name class, version class) pair.
func PairSubstitutions() []Subst {
	var out []Subst
	for _, n := range charClasses {
		for _, v := range charClasses {
			out = append(out, Subst{Label: "name:" + n.l + "+version:" + v.l, Name: n.s, Version: "1" + v.s[1:]})
		}
	}
	return out
}

// Substitutions: every character class that needs percent-encoding in a package
// URL, each alone in the name, each alone in the version, and all together.
func Substitutions() []Subst {
	chars := charClasses
	var out []Subst
	for _, c := range chars {
		out = append(out, Subst{Label: "name:" + c.l, Name: c.s})
	}
	for _, c := range chars {
		out = append(out, Subst{Label: "version:" + c.l, Version: "1" + c.s[1:]})
	}
	all := " @/?#%+é"
	out = append(out, Subst{Label: "both:all", Name: "N" + all + "n", Version: "1" + all + "2"})
	out = append(out, Subst{Label: "name:percent-escape-lookalike", Name: "a%2Fb%40c"})
	// names made only of characters that name normalisations collapse or trim, names that start /
	// end with them, upper-case-only names, single characters
	for _, c := range normalisationNames {
		out = append(out, Subst{Label: "name:" + c.l, Name: c.s})
	}
	// format / quoting / control characters and a very long string, in name and in version
	for _, c := range formatClasses {
		out = append(out, Subst{Label: "name:" + c.l, Name: c.s})
		out = append(out, Subst{Label: "version:" + c.l, Version: "1" + c.s})
	}
	// the same alphabet (plus the percent-encoding classes) in the locations: one location, two
	// locations (both positions), three locations
	locs := append([]struct{ l, s string }{{"percent-encoded", "dir/My%20Project/pkg.lock"}, {"space-plus", "dir/a b+c/pkg.lock"}}, formatClasses...)
	for i, c := range locs {
		n := locs[(i+1)%len(locs)]
		out = append(out, Subst{Label: "location:" + c.l, Locations: []string{"dir/" + c.s}})
		out = append(out, Subst{Label: "locations2:" + c.l + "," + n.l, Locations: []string{"d1/" + c.s, "d2/" + n.s}})
	}
	out = append(out, Subst{Label: "locations3", Locations: []string{"d1/" + locs[0].s, "d2/" + locs[2].s, "d3/" + locs[3].s}})
	return out
}

// normalisationNames: inputs on which a name normalisation (PyPI [-_.]+ -> -, lower-casing for
// npm / golang / deb / apk ..., group:artifact splitting) can lose the whole name or a part of it.
var normalisationNames = []struct{ l, s string }{
	{"sep-underscore", "_"}, {"sep-underscores", "__"}, {"sep-dash", "-"}, {"sep-dot", "."}, {"sep-dots", ".."}, {"sep-mixed", "-.-"}, {"sep-run", "_.-_"},
	{"lead-underscore", "_a"}, {"trail-underscore", "a_"}, {"lead-trail-dash", "-a-"}, {"lead-trail-dot", ".a."}, {"inner-run", "a_.-b"},
	{"upper-only", "ABC"}, {"single-lower", "a"}, {"single-upper", "A"}, {"single-digit", "7"}, {"colon-only", ":"}, {"colon-lead", ":a"}, {"colon-trail", "a:"},
}

// formatClasses: characters with a meaning in format strings, templates, quoting and escaping,
// control characters, non-ASCII text and a very long string.
var formatClasses = []struct{ l, s string }{
	{"fmt-verb-s", "a%sb"}, {"fmt-verb-d", "a%db%v"}, {"fmt-bang", "100%!x"}, {"fmt-percent-end", "a%"},
	{"braces", "a{}b{0}${HOME}"}, {"backslash", `C:\Users\x\pkg`}, {"quotes", `a"b'c` + "`d"},
	{"newline", "a\nb"}, {"tab", "a\tb"}, {"nonascii-text", "данные/世界"}, {"very-long", strings.Repeat("long-segment/", 400) + "end"},
}

// Apply returns a copy of base with the substitution applied (nil if a PurlEdit substitution
// does not apply to the package). The extractor saw
// the name and version in the input file, so every exported top-level string
// field of the metadata that holds exactly the old name (version) is replaced
// too; everything else of the metadata is kept.
func Apply(base *Item, s Subst) *Item {
	p := *base.Pkg
	oldN, oldV := p.Name, p.Version
	if s.Name != "" {
		p.Name = s.Name
	}
	if s.Version != "" {
		p.Version = s.Version
	}
	p.Locations = append([]string(nil), base.Pkg.Locations...)
	if s.Locations != nil {
		p.Locations = append([]string(nil), s.Locations...)
	}
	p.Metadata = substMeta(base.Pkg.Metadata, oldN, p.Name, oldV, p.Version)
	if s.PurlEdit != "" && !editPurlFields(p.Metadata, s.PurlEdit) {
		return nil // not applicable to this package
	}
	return &Item{Ex: base.Ex, Fixture: base.Fixture, Env: base.Env, Required: base.Required, Index: base.Index, Pkg: &p, Synth: s.Label, Base: base}
}

func substMeta(m any, oldN, newN, oldV, newV string) any {
	if m == nil {
		return nil
	}
	v := reflect.ValueOf(m)
	if v.Kind() != reflect.Pointer || v.IsNil() || v.Elem().Kind() != reflect.Struct {
		return m
	}
	cp := reflect.New(v.Elem().Type())
	cp.Elem().Set(v.Elem())
	e := cp.Elem()
	for i := 0; i < e.NumField(); i++ {
		f := e.Field(i)
		if f.Kind() != reflect.String || !f.CanSet() {
			continue
		}
		switch s := f.String(); {
		case s == "":
		case s == oldN && oldN != newN:
			f.SetString(newN)
		case s == oldV && oldV != newV:
			f.SetString(newV)
		}
	}
	return cp.Interface()
}

// ShapeKey groups harvested packages of one extractor that are structurally
// alike for the purpose of substitution: metadata type, which metadata string
// fields are empty / equal to the name / equal to the version, number of
// locations (0,1,2+), and the PURL skeleton (type, has namespace, has version,
// qualifier keys, has subpath; "panic" / "nil" when there is none).
func ShapeKey(it *Item) string {
	var b strings.Builder
	b.WriteString(it.Ex.Name)
	b.WriteString("|")
	b.WriteString(fmt.Sprintf("%T", it.Pkg.Metadata))
	if v := reflect.ValueOf(it.Pkg.Metadata); v.Kind() == reflect.Pointer && !v.IsNil() && v.Elem().Kind() == reflect.Struct {
		e := v.Elem()
		for i := 0; i < e.NumField(); i++ {
			f := e.Field(i)
			switch {
			case f.Kind() == reflect.String:
				s := f.String()
				switch {
				case s == "":
					b.WriteString(",e")
				case s == it.Pkg.Name:
					b.WriteString(",N")
				case s == it.Pkg.Version:
					b.WriteString(",V")
				default:
					b.WriteString(",s")
				}
			case f.Kind() == reflect.Pointer || f.Kind() == reflect.Slice || f.Kind() == reflect.Map || f.Kind() == reflect.Interface:
				if f.IsNil() {
					b.WriteString(",nil")
				} else {
					b.WriteString(",set")
				}
			default:
				b.WriteString(",_")
			}
		}
	}
	n := len(it.Pkg.Locations)
	if n > 2 {
		n = 2
	}
	b.WriteString("|loc" + strconv.Itoa(n))
	if it.Pkg.Version == "" {
		b.WriteString("|nover")
	}
	var pu *purl.PackageURL
	var pv any
	func() {
		defer func() { pv = recover() }()
		pu = it.Ex.E.ToPURL(it.Pkg)
	}()
	switch {
	case pv != nil:
		b.WriteString("|purl:panic")
	case pu == nil:
		b.WriteString("|purl:nil")
	default:
		b.WriteString("|purl:" + pu.Type)
		if pu.Namespace != "" {
			b.WriteString(",ns" + strconv.Itoa(strings.Count(pu.Namespace, "/")+1))
		}
		if pu.Version != "" {
			b.WriteString(",v")
		}
		if pu.Name != it.Pkg.Name {
			b.WriteString(",name!=pkgname")
		}
		for _, q := range pu.Qualifiers {
			b.WriteString(",q:" + q.Key)
		}
		if pu.Subpath != "" {
			b.WriteString(",sub")
		}
	}
	return b.String()
}

// PoolExtractor is a harness extractor whose ToPURL returns the *purl.PackageURL
// stored in Metadata (nil when Metadata is not one). C15 uses it to drive the converters.
type PoolExtractor struct{}

// Name implements plugin.Plugin.
func (PoolExtractor) Name() string { return "verif/pool" }

// Version implements plugin.Plugin.
func (PoolExtractor) Version() int { return 1 }

// Requirements implements plugin.Plugin.
func (PoolExtractor) Requirements() *plugin.Capabilities { return &plugin.Capabilities{} }

// ToPURL returns the PURL stored in the metadata.
func (PoolExtractor) ToPURL(p *extractor.Package) *purl.PackageURL {
	if u, ok := p.Metadata.(*purl.PackageURL); ok && u != nil {
		c := *u
		c.Qualifiers = append(purl.Qualifiers(nil), u.Qualifiers...)
		return &c
	}
	return nil
}

// Ecosystem implements extractor.Extractor.
func (PoolExtractor) Ecosystem(*extractor.Package) string { return "" }

// PurlTypeConstants parses purl/purl.go of repoDir and returns constant name -> value for every Type* constant.
func PurlTypeConstants(repoDir string) (map[string]string, error) {
	fset := token.NewFileSet()
	f, err := parser.ParseFile(fset, filepath.Join(repoDir, "purl", "purl.go"), nil, 0)
	if err != nil {
		return nil, err
	}
	out := map[string]string{}
	for _, d := range f.Decls {
		gd, ok := d.(*ast.GenDecl)
		if !ok || gd.Tok != token.CONST {
			continue
		}
		for _, s := range gd.Specs {
			vs := s.(*ast.ValueSpec)
			for i, n := range vs.Names {
				if !strings.HasPrefix(n.Name, "Type") || n.Name == "Type" || i >= len(vs.Values) {
					continue
				}
				if bl, ok := vs.Values[i].(*ast.BasicLit); ok && bl.Kind == token.STRING {
					if v, err := strconv.Unquote(bl.Value); err == nil {
						out[n.Name] = v
					}
				}
			}
		}
	}
	return out, nil
}

// SyntacticTypes returns every purl type whose constant purl.TypeXxx is
// referenced by a non-test Go file below repoDir/extractor (filesystem and
// standalone extractors), with the files that reference it.
func SyntacticTypes(repoDir string) (map[string][]string, error) {
	consts, err := PurlTypeConstants(repoDir)
	if err != nil {
		return nil, err
	}
	out := map[string][]string{}
	root := filepath.Join(repoDir, "extractor")
	err = filepath.WalkDir(root, func(p string, d fs.DirEntry, err error) error {
		if err != nil {
			return err
		}
		if d.IsDir() {
			if d.Name() == "testdata" {
				return filepath.SkipDir
			}
			return nil
		}
		if !strings.HasSuffix(p, ".go") || strings.HasSuffix(p, "_test.go") {
			return nil
		}
		fset := token.NewFileSet()
		f, perr := parser.ParseFile(fset, p, nil, 0)
		if perr != nil {
			return nil // does not compile -> the build would have failed anyway
		}
		// local name of the purl import
		local := ""
		for _, im := range f.Imports {
			if im.Path.Value == strconv.Quote(modPrefix+"purl") {
				local = "purl"
				if im.Name != nil {
					local = im.Name.Name
				}
			}
		}
		if local == "" {
			return nil
		}
		rel, _ := filepath.Rel(repoDir, p)
		ast.Inspect(f, func(n ast.Node) bool {
			se, ok := n.(*ast.SelectorExpr)
			if !ok {
				return true
			}
			id, ok := se.X.(*ast.Ident)
			if !ok || id.Name != local {
				return true
			}
			if v, ok := consts[se.Sel.Name]; ok {
				if fl := out[v]; len(fl) == 0 || fl[len(fl)-1] != rel {
					out[v] = append(out[v], rel)
				}
			}
			return true
		})
		return nil
	})
	return out, err
}

// EmittedTypes is the sorted union of the syntactically referenced types and the
// types of the PURLs of the given harvested items.
func EmittedTypes(repoDir string, items []*Item) ([]string, error) {
	syn, err := SyntacticTypes(repoDir)
	if err != nil {
		return nil, err
	}
	set := map[string]bool{}
	for t := range syn {
		set[t] = true
	}
	for _, it := range items {
		func() {
			defer func() { _ = recover() }()
			if u := it.Ex.E.ToPURL(it.Pkg); u != nil && u.Type != "" {
				set[u.Type] = true
			}
		}()
	}
	out := make([]string, 0, len(set))
	for t := range set {
		out = append(out, t)
	}
	sort.Strings(out)
	return out, nil
}
