package universe

import (
	"fmt"
	"strings"
)

// Bounds of one tier. Everything the generators enumerate is the full product
// of the lists derived from these values (no sampling); Describe() renders the
// lists so that the rule text of a check is produced from the same parameters.
type Bounds struct {
	Thorough bool
	Ladder   []string // version alphabet, ascending
	MaxVers  int      // max number of published versions per package
	// Lite shrinks the secondary lists (used by C12, which multiplies every tuple by the option variants):
	// CfgSets = {major}, {patch}, {minor, first package:none}, {major, last package:none} (if >1 package); edge requirements = pins on the first 3 ladder
	// versions + one loose requirement; manifest requirement styles npm a, ^a / Maven a, ${p}=a, "[a,)".
	Lite bool
}

// LiteBoundsFor returns the reduced bounds C12 uses for a tier: <=2 (thorough <=3) published versions per package.
func LiteBoundsFor(thorough bool) Bounds {
	b := BoundsFor(thorough)
	b.Lite = true
	b.MaxVers = 2
	if thorough {
		// C12 multiplies every tuple by ~12 option variants and runs four analyses per tuple: the thorough tier uses
		// the plain 5-version ladder (pre-releases are C11's business) with up to 3 published versions.
		b.MaxVers = 3
		b.Ladder = Ladder5
	}
	return b
}

// Quick and Thorough bounds.
var (
	Ladder5 = []string{"1.0.0", "1.0.1", "1.1.0", "2.0.0", "3.0.0"}
	Ladder6 = []string{"1.0.0", "1.0.1", "1.1.0", "2.0.0-rc.1", "2.0.0", "3.0.0"}
)

// BoundsFor returns the bounds of a tier.
func BoundsFor(thorough bool) Bounds {
	if thorough {
		return Bounds{Thorough: true, Ladder: Ladder6, MaxVers: 4}
	}
	return Bounds{Ladder: Ladder5, MaxVers: 3}
}

// Subsets returns all non-empty subsets of l with at most k elements, ordered by
// size, then lexicographically by index (simplest first).
func Subsets(l []string, k int) [][]string {
	var out [][]string
	for size := 1; size <= k && size <= len(l); size++ {
		idx := make([]int, size)
		for i := range idx {
			idx[i] = i
		}
		for {
			s := make([]string, size)
			for i, j := range idx {
				s[i] = l[j]
			}
			out = append(out, s)
			i := size - 1
			for i >= 0 && idx[i] == len(l)-size+i {
				i--
			}
			if i < 0 {
				break
			}
			idx[i]++
			for j := i + 1; j < size; j++ {
				idx[j] = idx[j-1] + 1
			}
		}
	}
	return out
}

func plainVers(vs []string) []Ver {
	out := make([]Ver, len(vs))
	for i, v := range vs {
		out[i] = Ver{V: v}
	}
	return out
}

// reqStyle is a manifest requirement in some style.
type reqStyle struct {
	Req  string
	Prop string
}

// anchorsFor: the versions a manifest requirement is anchored on for a package
// publishing s: every version of s plus the lowest ladder version missing from s
// (a manifest that pins a version the registry does not have).
func (b Bounds) anchorsFor(s []string) []string {
	out := append([]string{}, s...)
	for _, v := range b.Ladder {
		found := false
		for _, x := range s {
			if x == v {
				found = true
			}
		}
		if !found {
			out = append(out, v)
			SortVersions(out)
			break
		}
	}
	return out
}

// manifestReqs: requirement styles anchored on the versions l (ascending).
//
//	npm:   a, ^a, ~a (a in l); ">=a <=b" (a,b consecutive in l); thorough: ">=a", "*"
//	Maven: a (soft), ${p}=a (property-interpolated soft), "[a,b]" (a,b consecutive in l), "[a,)"; thorough: "[a]"
func (b Bounds) manifestReqs(eco string, l []string) []reqStyle {
	var out []reqStyle
	if b.Lite {
		// Lite: npm a, ^a; Maven a, ${p}=a, "[a,)"
		for _, a := range l {
			out = append(out, reqStyle{Req: a})
		}
		for _, a := range l {
			if eco == NPM {
				out = append(out, reqStyle{Req: "^" + a})
			} else {
				out = append(out, reqStyle{Req: a, Prop: "lib.version"}, reqStyle{Req: "[" + a + ",)"})
			}
		}
		return out
	}
	if eco == NPM {
		for _, a := range l {
			out = append(out, reqStyle{Req: a})
		}
		for _, a := range l {
			out = append(out, reqStyle{Req: "^" + a})
		}
		for _, a := range l {
			out = append(out, reqStyle{Req: "~" + a})
		}
		for i := 0; i+1 < len(l); i++ {
			out = append(out, reqStyle{Req: ">=" + l[i] + " <=" + l[i+1]})
		}
		if b.Thorough {
			for _, a := range l {
				out = append(out, reqStyle{Req: ">=" + a})
			}
			out = append(out, reqStyle{Req: "*"})
		}
		return out
	}
	for _, a := range l {
		out = append(out, reqStyle{Req: a})
	}
	for _, a := range l {
		out = append(out, reqStyle{Req: a, Prop: "lib.version"})
	}
	for i := 0; i+1 < len(l); i++ {
		out = append(out, reqStyle{Req: "[" + l[i] + "," + l[i+1] + "]"})
	}
	for _, a := range l {
		out = append(out, reqStyle{Req: "[" + a + ",)"})
	}
	if b.Thorough {
		for _, a := range l {
			out = append(out, reqStyle{Req: "[" + a + "]"})
		}
	}
	return out
}

// edgeReqs: requirement of a registry package on a transitive package.
//
//	npm:   pin a (a in ladder), ^first, ~first; thorough: ^a, ~a for the 3 lowest ladder versions
//	Maven: soft a (a in ladder), "[first,)"; thorough: "[a,)" for the 3 lowest ladder versions
func (b Bounds) edgeReqs(eco string) []string {
	var out []string
	l := b.Ladder
	if b.Lite {
		out = append(out, l[:3]...)
		if eco == NPM {
			return append(out, "^"+l[0])
		}
		return append(out, "["+l[0]+",)")
	}
	out = append(out, l...)
	if eco == NPM {
		if b.Thorough {
			for _, a := range l[:3] {
				out = append(out, "^"+a)
			}
			for _, a := range l[:3] {
				out = append(out, "~"+a)
			}
		} else {
			out = append(out, "^"+l[0], "~"+l[0])
		}
		return out
	}
	if b.Thorough {
		for _, a := range l[:3] {
			out = append(out, "["+a+",)")
		}
	} else {
		out = append(out, "["+l[0]+",)")
	}
	return out
}

// VulnSets on one package: 1 or 2 records over the ladder ("nofix" = no fixed event).
//
//	singles quick:    [0,f) for f in ladder, [0,nofix)
//	singles thorough: also [i,f) and [i,nofix) for all ladder versions i<f
//	pairs quick:      {[0,f),[0,f')} (not in the Lite bounds) and {[0,f),[f,f')} with f' = next ladder version after f
//	                  (two open vulns with different fixes / a second vuln that starts where the first is fixed)
//	pairs thorough:   {[0,f),[0,f')} and {[0,f),[f,f')} for every f<f' and f' = nofix
func (b Bounds) VulnSets(pkg string) [][]Vuln {
	l := b.Ladder
	var out [][]Vuln
	single := func(in, fx string) Vuln { return Vuln{Pkg: pkg, Introduced: in, Fixed: fx} }
	one := func(a Vuln) { a.ID = "V1"; out = append(out, []Vuln{a}) }
	pair := func(a, c Vuln) { a.ID, c.ID = "V1", "V2"; out = append(out, []Vuln{a, c}) }
	for _, f := range l {
		one(single("0", f))
	}
	one(single("0", ""))
	if b.Thorough {
		for i, in := range l {
			for _, f := range l[i+1:] {
				one(single(in, f))
			}
			one(single(in, ""))
		}
	}
	for i, f := range l {
		if b.Thorough {
			for _, f2 := range l[i+1:] {
				pair(single("0", f), single("0", f2))
			}
		} else if i+1 < len(l) && !b.Lite {
			pair(single("0", f), single("0", l[i+1]))
		}
		if b.Thorough {
			pair(single("0", f), single("0", ""))
		}
	}
	for i, f := range l {
		if b.Thorough {
			for _, f2 := range l[i+1:] {
				pair(single("0", f), single(f, f2))
			}
		} else if i+1 < len(l) {
			pair(single("0", f), single(f, l[i+1]))
		}
		if b.Thorough {
			pair(single("0", f), single(f, ""))
		}
	}
	return out
}

var levelNames = []string{"major", "minor", "patch", "none"}

// CfgSets: upgrade configurations over the given packages (default level + at most one per-package override).
//
//	quick:    the 4 defaults; per package p: (major,p:none) (none,p:major); if there is only one package also (patch,p:minor) (minor,p:patch)
//	thorough: the 4 defaults; per package p: (major,p:l) for l != major, (none,p:l) for l != none, (patch,p:minor), (minor,p:patch)
func (b Bounds) CfgSets(pkgs []string) [][]string {
	var out [][]string
	if b.Lite {
		out = [][]string{{"major"}, {"patch"}, {"minor", pkgs[0] + ":none"}}
		if len(pkgs) > 1 {
			// `none` on the last listed package (the vulnerable transitive one in the chain shapes)
			out = append(out, []string{"major", pkgs[len(pkgs)-1] + ":none"})
		}
		return out
	}
	for _, d := range levelNames {
		out = append(out, []string{d})
	}
	for _, p := range pkgs {
		if b.Thorough {
			for _, d := range []string{"major", "none"} {
				for _, l := range levelNames {
					if l != d {
						out = append(out, []string{d, p + ":" + l})
					}
				}
			}
			out = append(out, []string{"patch", p + ":minor"}, []string{"minor", p + ":patch"})
			continue
		}
		out = append(out, []string{"major", p + ":none"}, []string{"none", p + ":major"})
		if len(pkgs) == 1 {
			out = append(out, []string{"patch", p + ":minor"}, []string{"minor", p + ":patch"})
		}
	}
	return out
}

func cat(a [][]Vuln, bs ...[][]Vuln) [][]Vuln {
	out := append([][]Vuln{}, a...)
	for _, b := range bs {
		out = append(out, b...)
	}
	return out
}

// GenFix enumerates the FixVulns tuples of an ecosystem, simplest first. The
// callback must not retain the *Case beyond the call unless it copies it (the
// slices inside are freshly allocated per case, so a shallow copy suffices).
//
// Shapes (every loop is a full product):
//
//	solo     manifest {d1: R}; d1 publishes S; vulns on d1
//	         S in Subsets(ladder, MaxVers) (Lite quick: first 4 ladder versions) x R in manifestReqs x VulnSets(d1) x CfgSets(d1)
//	chainT   manifest {d1: 1.0.0}; d1@1.0.0 -> t1@E; t1 publishes T; vulns on t1
//	         T in Subsets(ladder, MaxVers) (Lite quick: first 4 ladder versions) x E in edgeReqs x VulnSets(t1) x CfgSets(d1,t1)
//	chainD   manifest {d1: R}; d1 publishes D; t1 publishes {1.0.0,2.0.0}; d1's i-th version pins t1@1.0.0 if bit i
//	         of mask is set, else t1@2.0.0; vulns: {t1 [0,2.0.0)}, {t1 [0,nofix)}, {t1 [0,2.0.0), t1 [2.0.0,nofix)},
//	         and for every f in D: {t1 [0,2.0.0), d1 [0,f)}
//	         D in Subsets(L4, min(3,MaxVers)) x mask in 1..2^|D|-1 x R in manifestReqs x vulns x CfgSets(d1,t1)   (L4 = first 4 ladder
//	         versions in quick, the ladder in thorough)
//	diamondT manifest {d1: 1.0.0, d2: 1.0.0}; d1@1.0.0 -> t1@a, d2@1.0.0 -> t1@b; t1 publishes T; single-record vulns on t1
//	         T in Subsets(L4, 3) x a in T u {^t | [t,) for t in T} x b in T x single-record VulnSets(t1) x CfgSets(t1)
//	diamondD manifest {d1: R1, d2: R2}; d1, d2 publish {1.0.0,1.1.0,2.0.0}[:n1], [:n2] (n in 1..2 quick, 1..3 thorough), masks as in chainD;
//	         R in {pin 1.0.0, caret/range 1.0.0}; vulns {t1 [0,2.0.0)}, {t1 [0,nofix)}; CfgSets(d1,d2)
//	two      manifest {d1: 1.0.0, d2: 1.0.0}; d1@1.0.0 -> t1@1.0.0, d2@1.0.0 -> t2@1.0.0; t1, t2 publish T1, T2 in
//	         Subsets(first 3 (thorough 4) ladder versions, 2) containing... any; vulns {t1 [0,f1), t2 [0,f2)} f in ladder[1:3]; CfgSets(t1,t2)
//	sharedprop (Maven only) manifest {d1: ${p}, d2: ${p}} with p = a; d1 and d2 both publish S;
//	         vulns {d1 [0,f)} and {d1 [0,f), d2 [f,nofix)} for f in ladder
//	         S in Subsets(ladder, 2) x a in S x vulns x CfgSets(d1,d2)
//	chain2   manifest {d1: R}; d1@v -> t1@1.0.0 -> ... t1@1.0.0 -> t2@1.0.0, t1@1.0.1 -> t2@1.0.1; d1 publishes {1.0.0,1.0.1};
//	         d1@1.0.0 -> t1@1.0.0, d1@1.0.1 -> t1@1.0.1; vulns {t2 [0,1.0.1)}, {t1 [0,1.0.1)}, both; R in {1.0.0, ^/[ 1.0.0}; CfgSets(d1,t1,t2)
func (b Bounds) GenFix(eco string, emit func(*Case)) {
	for _, sh := range FixShapes {
		b.GenFixShape(eco, sh, emit)
	}
}

// FixShapes lists the GenFix shapes, simplest first.
var FixShapes = []string{"solo", "chainT", "chainD", "diamondT", "diamondD", "two", "chain2", "sharedprop"}

// GenFixShape enumerates one shape of GenFix.
func (b Bounds) GenFixShape(eco, shape string, emit func(*Case)) {
	l := b.Ladder
	subs := Subsets(l, b.MaxVers)
	mreqsFor := func(pub []string) []reqStyle { return b.manifestReqs(eco, b.anchorsFor(pub)) }
	mk := func(sh string, pkgs []Pkg, man []Req, vs []Vuln, cfg []string) {
		if sh == shape {
			emit(&Case{Eco: eco, Shape: sh, Pkgs: pkgs, Manifest: man, Vulns: append([]Vuln(nil), vs...), Cfg: cfg})
		}
	}
	// l4: the sub-ladder used by the secondary shapes in the quick tier
	l4 := l
	if !b.Thorough {
		l4 = l[:4]
	}

	// solo
	vsD1 := b.VulnSets("d1")
	cfgD1 := b.CfgSets([]string{"d1"})
	ssubs := subs
	if b.Lite && !b.Thorough {
		ssubs = Subsets(l4, b.MaxVers)
	}
	for _, s := range ssubs {
		if shape != "solo" {
			break
		}
		for _, r := range mreqsFor(s) {
			for _, vs := range vsD1 {
				for _, cfg := range cfgD1 {
					mk("solo", []Pkg{{Name: "d1", Vers: plainVers(s)}}, []Req{{Name: "d1", Req: r.Req, Prop: r.Prop}}, vs, cfg)
				}
			}
		}
	}

	// chainT
	vsT1 := b.VulnSets("t1")
	cfgDT := b.CfgSets([]string{"d1", "t1"})
	tsubs := subs
	if b.Lite && !b.Thorough {
		tsubs = Subsets(l4, b.MaxVers)
	}
	for _, t := range tsubs {
		if shape != "chainT" {
			break
		}
		for _, e := range b.edgeReqs(eco) {
			for _, vs := range vsT1 {
				for _, cfg := range cfgDT {
					mk("chainT", []Pkg{
						{Name: "d1", Vers: []Ver{{V: "1.0.0", Deps: []Dep{{Name: "t1", Req: e}}}}},
						{Name: "t1", Vers: plainVers(t)},
					}, []Req{{Name: "d1", Req: "1.0.0"}}, vs, cfg)
				}
			}
		}
	}

	// chainD
	t12 := []string{"1.0.0", "2.0.0"}
	maskVers := func(d []string, mask int) []Ver {
		out := make([]Ver, len(d))
		for i, v := range d {
			req := "2.0.0"
			if mask&(1<<i) != 0 {
				req = "1.0.0"
			}
			out[i] = Ver{V: v, Deps: []Dep{{Name: "t1", Req: req}}}
		}
		return out
	}
	baseT := [][]Vuln{
		{{ID: "V1", Pkg: "t1", Introduced: "0", Fixed: "2.0.0"}},
		{{ID: "V1", Pkg: "t1", Introduced: "0"}},
		{{ID: "V1", Pkg: "t1", Introduced: "0", Fixed: "2.0.0"}, {ID: "V2", Pkg: "t1", Introduced: "2.0.0"}},
	}
	dsubs := Subsets(l4, min(3, b.MaxVers))
	for _, d := range dsubs {
		if shape != "chainD" {
			break
		}
		mreqs := mreqsFor(d)
		vsets := append([][]Vuln{}, baseT...)
		for _, f := range d {
			vsets = append(vsets, []Vuln{{ID: "V1", Pkg: "t1", Introduced: "0", Fixed: "2.0.0"}, {ID: "V2", Pkg: "d1", Introduced: "0", Fixed: f}})
		}
		for mask := 1; mask < 1<<len(d); mask++ {
			for _, r := range mreqs {
				for _, vs := range vsets {
					for _, cfg := range cfgDT {
						mk("chainD", []Pkg{{Name: "d1", Vers: maskVers(d, mask)}, {Name: "t1", Vers: plainVers(t12)}},
							[]Req{{Name: "d1", Req: r.Req, Prop: r.Prop}}, vs, cfg)
					}
				}
			}
		}
	}

	// diamondT
	k := b.MaxVers
	if k > 3 {
		k = 3
	}
	cfgT := b.CfgSets([]string{"t1"})
	var singlesT [][]Vuln
	for _, vs := range vsT1 {
		if len(vs) == 1 {
			singlesT = append(singlesT, vs)
		}
	}
	for _, t := range Subsets(l4, k) {
		if shape != "diamondT" {
			break
		}
		var as []string
		as = append(as, t...)
		for _, a := range t {
			if eco == NPM {
				as = append(as, "^"+a)
			} else {
				as = append(as, "["+a+",)")
			}
		}
		for _, a := range as {
			for _, bb := range t {
				for _, vs := range singlesT {
					for _, cfg := range cfgT {
						mk("diamondT", []Pkg{
							{Name: "d1", Vers: []Ver{{V: "1.0.0", Deps: []Dep{{Name: "t1", Req: a}}}}},
							{Name: "d2", Vers: []Ver{{V: "1.0.0", Deps: []Dep{{Name: "t1", Req: bb}}}}},
							{Name: "t1", Vers: plainVers(t)},
						}, []Req{{Name: "d1", Req: "1.0.0"}, {Name: "d2", Req: "1.0.0"}}, vs, cfg)
					}
				}
			}
		}
	}

	// diamondD
	d3 := []string{"1.0.0", "1.1.0", "2.0.0"}
	loose := "^1.0.0"
	if eco == Maven {
		loose = "[1.0.0,2.0.0)"
	}
	cfgDD := b.CfgSets([]string{"d1", "d2"})
	nd := 2
	if b.Thorough {
		nd = 3
	}
	for n1 := 1; n1 <= nd; n1++ {
		if shape != "diamondD" {
			break
		}
		for n2 := 1; n2 <= nd; n2++ {
			for m1 := 1; m1 < 1<<n1; m1++ {
				for m2 := 1; m2 < 1<<n2; m2++ {
					for _, r1 := range []string{"1.0.0", loose} {
						for _, r2 := range []string{"1.0.0", loose} {
							for _, vs := range baseT[:2] {
								for _, cfg := range cfgDD {
									v2 := maskVers(d3[:n2], m2)
									mk("diamondD", []Pkg{{Name: "d1", Vers: maskVers(d3[:n1], m1)}, {Name: "d2", Vers: v2}, {Name: "t1", Vers: plainVers(t12)}},
										[]Req{{Name: "d1", Req: r1}, {Name: "d2", Req: r2}}, vs, cfg)
								}
							}
						}
					}
				}
			}
		}
	}

	// two
	nl := 3
	if b.Thorough {
		nl = 4
	}
	cfgTT := b.CfgSets([]string{"t1", "t2"})
	for _, t1 := range Subsets(l[:nl], 2) {
		if shape != "two" {
			break
		}
		for _, t2 := range Subsets(l[:nl], 2) {
			for _, f1 := range l[1:3] {
				for _, f2 := range l[1:3] {
					for _, cfg := range cfgTT {
						mk("two", []Pkg{
							{Name: "d1", Vers: []Ver{{V: "1.0.0", Deps: []Dep{{Name: "t1", Req: "1.0.0"}}}}},
							{Name: "d2", Vers: []Ver{{V: "1.0.0", Deps: []Dep{{Name: "t2", Req: "1.0.0"}}}}},
							{Name: "t1", Vers: plainVers(t1)}, {Name: "t2", Vers: plainVers(t2)},
						}, []Req{{Name: "d1", Req: "1.0.0"}, {Name: "d2", Req: "1.0.0"}},
							[]Vuln{{ID: "V1", Pkg: "t1", Introduced: "0", Fixed: f1}, {ID: "V2", Pkg: "t2", Introduced: "0", Fixed: f2}}, cfg)
					}
				}
			}
		}
	}

	// sharedprop
	if eco == Maven && shape == "sharedprop" {
		for _, sv := range Subsets(l, 2) {
			for _, a := range sv {
				for _, f := range l {
					for _, vs := range [][]Vuln{
						{{ID: "V1", Pkg: "d1", Introduced: "0", Fixed: f}},
						{{ID: "V1", Pkg: "d1", Introduced: "0", Fixed: f}, {ID: "V2", Pkg: "d2", Introduced: f}},
					} {
						for _, cfg := range cfgDD {
							mk("sharedprop", []Pkg{{Name: "d1", Vers: plainVers(sv)}, {Name: "d2", Vers: plainVers(sv)}},
								[]Req{{Name: "d1", Req: a, Prop: "lib.version"}, {Name: "d2", Req: a, Prop: "lib.version"}}, vs, cfg)
						}
					}
				}
			}
		}
	}

	// chain2
	cfg3 := b.CfgSets([]string{"d1", "t1", "t2"})
	c2v := [][]Vuln{
		{{ID: "V1", Pkg: "t2", Introduced: "0", Fixed: "1.0.1"}},
		{{ID: "V1", Pkg: "t1", Introduced: "0", Fixed: "1.0.1"}},
		{{ID: "V1", Pkg: "t2", Introduced: "0", Fixed: "1.0.1"}, {ID: "V2", Pkg: "t1", Introduced: "0", Fixed: "1.0.1"}},
	}
	loose2 := "^1.0.0"
	if eco == Maven {
		loose2 = "[1.0.0,)"
	}
	for _, r := range []string{"1.0.0", loose2} {
		if shape != "chain2" {
			break
		}
		for _, vs := range c2v {
			for _, cfg := range cfg3 {
				mk("chain2", []Pkg{
					{Name: "d1", Vers: []Ver{{V: "1.0.0", Deps: []Dep{{Name: "t1", Req: "1.0.0"}}}, {V: "1.0.1", Deps: []Dep{{Name: "t1", Req: "1.0.1"}}}}},
					{Name: "t1", Vers: []Ver{{V: "1.0.0", Deps: []Dep{{Name: "t2", Req: "1.0.0"}}}, {V: "1.0.1", Deps: []Dep{{Name: "t2", Req: "1.0.1"}}}}},
					{Name: "t2", Vers: plainVers([]string{"1.0.0", "1.0.1"})},
				}, []Req{{Name: "d1", Req: r}}, vs, cfg)
			}
		}
	}
}

// GenUpdate enumerates the Maven Update tuples, simplest first.
//
//	solo   manifest {d1: R}; d1 publishes S
//	       S in Subsets(ladder, MaxVers) x R in manifestReqs(Maven) + "[a]" x CfgSets(d1)
//	pair   manifest {d1: R1, d2: R2}; d1 publishes S1, d2 publishes S2; R1, R2 soft or sharing one property
//	       S1, S2 in Subsets(ladder[:4] (thorough: ladder), 2) x (a1,a2 in A soft/soft | one shared property = a in A,
//	       d2 regular or test-scoped) x CfgSets(d1,d2), A = first 3 (thorough 4) ladder versions
func (b Bounds) GenUpdate(emit func(*Case)) {
	l := b.Ladder
	reqs := b.manifestReqs(Maven, l)
	if !b.Thorough {
		for _, a := range l {
			reqs = append(reqs, reqStyle{Req: "[" + a + "]"})
		}
	}
	for _, s := range Subsets(l, b.MaxVers) {
		for _, r := range reqs {
			for _, cfg := range b.CfgSets([]string{"d1"}) {
				emit(&Case{Eco: Maven, Shape: "update-solo", Pkgs: []Pkg{{Name: "d1", Vers: plainVers(s)}}, Manifest: []Req{{Name: "d1", Req: r.Req, Prop: r.Prop}}, Cfg: cfg})
			}
		}
	}
	type pr struct{ r1, r2 Req }
	var prs []pr
	na := 3
	if b.Thorough {
		na = 4
	}
	for _, a1 := range l[:na] {
		for _, a2 := range l[:na] {
			prs = append(prs, pr{Req{Name: "d1", Req: a1}, Req{Name: "d2", Req: a2}})
		}
	}
	for _, a := range l[:na] {
		prs = append(prs, pr{Req{Name: "d1", Req: a, Prop: "lib.version"}, Req{Name: "d2", Req: a, Prop: "lib.version"}})
		prs = append(prs, pr{Req{Name: "d1", Req: a, Prop: "lib.version"}, Req{Name: "d2", Req: a, Prop: "lib.version", Dev: true}})
	}
	s2 := Subsets(l, 2)
	if !b.Thorough {
		s2 = Subsets(l[:4], 2)
	}
	for _, s1 := range s2 {
		for _, sb := range s2 {
			for _, p := range prs {
				for _, cfg := range b.CfgSets([]string{"d1", "d2"}) {
					emit(&Case{Eco: Maven, Shape: "update-pair", Pkgs: []Pkg{{Name: "d1", Vers: plainVers(s1)}, {Name: "d2", Vers: plainVers(sb)}}, Manifest: []Req{p.r1, p.r2}, Cfg: cfg})
				}
			}
		}
	}
}

// Describe renders the parameter lists of the tier.
func (b Bounds) Describe() string {
	var sb strings.Builder
	fmt.Fprintf(&sb, "ladder=%v; <=%d published versions per package (%d version sets); ", b.Ladder, b.MaxVers, len(Subsets(b.Ladder, b.MaxVers)))
	rs := func(eco string) []string {
		var o []string
		for _, r := range b.manifestReqs(eco, []string{"a", "b"}) {
			if r.Prop != "" {
				o = append(o, "${p}="+r.Req)
			} else {
				o = append(o, r.Req)
			}
		}
		return o
	}
	fmt.Fprintf(&sb, "manifest requirement styles (shown for anchors a<b; anchors = the package's published versions + the lowest ladder version it does not publish; Update: every ladder version) npm=%v Maven=%v; ", rs(NPM), rs(Maven))
	fmt.Fprintf(&sb, "edge requirements npm=%v Maven=%v; ", b.edgeReqs(NPM), b.edgeReqs(Maven))
	fmt.Fprintf(&sb, "vuln sets per package=%d (1-2 records [introduced,fixed|nofix) over the ladder); ", len(b.VulnSets("x")))
	fmt.Fprintf(&sb, "upgrade configs: %d for 1 package, %d for 2 (default level x one per-package override)", len(b.CfgSets([]string{"a"})), len(b.CfgSets([]string{"a", "b"})))
	return sb.String()
}

// OptionVariants returns the case under every FixVulns filter option of C12
// (one option at a time on top of the defaults):
//
//	default; ignore=[V1]; ignore=[V2]*; explicit=[V1]; explicit=[V2]*; dev-deps off with the first manifest
//	requirement marked dev; dev-deps off with the second one marked dev**; the same two with dev-deps ON
//	(requirement i is a dev/test dependency and is analysed like any other); max depth 1; max depth 2;
//	min severity 5.0 with V1 low (1.8) and V2 high (9.8); the same with V1 high and V2 low*; both again with the
//	severity on the affected entry next to a `versions` list that does not contain the resolved version; no-introduce.
//	(* only with two vulnerability records, ** only with two manifest requirements)
func OptionVariants(c *Case) []Case {
	var out []Case
	add := func(name string, f func(v *Case)) {
		v := *c
		v.Manifest = append([]Req(nil), c.Manifest...)
		v.Vulns = append([]Vuln(nil), c.Vulns...)
		v.Opt = Opts{Name: name}
		f(&v)
		out = append(out, v)
	}
	add("default", func(v *Case) {})
	for i := range c.Vulns {
		id := c.Vulns[i].ID
		add("ignore="+id, func(v *Case) { v.Opt.Ignore = []string{id} })
	}
	for i := range c.Vulns {
		id := c.Vulns[i].ID
		add("explicit="+id, func(v *Case) { v.Opt.Explicit = []string{id} })
	}
	for i := range c.Manifest {
		i := i
		add("nodev:"+c.Manifest[i].Name, func(v *Case) { v.Manifest[i].Dev = true; v.Opt.NoDevDeps = true })
	}
	for i := range c.Manifest {
		i := i
		// the requirement is a dev/test dependency and dev dependencies are (by default) analysed
		add("devkept:"+c.Manifest[i].Name, func(v *Case) { v.Manifest[i].Dev = true })
	}
	add("depth=1", func(v *Case) { v.Opt.MaxDepth = 1 })
	add("depth=2", func(v *Case) { v.Opt.MaxDepth = 2 })
	if len(c.Vulns) > 0 {
		add("minsev=5:V1low", func(v *Case) {
			v.Opt.MinSeverity = 5
			for i := range v.Vulns {
				v.Vulns[i].Sev = []string{"low", "high"}[min(i, 1)]
			}
		})
	}
	if len(c.Vulns) > 1 {
		add("minsev=5:V1high", func(v *Case) {
			v.Opt.MinSeverity = 5
			for i := range v.Vulns {
				v.Vulns[i].Sev = []string{"high", "low"}[min(i, 1)]
			}
		})
	}
	// the same severity filter, but the severity sits on the affected entry, which also carries an explicit
	// `versions` list that does NOT contain the resolved version (the range decides)
	entry := func(v *Case, sevs []string) {
		v.Opt.MinSeverity = 5
		for i := range v.Vulns {
			v.Vulns[i].Sev = sevs[min(i, 1)]
			v.Vulns[i].EntrySev = true
			v.Vulns[i].Versions = []string{"0.0.1"}
		}
	}
	if len(c.Vulns) > 0 {
		add("minsev=5:entry:V1low", func(v *Case) { entry(v, []string{"low", "high"}) })
	}
	if len(c.Vulns) > 1 {
		add("minsev=5:entry:V1high", func(v *Case) { entry(v, []string{"high", "low"}) })
	}
	add("nointroduce", func(v *Case) { v.Opt.NoIntroduce = true })
	return out
}

// ScopeShapes lists the shapes of GenScopeShape (used by C12 only; GenFix/FixShapes are unchanged).
var ScopeShapes = []string{"shift", "branches"}

// GenScopeShape enumerates universes in which a patch changes the POSITION (depth, dev-only
// reachability) of a vulnerable transitive package, so that position-dependent options (depth
// limit, dev dependencies off) filter a vulnerability differently before and after the patch.
//
//	shift  manifest {d1: R} or {d1: R, d2: 1.0.0}; d1 publishes {a,b}, (a,b) in {(1.0.0,1.0.1),(1.0.0,1.1.0),(1.0.0,2.0.0)};
//	       each of d1@a, d1@b independently depends on nothing | t2@1.0.0 | t1@1.0.0 (t1@1.0.0 -> t2@1.0.0);
//	       d2 absent | d2@1.0.0 -> t2@1.0.0 | d2@1.0.0 -> t1@1.0.0  (OptionVariants marks d1 or d2 as dev);
//	       t2 publishes {1.0.0} with V2 = t2 [0,nofix), or {1.0.0,1.0.1} with V2 = t2 [0,1.0.1); V1 = d1 [0,b);
//	       R = a (thorough: also ^a / ${p}=a); upgrade config {major} | {patch} | {major,t2:none} (thorough: also {minor}, {major,t1:none})
//	       full product, simplest first.
func (b Bounds) GenScopeShape(eco, shape string, emit func(*Case)) {
	if shape == "branches" {
		b.genBranches(eco, emit)
		return
	}
	if shape != "shift" {
		return
	}
	depOf := func(kind int) []Dep {
		switch kind {
		case 1:
			return []Dep{{Name: "t2", Req: "1.0.0"}}
		case 2:
			return []Dep{{Name: "t1", Req: "1.0.0"}}
		}
		return nil
	}
	cfgs := [][]string{{"major"}, {"patch"}, {"major", "t2:none"}}
	if b.Thorough {
		cfgs = append(cfgs, []string{"minor"}, []string{"major", "t1:none"})
	}
	for _, ab := range [][2]string{{"1.0.0", "1.0.1"}, {"1.0.0", "1.1.0"}, {"1.0.0", "2.0.0"}} {
		reqs := []Req{{Name: "d1", Req: ab[0]}}
		if b.Thorough {
			if eco == NPM {
				reqs = append(reqs, Req{Name: "d1", Req: "^" + ab[0]})
			} else {
				reqs = append(reqs, Req{Name: "d1", Req: ab[0], Prop: "lib.version"})
			}
		}
		for d2kind := 0; d2kind <= 2; d2kind++ {
			for ka := 0; ka <= 2; ka++ {
				for kb := 0; kb <= 2; kb++ {
					for t2fix := 0; t2fix <= 1; t2fix++ {
						for _, r1 := range reqs {
							for _, cfg := range cfgs {
								pkgs := []Pkg{{Name: "d1", Vers: []Ver{{V: ab[0], Deps: depOf(ka)}, {V: ab[1], Deps: depOf(kb)}}}}
								man := []Req{r1}
								if d2kind > 0 {
									pkgs = append(pkgs, Pkg{Name: "d2", Vers: []Ver{{V: "1.0.0", Deps: depOf(d2kind)}}})
									man = append(man, Req{Name: "d2", Req: "1.0.0"})
								}
								pkgs = append(pkgs, Pkg{Name: "t1", Vers: []Ver{{V: "1.0.0", Deps: []Dep{{Name: "t2", Req: "1.0.0"}}}}})
								v2 := Vuln{ID: "V2", Pkg: "t2", Introduced: "0"}
								t2 := []string{"1.0.0"}
								if t2fix == 1 {
									t2 = append(t2, "1.0.1")
									v2.Fixed = "1.0.1"
								}
								pkgs = append(pkgs, Pkg{Name: "t2", Vers: plainVers(t2)})
								emit(&Case{Eco: eco, Shape: "shift", Pkgs: pkgs, Manifest: man,
									Vulns: []Vuln{{ID: "V1", Pkg: "d1", Introduced: "0", Fixed: ab[1]}, v2}, Cfg: cfg})
							}
						}
					}
				}
			}
		}
	}
}

// LadderPre interleaves pre-releases with releases, so that the version directly above a
// requirement's range can be a pre-release whose step differs from that of the next release.
var LadderPre = []string{"1.0.0", "1.0.1-rc.1", "1.0.1", "1.1.0-rc.1", "1.1.0", "2.0.0-rc.1", "2.0.0"}

// GenPreShape enumerates the "prerelease" shape (used by C11 only; GenFix is unchanged):
//
//	prerelease  manifest {d1: R}; d1 publishes S; vulns on d1
//	            S in Subsets(LadderPre, MaxVers) x R in {a, ^a, ~a (npm) | a, [a,) (Maven)} for a in S + the lowest
//	            LadderPre version missing from S x {[0,f) for f in LadderPre, [0,nofix)} x CfgSets(d1)
func (b Bounds) GenPreShape(eco string, emit func(*Case)) {
	bp := b
	bp.Ladder = LadderPre
	cfgs := b.CfgSets([]string{"d1"})
	for _, s := range Subsets(LadderPre, b.MaxVers) {
		var reqs []string
		for _, a := range bp.anchorsFor(s) {
			if eco == NPM {
				reqs = append(reqs, a, "^"+a, "~"+a)
			} else {
				reqs = append(reqs, a, "["+a+",)")
			}
		}
		for _, r := range reqs {
			for i := 0; i <= len(LadderPre); i++ {
				v := Vuln{ID: "V1", Pkg: "d1", Introduced: "0"}
				if i < len(LadderPre) {
					v.Fixed = LadderPre[i]
				}
				for _, cfg := range cfgs {
					emit(&Case{Eco: eco, Shape: "prerelease", Pkgs: []Pkg{{Name: "d1", Vers: plainVers(s)}},
						Manifest: []Req{{Name: "d1", Req: r}}, Vulns: []Vuln{v}, Cfg: cfg})
				}
			}
		}
	}
}

// GenUpdateDup enumerates Maven Update tuples whose manifest requires ONE package twice at independent
// versions (the jar and its tests classifier / test-jar type), in both declaration orders by construction
// (a1, a2 range over all pairs):
//
//	update-dup  manifest {d1: a1, d1[classifier tests, type test-jar]: a2}; d1 publishes S
//	            S in Subsets(ladder, MaxVers) x a1, a2 in ladder x CfgSets(d1)
func (b Bounds) GenUpdateDup(emit func(*Case)) {
	l := b.Ladder
	for _, s := range Subsets(l, b.MaxVers) {
		for _, a1 := range l {
			for _, a2 := range l {
				for _, cfg := range b.CfgSets([]string{"d1"}) {
					emit(&Case{Eco: Maven, Shape: "update-dup", Pkgs: []Pkg{{Name: "d1", Vers: plainVers(s)}},
						Manifest: []Req{{Name: "d1", Req: a1}, {Name: "d1", Req: a2, Classifier: "tests", Type: "test-jar"}}, Cfg: cfg})
				}
			}
		}
	}
}

// GenAliasShape enumerates npm universes whose manifest declares a direct dependency through an alias
// ("<alias>": "npm:<real>@<req>"), alone or next to a plain requirement of the same real package
// (used by C11 only). Upgrade configurations are keyed by the REAL package name (the name the policy,
// PackageUpdate.Name and the vulnerability reports use); configurations keyed by the alias are included
// as controls (for the oracle they configure nothing, so the default level applies to the real package).
//
//	cfgs(alias)  CfgSets(d1) + (major,d1:patch) (major,d1:minor) + alias-keyed (major,A:none) (none,A:major) (patch,A:minor) (minor,A:patch)
//	alias-solo   manifest {A: npm:d1@R}; d1 publishes S; single-record vulns on d1
//	             S in Subsets(ladder, MaxVers) x R in manifestReqs x {[0,f) f in ladder, [0,nofix)} x cfgs
//	alias-plain  manifest {d1: R1, A: npm:d1@R2}; d1 publishes S
//	             S in Subsets(ladder, 2) x R1, R2 in {a, ^a : a in S} x {[0,f), [0,nofix)} x cfgs
//	alias-chain  manifest {A: npm:d1@a}; chainD registry (d1's i-th version pins t1@1.0.0 if bit i of mask else t1@2.0.0,
//	             t1 publishes {1.0.0,2.0.0}); vulns {t1 [0,2.0.0)}, {t1 [0,nofix)}
//	             D in Subsets(first 4 ladder versions, 2) x mask x a in D x vulns x cfgs (+ (major,t1:none))
func (b Bounds) GenAliasShape(emit func(*Case)) {
	const alias = "d1-legacy"
	l := b.Ladder
	cfgs := b.CfgSets([]string{"d1"})
	cfgs = append(cfgs, []string{"major", "d1:patch"}, []string{"major", "d1:minor"},
		[]string{"major", alias + ":none"}, []string{"none", alias + ":major"}, []string{"patch", alias + ":minor"}, []string{"minor", alias + ":patch"})
	var singles [][]Vuln
	for _, f := range l {
		singles = append(singles, []Vuln{{ID: "V1", Pkg: "d1", Introduced: "0", Fixed: f}})
	}
	singles = append(singles, []Vuln{{ID: "V1", Pkg: "d1", Introduced: "0"}})
	for _, s := range Subsets(l, b.MaxVers) {
		for _, r := range b.manifestReqs(NPM, b.anchorsFor(s)) {
			for _, vs := range singles {
				for _, cfg := range cfgs {
					emit(&Case{Eco: NPM, Shape: "alias-solo", Pkgs: []Pkg{{Name: "d1", Vers: plainVers(s)}},
						Manifest: []Req{{Name: "d1", Req: r.Req, Alias: alias}}, Vulns: append([]Vuln(nil), vs...), Cfg: cfg})
				}
			}
		}
	}
	for _, s := range Subsets(l, 2) {
		var rs []string
		for _, a := range s {
			rs = append(rs, a, "^"+a)
		}
		for _, r1 := range rs {
			for _, r2 := range rs {
				for _, vs := range singles {
					for _, cfg := range cfgs {
						emit(&Case{Eco: NPM, Shape: "alias-plain", Pkgs: []Pkg{{Name: "d1", Vers: plainVers(s)}},
							Manifest: []Req{{Name: "d1", Req: r1}, {Name: "d1", Req: r2, Alias: alias}}, Vulns: append([]Vuln(nil), vs...), Cfg: cfg})
					}
				}
			}
		}
	}
	ccfgs := append(append([][]string{}, cfgs...), []string{"major", "t1:none"})
	for _, d := range Subsets(l[:4], 2) {
		for mask := 1; mask < 1<<len(d); mask++ {
			vers := make([]Ver, len(d))
			for i, v := range d {
				req := "2.0.0"
				if mask&(1<<i) != 0 {
					req = "1.0.0"
				}
				vers[i] = Ver{V: v, Deps: []Dep{{Name: "t1", Req: req}}}
			}
			for _, a := range d {
				for _, fx := range []string{"2.0.0", ""} {
					for _, cfg := range ccfgs {
						emit(&Case{Eco: NPM, Shape: "alias-chain", Pkgs: []Pkg{{Name: "d1", Vers: vers}, {Name: "t1", Vers: plainVers([]string{"1.0.0", "2.0.0"})}},
							Manifest: []Req{{Name: "d1", Req: a, Alias: alias}}, Vulns: []Vuln{{ID: "V1", Pkg: "t1", Introduced: "0", Fixed: fx}}, Cfg: cfg})
					}
				}
			}
		}
	}
}

// OriginShapes lists the shapes of GenOriginShape (Maven only, used by C12).
var OriginShapes = []string{"origin-direct", "origin-transitive", "origin-profile-only"}

// GenOriginShape enumerates Maven manifests in which ONE artifact is declared under two origins (or only
// in a management section), crossed with the usual vulnerability sets:
//
//	declarations(x; S)  for versions v, w in S (all pairs, equal and different):
//	                    direct(v) + dependencyManagement(w); direct(v) + active-profile dependency(w);
//	                    direct(v) + active-profile dependencyManagement(w) (thorough only);
//	                    for v in S: direct(no <version>) + dependencyManagement(v)  (management only)
//	origin-direct       x = d1 is the vulnerable direct dependency; d1 publishes S
//	                    S in Subsets(ladder, min(MaxVers,2)) x declarations(d1; S) x VulnSets(d1) x CfgSets(d1)
//	origin-transitive   manifest {d1: 1.0.0} + dependencyManagement / profile management entry t1: w;
//	                    d1@1.0.0 -> t1@v; t1 publishes T; vulnerable t1
//	                    T in Subsets(ladder, min(MaxVers,2)) x v, w in T x {management; thorough: profile-management} x VulnSets(t1) x CfgSets(d1,t1)
//	origin-profile-only manifest {d1: 1.0.0} whose ONLY <dependencyManagement> section sits in a profile (active by default /
//	                    inactive) and manages an unrelated published artifact m1; d1@1.0.0 -> t1@v; t1 publishes T; vulnerable t1
//	                    (the override has to ADD a project-level dependencyManagement section)
//	                    T in Subsets(ladder, min(MaxVers,2)) x v in T x {profile-management, profile-inactive-management} x VulnSets(t1) x CfgSets(d1,t1)
//	quick drops the {[0,f),[0,f')} pairs from VulnSets in all shapes (with the Lite bounds: every two-record set).
func (b Bounds) GenOriginShape(shape string, emit func(*Case)) {
	l := b.Ladder
	subs := Subsets(l, min(b.MaxVers, 2)) // two published versions express "same" and "different" declarations
	// quick: vulnerability sets without the two-open-vulns pairs, and no profile-management origin
	trim := func(in [][]Vuln) [][]Vuln {
		if b.Thorough {
			return in
		}
		var out [][]Vuln
		for _, vs := range in {
			if len(vs) == 2 && (vs[1].Introduced == "0" || b.Lite) {
				continue
			}
			out = append(out, vs)
		}
		return out
	}
	dOrigins := []string{OriginManagement, OriginProfile}
	tOrigins := []string{OriginManagement}
	if b.Thorough {
		dOrigins = append(dOrigins, OriginProfileManagement)
		tOrigins = append(tOrigins, OriginProfileManagement)
	}
	switch shape {
	case "origin-direct":
		vs1 := trim(b.VulnSets("d1"))
		cfgs := b.CfgSets([]string{"d1"})
		for _, s := range subs {
			var decls [][]Req
			for _, v := range s {
				for _, w := range s {
					for _, o := range dOrigins {
						decls = append(decls, []Req{{Name: "d1", Req: v}, {Name: "d1", Req: w, Origin: o}})
					}
				}
			}
			for _, v := range s {
				decls = append(decls, []Req{{Name: "d1", NoVersion: true}, {Name: "d1", Req: v, Origin: OriginManagement}})
			}
			for _, d := range decls {
				for _, vs := range vs1 {
					for _, cfg := range cfgs {
						emit(&Case{Eco: Maven, Shape: shape, Pkgs: []Pkg{{Name: "d1", Vers: plainVers(s)}},
							Manifest: append([]Req(nil), d...), Vulns: append([]Vuln(nil), vs...), Cfg: cfg})
					}
				}
			}
		}
	case "origin-profile-only":
		vsT := trim(b.VulnSets("t1"))
		cfgs := b.CfgSets([]string{"d1", "t1"})
		for _, t := range subs {
			for _, v := range t {
				for _, o := range []string{OriginProfileManagement, OriginProfileInactiveManagement} {
					for _, vs := range vsT {
						for _, cfg := range cfgs {
							emit(&Case{Eco: Maven, Shape: shape, Pkgs: []Pkg{
								{Name: "d1", Vers: []Ver{{V: "1.0.0", Deps: []Dep{{Name: "t1", Req: v}}}}},
								{Name: "t1", Vers: plainVers(t)},
								{Name: "m1", Vers: plainVers([]string{"1.0.0"})},
							}, Manifest: []Req{{Name: "d1", Req: "1.0.0"}, {Name: "m1", Req: "1.0.0", Origin: o}},
								Vulns: append([]Vuln(nil), vs...), Cfg: cfg})
						}
					}
				}
			}
		}
	case "origin-transitive":
		vsT := trim(b.VulnSets("t1"))
		cfgs := b.CfgSets([]string{"d1", "t1"})
		for _, t := range subs {
			for _, v := range t {
				for _, w := range t {
					for _, o := range tOrigins {
						for _, vs := range vsT {
							for _, cfg := range cfgs {
								emit(&Case{Eco: Maven, Shape: shape, Pkgs: []Pkg{
									{Name: "d1", Vers: []Ver{{V: "1.0.0", Deps: []Dep{{Name: "t1", Req: v}}}}},
									{Name: "t1", Vers: plainVers(t)},
								}, Manifest: []Req{{Name: "d1", Req: "1.0.0"}, {Name: "t1", Req: w, Origin: o}},
									Vulns: append([]Vuln(nil), vs...), Cfg: cfg})
							}
						}
					}
				}
			}
		}
	}
}

// NameAlphabet: registry names with upper-case letters and separators, per ecosystem; the first
// entries are real packages (npm JSONStream, Maven com.zaxxer:HikariCP).
var NameAlphabet = map[string][]string{
	NPM:   {"JSONStream", "Base64-js", "@Types/Node_x"},
	Maven: {"com.zaxxer:HikariCP", "org.Apache.Commons:commons-IO", "io.x:Pkg_Name.v2"},
}

// GenNameShape enumerates universes whose packages carry the names of NameAlphabet instead of d1/t1, with the
// upgrade configuration built through BOTH construction routes of upgrade.Config (Set/SetDefault and
// NewConfigFromStrings), keyed by the exact registry name (used by C11):
//
//	cfgs(p)      CfgSets(p) + (major,p:patch) (major,p:minor)
//	name-solo    manifest {N: R}; N publishes S; vulns {[0,f) f in ladder, [0,nofix)} on N
//	             N in NameAlphabet x route x S in Subsets(first 4 ladder versions, 2) x R in {a, ^a | a, [a,)} for a in S x vulns x cfgs(N)
//	name-chain   manifest {N1: 1.0.0}; N1@1.0.0 -> N2@a; N2 publishes T; vulns on N2   (N1, N2 = consecutive alphabet names)
//	             (N1,N2) x route x T in Subsets(first 4 ladder versions, 2) x a in T x vulns x cfgs(N2)
//	name-update  (Maven Update) manifest {N: a}; N publishes S
//	             N x route x S in Subsets(first 4 ladder versions, 2) x a in first 4 ladder versions x cfgs(N)
func (b Bounds) GenNameShape(eco, shape string, emit func(*Case)) {
	l := b.Ladder
	names := NameAlphabet[eco]
	subs := Subsets(l[:4], 2)
	cfgsFor := func(p string) [][]string {
		return append(b.CfgSets([]string{p}), []string{"major", p + ":patch"}, []string{"major", p + ":minor"})
	}
	vulns := func(pkg string) [][]Vuln {
		var out [][]Vuln
		for _, f := range l {
			out = append(out, []Vuln{{ID: "V1", Pkg: pkg, Introduced: "0", Fixed: f}})
		}
		return append(out, []Vuln{{ID: "V1", Pkg: pkg, Introduced: "0"}})
	}
	for ni, name := range names {
		for _, route := range []string{"", "strings"} {
			switch shape {
			case "name-solo":
				for _, s := range subs {
					var reqs []string
					for _, a := range s {
						if eco == NPM {
							reqs = append(reqs, a, "^"+a)
						} else {
							reqs = append(reqs, a, "["+a+",)")
						}
					}
					for _, r := range reqs {
						for _, vs := range vulns("d1") {
							for _, cfg := range cfgsFor("d1") {
								emit(&Case{Eco: eco, Shape: shape, Names: map[string]string{"d1": name}, CfgRoute: route,
									Pkgs: []Pkg{{Name: "d1", Vers: plainVers(s)}}, Manifest: []Req{{Name: "d1", Req: r}}, Vulns: vs, Cfg: cfg})
							}
						}
					}
				}
			case "name-chain":
				n2 := names[(ni+1)%len(names)]
				for _, t := range subs {
					for _, a := range t {
						for _, vs := range vulns("t1") {
							for _, cfg := range cfgsFor("t1") {
								emit(&Case{Eco: eco, Shape: shape, Names: map[string]string{"d1": name, "t1": n2}, CfgRoute: route,
									Pkgs:     []Pkg{{Name: "d1", Vers: []Ver{{V: "1.0.0", Deps: []Dep{{Name: "t1", Req: a}}}}}, {Name: "t1", Vers: plainVers(t)}},
									Manifest: []Req{{Name: "d1", Req: "1.0.0"}}, Vulns: vs, Cfg: cfg})
							}
						}
					}
				}
			case "name-update":
				if eco != Maven {
					return
				}
				for _, s := range subs {
					for _, a := range l[:4] {
						for _, cfg := range cfgsFor("d1") {
							emit(&Case{Eco: Maven, Shape: shape, Names: map[string]string{"d1": name}, CfgRoute: route,
								Pkgs: []Pkg{{Name: "d1", Vers: plainVers(s)}}, Manifest: []Req{{Name: "d1", Req: a}}, Cfg: cfg})
						}
					}
				}
			}
		}
	}
}

// GenParentShape enumerates Maven projects with a LOCAL PARENT pom whose property is shared between a vulnerable,
// upgradable requirement y (= d1) and a requirement z (= d2) of another package (used by C11):
//
//	parent-req   parent.xml: property P = a, requirement d1 = ${P}; child: requirement d2 = ${P} (inherited property)
//	parent-rev   parent.xml: property P = a, requirement d2 = ${P}; child: requirement d1 = ${P}
//	parent-prop  parent.xml: property P = a only;                  child: requirements d1 = ${P} and d2 = ${P}
//	             d1 and d2 publish S; vulns {d1 [0,f)}
//	             S in Subsets(ladder, 2) x a in S x f in ladder x CfgSets(d1,d2) + (major,d2:patch) (major,d2:minor)
func (b Bounds) GenParentShape(emit func(*Case)) {
	l := b.Ladder
	const P = "lib.version"
	cfgs := append(b.CfgSets([]string{"d1", "d2"}), []string{"major", "d2:patch"}, []string{"major", "d2:minor"})
	for _, shape := range []string{"parent-req", "parent-rev", "parent-prop"} {
		for _, s := range Subsets(l, 2) {
			for _, a := range s {
				for _, f := range l {
					for _, cfg := range cfgs {
						inh := func(n string) Req { return Req{Name: n, Req: a, Prop: P, PropInherited: true} }
						c := &Case{Eco: Maven, Shape: shape, Cfg: cfg,
							Pkgs:  []Pkg{{Name: "d1", Vers: plainVers(s)}, {Name: "d2", Vers: plainVers(s)}},
							Vulns: []Vuln{{ID: "V1", Pkg: "d1", Introduced: "0", Fixed: f}}}
						switch shape {
						case "parent-req":
							c.Parent = &ParentPom{Reqs: []Req{{Name: "d1", Req: a, Prop: P}}}
							c.Manifest = []Req{inh("d2")}
						case "parent-rev":
							c.Parent = &ParentPom{Reqs: []Req{{Name: "d2", Req: a, Prop: P}}}
							c.Manifest = []Req{inh("d1")}
						default:
							c.Parent = &ParentPom{Props: []Prop{{Name: P, Value: a}}}
							c.Manifest = []Req{inh("d1"), inh("d2")}
						}
						emit(c)
					}
				}
			}
		}
	}
}

// EqualSpellings: Maven version strings; the first five order EQUAL (1.0 = 1.0.0 = 1.0.0.0 = 1.0-ga = 1.0.Final).
var EqualSpellings = []string{"1.0", "1.0.0", "1.0.0.0", "1.0-ga", "1.0.Final", "1.0.1", "1.1"}

// GenCandidateShapes enumerates further Maven shapes of C11 (equal-ordered version spellings, one artifact
// declared twice); C11 runs origins-update with the dependencyManagement origin only, see its header:
//
//	equal-update    (Update)   manifest {d1: a}; d1 publishes S: S in Subsets(EqualSpellings, 3) x a in EqualSpellings x CfgSets(d1)
//	equal-override  (override) the same manifests with vulns {d1 [0,f)} f in {1.0, 1.0.0, 1.0.1, 1.1}
//	origins-update  (Update)   manifest {d1: v} + a second declaration of d1 at w under dependencyManagement / active-profile
//	                dependency / active-profile dependencyManagement / INACTIVE-profile dependency; d1 publishes S
//	                S in Subsets(ladder, 3) x v, w in S x origin x CfgSets(d1)
func (b Bounds) GenCandidateShapes(shape string, emit func(*Case)) {
	cfgs := b.CfgSets([]string{"d1"})
	switch shape {
	case "equal-update", "equal-override":
		for _, s := range Subsets(EqualSpellings, 3) {
			for _, a := range EqualSpellings {
				for _, cfg := range cfgs {
					if shape == "equal-update" {
						emit(&Case{Eco: Maven, Shape: shape, Pkgs: []Pkg{{Name: "d1", Vers: plainVers(s)}}, Manifest: []Req{{Name: "d1", Req: a}}, Cfg: cfg})
						continue
					}
					for _, f := range []string{"1.0", "1.0.0", "1.0.1", "1.1"} {
						emit(&Case{Eco: Maven, Shape: shape, Pkgs: []Pkg{{Name: "d1", Vers: plainVers(s)}}, Manifest: []Req{{Name: "d1", Req: a}},
							Vulns: []Vuln{{ID: "V1", Pkg: "d1", Introduced: "0", Fixed: f}}, Cfg: cfg})
					}
				}
			}
		}
	case "origins-update":
		for _, s := range Subsets(b.Ladder, 3) {
			for _, v := range s {
				for _, w := range s {
					for _, o := range []string{OriginManagement, OriginProfile, OriginProfileManagement, OriginProfileInactive} {
						for _, cfg := range cfgs {
							emit(&Case{Eco: Maven, Shape: shape, Pkgs: []Pkg{{Name: "d1", Vers: plainVers(s)}},
								Manifest: []Req{{Name: "d1", Req: v}, {Name: "d1", Req: w, Origin: o}}, Cfg: cfg})
						}
					}
				}
			}
		}
	}
}

// GenOverlapShape enumerates universes in which two independently computed candidate patches OVERLAP in the
// vulnerabilities they fix (used by C11): bumping the direct dependency d1 (a -> b) moves its transitive
// dependency t1 from x to z, and t1 can also be overridden/relaxed on its own.
//
//	overlap  manifest {d1: a}; d1@a -> t1@x, d1@b -> t1@z; t1 publishes {x,y,z}, x<y<z
//	         vulns: D = d1 [0,b); T1 = t1 [0,y); T2 = t1 [0,y) and again from z on (fixed only by y)
//	         vuln sets {D,T1,T2}, {D,D',T1,T2} (D' a second record like D), {D,T1}, {D,T2}
//	         (a,b) in {(1.0.0,1.0.1),(1.0.0,1.1.0),(1.0.0,2.0.0)} x {x,y,z} 3-subsets of the ladder x vuln sets x CfgSets(d1,t1)
func (b Bounds) GenOverlapShape(eco string, emit func(*Case)) {
	cfgs := b.CfgSets([]string{"d1", "t1"})
	for _, ab := range [][2]string{{"1.0.0", "1.0.1"}, {"1.0.0", "1.1.0"}, {"1.0.0", "2.0.0"}} {
		for _, t := range Subsets(b.Ladder, 3) {
			if len(t) != 3 {
				continue
			}
			x, y, z := t[0], t[1], t[2]
			d := Vuln{Pkg: "d1", Introduced: "0", Fixed: ab[1]}
			t1 := Vuln{Pkg: "t1", Introduced: "0", Fixed: y}
			t2 := Vuln{Pkg: "t1", Introduced: "0", Fixed: y, Introduced2: z}
			for _, set := range [][]Vuln{{d, t1, t2}, {d, d, t1, t2}, {d, t1}, {d, t2}} {
				vs := make([]Vuln, len(set))
				for i, v := range set {
					v.ID = fmt.Sprintf("V%d", i+1)
					vs[i] = v
				}
				for _, cfg := range cfgs {
					emit(&Case{Eco: eco, Shape: "overlap", Pkgs: []Pkg{
						{Name: "d1", Vers: []Ver{{V: ab[0], Deps: []Dep{{Name: "t1", Req: x}}}, {V: ab[1], Deps: []Dep{{Name: "t1", Req: z}}}}},
						{Name: "t1", Vers: plainVers(t)},
					}, Manifest: []Req{{Name: "d1", Req: ab[0]}}, Vulns: vs, Cfg: cfg})
				}
			}
		}
	}
}

// genBranches: one OSV record with several affected[] entries for the SAME package, one per release branch:
//
//	branches  manifest {d1: a}; d1 publishes S; record V1 on d1 with entry 1 = [0,f1) and entry 2 = [i2,f2) where
//	          i2 in {f1, next(f1)} and f2 in {next(i2), nofix} (the first version outside entry 1 can lie inside entry 2);
//	          thorough: also a third entry that only lists `versions: [x]` for x in S
//	          S in Subsets(first 4 ladder versions (thorough: ladder), 3) with |S| >= 2 x a in S x f1 in ladder x (i2,f2) x CfgSets(d1)
func (b Bounds) genBranches(eco string, emit func(*Case)) {
	l := b.Ladder
	sl := l
	if !b.Thorough {
		sl = l[:4]
	}
	next := func(v string) string {
		for i, x := range l {
			if x == v && i+1 < len(l) {
				return l[i+1]
			}
		}
		return ""
	}
	for _, s := range Subsets(sl, 3) {
		if len(s) < 2 {
			continue
		}
		for _, a := range s {
			for _, f1 := range l {
				for _, i2 := range []string{f1, next(f1)} {
					if i2 == "" {
						continue
					}
					for _, f2 := range []string{next(i2), ""} {
						if f2 == "" && next(i2) == "" && i2 != f1 {
							continue
						}
						extras := [][]Entry{{{Introduced: i2, Fixed: f2}}}
						if b.Thorough {
							for _, x := range s {
								extras = append(extras, []Entry{{Introduced: i2, Fixed: f2}, {Versions: []string{x}}})
							}
						}
						for _, more := range extras {
							for _, cfg := range b.CfgSets([]string{"d1"}) {
								emit(&Case{Eco: eco, Shape: "branches", Pkgs: []Pkg{{Name: "d1", Vers: plainVers(s)}},
									Manifest: []Req{{Name: "d1", Req: a}},
									Vulns:    []Vuln{{ID: "V1", Pkg: "d1", Introduced: "0", Fixed: f1, More: more}}, Cfg: cfg})
							}
						}
					}
				}
			}
		}
	}
}

// CfgRoutes are the ways a Case builds its upgrade.Config (Case.CfgRoute).
var CfgRoutes = []string{"", "strings", "strings-colon", "strings-rev"}

// GenCfgRouteShape enumerates small universes under EVERY construction route / spelling of the same upgrade
// configuration (Config.Set; NewConfigFromStrings with the default as "level" or ":level", per-package entries as
// "pkg:level" (Maven "group:artifact:level", split at the last colon), default first or last) - used by C11:
//
//	cfgroute-solo    manifest {d1: a}; d1 publishes S; vulns {d1 [0,f)} f in ladder + nofix
//	                 route x S in Subsets(first 4 ladder versions, 2) x a in S x vulns x CfgSets(d1) + (major,d1:patch) (major,d1:minor)
//	cfgroute-update  (Maven Update) manifest {d1: a}: route x S x a in first 4 ladder versions x the same configs
func (b Bounds) GenCfgRouteShape(eco, shape string, emit func(*Case)) {
	l := b.Ladder
	cfgs := append(b.CfgSets([]string{"d1"}), []string{"major", "d1:patch"}, []string{"major", "d1:minor"})
	for _, route := range CfgRoutes {
		for _, s := range Subsets(l[:4], 2) {
			switch shape {
			case "cfgroute-solo":
				for _, a := range s {
					for i := 0; i <= len(l); i++ {
						v := Vuln{ID: "V1", Pkg: "d1", Introduced: "0"}
						if i < len(l) {
							v.Fixed = l[i]
						}
						for _, cfg := range cfgs {
							emit(&Case{Eco: eco, Shape: shape, CfgRoute: route, Pkgs: []Pkg{{Name: "d1", Vers: plainVers(s)}},
								Manifest: []Req{{Name: "d1", Req: a}}, Vulns: []Vuln{v}, Cfg: cfg})
						}
					}
				}
			case "cfgroute-update":
				for _, a := range l[:4] {
					for _, cfg := range cfgs {
						emit(&Case{Eco: Maven, Shape: shape, CfgRoute: route, Pkgs: []Pkg{{Name: "d1", Vers: plainVers(s)}},
							Manifest: []Req{{Name: "d1", Req: a}}, Cfg: cfg})
					}
				}
			}
		}
	}
}
