package universe

import (
	"fmt"
	"strings"
)

// Bounds of one tier. Everything the generators enumerate is the full product
// of the lists derived from these values (no sampling); Describe() renders the
// lists so that the rule text of a check is produced from the same parameters.
type Bounds struct {
	Thorough bool
	Ladder   []string // version alphabet, ascending
	MaxVers  int      // max number of published versions per package
}

// Quick and Thorough bounds.
var (
	Ladder5 = []string{"1.0.0", "1.0.1", "1.1.0", "2.0.0", "3.0.0"}
	Ladder6 = []string{"1.0.0", "1.0.1", "1.1.0", "2.0.0-rc.1", "2.0.0", "3.0.0"}
)

// BoundsFor returns the bounds of a tier.
func BoundsFor(thorough bool) Bounds {
	if thorough {
		return Bounds{Thorough: true, Ladder: Ladder6, MaxVers: 4}
	}
	return Bounds{Ladder: Ladder5, MaxVers: 3}
}

// Subsets returns all non-empty subsets of l with at most k elements, ordered by
// size, then lexicographically by index (simplest first).
func Subsets(l []string, k int) [][]string {
	var out [][]string
	for size := 1; size <= k && size <= len(l); size++ {
		idx := make([]int, size)
		for i := range idx {
			idx[i] = i
		}
		for {
			s := make([]string, size)
			for i, j := range idx {
				s[i] = l[j]
			}
			out = append(out, s)
			i := size - 1
			for i >= 0 && idx[i] == len(l)-size+i {
				i--
			}
			if i < 0 {
				break
			}
			idx[i]++
			for j := i + 1; j < size; j++ {
				idx[j] = idx[j-1] + 1
			}
		}
	}
	return out
}

func plainVers(vs []string) []Ver {
	out := make([]Ver, len(vs))
	for i, v := range vs {
		out[i] = Ver{V: v}
	}
	return out
}

// reqStyle is a manifest requirement in some style.
type reqStyle struct {
	Req  string
	Prop string
}

// manifestReqs: requirement styles anchored on every ladder version (the anchor
// may be missing from the registry).
//
//	npm:   a, ^a, ~a (a in ladder); ">=a <=b" (a,b consecutive ladder versions); thorough: ">=a", "*"
//	Maven: a (soft), ${p}=a (property-interpolated soft), "[a,b]" (a,b consecutive), "[a,)"; thorough: "[a]", "(,a]"
func (b Bounds) manifestReqs(eco string) []reqStyle {
	var out []reqStyle
	l := b.Ladder
	if eco == NPM {
		for _, a := range l {
			out = append(out, reqStyle{Req: a})
		}
		for _, a := range l {
			out = append(out, reqStyle{Req: "^" + a})
		}
		for _, a := range l {
			out = append(out, reqStyle{Req: "~" + a})
		}
		for i := 0; i+1 < len(l); i++ {
			out = append(out, reqStyle{Req: ">=" + l[i] + " <=" + l[i+1]})
		}
		if b.Thorough {
			for _, a := range l {
				out = append(out, reqStyle{Req: ">=" + a})
			}
			out = append(out, reqStyle{Req: "*"})
		}
		return out
	}
	for _, a := range l {
		out = append(out, reqStyle{Req: a})
	}
	for _, a := range l {
		out = append(out, reqStyle{Req: a, Prop: "lib.version"})
	}
	for i := 0; i+1 < len(l); i++ {
		out = append(out, reqStyle{Req: "[" + l[i] + "," + l[i+1] + "]"})
	}
	for _, a := range l {
		out = append(out, reqStyle{Req: "[" + a + ",)"})
	}
	if b.Thorough {
		for _, a := range l {
			out = append(out, reqStyle{Req: "[" + a + "]"})
		}
		for _, a := range l {
			out = append(out, reqStyle{Req: "(," + a + "]"})
		}
	}
	return out
}

// edgeReqs: requirement of a registry package on a transitive package.
//
//	npm:   pin a (a in ladder), ^first, ~first; thorough: ^a, ~a for every a
//	Maven: soft a (a in ladder), "[first,)"; thorough: "[a,)" for every a
func (b Bounds) edgeReqs(eco string) []string {
	var out []string
	l := b.Ladder
	out = append(out, l...)
	if eco == NPM {
		if b.Thorough {
			for _, a := range l {
				out = append(out, "^"+a)
			}
			for _, a := range l {
				out = append(out, "~"+a)
			}
		} else {
			out = append(out, "^"+l[0], "~"+l[0])
		}
		return out
	}
	if b.Thorough {
		for _, a := range l {
			out = append(out, "["+a+",)")
		}
	} else {
		out = append(out, "["+l[0]+",)")
	}
	return out
}

// VulnSets on one package: 1 or 2 records.
//
//	singles: [0,f) for f in ladder + "no fix"; thorough: also [i,f) and [i,no fix) for every ladder i<f
//	pairs quick:    {[0,f1),[0,f2)} f1<f2 (f2 may be "no fix"); {[0,f),[f,next(f))}, {[0,f),[f,no fix)} for f in ladder
//	pairs thorough: every unordered pair of distinct singles
func (b Bounds) VulnSets(pkg string) [][]Vuln {
	l := b.Ladder
	var singles []Vuln
	for _, f := range l {
		singles = append(singles, Vuln{Pkg: pkg, Introduced: "0", Fixed: f})
	}
	singles = append(singles, Vuln{Pkg: pkg, Introduced: "0"})
	if b.Thorough {
		for i, in := range l {
			for _, f := range l[i+1:] {
				singles = append(singles, Vuln{Pkg: pkg, Introduced: in, Fixed: f})
			}
			singles = append(singles, Vuln{Pkg: pkg, Introduced: in})
		}
	}
	var out [][]Vuln
	for _, s := range singles {
		s.ID = "V1"
		out = append(out, []Vuln{s})
	}
	pair := func(a, c Vuln) {
		a.ID, c.ID = "V1", "V2"
		out = append(out, []Vuln{a, c})
	}
	if b.Thorough {
		for i := range singles {
			for j := i + 1; j < len(singles); j++ {
				pair(singles[i], singles[j])
			}
		}
		return out
	}
	n := len(l) + 1 // singles[0..n) are the [0,f) records, last = no fix
	for i := 0; i < n; i++ {
		for j := i + 1; j < n; j++ {
			pair(singles[i], singles[j])
		}
	}
	for i, f := range l {
		if i+1 < len(l) {
			pair(singles[i], Vuln{Pkg: pkg, Introduced: f, Fixed: l[i+1]})
		}
		pair(singles[i], Vuln{Pkg: pkg, Introduced: f})
	}
	return out
}

var levelNames = []string{"major", "minor", "patch", "none"}

// CfgSets: upgrade configurations over the given packages.
//
//	quick:    the 4 defaults; per package p: (major,p:none) (none,p:major) (patch,p:minor) (minor,p:patch)
//	thorough: default in 4 levels x (no override | p:level for every p and every level != default)
func (b Bounds) CfgSets(pkgs []string) [][]string {
	var out [][]string
	for _, d := range levelNames {
		out = append(out, []string{d})
	}
	if b.Thorough {
		for _, d := range levelNames {
			for _, p := range pkgs {
				for _, l := range levelNames {
					if l != d {
						out = append(out, []string{d, p + ":" + l})
					}
				}
			}
		}
		return out
	}
	for _, p := range pkgs {
		out = append(out, []string{"major", p + ":none"}, []string{"none", p + ":major"}, []string{"patch", p + ":minor"}, []string{"minor", p + ":patch"})
	}
	return out
}

func cat(a [][]Vuln, bs ...[][]Vuln) [][]Vuln {
	out := append([][]Vuln{}, a...)
	for _, b := range bs {
		out = append(out, b...)
	}
	return out
}

// GenFix enumerates the FixVulns tuples of an ecosystem, simplest first. The
// callback must not retain the *Case beyond the call unless it copies it (the
// slices inside are freshly allocated per case, so a shallow copy suffices).
//
// Shapes (every loop is a full product):
//
//	solo     manifest {d1: R}; d1 publishes S; vulns on d1
//	         S in Subsets(ladder, MaxVers) x R in manifestReqs x VulnSets(d1) x CfgSets(d1)
//	chainT   manifest {d1: 1.0.0}; d1@1.0.0 -> t1@E; t1 publishes T; vulns on t1
//	         T in Subsets(ladder, MaxVers) x E in edgeReqs x VulnSets(t1) x CfgSets(d1,t1)
//	chainD   manifest {d1: R}; d1 publishes D; t1 publishes {1.0.0,2.0.0}; d1's i-th version pins t1@1.0.0 if bit i
//	         of mask is set, else t1@2.0.0; vulns: {t1 [0,2.0.0)}, {t1 [0,nofix)}, {t1 [0,2.0.0), t1 [2.0.0,nofix)},
//	         and for every f in D: {t1 [0,2.0.0), d1 [0,f)}
//	         D in Subsets(ladder, MaxVers) x mask in 1..2^|D|-1 x R in manifestReqs x vulns x CfgSets(d1,t1)
//	diamondT manifest {d1: 1.0.0, d2: 1.0.0}; d1@1.0.0 -> t1@a, d2@1.0.0 -> t1@b; t1 publishes T; single-record vulns on t1
//	         T in Subsets(ladder, min(MaxVers,3)) x a,b in T (pins; plus (^a | [a,)), b) x singles(t1) x CfgSets(t1)
//	diamondD manifest {d1: R1, d2: R2}; d1, d2 publish {1.0.0,1.1.0,2.0.0}[:n1], [:n2] (n in 1..3), masks as in chainD;
//	         R in {pin 1.0.0, caret/range 1.0.0}; vulns {t1 [0,2.0.0)}, {t1 [0,nofix)}; CfgSets(d1,d2)
//	two      manifest {d1: 1.0.0, d2: 1.0.0}; d1@1.0.0 -> t1@1.0.0, d2@1.0.0 -> t2@1.0.0; t1, t2 publish T1, T2 in
//	         Subsets(first 3 (thorough 4) ladder versions, 2) containing... any; vulns {t1 [0,f1), t2 [0,f2)} f in ladder[1:3]; CfgSets(t1,t2)
//	chain2   manifest {d1: R}; d1@v -> t1@1.0.0 -> ... t1@1.0.0 -> t2@1.0.0, t1@1.0.1 -> t2@1.0.1; d1 publishes {1.0.0,1.0.1};
//	         d1@1.0.0 -> t1@1.0.0, d1@1.0.1 -> t1@1.0.1; vulns {t2 [0,1.0.1)}, {t1 [0,1.0.1)}, both; R in {1.0.0, ^/[ 1.0.0}; CfgSets(d1,t1,t2)
func (b Bounds) GenFix(eco string, emit func(*Case)) {
	l := b.Ladder
	subs := Subsets(l, b.MaxVers)
	mreqs := b.manifestReqs(eco)
	mk := func(shape string, pkgs []Pkg, man []Req, vs []Vuln, cfg []string) {
		emit(&Case{Eco: eco, Shape: shape, Pkgs: pkgs, Manifest: man, Vulns: append([]Vuln(nil), vs...), Cfg: cfg})
	}

	// solo
	vsD1 := b.VulnSets("d1")
	cfgD1 := b.CfgSets([]string{"d1"})
	for _, s := range subs {
		for _, r := range mreqs {
			for _, vs := range vsD1 {
				for _, cfg := range cfgD1 {
					mk("solo", []Pkg{{Name: "d1", Vers: plainVers(s)}}, []Req{{Name: "d1", Req: r.Req, Prop: r.Prop}}, vs, cfg)
				}
			}
		}
	}

	// chainT
	vsT1 := b.VulnSets("t1")
	cfgDT := b.CfgSets([]string{"d1", "t1"})
	for _, t := range subs {
		for _, e := range b.edgeReqs(eco) {
			for _, vs := range vsT1 {
				for _, cfg := range cfgDT {
					mk("chainT", []Pkg{
						{Name: "d1", Vers: []Ver{{V: "1.0.0", Deps: []Dep{{Name: "t1", Req: e}}}}},
						{Name: "t1", Vers: plainVers(t)},
					}, []Req{{Name: "d1", Req: "1.0.0"}}, vs, cfg)
				}
			}
		}
	}

	// chainD
	t12 := []string{"1.0.0", "2.0.0"}
	maskVers := func(d []string, mask int) []Ver {
		out := make([]Ver, len(d))
		for i, v := range d {
			req := "2.0.0"
			if mask&(1<<i) != 0 {
				req = "1.0.0"
			}
			out[i] = Ver{V: v, Deps: []Dep{{Name: "t1", Req: req}}}
		}
		return out
	}
	baseT := [][]Vuln{
		{{ID: "V1", Pkg: "t1", Introduced: "0", Fixed: "2.0.0"}},
		{{ID: "V1", Pkg: "t1", Introduced: "0"}},
		{{ID: "V1", Pkg: "t1", Introduced: "0", Fixed: "2.0.0"}, {ID: "V2", Pkg: "t1", Introduced: "2.0.0"}},
	}
	for _, d := range subs {
		vsets := append([][]Vuln{}, baseT...)
		for _, f := range d {
			vsets = append(vsets, []Vuln{{ID: "V1", Pkg: "t1", Introduced: "0", Fixed: "2.0.0"}, {ID: "V2", Pkg: "d1", Introduced: "0", Fixed: f}})
		}
		for mask := 1; mask < 1<<len(d); mask++ {
			for _, r := range mreqs {
				for _, vs := range vsets {
					for _, cfg := range cfgDT {
						mk("chainD", []Pkg{{Name: "d1", Vers: maskVers(d, mask)}, {Name: "t1", Vers: plainVers(t12)}},
							[]Req{{Name: "d1", Req: r.Req, Prop: r.Prop}}, vs, cfg)
					}
				}
			}
		}
	}

	// diamondT
	k := b.MaxVers
	if k > 3 {
		k = 3
	}
	cfgT := b.CfgSets([]string{"t1"})
	var singlesT [][]Vuln
	for _, vs := range vsT1 {
		if len(vs) == 1 {
			singlesT = append(singlesT, vs)
		}
	}
	for _, t := range Subsets(l, k) {
		var as []string
		as = append(as, t...)
		for _, a := range t {
			if eco == NPM {
				as = append(as, "^"+a)
			} else {
				as = append(as, "["+a+",)")
			}
		}
		for _, a := range as {
			for _, bb := range t {
				for _, vs := range singlesT {
					for _, cfg := range cfgT {
						mk("diamondT", []Pkg{
							{Name: "d1", Vers: []Ver{{V: "1.0.0", Deps: []Dep{{Name: "t1", Req: a}}}}},
							{Name: "d2", Vers: []Ver{{V: "1.0.0", Deps: []Dep{{Name: "t1", Req: bb}}}}},
							{Name: "t1", Vers: plainVers(t)},
						}, []Req{{Name: "d1", Req: "1.0.0"}, {Name: "d2", Req: "1.0.0"}}, vs, cfg)
					}
				}
			}
		}
	}

	// diamondD
	d3 := []string{"1.0.0", "1.1.0", "2.0.0"}
	loose := "^1.0.0"
	if eco == Maven {
		loose = "[1.0.0,2.0.0)"
	}
	cfgDD := b.CfgSets([]string{"d1", "d2"})
	for n1 := 1; n1 <= 3; n1++ {
		for n2 := 1; n2 <= 3; n2++ {
			for m1 := 1; m1 < 1<<n1; m1++ {
				for m2 := 1; m2 < 1<<n2; m2++ {
					for _, r1 := range []string{"1.0.0", loose} {
						for _, r2 := range []string{"1.0.0", loose} {
							for _, vs := range baseT[:2] {
								for _, cfg := range cfgDD {
									v2 := maskVers(d3[:n2], m2)
									mk("diamondD", []Pkg{{Name: "d1", Vers: maskVers(d3[:n1], m1)}, {Name: "d2", Vers: v2}, {Name: "t1", Vers: plainVers(t12)}},
										[]Req{{Name: "d1", Req: r1}, {Name: "d2", Req: r2}}, vs, cfg)
								}
							}
						}
					}
				}
			}
		}
	}

	// two
	nl := 3
	if b.Thorough {
		nl = 4
	}
	cfgTT := b.CfgSets([]string{"t1", "t2"})
	for _, t1 := range Subsets(l[:nl], 2) {
		for _, t2 := range Subsets(l[:nl], 2) {
			for _, f1 := range l[1:3] {
				for _, f2 := range l[1:3] {
					for _, cfg := range cfgTT {
						mk("two", []Pkg{
							{Name: "d1", Vers: []Ver{{V: "1.0.0", Deps: []Dep{{Name: "t1", Req: "1.0.0"}}}}},
							{Name: "d2", Vers: []Ver{{V: "1.0.0", Deps: []Dep{{Name: "t2", Req: "1.0.0"}}}}},
							{Name: "t1", Vers: plainVers(t1)}, {Name: "t2", Vers: plainVers(t2)},
						}, []Req{{Name: "d1", Req: "1.0.0"}, {Name: "d2", Req: "1.0.0"}},
							[]Vuln{{ID: "V1", Pkg: "t1", Introduced: "0", Fixed: f1}, {ID: "V2", Pkg: "t2", Introduced: "0", Fixed: f2}}, cfg)
					}
				}
			}
		}
	}

	// chain2
	cfg3 := b.CfgSets([]string{"d1", "t1", "t2"})
	c2v := [][]Vuln{
		{{ID: "V1", Pkg: "t2", Introduced: "0", Fixed: "1.0.1"}},
		{{ID: "V1", Pkg: "t1", Introduced: "0", Fixed: "1.0.1"}},
		{{ID: "V1", Pkg: "t2", Introduced: "0", Fixed: "1.0.1"}, {ID: "V2", Pkg: "t1", Introduced: "0", Fixed: "1.0.1"}},
	}
	loose2 := "^1.0.0"
	if eco == Maven {
		loose2 = "[1.0.0,)"
	}
	for _, r := range []string{"1.0.0", loose2} {
		for _, vs := range c2v {
			for _, cfg := range cfg3 {
				mk("chain2", []Pkg{
					{Name: "d1", Vers: []Ver{{V: "1.0.0", Deps: []Dep{{Name: "t1", Req: "1.0.0"}}}, {V: "1.0.1", Deps: []Dep{{Name: "t1", Req: "1.0.1"}}}}},
					{Name: "t1", Vers: []Ver{{V: "1.0.0", Deps: []Dep{{Name: "t2", Req: "1.0.0"}}}, {V: "1.0.1", Deps: []Dep{{Name: "t2", Req: "1.0.1"}}}}},
					{Name: "t2", Vers: plainVers([]string{"1.0.0", "1.0.1"})},
				}, []Req{{Name: "d1", Req: r}}, vs, cfg)
			}
		}
	}
}

// GenUpdate enumerates the Maven Update tuples, simplest first.
//
//	solo   manifest {d1: R}; d1 publishes S
//	       S in Subsets(ladder, MaxVers) x R in manifestReqs(Maven) + "[a]" x CfgSets(d1)
//	pair   manifest {d1: R1, d2: R2}; d1 publishes S1, d2 publishes S2; R1, R2 soft or sharing one property
//	       S1, S2 in Subsets(ladder, 2) x (a1,a2 in ladder[:4] soft/soft | one shared property a) x CfgSets(d1,d2)
func (b Bounds) GenUpdate(emit func(*Case)) {
	l := b.Ladder
	reqs := b.manifestReqs(Maven)
	if !b.Thorough {
		for _, a := range l {
			reqs = append(reqs, reqStyle{Req: "[" + a + "]"})
		}
	}
	for _, s := range Subsets(l, b.MaxVers) {
		for _, r := range reqs {
			for _, cfg := range b.CfgSets([]string{"d1"}) {
				emit(&Case{Eco: Maven, Shape: "update-solo", Pkgs: []Pkg{{Name: "d1", Vers: plainVers(s)}}, Manifest: []Req{{Name: "d1", Req: r.Req, Prop: r.Prop}}, Cfg: cfg})
			}
		}
	}
	type pr struct{ r1, r2 Req }
	var prs []pr
	for _, a1 := range l[:4] {
		for _, a2 := range l[:4] {
			prs = append(prs, pr{Req{Name: "d1", Req: a1}, Req{Name: "d2", Req: a2}})
		}
	}
	for _, a := range l[:4] {
		prs = append(prs, pr{Req{Name: "d1", Req: a, Prop: "lib.version"}, Req{Name: "d2", Req: a, Prop: "lib.version"}})
		prs = append(prs, pr{Req{Name: "d1", Req: a, Prop: "lib.version"}, Req{Name: "d2", Req: a, Prop: "lib.version", Dev: true}})
	}
	s2 := Subsets(l, 2)
	for _, s1 := range s2 {
		for _, sb := range s2 {
			for _, p := range prs {
				for _, cfg := range b.CfgSets([]string{"d1", "d2"}) {
					emit(&Case{Eco: Maven, Shape: "update-pair", Pkgs: []Pkg{{Name: "d1", Vers: plainVers(s1)}, {Name: "d2", Vers: plainVers(sb)}}, Manifest: []Req{p.r1, p.r2}, Cfg: cfg})
				}
			}
		}
	}
}

// Describe renders the parameter lists of the tier.
func (b Bounds) Describe() string {
	var sb strings.Builder
	fmt.Fprintf(&sb, "ladder=%v; <=%d published versions per package (%d version sets); ", b.Ladder, b.MaxVers, len(Subsets(b.Ladder, b.MaxVers)))
	rs := func(eco string) []string {
		var o []string
		for _, r := range b.manifestReqs(eco) {
			if r.Prop != "" {
				o = append(o, "${p}="+r.Req)
			} else {
				o = append(o, r.Req)
			}
		}
		return o
	}
	fmt.Fprintf(&sb, "manifest requirements npm=%v Maven=%v; ", rs(NPM), rs(Maven))
	fmt.Fprintf(&sb, "edge requirements npm=%v Maven=%v; ", b.edgeReqs(NPM), b.edgeReqs(Maven))
	fmt.Fprintf(&sb, "vuln sets per package=%d (1-2 records [introduced,fixed|nofix) over the ladder); ", len(b.VulnSets("x")))
	fmt.Fprintf(&sb, "upgrade configs: %d for 1 package, %d for 2 (default level x one per-package override)", len(b.CfgSets([]string{"a"})), len(b.CfgSets([]string{"a", "b"})))
	return sb.String()
}
