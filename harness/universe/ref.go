package universe

import (
	"context"
	"errors"
	"fmt"
	"sort"

	"deps.dev/util/resolve"
	mavenresolve "deps.dev/util/resolve/maven"
	npmresolve "deps.dev/util/resolve/npm"
	"github.com/google/osv-scalibr/guidedremediation"
)

// Reference analysis: which vulnerabilities a manifest has, computed WITHOUT the repository's resolution /
// vulnerability / sub-graph / filter code. It uses only
//   - the repository's manifest reader (to obtain the root and its requirements; checked by C13),
//   - the deps.dev resolvers (npm / Maven) directly on a client that serves the root, written here,
//   - the repository's IsAffected predicate (checked by C18),
// and re-implements graph distance, dev-only reachability and the option filters from their documentation.

// refClient serves the manifest root on top of the registry client.
type refClient struct {
	resolve.Client
	root resolve.Version
	reqs []resolve.RequirementVersion
}

func (c refClient) Version(ctx context.Context, vk resolve.VersionKey) (resolve.Version, error) {
	if vk == c.root.VersionKey {
		return c.root, nil
	}
	return c.Client.Version(ctx, vk)
}

func (c refClient) Versions(ctx context.Context, pk resolve.PackageKey) ([]resolve.Version, error) {
	if pk == c.root.PackageKey {
		return []resolve.Version{c.root}, nil
	}
	return c.Client.Versions(ctx, pk)
}

func (c refClient) Requirements(ctx context.Context, vk resolve.VersionKey) ([]resolve.RequirementVersion, error) {
	if vk == c.root.VersionKey {
		return append([]resolve.RequirementVersion(nil), c.reqs...), nil
	}
	return c.Client.Requirements(ctx, vk)
}

func (c refClient) MatchingVersions(ctx context.Context, vk resolve.VersionKey) ([]resolve.Version, error) {
	if vk.PackageKey == c.root.PackageKey {
		return resolve.MatchRequirement(vk, []resolve.Version{c.root}), nil
	}
	return c.Client.MatchingVersions(ctx, vk)
}

// RefVuln is what the reference analysis knows about one vulnerability id of a manifest.
type RefVuln struct {
	MinDepth int  // shortest root distance of an affected node (a direct dependency is at 1)
	DevOnly  bool // every affected node is reachable from dev/test direct dependencies only
}

// ErrRefUnresolvable: the manifest does not resolve (graph-wide error); no reference is available.
var ErrRefUnresolvable = errors.New("reference: manifest does not resolve")

// RefAnalyse computes the unfiltered reference analysis of a parsed manifest of the case.
// devKnown=false means the dev-only flags could not be determined (a package is declared more than once
// in the case's manifest, so the dev flag of a root edge is ambiguous).
func (c *Case) RefAnalyse(m guidedremediation.VerifManifest) (vulns map[string]RefVuln, devKnown bool, err error) {
	base, err := c.Client()
	if err != nil {
		return nil, false, err
	}
	cl := refClient{Client: base, root: m.Root(), reqs: m.Requirements()}
	var r resolve.Resolver
	if c.Eco == Maven {
		r = mavenresolve.NewResolver(cl)
	} else {
		r = npmresolve.NewResolver(cl)
	}
	g, err := r.Resolve(context.Background(), m.Root().VersionKey)
	if err != nil {
		return nil, false, fmt.Errorf("%w: %v", ErrRefUnresolvable, err)
	}
	if g.Error != "" {
		return nil, false, fmt.Errorf("%w: %s", ErrRefUnresolvable, g.Error)
	}
	n := len(g.Nodes)
	adj := make([][]int, n)
	for _, e := range g.Edges {
		if e.From != e.To {
			adj[e.From] = append(adj[e.From], int(e.To))
		}
	}
	// distances from the root
	dist := make([]int, n)
	for i := range dist {
		dist[i] = -1
	}
	dist[0] = 0
	for q := []int{0}; len(q) > 0; q = q[1:] {
		for _, t := range adj[q[0]] {
			if dist[t] < 0 {
				dist[t] = dist[q[0]] + 1
				q = append(q, t)
			}
		}
	}
	// dev flag per direct dependency name, from the case's manifest
	devKnown = true
	devOf := map[string]bool{}
	for _, q := range c.Manifest {
		if q.Origin != "" {
			continue
		}
		name := c.Full(q.Name)
		if _, dup := devOf[name]; dup {
			devKnown = false
		}
		devOf[name] = q.Dev
	}
	for _, q := range c.Manifest {
		if q.Origin != "" {
			if _, also := devOf[c.Full(q.Name)]; also {
				devKnown = false // declared under two origins: scopes merge in ways the reference does not model
			}
		}
	}
	// reach[d] = nodes reachable from direct dependency node d (including d)
	type direct struct {
		node int
		dev  bool
	}
	var directs []direct
	for _, t := range adj[0] {
		directs = append(directs, direct{t, devOf[g.Nodes[t].Version.Name]})
	}
	reach := func(from int) []bool {
		seen := make([]bool, n)
		seen[from] = true
		for st := []int{from}; len(st) > 0; {
			x := st[len(st)-1]
			st = st[:len(st)-1]
			for _, t := range adj[x] {
				if !seen[t] {
					seen[t] = true
					st = append(st, t)
				}
			}
		}
		return seen
	}
	reaches := make([][]bool, len(directs))
	for i, d := range directs {
		reaches[i] = reach(d.node)
	}
	recs := c.OSV()
	vulns = map[string]RefVuln{}
	for i := 1; i < n; i++ {
		if dist[i] < 0 {
			continue
		}
		pkg := guidedremediation.VerifVKToPackage(g.Nodes[i].Version)
		nodeDevOnly := true
		for k, d := range directs {
			if reaches[k][i] && !d.dev {
				nodeDevOnly = false
			}
		}
		for _, rec := range recs {
			if !guidedremediation.VerifIsAffected(rec, pkg) {
				continue
			}
			cur, ok := vulns[rec.ID]
			if !ok {
				cur = RefVuln{MinDepth: dist[i], DevOnly: true}
			}
			if dist[i] < cur.MinDepth {
				cur.MinDepth = dist[i]
			}
			cur.DevOnly = cur.DevOnly && nodeDevOnly
			vulns[rec.ID] = cur
		}
	}
	return vulns, devKnown, nil
}

// RefFiltered applies the case's filter options to a reference analysis, as documented in
// options.RemediationOptions: ignore list, explicit list ("only consider these"), dev dependencies off
// (dev-only vulnerabilities dropped), minimum severity (known CVSS score below the threshold dropped),
// maximum depth (kept if some affected package is within the depth). ok=false if the options need
// information the reference does not have (dev flags unknown).
func (c *Case) RefFiltered(vulns map[string]RefVuln, devKnown bool) (ids []string, ok bool) {
	if c.Opt.NoDevDeps && !devKnown {
		return nil, false
	}
	sev := map[string]string{}
	for _, v := range c.Vulns {
		sev[v.ID] = v.Sev
	}
	in := func(l []string, id string) bool {
		for _, x := range l {
			if x == id {
				return true
			}
		}
		return false
	}
	for id, v := range vulns {
		switch {
		case in(c.Opt.Ignore, id):
		case len(c.Opt.Explicit) > 0 && !in(c.Opt.Explicit, id):
		case c.Opt.NoDevDeps && v.DevOnly:
		case c.Opt.MinSeverity > 0 && ((sev[id] == "low" && c.Opt.MinSeverity > 1.8) || (sev[id] == "high" && c.Opt.MinSeverity > 9.8)):
		case c.Opt.MaxDepth > 0 && v.MinDepth > c.Opt.MaxDepth:
		default:
			ids = append(ids, id)
		}
	}
	sort.Strings(ids)
	return ids, true
}
