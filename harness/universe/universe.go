// Package universe generates small, fully described dependency universes for the
// guided-remediation checks (C11, C12): a deps.dev schema (-> in-memory resolve
// client), OSV records (-> in-memory vulnerability matcher), a manifest
// (package.json / pom.xml) and an upgrade configuration. A Case is plain data
// (JSON-serialisable) and is its own replay description.
//
// Everything is built only with -tags verif (uses guidedremediation.VerifIsAffected).
package universe

import (
	"context"
	"fmt"
	"sort"
	"strconv"
	"strings"

	"deps.dev/util/resolve"
	"deps.dev/util/resolve/schema"
	"github.com/google/osv-scalibr/extractor"
	"github.com/google/osv-scalibr/guidedremediation"
	"github.com/google/osv-scalibr/guidedremediation/upgrade"
	"github.com/ossf/osv-schema/bindings/go/osvschema"
)

// Ecosystems.
const (
	NPM   = "npm"
	Maven = "maven"
)

// Dep is a dependency edge of a published package version.
type Dep struct {
	Name string `json:"n"` // short name (d1, t1, ...)
	Req  string `json:"r"` // requirement in the ecosystem's syntax
}

// Ver is one published version of a package.
type Ver struct {
	V    string `json:"v"`
	Deps []Dep  `json:"deps,omitempty"`
}

// Pkg is a registry package.
type Pkg struct {
	Name string `json:"name"`
	Vers []Ver  `json:"vers"`
}

// Req is a direct requirement of the manifest.
type Req struct {
	Name string `json:"name"`
	Req  string `json:"req"`
	Dev  bool   `json:"dev,omitempty"`  // devDependencies / <scope>test</scope>
	Prop string `json:"prop,omitempty"` // Maven only: version is written as ${Prop}, property Prop = Req
	// Maven only: where the requirement is declared ("" = <dependencies>, see the Origin* constants), and
	// whether the <version> element is omitted (a direct dependency whose version comes from dependencyManagement).
	Origin    string `json:"origin,omitempty"`
	NoVersion bool   `json:"noVersion,omitempty"`
	// Maven only: the version is written as ${Prop} but the property is NOT defined in this pom (it is inherited
	// from the local parent); Req still holds the value for documentation.
	PropInherited bool `json:"propInherited,omitempty"`
	// npm only: the dependency is declared under this alias: "<Alias>": "npm:<Name>@<Req>".
	Alias string `json:"alias,omitempty"`
	// Maven only: <classifier>/<type> of the dependency, so that one package can legally be required twice.
	Classifier string `json:"classifier,omitempty"`
	Type       string `json:"type,omitempty"`
}

// Prop is a Maven property.
type Prop struct {
	Name  string `json:"name"`
	Value string `json:"value"`
}

// ParentPom is a local parent pom: extra properties plus requirements (a requirement with Prop set defines that
// property in the parent, like in the child).
type ParentPom struct {
	Props []Prop `json:"props,omitempty"`
	Reqs  []Req  `json:"reqs,omitempty"`
}

// Vuln is one OSV record affecting a single package in [Introduced, Fixed) (no Fixed = forever).
type Vuln struct {
	ID         string `json:"id"`
	Pkg        string `json:"pkg"`
	Introduced string `json:"introduced"` // "0" or a version
	Fixed      string `json:"fixed,omitempty"`
	Sev        string `json:"sev,omitempty"` // "", "high" (9.8), "low" (1.8)
	// Introduced2, if set, re-opens the range after Fixed: affected in [Introduced, Fixed) and in [Introduced2, forever).
	Introduced2 string `json:"introduced2,omitempty"`
	// More are further affected[] entries of the SAME record for the SAME package (one entry per release branch).
	More []Entry `json:"more,omitempty"`
	// Versions is an explicit `versions` list of the affected entry (next to the range); EntrySev puts the severity
	// on the affected entry instead of the record's top level.
	Versions []string `json:"versions,omitempty"`
	EntrySev bool     `json:"entrySev,omitempty"`
}

// Entry is an additional affected[] entry of a Vuln: a range [Introduced, Fixed) (no Fixed = forever; no
// Introduced = no range at all) and/or an explicit versions list.
type Entry struct {
	Introduced string   `json:"introduced,omitempty"`
	Fixed      string   `json:"fixed,omitempty"`
	Versions   []string `json:"versions,omitempty"`
}

// Opts are the FixVulns filter options of a case (C12); the zero value plus DevDeps=true, MaxDepth=-1 is the default.
type Opts struct {
	Ignore      []string `json:"ignore,omitempty"`
	Explicit    []string `json:"explicit,omitempty"`
	NoDevDeps   bool     `json:"noDevDeps,omitempty"`
	MaxDepth    int      `json:"maxDepth,omitempty"` // 0 = unlimited
	MinSeverity float64  `json:"minSeverity,omitempty"`
	NoIntroduce bool     `json:"noIntroduce,omitempty"`
	Name        string   `json:"name,omitempty"`
}

// Case is one (universe, manifest, vulnerabilities, upgrade configuration, options) tuple.
type Case struct {
	Eco      string   `json:"eco"`
	Shape    string   `json:"shape,omitempty"` // informational: which generator family produced it
	Pkgs     []Pkg    `json:"pkgs"`
	Manifest []Req    `json:"manifest"`
	Vulns    []Vuln   `json:"vulns,omitempty"`
	Cfg      []string `json:"cfg,omitempty"` // "level" (default) or "pkg:level", level in major|minor|patch|none
	// Names optionally maps short package names to the registry names used everywhere (schema, manifest, OSV
	// records, upgrade config), e.g. d1 -> "JSONStream" / "com.zaxxer:HikariCP"; unmapped names use FullName.
	Names map[string]string `json:"names,omitempty"`
	// Parent, if set (Maven only), is a local parent pom written next to the manifest as parent.xml and referenced
	// by <parent><relativePath>parent.xml</relativePath>; its properties and requirements are inherited.
	Parent *ParentPom `json:"parent,omitempty"`
	// CfgRoute selects how UpgradeConfig builds the upgrade.Config: "" = Config.Set / SetDefault,
	// "strings" = upgrade.NewConfigFromStrings (the route a command line takes) with the default as a bare "level",
	// "strings-colon" = the same with the default spelled ":level", "strings-rev" = per-package entries before the default.
	CfgRoute string `json:"cfgRoute,omitempty"`
	Opt      Opts   `json:"opt"`
}

// FullName maps a short package name to the registry name of the ecosystem.
func FullName(eco, short string) string {
	if eco == Maven {
		return "g:" + short
	}
	return short
}

// Full maps a short package name of the case to its registry name (Names override, else FullName).
func (c *Case) Full(short string) string {
	if n, ok := c.Names[short]; ok {
		return n
	}
	return FullName(c.Eco, short)
}

// ShortName is the inverse of FullName.
func ShortName(eco, full string) string {
	if eco == Maven {
		return strings.TrimPrefix(full, "g:")
	}
	return full
}

// System returns the resolve.System of the case.
func (c *Case) System() resolve.System {
	if c.Eco == Maven {
		return resolve.Maven
	}
	return resolve.NPM
}

// SchemaText renders the registry as deps.dev schema text.
func (c *Case) SchemaText() string {
	var b strings.Builder
	for _, p := range c.Pkgs {
		b.WriteString(c.Full(p.Name))
		b.WriteByte('\n')
		for _, v := range p.Vers {
			b.WriteString("\t" + v.V + "\n")
			for _, d := range v.Deps {
				b.WriteString("\t\t" + c.Full(d.Name) + "@" + d.Req + "\n")
			}
		}
	}
	return b.String()
}

// Client builds a fresh in-memory resolve client for the registry.
func (c *Case) Client() (resolve.Client, error) {
	s, err := schema.New(c.SchemaText(), c.System())
	if err != nil {
		return nil, err
	}
	return s.NewClient(), nil
}

// ManifestName is the file name of the manifest.
func (c *Case) ManifestName() string {
	if c.Eco == Maven {
		return "pom.xml"
	}
	return "package.json"
}

// ManifestBytes renders the manifest file.
func (c *Case) ManifestBytes() []byte {
	if c.Eco == Maven {
		return c.pomXML()
	}
	return c.packageJSON()
}

func (c *Case) packageJSON() []byte {
	var b strings.Builder
	b.WriteString("{\n  \"name\": \"root\",\n  \"version\": \"1.0.0\"")
	sect := func(key string, dev bool) {
		var lines []string
		for _, r := range c.Manifest {
			if r.Dev == dev {
				if r.Alias != "" {
					lines = append(lines, fmt.Sprintf("    %q: %q", r.Alias, "npm:"+c.Full(r.Name)+"@"+r.Req))
					continue
				}
				lines = append(lines, fmt.Sprintf("    %q: %q", c.Full(r.Name), r.Req))
			}
		}
		if len(lines) == 0 {
			return
		}
		b.WriteString(",\n  \"" + key + "\": {\n" + strings.Join(lines, ",\n") + "\n  }")
	}
	sect("dependencies", false)
	sect("devDependencies", true)
	b.WriteString("\n}\n")
	return []byte(b.String())
}

func (c *Case) pomXML() []byte {
	var b strings.Builder
	b.WriteString("<project>\n  <modelVersion>4.0.0</modelVersion>\n  <groupId>root</groupId>\n  <artifactId>root</artifactId>\n  <version>1.0.0</version>\n")
	if c.Parent != nil {
		b.WriteString("  <parent>\n    <groupId>root</groupId>\n    <artifactId>parent</artifactId>\n    <version>1.0.0</version>\n    <relativePath>./parent.xml</relativePath>\n  </parent>\n")
	}
	seen := map[string]bool{}
	var props []string
	for _, r := range c.Manifest {
		if r.Prop != "" && !seen[r.Prop] && !r.NoVersion && !r.PropInherited {
			seen[r.Prop] = true
			props = append(props, fmt.Sprintf("    <%s>%s</%s>\n", r.Prop, r.Req, r.Prop))
		}
	}
	if len(props) > 0 {
		b.WriteString("  <properties>\n" + strings.Join(props, "") + "  </properties>\n")
	}
	dep := func(r Req, indent string) string {
		ver := r.Req
		if r.Prop != "" {
			ver = "${" + r.Prop + "}"
		}
		grp, art, _ := strings.Cut(c.Full(r.Name), ":")
		o := indent + "<dependency>\n" + indent + "  <groupId>" + grp + "</groupId>\n" + indent + "  <artifactId>" + art + "</artifactId>\n"
		if !r.NoVersion {
			o += indent + "  <version>" + ver + "</version>\n"
		}
		if r.Classifier != "" {
			o += indent + "  <classifier>" + r.Classifier + "</classifier>\n"
		}
		if r.Type != "" {
			o += indent + "  <type>" + r.Type + "</type>\n"
		}
		if r.Dev {
			o += indent + "  <scope>test</scope>\n"
		}
		return o + indent + "</dependency>\n"
	}
	section := func(origin, indent string) string {
		o := ""
		for _, r := range c.Manifest {
			if r.Origin == origin {
				o += dep(r, indent)
			}
		}
		return o
	}
	b.WriteString("  <dependencies>\n" + section("", "    ") + "  </dependencies>\n")
	if m := section(OriginManagement, "      "); m != "" {
		b.WriteString("  <dependencyManagement>\n    <dependencies>\n" + m + "    </dependencies>\n  </dependencyManagement>\n")
	}
	pd, pm := section(OriginProfile, "        "), section(OriginProfileManagement, "          ")
	pi := section(OriginProfileInactive, "        ")
	pim := section(OriginProfileInactiveManagement, "          ")
	if pd != "" || pm != "" || pi != "" || pim != "" {
		b.WriteString("  <profiles>\n")
		if pd != "" || pm != "" {
			b.WriteString("    <profile>\n      <id>p1</id>\n      <activation>\n        <activeByDefault>true</activeByDefault>\n      </activation>\n")
			if pm != "" {
				b.WriteString("      <dependencyManagement>\n        <dependencies>\n" + pm + "        </dependencies>\n      </dependencyManagement>\n")
			}
			if pd != "" {
				b.WriteString("      <dependencies>\n" + pd + "      </dependencies>\n")
			}
			b.WriteString("    </profile>\n")
		}
		if pi != "" || pim != "" {
			b.WriteString("    <profile>\n      <id>p2</id>\n")
			if pim != "" {
				b.WriteString("      <dependencyManagement>\n        <dependencies>\n" + pim + "        </dependencies>\n      </dependencyManagement>\n")
			}
			if pi != "" {
				b.WriteString("      <dependencies>\n" + pi + "      </dependencies>\n")
			}
			b.WriteString("    </profile>\n")
		}
		b.WriteString("  </profiles>\n")
	}
	b.WriteString("</project>\n")
	return []byte(b.String())
}

// ParentBytes renders the local parent pom (nil if the case has none).
func (c *Case) ParentBytes() []byte {
	if c.Parent == nil {
		return nil
	}
	var b strings.Builder
	b.WriteString("<project>\n  <modelVersion>4.0.0</modelVersion>\n  <groupId>root</groupId>\n  <artifactId>parent</artifactId>\n  <version>1.0.0</version>\n  <packaging>pom</packaging>\n")
	var props []string
	seen := map[string]bool{}
	for _, p := range c.Parent.Props {
		if !seen[p.Name] {
			seen[p.Name] = true
			props = append(props, fmt.Sprintf("    <%s>%s</%s>\n", p.Name, p.Value, p.Name))
		}
	}
	for _, r := range c.Parent.Reqs {
		if r.Prop != "" && !seen[r.Prop] {
			seen[r.Prop] = true
			props = append(props, fmt.Sprintf("    <%s>%s</%s>\n", r.Prop, r.Req, r.Prop))
		}
	}
	if len(props) > 0 {
		b.WriteString("  <properties>\n" + strings.Join(props, "") + "  </properties>\n")
	}
	if len(c.Parent.Reqs) > 0 {
		b.WriteString("  <dependencies>\n")
		for _, r := range c.Parent.Reqs {
			grp, art, _ := strings.Cut(c.Full(r.Name), ":")
			ver := r.Req
			if r.Prop != "" {
				ver = "${" + r.Prop + "}"
			}
			b.WriteString("    <dependency>\n      <groupId>" + grp + "</groupId>\n      <artifactId>" + art + "</artifactId>\n      <version>" + ver + "</version>\n    </dependency>\n")
		}
		b.WriteString("  </dependencies>\n")
	}
	b.WriteString("</project>\n")
	return []byte(b.String())
}

// Where a Maven requirement is declared (Req.Origin); "" = the project's <dependencies>.
const (
	OriginManagement        = "management"         // <dependencyManagement>
	OriginProfile           = "profile"            // <dependencies> of a profile that is active by default
	OriginProfileManagement = "profile-management" // <dependencyManagement> of that profile
	OriginProfileInactive   = "profile-inactive"   // <dependencies> of a second profile that is not active
	// OriginProfileInactiveManagement: <dependencyManagement> of that inactive profile
	OriginProfileInactiveManagement = "profile-inactive-management"
)

// CVSS vectors for the severity option.
const (
	cvssHigh = "CVSS:3.1/AV:N/AC:L/PR:N/UI:N/S:U/C:H/I:H/A:H" // 9.8
	cvssLow  = "CVSS:3.1/AV:L/AC:H/PR:H/UI:R/S:U/C:L/I:N/A:N" // 1.8
)

// OSV renders the vulnerability records.
func (c *Case) OSV() []*osvschema.Vulnerability {
	eco := "npm"
	typ := osvschema.RangeSemVer
	if c.Eco == Maven {
		eco = "Maven"
		typ = osvschema.RangeEcosystem
	}
	var out []*osvschema.Vulnerability
	for _, v := range c.Vulns {
		ev := []osvschema.Event{{Introduced: v.Introduced}}
		if v.Fixed != "" {
			ev = append(ev, osvschema.Event{Fixed: v.Fixed})
			if v.Introduced2 != "" {
				ev = append(ev, osvschema.Event{Introduced: v.Introduced2})
			}
		}
		rec := &osvschema.Vulnerability{
			ID: v.ID,
			Affected: []osvschema.Affected{{
				Package: osvschema.Package{Ecosystem: eco, Name: c.Full(v.Pkg)},
				Ranges:  []osvschema.Range{{Type: typ, Events: ev}},
			}},
		}
		rec.Affected[0].Versions = append([]string(nil), v.Versions...)
		for _, e := range v.More {
			a := osvschema.Affected{Package: osvschema.Package{Ecosystem: eco, Name: c.Full(v.Pkg)}, Versions: append([]string(nil), e.Versions...)}
			if e.Introduced != "" {
				evs := []osvschema.Event{{Introduced: e.Introduced}}
				if e.Fixed != "" {
					evs = append(evs, osvschema.Event{Fixed: e.Fixed})
				}
				a.Ranges = []osvschema.Range{{Type: typ, Events: evs}}
			}
			rec.Affected = append(rec.Affected, a)
		}
		var sev []osvschema.Severity
		switch v.Sev {
		case "high":
			sev = []osvschema.Severity{{Type: osvschema.SeverityCVSSV3, Score: cvssHigh}}
		case "low":
			sev = []osvschema.Severity{{Type: osvschema.SeverityCVSSV3, Score: cvssLow}}
		}
		if v.EntrySev {
			for i := range rec.Affected { // every entry of the record carries the severity
				rec.Affected[i].Severity = sev
			}
		} else {
			rec.Severity = sev
		}
		out = append(out, rec)
	}
	return out
}

// Matcher is an in-memory matcher.VulnerabilityMatcher over OSV records; the
// affected predicate is the repository's own (checked separately by C18).
type Matcher struct{ Recs []*osvschema.Vulnerability }

// MatchVulnerabilities implements matcher.VulnerabilityMatcher.
func (m Matcher) MatchVulnerabilities(_ context.Context, pkgs []*extractor.Package) ([][]*osvschema.Vulnerability, error) {
	res := make([][]*osvschema.Vulnerability, len(pkgs))
	for i, p := range pkgs {
		for _, v := range m.Recs {
			if guidedremediation.VerifIsAffected(v, p) {
				res[i] = append(res[i], v)
			}
		}
	}
	return res, nil
}

// NewMatcher builds a fresh matcher for the case.
func (c *Case) NewMatcher() Matcher { return Matcher{Recs: c.OSV()} }

// Levels by name.
var levelByName = map[string]upgrade.Level{"major": upgrade.Major, "minor": upgrade.Minor, "patch": upgrade.Patch, "none": upgrade.None}

// UpgradeConfig builds the upgrade.Config from Cfg (short package names are mapped to registry names).
func (c *Case) UpgradeConfig() upgrade.Config {
	if strings.HasPrefix(c.CfgRoute, "strings") {
		// "strings": default as a bare level, then pkg:level entries; "strings-colon": the default spelled ":level"
		// (empty package name); "strings-rev": the per-package entries first, the default last.
		var def, pkgs []string
		for _, s := range c.Cfg {
			if i := strings.LastIndex(s, ":"); i >= 0 {
				pkgs = append(pkgs, c.Full(s[:i])+":"+s[i+1:])
			} else if c.CfgRoute == "strings-colon" {
				def = append(def, ":"+s)
			} else {
				def = append(def, s)
			}
		}
		if c.CfgRoute == "strings-rev" {
			return upgrade.NewConfigFromStrings(append(pkgs, def...))
		}
		return upgrade.NewConfigFromStrings(append(def, pkgs...))
	}
	cfg := upgrade.NewConfig()
	for _, s := range c.Cfg {
		if i := strings.LastIndex(s, ":"); i >= 0 {
			cfg.Set(c.Full(s[:i]), levelByName[s[i+1:]])
		} else {
			cfg.SetDefault(levelByName[s])
		}
	}
	return cfg
}

// Level is the configured level of a registry package name, computed from Cfg
// independently of upgrade.Config.Get: 0 major, 1 minor, 2 patch, 3 none.
func (c *Case) Level(fullName string) int {
	idx := map[string]int{"major": 0, "minor": 1, "patch": 2, "none": 3}
	def, got := 0, -1
	for _, s := range c.Cfg {
		if i := strings.LastIndex(s, ":"); i >= 0 {
			if c.Full(s[:i]) == fullName {
				got = idx[s[i+1:]]
			}
		} else {
			def = idx[s]
		}
	}
	if got >= 0 {
		return got
	}
	return def
}

// ---------------------------------------------------------------------------
// Reference version order for the plain ladder: x.y.z with an optional "-rc.N".

// V is a parsed ladder version.
type V struct {
	N   [3]int
	Pre int // -1 = release, otherwise the rc number
}

// ParseV parses x.y.z or x.y.z-rc.N.
func ParseV(s string) (V, bool) {
	v := V{Pre: -1}
	core := s
	if i := strings.Index(s, "-"); i >= 0 {
		core = s[:i]
		rest := s[i+1:]
		if !strings.HasPrefix(rest, "rc.") {
			return v, false
		}
		n, err := strconv.Atoi(rest[3:])
		if err != nil || n < 0 {
			return v, false
		}
		v.Pre = n
	}
	parts := strings.Split(core, ".")
	if len(parts) != 3 {
		return v, false
	}
	for i, p := range parts {
		n, err := strconv.Atoi(p)
		if err != nil || n < 0 {
			return v, false
		}
		v.N[i] = n
	}
	return v, true
}

// CmpV orders two parsed versions (a pre-release sorts before its release).
func CmpV(a, b V) int {
	for i := 0; i < 3; i++ {
		if a.N[i] != b.N[i] {
			if a.N[i] < b.N[i] {
				return -1
			}
			return 1
		}
	}
	switch {
	case a.Pre == b.Pre:
		return 0
	case a.Pre == -1:
		return 1
	case b.Pre == -1:
		return -1
	case a.Pre < b.Pre:
		return -1
	}
	return 1
}

// Cmp orders two ladder version strings; ok=false if either does not parse.
func Cmp(a, b string) (int, bool) {
	va, oka := ParseV(a)
	vb, okb := ParseV(b)
	if !oka || !okb {
		return 0, false
	}
	return CmpV(va, vb), true
}

// DiffLevel is the most significant numeric component in which a and b differ:
// 0 major, 1 minor, 2 patch, 3 only the pre-release tag (or equal).
func DiffLevel(a, b V) int {
	for i := 0; i < 3; i++ {
		if a.N[i] != b.N[i] {
			return i
		}
	}
	return 3
}

// SortVersions sorts version strings ascending in the reference order.
func SortVersions(vs []string) {
	sort.SliceStable(vs, func(i, j int) bool { c, _ := Cmp(vs[i], vs[j]); return c < 0 })
}

// ParseVLoose parses the Maven spellings of a ladder version that order EQUAL to it: missing or extra trailing
// ".0" components ("1.0", "1.0.0.0") and the release qualifiers "-ga", ".ga", "-final", ".Final", "-release"
// (case-insensitive), on top of what ParseV accepts.
func ParseVLoose(s string) (V, bool) {
	if v, ok := ParseV(s); ok {
		return v, true
	}
	low := strings.ToLower(s)
	for _, q := range []string{"-ga", ".ga", "-final", ".final", "-release", ".release"} {
		if strings.HasSuffix(low, q) {
			s = s[:len(s)-len(q)]
			break
		}
	}
	parts := strings.Split(s, ".")
	if len(parts) == 0 || len(parts) > 5 {
		return V{}, false
	}
	v := V{Pre: -1}
	for i, p := range parts {
		n, err := strconv.Atoi(p)
		if err != nil || n < 0 {
			return V{}, false
		}
		if i < 3 {
			v.N[i] = n
		} else if n != 0 {
			return V{}, false
		}
	}
	return v, true
}
