package universe

import (
	"context"
	"fmt"
	"os"
	"path/filepath"
	"sort"
	"time"

	"deps.dev/util/resolve"
	"deps.dev/util/resolve/dep"
	"github.com/google/osv-scalibr/guidedremediation"
	"github.com/google/osv-scalibr/guidedremediation/options"
	"github.com/google/osv-scalibr/guidedremediation/result"
	"github.com/google/osv-scalibr/guidedremediation/strategy"
	"github.com/google/osv-scalibr/guidedremediation/upgrade"
)

// Strategy of the case's ecosystem (npm -> relax, Maven -> override).
func (c *Case) Strategy() strategy.Strategy {
	if c.Eco == Maven {
		return strategy.StrategyOverride
	}
	return strategy.StrategyRelax
}

// ReadWriter returns a fresh manifest ReadWriter through the hook.
func (c *Case) ReadWriter() (guidedremediation.VerifReadWriter, error) {
	if c.Eco == Maven {
		return guidedremediation.VerifMavenReadWriter("")
	}
	return guidedremediation.VerifNpmReadWriter("")
}

// RemediationOptions builds the filter options + upgrade config of the case.
func (c *Case) RemediationOptions() options.RemediationOptions {
	o := options.RemediationOptions{
		IgnoreVulns:   append([]string(nil), c.Opt.Ignore...),
		ExplicitVulns: append([]string(nil), c.Opt.Explicit...),
		DevDeps:       !c.Opt.NoDevDeps,
		MinSeverity:   c.Opt.MinSeverity,
		MaxDepth:      c.Opt.MaxDepth,
		UpgradeConfig: c.UpgradeConfig(),
	}
	if o.MaxDepth == 0 {
		o.MaxDepth = -1
	}
	return o
}

// FixOptions builds FixVulnsOptions with fresh clients for the manifest at path.
func (c *Case) FixOptions(path string, maxUpgrades int) (options.FixVulnsOptions, error) {
	cl, err := c.Client()
	if err != nil {
		return options.FixVulnsOptions{}, err
	}
	return options.FixVulnsOptions{
		Manifest:           path,
		Strategy:           c.Strategy(),
		MaxUpgrades:        maxUpgrades,
		NoIntroduce:        c.Opt.NoIntroduce,
		MatcherClient:      c.NewMatcher(),
		ResolveClient:      cl,
		RemediationOptions: c.RemediationOptions(),
	}, nil
}

// AllNone is an upgrade configuration that forbids every upgrade.
func AllNone() upgrade.Config {
	cfg := upgrade.NewConfig()
	cfg.SetDefault(upgrade.None)
	return cfg
}

// PutManifest writes data as the case's manifest file into dir (created) and returns its path.
func (c *Case) PutManifest(dir string, data []byte) (string, error) {
	if err := os.MkdirAll(dir, 0o755); err != nil {
		return "", err
	}
	p := filepath.Join(dir, c.ManifestName())
	return p, os.WriteFile(p, data, 0o644)
}

// Materialise applies the package updates to the manifest bytes with the real
// manifest writer (through the hook) in dir and returns the written bytes.
func (c *Case) Materialise(dir string, base []byte, ups []result.PackageUpdate) ([]byte, error) {
	p, err := c.PutManifest(dir, base)
	if err != nil {
		return nil, err
	}
	if len(ups) == 0 {
		return base, nil
	}
	rw, err := c.ReadWriter()
	if err != nil {
		return nil, err
	}
	m, err := guidedremediation.VerifParseManifest(p, rw)
	if err != nil {
		return nil, fmt.Errorf("parse: %w", err)
	}
	if err := guidedremediation.VerifWriteManifestPatches(p, m, []result.Patch{{PackageUpdates: ups}}, rw); err != nil {
		return nil, fmt.Errorf("write: %w", err)
	}
	return os.ReadFile(p)
}

// Resolved is a parsed + resolved manifest.
type Resolved struct {
	Manifest guidedremediation.VerifManifest
	Graph    *resolve.Graph
}

// ResolveBytes writes data into dir, parses it with the real reader and resolves
// it with the real resolver against a fresh client of the case. If only the
// resolution fails the parsed manifest is still returned (Graph nil) with the error.
func (c *Case) ResolveBytes(dir string, data []byte) (*Resolved, error) {
	p, err := c.PutManifest(dir, data)
	if err != nil {
		return nil, err
	}
	rw, err := c.ReadWriter()
	if err != nil {
		return nil, err
	}
	m, err := guidedremediation.VerifParseManifest(p, rw)
	if err != nil {
		return nil, fmt.Errorf("parse: %w", err)
	}
	cl, err := c.Client()
	if err != nil {
		return nil, err
	}
	g, err := guidedremediation.VerifResolve(context.Background(), cl, m, options.ResolutionOptions{})
	if err != nil {
		// the manifest parsed but does not resolve: Graph is nil
		return &Resolved{Manifest: m}, fmt.Errorf("resolve: %w", err)
	}
	return &Resolved{Manifest: m, Graph: g}, nil
}

// VersionOf reports the concrete version the package resolves to in the graph:
// the node the root depends on directly if there is one, otherwise the unique
// node of that name. n is the number of candidate nodes considered (0 = the
// package is not in the graph; >1 = ambiguous, version is "").
func VersionOf(g *resolve.Graph, fullName string) (version string, n int) {
	if g == nil {
		return "", 0
	}
	direct := map[string]bool{}
	for _, e := range g.Edges {
		if e.From == 0 && g.Nodes[e.To].Version.Name == fullName {
			direct[g.Nodes[e.To].Version.Version] = true
		}
	}
	if len(direct) == 0 {
		for i, nd := range g.Nodes {
			if i != 0 && nd.Version.Name == fullName {
				direct[nd.Version.Version] = true
			}
		}
	}
	if len(direct) == 1 {
		for v := range direct {
			return v, 1
		}
	}
	return "", len(direct)
}

// ReqView is one requirement of a parsed manifest, flattened for comparison.
type ReqView struct {
	Name, Version, Origin string
}

// Requirements lists the manifest's requirements in a canonical order.
func Requirements(m guidedremediation.VerifManifest) []ReqView {
	var out []ReqView
	for _, r := range m.Requirements() {
		o, _ := r.Type.GetAttr(dep.MavenDependencyOrigin)
		out = append(out, ReqView{Name: r.Name, Version: r.Version, Origin: o})
	}
	sort.Slice(out, func(i, j int) bool {
		if out[i].Name != out[j].Name {
			return out[i].Name < out[j].Name
		}
		if out[i].Origin != out[j].Origin {
			return out[i].Origin < out[j].Origin
		}
		return out[i].Version < out[j].Version
	})
	return out
}

// Watchdog runs fn under a hang watchdog; ok=false if fn did not return within d
// (the goroutine is abandoned). A hang is a termination violation, so d is only
// ever a very large multiple of the normal cost.
func Watchdog(d time.Duration, fn func()) (ok bool) {
	done := make(chan struct{})
	go func() {
		defer close(done)
		fn()
	}()
	t := time.NewTimer(d)
	defer t.Stop()
	select {
	case <-done:
		return true
	case <-t.C:
		return false
	}
}

// RequirementOf returns the version string of the manifest's direct (non-management) requirement on
// fullName with the given Maven classifier / artifact type ("" for the plain jar); n is the number of
// such requirements (the version is only meaningful for n == 1).
func RequirementOf(m guidedremediation.VerifManifest, fullName, classifier, artType string) (version string, n int) {
	for _, r := range m.Requirements() {
		if r.Name != fullName {
			continue
		}
		if o, _ := r.Type.GetAttr(dep.MavenDependencyOrigin); o != "" {
			continue
		}
		cl, _ := r.Type.GetAttr(dep.MavenClassifier)
		at, _ := r.Type.GetAttr(dep.MavenArtifactType)
		if cl == classifier && at == artType {
			version = r.Version
			n++
		}
	}
	return version, n
}

// CountDirect is the number of direct (non-management) requirements of the manifest on fullName.
func CountDirect(m guidedremediation.VerifManifest, fullName string) int {
	n := 0
	for _, r := range m.Requirements() {
		if o, _ := r.Type.GetAttr(dep.MavenDependencyOrigin); r.Name == fullName && o == "" {
			n++
		}
	}
	return n
}

// Denoted is the concrete version a single requirement string on fullName stands for, taken on its own:
// a plain ladder version denotes itself (Maven soft requirement / npm pin); anything else denotes the
// highest registry version the case's client reports as matching. ok=false if nothing matches.
func (c *Case) Denoted(fullName, req string) (string, bool) {
	if _, ok := ParseV(req); ok {
		return req, true
	}
	cl, err := c.Client()
	if err != nil {
		return "", false
	}
	vs, err := cl.MatchingVersions(context.Background(), resolve.VersionKey{
		PackageKey:  resolve.PackageKey{System: c.System(), Name: fullName},
		VersionType: resolve.Requirement,
		Version:     req,
	})
	if err != nil || len(vs) == 0 {
		return "", false
	}
	best := ""
	for _, v := range vs {
		if best == "" {
			best = v.Version
			continue
		}
		if x, ok := Cmp(v.Version, best); ok && x > 0 {
			best = v.Version
		}
	}
	return best, true
}

// DirectVersionOf reports the version of the node the root depends on directly through an edge on
// fullName whose KnownAs attribute (npm alias; "" for a plain dependency) equals knownAs. n is the number
// of distinct such versions (the version is only meaningful for n == 1).
func DirectVersionOf(g *resolve.Graph, fullName, knownAs string) (version string, n int) {
	if g == nil {
		return "", 0
	}
	seen := map[string]bool{}
	for _, e := range g.Edges {
		if e.From != 0 || g.Nodes[e.To].Version.Name != fullName {
			continue
		}
		if ka, _ := e.Type.GetAttr(dep.KnownAs); ka != knownAs {
			continue
		}
		seen[g.Nodes[e.To].Version.Version] = true
	}
	for v := range seen {
		version = v
	}
	if len(seen) != 1 {
		version = ""
	}
	return version, len(seen)
}

// Files is the on-disk state of a case's manifest: the manifest itself and, for cases with a local parent
// pom, parent.xml next to it.
type Files struct {
	Main   []byte
	Parent []byte
}

// BaseFiles renders the case's original files.
func (c *Case) BaseFiles() Files { return Files{Main: c.ManifestBytes(), Parent: c.ParentBytes()} }

// PutFiles writes the files into dir and returns the manifest path.
func (c *Case) PutFiles(dir string, f Files) (string, error) {
	p, err := c.PutManifest(dir, f.Main)
	if err != nil {
		return "", err
	}
	if f.Parent != nil {
		if err := os.WriteFile(filepath.Join(dir, "parent.xml"), f.Parent, 0o644); err != nil {
			return "", err
		}
	}
	return p, nil
}

// ReadFiles reads the files back from dir.
func (c *Case) ReadFiles(dir string) (Files, error) {
	var f Files
	var err error
	if f.Main, err = os.ReadFile(filepath.Join(dir, c.ManifestName())); err != nil {
		return f, err
	}
	if c.Parent != nil {
		if f.Parent, err = os.ReadFile(filepath.Join(dir, "parent.xml")); err != nil {
			return f, err
		}
	}
	return f, nil
}

// MaterialiseFiles is Materialise for Files (the writer may patch the parent pom as well).
func (c *Case) MaterialiseFiles(dir string, base Files, ups []result.PackageUpdate) (Files, error) {
	p, err := c.PutFiles(dir, base)
	if err != nil {
		return Files{}, err
	}
	if len(ups) == 0 {
		return base, nil
	}
	rw, err := c.ReadWriter()
	if err != nil {
		return Files{}, err
	}
	m, err := guidedremediation.VerifParseManifest(p, rw)
	if err != nil {
		return Files{}, fmt.Errorf("parse: %w", err)
	}
	if err := guidedremediation.VerifWriteManifestPatches(p, m, []result.Patch{{PackageUpdates: ups}}, rw); err != nil {
		return Files{}, fmt.Errorf("write: %w", err)
	}
	return c.ReadFiles(dir)
}

// ResolveFiles is ResolveBytes for Files.
func (c *Case) ResolveFiles(dir string, f Files) (*Resolved, error) {
	if f.Parent != nil {
		if err := os.MkdirAll(dir, 0o755); err != nil {
			return nil, err
		}
		if err := os.WriteFile(filepath.Join(dir, "parent.xml"), f.Parent, 0o644); err != nil {
			return nil, err
		}
	}
	return c.ResolveBytes(dir, f.Main)
}

// RequirementAt returns the version string of the manifest's requirement on fullName with the given Maven
// classifier / artifact type and dependency ORIGIN attribute ("" = <dependencies>, "management", ...); n is the
// number of such requirements. CountAll is the number of requirements on fullName under any origin.
func RequirementAt(m guidedremediation.VerifManifest, fullName, classifier, artType, origin string) (version string, n int) {
	for _, r := range m.Requirements() {
		if r.Name != fullName {
			continue
		}
		o, _ := r.Type.GetAttr(dep.MavenDependencyOrigin)
		cl, _ := r.Type.GetAttr(dep.MavenClassifier)
		at, _ := r.Type.GetAttr(dep.MavenArtifactType)
		if o == origin && cl == classifier && at == artType {
			version = r.Version
			n++
		}
	}
	return version, n
}

// CountAll is the number of requirements of the manifest on fullName, under any origin.
func CountAll(m guidedremediation.VerifManifest, fullName string) int {
	n := 0
	for _, r := range m.Requirements() {
		if r.Name == fullName {
			n++
		}
	}
	return n
}
