package main

import (
	"context"
	"fmt"
	"os"
	"reflect"
	"sort"
	"strings"
	"sync"

	"deps.dev/util/resolve"
	"github.com/google/osv-scalibr/extractor"
	"github.com/google/osv-scalibr/guidedremediation"
	"github.com/google/osv-scalibr/guidedremediation/result"
	"github.com/google/osv-scalibr/verifsched"
	"github.com/ossf/osv-schema/bindings/go/osvschema"
	u "verif/universe"
)

// ---------------------------------------------------------------------------
// (2) ComputePatches programs: the real override / relax strategies on small generated
// universes; scheduling points = channel operations and goroutine spawns inside the
// instrumented common.ComputePatches, plus every call of the caller-supplied clients.
// ---------------------------------------------------------------------------

type patchProg struct {
	Name string
	Case u.Case
	// Rev: hand the vulnerabilities to ComputePatches in descending id order. The order of
	// ResolvedManifest.Vulns comes from Go map iteration inside the resolution code, which
	// the harness cannot control; both orders are therefore enumerated as a parameter.
	Rev bool
}

func (p patchProg) name() string { return fmt.Sprintf("patches{%s,rev=%v}", p.Name, p.Rev) }

// pointClient wraps a resolve.Client: every call is a scheduling point once armed.
type pointClient struct {
	resolve.Client
	armed *bool
}

func (c pointClient) pt(l string) {
	// Only Versions is a scheduling point (one call per upgrade candidate list). The dependency
	// resolver issues Version/Requirements/MatchingVersions calls in an order that depends on
	// Go map iteration inside deps.dev/util/resolve, i.e. nondeterminism the harness cannot own:
	// a schedule recorded at that granularity does not replay. They still run, atomically with
	// the surrounding step.
	if *c.armed && l == "cl.Versions" {
		verifsched.Point(l)
	}
}
func (c pointClient) Version(ctx context.Context, vk resolve.VersionKey) (resolve.Version, error) {
	c.pt("cl.Version")
	return c.Client.Version(ctx, vk)
}
func (c pointClient) Versions(ctx context.Context, pk resolve.PackageKey) ([]resolve.Version, error) {
	c.pt("cl.Versions")
	return c.Client.Versions(ctx, pk)
}
func (c pointClient) Requirements(ctx context.Context, vk resolve.VersionKey) ([]resolve.RequirementVersion, error) {
	c.pt("cl.Requirements")
	return c.Client.Requirements(ctx, vk)
}
func (c pointClient) MatchingVersions(ctx context.Context, vk resolve.VersionKey) ([]resolve.Version, error) {
	c.pt("cl.MatchingVersions")
	return c.Client.MatchingVersions(ctx, vk)
}

type pointMatcher struct {
	m     u.Matcher
	armed *bool
}

func (m pointMatcher) MatchVulnerabilities(ctx context.Context, pkgs []*extractor.Package) ([][]*osvschema.Vulnerability, error) {
	if *m.armed {
		verifsched.Point("matcher")
	}
	return m.m.MatchVulnerabilities(ctx, pkgs)
}

var (
	dirOnce sync.Once
	tmpDir  string
)

func scratch() string {
	dirOnce.Do(func() {
		d, err := os.MkdirTemp("/dev/shm", "c16-")
		if err != nil {
			d, _ = os.MkdirTemp("", "c16-")
		}
		tmpDir = d
	})
	return tmpDir
}

func patchStr(ps []result.Patch) string {
	var out []string
	for _, p := range ps {
		var us, fx, in []string
		for _, x := range p.PackageUpdates {
			us = append(us, fmt.Sprintf("%s:%s->%s", x.Name, x.VersionFrom, x.VersionTo))
		}
		for _, v := range p.Fixed {
			fx = append(fx, v.ID)
		}
		for _, v := range p.Introduced {
			in = append(in, v.ID)
		}
		out = append(out, fmt.Sprintf("{%s fixes %v introduces %v}", strings.Join(us, ","), fx, in))
	}
	return strings.Join(out, " ")
}

func (p patchProg) fresh() (func(), func(*verifsched.Exec) (string, string, string)) {
	c := p.Case
	var patches []result.Patch
	var cerr error
	var sys resolve.System
	body := func() {
		armed := false
		dir := scratch()
		path, err := c.PutManifest(dir, c.ManifestBytes())
		if err != nil {
			panic(err)
		}
		rw, err := c.ReadWriter()
		if err != nil {
			panic(err)
		}
		m, err := guidedremediation.VerifParseManifest(path, rw)
		if err != nil {
			panic(err)
		}
		base, err := c.Client()
		if err != nil {
			panic(err)
		}
		cl := pointClient{base, &armed}
		vm := pointMatcher{c.NewMatcher(), &armed}
		ro := c.RemediationOptions()
		ctx := context.Background()
		resolved, err := guidedremediation.VerifResolveManifest(ctx, cl, vm, m, &ro)
		if err != nil {
			panic(err)
		}
		sys = m.System()
		sort.SliceStable(resolved.Vulns, func(i, j int) bool {
			if p.Rev {
				return resolved.Vulns[i].OSV.ID > resolved.Vulns[j].OSV.ID
			}
			return resolved.Vulns[i].OSV.ID < resolved.Vulns[j].OSV.ID
		})
		armed = true
		if c.Eco == u.Maven {
			patches, cerr = guidedremediation.VerifOverrideComputePatches(ctx, cl, vm, resolved, &ro)
		} else {
			patches, cerr = guidedremediation.VerifRelaxComputePatches(ctx, cl, vm, resolved, &ro)
		}
		armed = false
	}
	verify := func(e *verifsched.Exec) (string, string, string) {
		out := patchStr(patches)
		if cerr != nil {
			out += " err=" + cerr.Error()
		}
		// sorted by Patch.Compare and no two adjacent equal
		for i := 1; i < len(patches); i++ {
			cmp := patches[i-1].Compare(patches[i], sys.Semver())
			if cmp > 0 {
				return "patch-list-not-sorted", out, out
			}
			if cmp == 0 {
				return "patch-list-has-duplicates", out, out
			}
		}
		// deep equality across executions is checked by the explorer through the outcome string;
		// additionally compare the full structures with the first execution of this program
		refMu.Lock()
		defer refMu.Unlock()
		if ref, ok := refPatches[p.Name]; !ok {
			refPatches[p.Name] = patches
			refOut[p.Name] = out
		} else if !reflect.DeepEqual(ref, patches) {
			return "patch-list-depends-on-schedule", fmt.Sprintf("this schedule: %s ; first schedule: %s", out, refOut[p.Name]), out
		}
		return "", "", out
	}
	return body, verify
}

var (
	refMu      sync.Mutex
	refPatches = map[string][]result.Patch{}
	refOut     = map[string]string{}
)

func vers(vs ...u.Ver) []u.Ver { return vs }

func patchHarnesses(thorough bool) []harness {
	v := func(s string, deps ...u.Dep) u.Ver { return u.Ver{V: s, Deps: deps} }
	var hs []harness
	// Maven / override (introduced vulnerabilities are retried grouped)
	mvnPkgs := []u.Pkg{
		{Name: "d1", Vers: vers(v("1.0.0", u.Dep{Name: "t1", Req: "1.0.0"}))},
		{Name: "d2", Vers: vers(v("1.0.0"), v("1.0.1"), v("2.0.0"))},
		{Name: "d3", Vers: vers(v("1.0.0"), v("1.1.0"))},
		{Name: "t1", Vers: vers(v("1.0.0"), v("1.0.1"), v("1.1.0"))},
	}
	hs = append(hs, patchProg{Name: "maven-override-2-vulns", Case: u.Case{Eco: u.Maven, Pkgs: mvnPkgs,
		Manifest: []u.Req{{Name: "d1", Req: "1.0.0"}, {Name: "d2", Req: "1.0.0"}},
		Vulns:    []u.Vuln{{ID: "V-1", Pkg: "t1", Introduced: "0", Fixed: "1.0.1"}, {ID: "V-2", Pkg: "d2", Introduced: "0", Fixed: "1.0.1"}}}})
	hs = append(hs, patchProg{Name: "maven-override-fix-introduces-vuln", Case: u.Case{Eco: u.Maven, Pkgs: mvnPkgs,
		Manifest: []u.Req{{Name: "d1", Req: "1.0.0"}, {Name: "d2", Req: "1.0.0"}},
		Vulns: []u.Vuln{{ID: "V-1", Pkg: "t1", Introduced: "0", Fixed: "1.0.1"}, {ID: "V-3", Pkg: "t1", Introduced: "1.0.1", Fixed: "1.1.0"},
			{ID: "V-2", Pkg: "d2", Introduced: "0", Fixed: "2.0.0"}}}})
	hs = append(hs, patchProg{Name: "maven-override-same-patch-twice", Case: u.Case{Eco: u.Maven, Pkgs: mvnPkgs,
		Manifest: []u.Req{{Name: "d2", Req: "1.0.0"}, {Name: "d3", Req: "1.0.0"}},
		// two vulnerabilities fixed by the same upgrade: the two attempts yield equal patches (compaction)
		Vulns: []u.Vuln{{ID: "V-1", Pkg: "d2", Introduced: "0", Fixed: "1.0.1"}, {ID: "V-2", Pkg: "d2", Introduced: "0", Fixed: "1.0.1"}}}})
	hs = append(hs, patchProg{Name: "maven-override-equal-patches-around-a-different-one", Case: u.Case{Eco: u.Maven, Pkgs: mvnPkgs,
		Manifest: []u.Req{{Name: "d2", Req: "1.0.0"}, {Name: "d3", Req: "1.0.0"}},
		// V-1 and V-2 yield the same patch, V-3 a different one: whether the equal patches arrive
		// adjacent depends on the delivery order of the result channel
		Vulns: []u.Vuln{{ID: "V-1", Pkg: "d2", Introduced: "0", Fixed: "1.0.1"}, {ID: "V-2", Pkg: "d2", Introduced: "0", Fixed: "1.0.1"},
			{ID: "V-3", Pkg: "d3", Introduced: "0", Fixed: "1.1.0"}}}})
	// two attempts that both introduce the SAME new vulnerability (x@2 and y@2 both pull in z@1):
	// each must get its own follow-up attempt whichever result arrives first
	hs = append(hs, patchProg{Name: "maven-override-two-fixes-introduce-the-same-vuln", Case: u.Case{Eco: u.Maven,
		Pkgs: []u.Pkg{
			{Name: "x", Vers: vers(v("1.0.0"), v("2.0.0", u.Dep{Name: "z", Req: "1.0.0"}))},
			{Name: "y", Vers: vers(v("1.0.0"), v("2.0.0", u.Dep{Name: "z", Req: "1.0.0"}))},
			{Name: "z", Vers: vers(v("1.0.0"), v("1.1.0"))},
		},
		Manifest: []u.Req{{Name: "x", Req: "1.0.0"}, {Name: "y", Req: "1.0.0"}},
		Vulns: []u.Vuln{{ID: "V-A", Pkg: "x", Introduced: "0", Fixed: "2.0.0"}, {ID: "V-B", Pkg: "y", Introduced: "0", Fixed: "2.0.0"},
			{ID: "V-N", Pkg: "z", Introduced: "0", Fixed: "1.1.0"}}}})
	// npm / relax (introduced vulnerabilities are retried one by one)
	npmPkgs := []u.Pkg{
		{Name: "d1", Vers: vers(v("1.0.0"), v("1.0.1"), v("2.0.0"))},
		{Name: "d2", Vers: vers(v("1.0.0"), v("1.1.0"))},
	}
	hs = append(hs, patchProg{Name: "npm-relax-2-vulns", Case: u.Case{Eco: u.NPM, Pkgs: npmPkgs,
		Manifest: []u.Req{{Name: "d1", Req: "1.0.0"}, {Name: "d2", Req: "1.0.0"}},
		Vulns:    []u.Vuln{{ID: "V-1", Pkg: "d1", Introduced: "0", Fixed: "1.0.1"}, {ID: "V-2", Pkg: "d2", Introduced: "0", Fixed: "1.1.0"}}}})
	// a chain of introduced vulnerabilities that forks at depth 3 (top@1 -> V0, @2 -> V1, @3 -> V2,
	// @4 -> {V3,V4}, @5 -> V4, @6 -> V3, @7 clean): the sibling attempts for V3 and V4 are started
	// from one id list of length 3 — any sharing of that list between attempts shows here
	deep := []u.Pkg{{Name: "top", Vers: vers(
		v("1.0.0", u.Dep{Name: "bad0", Req: "1.0.0"}), v("2.0.0", u.Dep{Name: "bad1", Req: "1.0.0"}), v("3.0.0", u.Dep{Name: "bad2", Req: "1.0.0"}),
		v("4.0.0", u.Dep{Name: "bad3", Req: "1.0.0"}, u.Dep{Name: "bad4", Req: "1.0.0"}), v("5.0.0", u.Dep{Name: "bad4", Req: "1.0.0"}),
		v("6.0.0", u.Dep{Name: "bad3", Req: "1.0.0"}), v("7.0.0"))}}
	var deepVulns []u.Vuln
	for i := 0; i < 5; i++ {
		deep = append(deep, u.Pkg{Name: fmt.Sprintf("bad%d", i), Vers: vers(v("1.0.0"))})
		deepVulns = append(deepVulns, u.Vuln{ID: fmt.Sprintf("V-%d", i), Pkg: fmt.Sprintf("bad%d", i), Introduced: "0"})
	}
	hs = append(hs, patchProg{Name: "npm-relax-introduced-chain-forks-at-depth-3", Case: u.Case{Eco: u.NPM, Pkgs: deep,
		Manifest: []u.Req{{Name: "top", Req: "^1.0.0"}}, Vulns: deepVulns}})
	// a diamond: the attempts for V-A and for V-B produce the SAME patch (lib -> ^2, which fixes both
	// and introduces V-C), but their follow-ups differ: [V-A,V-C] leads to ^3 (V-B is back there),
	// [V-B,V-C] to ^4. Both follow-ups must be started whichever of the equal results arrives first.
	dia := []u.Pkg{{Name: "lib", Vers: vers(
		v("1.0.0", u.Dep{Name: "bada", Req: "1.0.0"}, u.Dep{Name: "badb", Req: "1.0.0"}), v("2.0.0", u.Dep{Name: "badc", Req: "1.0.0"}),
		v("3.0.0", u.Dep{Name: "badb", Req: "1.0.0"}), v("4.0.0"))},
		{Name: "bada", Vers: vers(v("1.0.0"))}, {Name: "badb", Vers: vers(v("1.0.0"))}, {Name: "badc", Vers: vers(v("1.0.0"))}}
	hs = append(hs, patchProg{Name: "npm-relax-equal-patches-with-different-follow-ups", Case: u.Case{Eco: u.NPM, Pkgs: dia,
		Manifest: []u.Req{{Name: "lib", Req: "^1.0.0"}},
		Vulns:    []u.Vuln{{ID: "V-A", Pkg: "bada", Introduced: "0"}, {ID: "V-B", Pkg: "badb", Introduced: "0"}, {ID: "V-C", Pkg: "badc", Introduced: "0"}}}})
	if thorough {
		hs = append(hs, patchProg{Name: "maven-override-3-vulns", Case: u.Case{Eco: u.Maven, Pkgs: mvnPkgs,
			Manifest: []u.Req{{Name: "d1", Req: "1.0.0"}, {Name: "d2", Req: "1.0.0"}, {Name: "d3", Req: "1.0.0"}},
			Vulns: []u.Vuln{{ID: "V-1", Pkg: "t1", Introduced: "0", Fixed: "1.0.1"}, {ID: "V-2", Pkg: "d2", Introduced: "0", Fixed: "1.0.1"},
				{ID: "V-3", Pkg: "d3", Introduced: "0", Fixed: "1.1.0"}}}})
		hs = append(hs, patchProg{Name: "npm-relax-fix-introduces-vuln", Case: u.Case{Eco: u.NPM, Pkgs: npmPkgs,
			Manifest: []u.Req{{Name: "d1", Req: "1.0.0"}, {Name: "d2", Req: "1.0.0"}},
			Vulns: []u.Vuln{{ID: "V-1", Pkg: "d1", Introduced: "0", Fixed: "1.0.1"}, {ID: "V-3", Pkg: "d1", Introduced: "1.0.1", Fixed: "2.0.0"},
				{ID: "V-2", Pkg: "d2", Introduced: "0", Fixed: "1.1.0"}}}})
	}
	// every universe with both orders of the vulnerability list
	var all []harness
	for _, h := range hs {
		pp := h.(patchProg)
		all = append(all, pp)
		pp.Rev = true
		all = append(all, pp)
	}
	return all
}
