#!/bin/bash
# build.sh <bindir> <outbin>: instruments the repository's concurrent files from its CURRENT working
# tree, builds the explorer with a build overlay (nothing is written into the repository), and builds
# the free-running -race companion.
set -e
BIN="$1"; OUT="$2"
REPO="${VERIF_REPO_DIR:-/repo}"
HERE="$(cd "$(dirname "$0")" && pwd)"
H="$(cd "$HERE/../.." && pwd)"
GEN="$OUT.gen"; rm -rf "$GEN"; mkdir -p "$GEN"
# the instrumenter is plain Go (x/tools/go/ast/astutil comes with the repository's module graph)
go build -o "$BIN/c16instr" ./cmd/c16/instr
FILES="clients/datasource/cache.go guidedremediation/internal/strategy/common/common.go clients/resolution/combined_native_client.go"
{
  echo '{"Replace": {'
  for f in $FILES; do
    o="$GEN/$(echo "$f" | tr '/' '_')"
    "$BIN/c16instr" "$REPO/$f" "$o"
    echo "  \"$REPO/$f\": \"$o\","
  done
  echo "  \"$REPO/verifsched/sched.go\": \"$H/sched/sched.go\","
  echo "  \"$REPO/verifsched/vsync/vsync.go\": \"$H/sched/vsync/vsync.go\""
  echo '}}'
} > "$GEN/overlay.json"
go build -tags verif -overlay "$GEN/overlay.json" -o "$OUT" ./cmd/c16
go build -race -tags verif -o "$OUT.race" ./cmd/c16/race
