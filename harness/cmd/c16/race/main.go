// Free-running -race companion of C16 (built with -race, real sync primitives, no scheduler,
// no overlay). The cooperative scheduler of the main check turns every hand-off into a
// happens-before edge, which blinds the race detector; this binary runs the same kinds of
// harness bodies freely so that unsynchronised accesses are reported. It decides only the
// "free of data races" clause; see DESIGN §3.6. Output: race detector reports on stderr and a
// final "race-runs=<n>" line.
package main

import (
	"context"
	"fmt"
	"os"
	"sort"
	"sync"
	"time"

	"deps.dev/util/resolve"
	scalibr "github.com/google/osv-scalibr"
	"github.com/google/osv-scalibr/clients/datasource"
	"github.com/google/osv-scalibr/clients/resolution"
	"github.com/google/osv-scalibr/extractor/filesystem"
	scalibrfs "github.com/google/osv-scalibr/fs"
	"github.com/google/osv-scalibr/guidedremediation"
	"github.com/google/osv-scalibr/plugin"
	"github.com/google/osv-scalibr/stats"
	"verif/memfs"
	"verif/scankit"
	u "verif/universe"
)

func cacheHammer(iter int) int {
	runs := 0
	for it := 0; it < iter; it++ {
		rc := datasource.NewRequestCache[string, string]()
		var wg sync.WaitGroup
		for g := 0; g < 6; g++ {
			g := g
			wg.Add(1)
			go func() {
				defer wg.Done()
				for k := 0; k < 3; k++ {
					key := fmt.Sprintf("k%d", (g+k)%2)
					_, _ = rc.Get(key, func() (string, error) {
						if (g+it)%5 == 0 {
							return "", fmt.Errorf("fail")
						}
						return key + "-v", nil
					})
					if g%3 == 0 {
						_ = rc.GetMap()
					}
				}
			}()
		}
		wg.Wait()
		runs++
	}
	return runs
}

func patches(iter int) int {
	dir, err := os.MkdirTemp("/dev/shm", "c16race-")
	if err != nil {
		dir, _ = os.MkdirTemp("", "c16race-")
	}
	defer os.RemoveAll(dir)
	v := func(s string, deps ...u.Dep) u.Ver { return u.Ver{V: s, Deps: deps} }
	cases := []u.Case{
		{Eco: u.Maven, Pkgs: []u.Pkg{
			{Name: "d1", Vers: []u.Ver{v("1.0.0", u.Dep{Name: "t1", Req: "1.0.0"})}},
			{Name: "d2", Vers: []u.Ver{v("1.0.0"), v("1.0.1"), v("2.0.0")}},
			{Name: "d3", Vers: []u.Ver{v("1.0.0"), v("1.1.0")}},
			{Name: "t1", Vers: []u.Ver{v("1.0.0"), v("1.0.1"), v("1.1.0")}}},
			Manifest: []u.Req{{Name: "d1", Req: "1.0.0"}, {Name: "d2", Req: "1.0.0"}, {Name: "d3", Req: "1.0.0"}},
			Vulns: []u.Vuln{{ID: "V-1", Pkg: "t1", Introduced: "0", Fixed: "1.0.1"}, {ID: "V-4", Pkg: "t1", Introduced: "1.0.1", Fixed: "1.1.0"},
				{ID: "V-2", Pkg: "d2", Introduced: "0", Fixed: "1.0.1"}, {ID: "V-3", Pkg: "d3", Introduced: "0", Fixed: "1.1.0"}}},
		{Eco: u.NPM, Pkgs: []u.Pkg{
			{Name: "d1", Vers: []u.Ver{v("1.0.0"), v("1.0.1"), v("2.0.0")}},
			{Name: "d2", Vers: []u.Ver{v("1.0.0"), v("1.1.0")}}},
			Manifest: []u.Req{{Name: "d1", Req: "1.0.0"}, {Name: "d2", Req: "1.0.0"}},
			Vulns: []u.Vuln{{ID: "V-1", Pkg: "d1", Introduced: "0", Fixed: "1.0.1"}, {ID: "V-3", Pkg: "d1", Introduced: "1.0.1", Fixed: "2.0.0"},
				{ID: "V-2", Pkg: "d2", Introduced: "0", Fixed: "1.1.0"}}},
	}
	runs := 0
	for it := 0; it < iter; it++ {
		for _, c := range cases {
			c := c
			path, err := c.PutManifest(dir, c.ManifestBytes())
			if err != nil {
				panic(err)
			}
			rw, _ := c.ReadWriter()
			m, err := guidedremediation.VerifParseManifest(path, rw)
			if err != nil {
				panic(err)
			}
			cl, _ := c.Client()
			vm := c.NewMatcher()
			ro := c.RemediationOptions()
			if it%2 == 1 {
				// every other iteration with an explicit vulnerability list (naming a subset) and an ignore list
				ro.ExplicitVulns = []string{"V-1", "V-2"}
				ro.IgnoreVulns = []string{"V-unrelated"}
			}
			ctx := context.Background()
			resolved, err := guidedremediation.VerifResolveManifest(ctx, cl, vm, m, &ro)
			if err != nil {
				panic(err)
			}
			sort.SliceStable(resolved.Vulns, func(i, j int) bool { return resolved.Vulns[i].OSV.ID < resolved.Vulns[j].OSV.ID })
			if c.Eco == u.Maven {
				_, _ = guidedremediation.VerifOverrideComputePatches(ctx, cl, vm, resolved, &ro)
			} else {
				_, _ = guidedremediation.VerifRelaxComputePatches(ctx, cl, vm, resolved, &ro)
			}
			runs++
		}
	}
	return runs
}

// longScan lasts longer than the 2 s status-reporting interval: one extraction blocks for
// 3.2 s, and many small files are visited around it.
func longScan() int {
	var kids []*memfs.Node
	for i := 0; i < 200; i++ {
		kids = append(kids, memfs.F(fmt.Sprintf("f%03d.txt", i), "x"))
	}
	kids = append(kids, memfs.F("slow.bin", "x"))
	for i := 200; i < 400; i++ {
		kids = append(kids, memfs.F(fmt.Sprintf("f%03d.txt", i), "x"))
	}
	root := memfs.D("", kids...)
	slow := &scankit.Ex{N: "slow", Req: scankit.ReqBase("slow.bin"), Hook: func(*filesystem.ScanInput) { time.Sleep(3200 * time.Millisecond) }}
	fast := &scankit.Ex{N: "fast", Req: func(api filesystem.FileAPI) bool { return len(api.Path()) > 0 && api.Path() != "slow.bin" }}
	cfg := &scalibr.ScanConfig{FilesystemExtractors: []filesystem.Extractor{slow, fast}, Capabilities: &plugin.Capabilities{},
		ScanRoots: []*scalibrfs.ScanRoot{{FS: memfs.New(root), Path: ""}}}
	res := scalibr.New().Scan(context.Background(), cfg)
	if res.Status.Status != plugin.ScanStatusSucceeded {
		fmt.Fprintln(os.Stderr, "long scan failed:", res.Status)
		os.Exit(3)
	}
	return 1
}

type slowCollector struct {
	stats.NoopCollector
	at map[string]bool
}

// the window is longer than two status intervals, so that a tick falls into it even when the
// machine is heavily loaded and one tick is delivered late
func (c slowCollector) AfterInodeVisited(p string) {
	if c.at[p] {
		time.Sleep(4500 * time.Millisecond)
	}
}

// longScanSlowHook: the walk is held up inside the stats hook of a DIRECTORY inode (between the
// walk's bookkeeping and the directory handling), so that the status ticker fires exactly there.
func longScanSlowHook() int {
	var kids []*memfs.Node
	for i := 0; i < 50; i++ {
		kids = append(kids, memfs.D(fmt.Sprintf("d%02d", i), memfs.F("f.txt", "x")))
	}
	root := memfs.D("", kids...)
	fast := &scankit.Ex{N: "fast", Req: scankit.ReqAlways}
	cfg := &scalibr.ScanConfig{FilesystemExtractors: []filesystem.Extractor{fast}, Capabilities: &plugin.Capabilities{},
		ScanRoots: []*scalibrfs.ScanRoot{{FS: memfs.New(root), Path: ""}}, Stats: slowCollector{at: map[string]bool{"d10": true, "d40": true}}}
	res := scalibr.New().Scan(context.Background(), cfg)
	if res.Status.Status != plugin.ScanStatusSucceeded {
		fmt.Fprintln(os.Stderr, "long scan failed:", res.Status)
		os.Exit(3)
	}
	return 1
}

// lazyClientHammer: many goroutines make the first use of a fresh combined native client at once.
func lazyClientHammer(rounds int) int {
	for r := 0; r < rounds; r++ {
		c, _ := resolution.NewCombinedNativeClient(resolution.CombinedNativeClientOptions{PyPIRegistry: "http://127.0.0.1:1/"})
		var wg sync.WaitGroup
		got := make([]resolve.Client, 8)
		for i := 0; i < 8; i++ {
			wg.Add(1)
			go func() {
				defer wg.Done()
				got[i], _ = c.VerifClientForSystem(resolve.PyPI)
			}()
		}
		wg.Wait()
		for i := 1; i < 8; i++ {
			if got[i] != got[0] {
				fmt.Fprintln(os.Stderr, "lazy client: two instances in the free-running pass")
			}
		}
	}
	return rounds
}

func main() {
	scankit.Quiet()
	thorough := os.Getenv("VERIF_TIER") == "thorough"
	n := 0
	if thorough {
		n += cacheHammer(3000)
		n += lazyClientHammer(2000)
		n += patches(150)
		n += longScan()
		n += longScan()
	} else {
		n += cacheHammer(300)
		n += lazyClientHammer(200)
		n += patches(15)
		n += longScan()
	}
	n += longScanSlowHook()
	fmt.Printf("race-runs=%d\n", n)
}
