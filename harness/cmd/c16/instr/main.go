// instr rewrites one Go source file of the repository so that its synchronisation is
// owned by the controlled scheduler: import "sync" -> the vsync shim, go statements ->
// verifsched.Go, channel make/send/receive -> verifsched.Chan. Anything it does not
// support (select, close, range over channel, buffered channels) makes it fail loudly:
// the check then gives no verdict rather than exploring something else.
//
// usage: instr <in.go> <out.go>
package main

import (
	"fmt"
	"go/ast"
	"go/parser"
	"go/printer"
	"go/token"
	"os"
	"strconv"

	"golang.org/x/tools/go/ast/astutil"
)

const schedPath = "github.com/google/osv-scalibr/verifsched"

func fail(fset *token.FileSet, n ast.Node, msg string) {
	fmt.Fprintf(os.Stderr, "instr: %s: unsupported construct: %s\n", fset.Position(n.Pos()), msg)
	os.Exit(2)
}

func sel(name string) ast.Expr {
	return &ast.SelectorExpr{X: ast.NewIdent("verifsched"), Sel: ast.NewIdent(name)}
}

func main() {
	if len(os.Args) != 3 {
		fmt.Fprintln(os.Stderr, "usage: instr in.go out.go")
		os.Exit(2)
	}
	fset := token.NewFileSet()
	f, err := parser.ParseFile(fset, os.Args[1], nil, parser.ParseComments)
	if err != nil {
		fmt.Fprintln(os.Stderr, err)
		os.Exit(2)
	}
	// keep only the comments before the package clause (licence, build constraints): the rewrite
	// moves statements around and free-floating comments would be re-attached arbitrarily
	var keep []*ast.CommentGroup
	for _, cg := range f.Comments {
		if cg.End() < f.Package {
			keep = append(keep, cg)
		}
	}
	f.Comments = keep
	usesSched := false
	tmp := 0
	astutil.Apply(f, func(c *astutil.Cursor) bool {
		switch n := c.Node().(type) {
		case *ast.SelectStmt:
			fail(fset, n, "select")
		case *ast.RangeStmt:
			// a range over a channel cannot be told apart syntactically; reject ranges over identifiers made by make(chan)
		case *ast.CallExpr:
			if id, ok := n.Fun.(*ast.Ident); ok && id.Name == "close" {
				fail(fset, n, "close(chan)")
			}
			if id, ok := n.Fun.(*ast.Ident); ok && id.Name == "make" && len(n.Args) >= 1 {
				if ct, ok := n.Args[0].(*ast.ChanType); ok {
					if len(n.Args) > 1 {
						fail(fset, n, "buffered channel")
					}
					usesSched = true
					c.Replace(&ast.CallExpr{Fun: &ast.IndexExpr{X: sel("NewChan"), Index: ct.Value}})
					return false
				}
			}
		}
		return true
	}, func(c *astutil.Cursor) bool {
		switch n := c.Node().(type) {
		case *ast.ChanType:
			usesSched = true
			c.Replace(&ast.IndexExpr{X: sel("Chan"), Index: n.Value})
		case *ast.SendStmt:
			usesSched = true
			c.Replace(&ast.ExprStmt{X: &ast.CallExpr{Fun: &ast.SelectorExpr{X: n.Chan, Sel: ast.NewIdent("Send")}, Args: []ast.Expr{n.Value}}})
		case *ast.UnaryExpr:
			if n.Op == token.ARROW {
				usesSched = true
				c.Replace(&ast.CallExpr{Fun: &ast.SelectorExpr{X: n.X, Sel: ast.NewIdent("Recv")}})
			}
		case *ast.GoStmt:
			usesSched = true
			// evaluate the arguments at the go statement, like the language does
			var stmts []ast.Stmt
			call := *n.Call
			call.Args = nil
			for _, a := range n.Call.Args {
				tmp++
				name := ast.NewIdent("verifArg" + strconv.Itoa(tmp))
				stmts = append(stmts, &ast.AssignStmt{Lhs: []ast.Expr{name}, Tok: token.DEFINE, Rhs: []ast.Expr{a}})
				call.Args = append(call.Args, name)
			}
			if n.Call.Ellipsis.IsValid() {
				fail(fset, n, "go f(args...)")
			}
			fn := &ast.FuncLit{Type: &ast.FuncType{Params: &ast.FieldList{}}, Body: &ast.BlockStmt{List: []ast.Stmt{&ast.ExprStmt{X: &call}}}}
			stmts = append(stmts, &ast.ExprStmt{X: &ast.CallExpr{Fun: sel("Go"), Args: []ast.Expr{fn}}})
			c.Replace(&ast.BlockStmt{List: stmts})
		}
		return true
	})
	// imports
	for _, imp := range f.Imports {
		if imp.Path.Value == `"sync"` {
			imp.Path.Value = strconv.Quote(schedPath + "/vsync")
			imp.Name = ast.NewIdent("sync")
		}
		if imp.Path.Value == `"sync/atomic"` {
			fail(fset, imp, "sync/atomic")
		}
	}
	if usesSched {
		astutil.AddImport(fset, f, schedPath)
	}
	out, err := os.Create(os.Args[2])
	if err != nil {
		fmt.Fprintln(os.Stderr, err)
		os.Exit(2)
	}
	defer out.Close()
	if err := printer.Fprint(out, fset, f); err != nil {
		fmt.Fprintln(os.Stderr, err)
		os.Exit(2)
	}
}
