// C16 — concurrent parts are race-free and schedule-independent.
//
// Engine S: stateless model checking of the real, instrumented code under a controlled
// cooperative scheduler (verifsched): depth-first search over choice sequences with
// preemption bounding. Two harness families:
//
//	(1) datasource.RequestCache: programs of 2-3 threads x 1-2 operations (Get on two
//	    colliding keys, GetMap) x scripted fetch outcomes x initial states; per complete
//	    execution: fetch-at-most-once-per-success, linearizability (brute force over all
//	    orders that respect real time), no deadlock.
//	(2) strategy/common.ComputePatches through override/relax.ComputePatches on generated
//	    universes with 2..3 vulnerabilities: every delivery order of the result channel and
//	    every interleaving of the attempts at callback granularity (resolve-client and matcher
//	    calls) up to the preemption bound; the returned patch list must be deeply equal in
//	    every execution, sorted and duplicate-free.
//
// The data-race clause is decided by the separate free-running -race binary (./race), which
// this program runs at the end (see DESIGN §3.6): under the cooperative scheduler every
// hand-off is a happens-before edge, so the race detector is blind here.
package main

import (
	"context"
	"encoding/json"
	"fmt"
	"os"
	"os/exec"
	"reflect"
	"sort"
	"strconv"
	"strings"
	"time"

	"deps.dev/util/resolve"
	"github.com/google/osv-scalibr/clients/datasource"
	"github.com/google/osv-scalibr/clients/resolution"
	"github.com/google/osv-scalibr/verifsched"
	"verif/ev"
	"verif/scankit"
)

// ---------------------------------------------------------------------------
// explorer
// ---------------------------------------------------------------------------

type harness interface {
	// fresh returns the body of thread 0 and a verifier for the finished execution.
	fresh() (body func(), verify func(e *verifsched.Exec) (key, detail string, outcome string))
	name() string
}

type stats struct {
	Execs       int64            `json:"execs"`
	Steps       int64            `json:"steps"`
	Nodes       int64            `json:"nodes"`
	Outcomes    map[string]int64 `json:"outcomes"`
	Deadlocks   int64            `json:"deadlocks"`
	BoundCut    bool             `json:"bound_cut"`
	DeadlineCut bool             `json:"deadline_cut"`
	Skipped     int64            `json:"skipped_programs"`
	HorizonCut  bool             `json:"horizon_cut"`
	Viol        []violation      `json:"violations,omitempty"`
	Programs    int64            `json:"programs"`
	Orders      map[string]bool  `json:"-"`
	Sample      string           `json:"sample,omitempty"`
}

type violation struct {
	Key, Detail, Program string
	Choices              []int
	Schedule             string
}

type explorer struct {
	h        harness
	bound    int
	st       *stats
	deadline time.Time
	maxExecs int64
	n        int64
}

func (x *explorer) run(prefix []int, expect []verifsched.Step) *verifsched.Exec {
	body, verify := x.h.fresh()
	e := verifsched.Run(prefix, 5000, body)
	x.st.Execs++
	x.n++
	x.st.Steps += int64(len(e.Steps))
	// determinism guard: the replayed prefix must meet the recorded enabled sets / operations
	for i := range prefix {
		// (the last prefix element is the alternative being explored: same enabled set, different choice)
		if i < len(e.Steps) && i < len(expect) && (e.Steps[i].Enabled != expect[i].Enabled || (i < len(prefix)-1 && e.Steps[i].Desc != expect[i].Desc)) {
			fmt.Fprintf(os.Stderr, "HARNESS NONDETERMINISM in %s at step %d: %q/%d vs %q/%d\n", x.h.name(), i, e.Steps[i].Desc, e.Steps[i].Enabled, expect[i].Desc, expect[i].Enabled)
			os.Exit(3)
		}
	}
	if e.Diverged != "" {
		fmt.Fprintf(os.Stderr, "HARNESS NONDETERMINISM in %s: %s\n", x.h.name(), e.Diverged)
		os.Exit(3)
	}
	add := func(key, detail string) {
		if len(x.st.Viol) < 20 {
			x.st.Viol = append(x.st.Viol, violation{key, detail, x.h.name(), e.Choices(), e.Schedule()})
		}
	}
	switch {
	case e.Aborted == "step horizon exceeded":
		x.st.HorizonCut = true
	case e.Aborted != "":
		add("sync-misuse:"+e.Aborted, e.Aborted)
	case e.Deadlock:
		x.st.Deadlocks++
		add("deadlock", "no enabled thread while some thread has not finished")
	default:
		k, d, out := verify(e)
		if x.st.Orders != nil {
			var ord []string
			for _, st := range e.Steps {
				if strings.Contains(st.Desc, ":send->") {
					ord = append(ord, st.Desc)
				}
			}
			x.st.Orders[strings.Join(ord, " ")] = true
		}
		x.st.Outcomes[out]++
		if k != "" {
			add(k, d)
		}
	}
	return e
}

func (x *explorer) dfs(prefix []int, expect []verifsched.Step) {
	if time.Now().After(x.deadline) || (x.maxExecs > 0 && x.n >= x.maxExecs) {
		x.st.DeadlineCut = true
		return
	}
	e := x.run(prefix, expect)
	pre := 0
	for i := 0; i < len(e.Steps); i++ {
		st := e.Steps[i]
		if i >= len(prefix) {
			x.st.Nodes++
			for alt := 0; alt < st.Enabled; alt++ {
				if alt == st.Chosen {
					continue
				}
				cost := pre
				if st.CurrentEnabled && alt >= st.CurActions {
					cost++
				}
				if cost > x.bound {
					x.st.BoundCut = true
					continue
				}
				np := append(append([]int{}, e.Choices()[:i]...), alt)
				x.dfs(np, e.Steps)
			}
		}
		if st.CurrentEnabled && st.Chosen >= st.CurActions {
			pre++
		}
	}
}

// ---------------------------------------------------------------------------
// (1) RequestCache programs
// ---------------------------------------------------------------------------

type cop struct {
	Kind string // "get", "getmap"
	Key  string
}

type cacheProg struct {
	Threads [][]cop
	// Script: per key the outcomes of successive fetch invocations; true = error. Missing = ok.
	FailFirst bool
	Init      bool // pre-populate k1 via SetMap before the threads start
}

func (p cacheProg) name() string {
	var ts []string
	for _, t := range p.Threads {
		var os_ []string
		for _, o := range t {
			switch o.Kind {
			case "get":
				os_ = append(os_, "Get("+o.Key+")")
			case "setmap":
				os_ = append(os_, "SetMap({k3})")
			default:
				os_ = append(os_, "GetMap()")
			}
		}
		ts = append(ts, strings.Join(os_, ";"))
	}
	return fmt.Sprintf("cache{%s}failFirst=%v,init=%v", strings.Join(ts, " || "), p.FailFirst, p.Init)
}

type cevent struct {
	thread, idx int
	op          cop
	call, ret   int
	val         string
	err         string
	snap        map[string]string
	fetched     bool
	fetchIdx    int
}

type fetchRec struct {
	key        string
	start, end int
	ok         bool
	val        string
}

func (p cacheProg) fresh() (func(), func(*verifsched.Exec) (string, string, string)) {
	rc := datasource.NewRequestCache[string, string]()
	var events []*cevent
	var fetches []*fetchRec
	nfetch := map[string]int{}
	body := func() {
		if p.Init {
			rc.SetMap(map[string]string{"k1": "init"})
		}
		for ti, t := range p.Threads {
			ti, t := ti, t
			verifsched.Go(func() {
				for oi, o := range t {
					evn := &cevent{thread: ti, idx: oi, op: o}
					events = append(events, evn)
					evn.call = verifsched.Now()
					if o.Kind == "getmap" {
						evn.snap = rc.GetMap()
					} else if o.Kind == "setmap" {
						rc.SetMap(map[string]string{"k3": "set"})
					} else {
						v, err := rc.Get(o.Key, func() (string, error) {
							n := nfetch[o.Key]
							nfetch[o.Key]++
							fr := &fetchRec{key: o.Key, start: verifsched.Now()}
							fetches = append(fetches, fr)
							evn.fetched = true
							evn.fetchIdx = n
							verifsched.Point("fetch:" + o.Key)
							fr.end = verifsched.Now()
							if p.FailFirst && n == 0 {
								return "", fmt.Errorf("fetch-error-%s-%d", o.Key, n)
							}
							fr.ok = true
							fr.val = fmt.Sprintf("%s-v%d", o.Key, n)
							return fr.val, nil
						})
						evn.val = v
						if err != nil {
							evn.err = err.Error()
						}
					}
					evn.ret = verifsched.Now()
				}
			})
		}
	}
	verify := func(e *verifsched.Exec) (string, string, string) {
		// outcome vector (to detect vacuous harnesses)
		var ov []string
		sort.Slice(events, func(i, j int) bool {
			if events[i].thread != events[j].thread {
				return events[i].thread < events[j].thread
			}
			return events[i].idx < events[j].idx
		})
		for _, evn := range events {
			if evn.op.Kind == "getmap" {
				ov = append(ov, fmt.Sprint(evn.snap))
			} else if evn.op.Kind == "setmap" {
				ov = append(ov, "set")
			} else {
				ov = append(ov, fmt.Sprintf("%s/%s/%v", evn.val, evn.err, evn.fetched))
			}
		}
		out := strings.Join(ov, ";")
		// (a) at most one successful fetch per key, and no fetch starts after a success returned
		// (a concurrent SetMap replaces the whole map and may legitimately drop a cached key: for
		// programs with SetMap the rule is left to the linearizability check below)
		hasSet := false
		for _, evn := range events {
			hasSet = hasSet || evn.op.Kind == "setmap"
		}
		for _, f := range fetches {
			if hasSet {
				break
			}
			if !f.ok {
				continue
			}
			for _, g := range fetches {
				if g != f && g.key == f.key && (g.ok || g.start > f.end) {
					return "fetch-repeated-after-success", fmt.Sprintf("key %s: fetch [%d,%d] ok=%v next to successful fetch [%d,%d]", f.key, g.start, g.end, g.ok, f.start, f.end), out
				}
			}
		}
		if p.Init && !hasSet {
			for _, f := range fetches {
				if f.key == "k1" {
					return "fetch-of-cached-key", "k1 was pre-populated but fetched", out
				}
			}
		}
		// (b) linearizability: search an order of the operations that respects real time
		init := map[string]string{}
		if p.Init {
			init["k1"] = "init"
		}
		if !linearizable(events, init) {
			var hs []string
			for _, evn := range events {
				hs = append(hs, fmt.Sprintf("t%d.%d %s(%s)[%d,%d]=%s/%s/%v fetched=%v", evn.thread, evn.idx, evn.op.Kind, evn.op.Key, evn.call, evn.ret, evn.val, evn.err, evn.snap, evn.fetched))
			}
			return "not-linearizable", strings.Join(hs, " ; "), out
		}
		return "", "", out
	}
	return body, verify
}

// linearizable: sequential spec = map + fetch on miss (errors not cached); a non-fetching
// Get may have adopted the result of an overlapping fetching Get.
func linearizable(evs []*cevent, init map[string]string) bool {
	n := len(evs)
	used := make([]bool, n)
	state := map[string]string{}
	for k, v := range init {
		state[k] = v
	}
	overlapsFailedFetch := func(e *cevent) bool {
		for _, f := range evs {
			if f != e && f.op.Kind == "get" && f.op.Key == e.op.Key && f.fetched && f.err == e.err && f.err != "" && f.call < e.ret && e.call < f.ret {
				return true
			}
		}
		return false
	}
	var rec func(done int) bool
	rec = func(done int) bool {
		if done == n {
			return true
		}
		for i, e := range evs {
			if used[i] {
				continue
			}
			// real-time order: every operation that returned before e was called must already be placed
			ok := true
			for j, f := range evs {
				if !used[j] && j != i && f.ret < e.call {
					ok = false
				}
			}
			if !ok {
				continue
			}
			var undo func()
			legal := false
			switch {
			case e.op.Kind == "setmap":
				prev := map[string]string{}
				for k, v := range state {
					prev[k] = v
				}
				for k := range state {
					delete(state, k)
				}
				state["k3"] = "set"
				legal = true
				undo = func() {
					for k := range state {
						delete(state, k)
					}
					for k, v := range prev {
						state[k] = v
					}
				}
			case e.op.Kind == "getmap":
				legal = reflect.DeepEqual(e.snap, state) || (len(e.snap) == 0 && len(state) == 0)
				undo = func() {}
			case e.fetched && e.err == "":
				_, present := state[e.op.Key]
				legal = !present
				if legal {
					state[e.op.Key] = e.val
					k := e.op.Key
					undo = func() { delete(state, k) }
				}
			case e.fetched:
				_, present := state[e.op.Key]
				legal = !present
				undo = func() {}
			case e.err == "":
				v, present := state[e.op.Key]
				legal = present && v == e.val
				undo = func() {}
			default:
				legal = overlapsFailedFetch(e)
				undo = func() {}
			}
			if !legal {
				continue
			}
			used[i] = true
			if rec(done + 1) {
				return true
			}
			used[i] = false
			undo()
		}
		return false
	}
	return rec(0)
}

func cachePrograms(thorough bool) []cacheProg {
	ops := []cop{{"get", "k1"}, {"get", "k2"}, {"getmap", ""}}
	var seqs [][]cop
	for _, a := range ops {
		seqs = append(seqs, []cop{a})
	}
	for _, a := range ops {
		for _, b := range ops {
			seqs = append(seqs, []cop{a, b})
		}
	}
	var progs []cacheProg
	for _, ff := range []bool{false, true} {
		for _, in := range []bool{false, true} {
			// two threads, 1-2 operations each (unordered pairs)
			for i := range seqs {
				for j := i; j < len(seqs); j++ {
					progs = append(progs, cacheProg{[][]cop{seqs[i], seqs[j]}, ff, in})
				}
			}
			// two threads where one replaces the map with a disjoint key while the other looks up / snapshots
			setSeqs := [][]cop{{{"setmap", ""}}, {{"setmap", ""}, {"get", "k1"}}, {{"get", "k1"}, {"setmap", ""}}, {{"setmap", ""}, {"getmap", ""}}}
			for _, ss := range setSeqs {
				for i := range seqs {
					progs = append(progs, cacheProg{[][]cop{ss, seqs[i]}, ff, in})
				}
			}
			// three threads x 1 operation (multisets)
			for i := 0; i < 3; i++ {
				for j := i; j < 3; j++ {
					for k := j; k < 3; k++ {
						progs = append(progs, cacheProg{[][]cop{{ops[i]}, {ops[j]}, {ops[k]}}, ff, in})
					}
				}
			}
			{
				// three threads: two with 2 operations on the colliding key, one single
				for i := range seqs[3:] {
					for k := 0; k < 3; k++ {
						progs = append(progs, cacheProg{[][]cop{seqs[3+i], {{"get", "k1"}, {"get", "k1"}}, {ops[k]}}, ff, in})
					}
				}
				// four threads x Get(k1)
				progs = append(progs, cacheProg{[][]cop{{ops[0]}, {ops[0]}, {ops[0]}, {ops[0]}}, ff, in})
			}
		}
	}
	return progs
}

// ---------------------------------------------------------------------------
// worker protocol: the parent shards programs over subprocesses (one controlled
// execution at a time per process)
// ---------------------------------------------------------------------------

type job struct {
	Family string `json:"family"`
	Index  int    `json:"index"`
}

// lazyProg: N threads ask the combined native client for the client of an ecosystem at the same
// time. The per-ecosystem client owns the request caches, so there must be exactly one per
// ecosystem whatever the interleaving: every caller gets the same instance.
type lazyProg struct {
	Systems []resolve.System // one entry per thread
}

func (p lazyProg) name() string { return fmt.Sprintf("cache-owner{lazy client for %v}", p.Systems) } // counted in the cache family

func (p lazyProg) fresh() (func(), func(*verifsched.Exec) (string, string, string)) {
	c, _ := resolution.NewCombinedNativeClient(resolution.CombinedNativeClientOptions{PyPIRegistry: "http://127.0.0.1:1/"})
	got := make([]resolve.Client, len(p.Systems))
	errs := make([]error, len(p.Systems))
	body := func() {
		for i, s := range p.Systems {
			i, s := i, s
			verifsched.Go(func() {
				verifsched.Point("call")
				got[i], errs[i] = c.VerifClientForSystem(s)
			})
		}
	}
	verify := func(e *verifsched.Exec) (string, string, string) {
		first := map[resolve.System]resolve.Client{}
		for i, s := range p.Systems {
			if errs[i] != nil || got[i] == nil {
				return "lazy-client:error", fmt.Sprintf("thread %d: client %v, error %v", i, got[i], errs[i]), "error"
			}
			if f, ok := first[s]; ok && f != got[i] {
				return "lazy-client:two-instances", fmt.Sprintf("two callers got different client instances for %v (each instance has its own request cache)", s), "two"
			}
			first[s] = got[i]
		}
		return "", "", "one-instance-per-system"
	}
	return body, verify
}

func lazyPrograms() []harness {
	py := resolve.PyPI
	return []harness{lazyProg{[]resolve.System{py, py}}, lazyProg{[]resolve.System{py, py, py}}, lazyProg{[]resolve.System{py, py, py, py}}}
}

func allHarnesses(thorough bool) []harness {
	var hs []harness
	for _, p := range cachePrograms(thorough) {
		hs = append(hs, p)
	}
	hs = append(hs, lazyPrograms()...)
	hs = append(hs, patchHarnesses(thorough)...)
	return hs
}

func worker(shard, shards int, thorough bool, bound int, budget time.Duration) {
	scankit.Quiet()
	hs := allHarnesses(thorough)
	st := &stats{Outcomes: map[string]int64{}}
	deadline := time.Now().Add(budget)
	perFamily := map[string]*stats{}
	for i, h := range hs {
		if i%shards != shard {
			continue
		}
		fam := "cache"
		if !strings.HasPrefix(h.name(), "cache") {
			fam = "patches"
		}
		fs := perFamily[fam]
		if fs == nil {
			fs = &stats{Outcomes: map[string]int64{}}
			perFamily[fam] = fs
		}
		one := &stats{Outcomes: map[string]int64{}, Orders: map[string]bool{}}
		x := &explorer{h: h, bound: bound, st: one, deadline: deadline}
		if time.Now().After(deadline) {
			fs.DeadlineCut = true
			fs.Skipped++
			continue
		}
		x.dfs(nil, nil)
		fs.Programs++
		fs.Execs += one.Execs
		fs.Steps += one.Steps
		fs.Nodes += one.Nodes
		fs.Deadlocks += one.Deadlocks
		fs.BoundCut = fs.BoundCut || one.BoundCut
		fs.DeadlineCut = fs.DeadlineCut || one.DeadlineCut
		fs.HorizonCut = fs.HorizonCut || one.HorizonCut
		fs.Viol = append(fs.Viol, one.Viol...)
		// distinct outcomes per program: a program whose executions all give one outcome did not collide
		fs.Outcomes[fmt.Sprintf("programs-with-%s-outcomes", bucket(len(one.Outcomes)))]++
		if fam == "patches" {
			fs.Outcomes[fmt.Sprintf("programs-with-%s-delivery-orders", bucket(len(one.Orders)))]++
			if len(one.Orders) > 1 && fs.Sample == "" {
				fs.Sample = fmt.Sprintf("%s: %d executions, %d distinct channel delivery orders, %d distinct results", h.name(), one.Execs, len(one.Orders), len(one.Outcomes))
			}
		}
		if len(one.Outcomes) > 1 && fs.Sample == "" {
			fs.Sample = fmt.Sprintf("%s: %d executions, %d distinct outcomes", h.name(), one.Execs, len(one.Outcomes))
		}
	}
	_ = st
	b, _ := json.Marshal(perFamily)
	fmt.Println(string(b))
}

func bucket(n int) string {
	switch {
	case n <= 1:
		return "1"
	case n == 2:
		return "2"
	case n <= 4:
		return "3-4"
	}
	return "5+"
}

func main() {
	if s := os.Getenv("VERIF_C16_SHARD"); s != "" {
		var shard, shards, bound, budget int
		fmt.Sscanf(s, "%d/%d/%d/%d", &shard, &shards, &bound, &budget)
		worker(shard, shards, os.Getenv("VERIF_TIER") == "thorough", bound, time.Duration(budget)*time.Second)
		return
	}
	if d := os.Getenv("VERIF_C16_DEBUG"); d != "" {
		scankit.Quiet()
		for _, h := range allHarnesses(true) {
			if strings.Contains(h.name(), d) {
				for i := 0; i < 3; i++ {
					body, verify := h.fresh()
					e := verifsched.Run(nil, 5000, body)
					_, _, out := verify(e)
					fmt.Printf("%s\n  %s\n  => %s\n", h.name(), e.Schedule(), out)
				}
			}
		}
		return
	}
	r := ev.Start("C16", "model_checking", 5*time.Minute, 40*time.Minute)
	if rp := os.Getenv("VERIF_REPLAY"); rp != "" {
		replay(rp)
		return
	}
	bound := ev.Pick(r, 2, 3)
	shards := ev.Workers()
	budget := ev.Pick(r, 150, 1500)
	if s, err := strconv.Atoi(os.Getenv("VERIF_BUDGET_S")); err == nil && s > 0 {
		budget = s * 2 / 3
	}
	self, _ := os.Executable()
	type res struct {
		out []byte
		err error
	}
	results := make(chan res, shards)
	for i := 0; i < shards; i++ {
		i := i
		go func() {
			cmd := exec.Command(self)
			cmd.Env = append(os.Environ(), fmt.Sprintf("VERIF_C16_SHARD=%d/%d/%d/%d", i, shards, bound, budget), "GOMAXPROCS=2")
			cmd.Stderr = os.Stderr
			out, err := cmd.Output()
			results <- res{out, err}
		}()
	}
	total := map[string]*stats{"cache": {Outcomes: map[string]int64{}}, "patches": {Outcomes: map[string]int64{}}}
	for i := 0; i < shards; i++ {
		rs := <-results
		if rs.err != nil {
			fmt.Fprintf(os.Stderr, "worker failed: %v\n%s\n", rs.err, rs.out)
			os.Exit(3)
		}
		var pf map[string]*stats
		if err := json.Unmarshal(rs.out, &pf); err != nil {
			fmt.Fprintf(os.Stderr, "worker output: %v\n%s\n", err, rs.out)
			os.Exit(3)
		}
		for fam, s := range pf {
			t := total[fam]
			t.Programs += s.Programs
			t.Execs += s.Execs
			t.Steps += s.Steps
			t.Nodes += s.Nodes
			t.Deadlocks += s.Deadlocks
			t.BoundCut = t.BoundCut || s.BoundCut
			t.DeadlineCut = t.DeadlineCut || s.DeadlineCut
			t.Skipped += s.Skipped
			t.HorizonCut = t.HorizonCut || s.HorizonCut
			t.Viol = append(t.Viol, s.Viol...)
			for k, v := range s.Outcomes {
				t.Outcomes[k] += v
			}
			if t.Sample == "" {
				t.Sample = s.Sample
			}
		}
	}
	for fam, t := range total {
		r.States.Add(t.Nodes)
		r.Trans.Add(t.Steps)
		r.Traces.Add(t.Execs)
		r.Evals.Add(t.Execs)
		// non-trivial = programs whose executions produced more than one distinct outcome vector
		for k, v := range t.Outcomes {
			// cache: programs whose executions disagree on the outcome vector (the keys collided);
			// patches: programs explored under more than one channel delivery order
			if (fam == "cache" && strings.HasSuffix(k, "-outcomes") && k != "programs-with-1-outcomes") ||
				(fam == "patches" && strings.HasSuffix(k, "-delivery-orders") && k != "programs-with-1-delivery-orders") {
				r.Nontrivial.Add(v)
			}
		}
		r.Set(fam, map[string]any{"programs": t.Programs, "executions": t.Execs, "scheduling_steps": t.Steps, "choice_tree_nodes": t.Nodes, "deadlocks": t.Deadlocks,
			"outcome_spread": t.Outcomes, "preemption_bound_cut_some_branch": t.BoundCut})
		if t.Sample != "" {
			r.Sample(t.Sample)
		}
		if t.HorizonCut {
			r.Cap("%s: an execution hit the 5000-step horizon", fam)
		}
		if t.DeadlineCut {
			r.Cap("%s: the exploration deadline cut the search (%d programs not started); everything explored is within preemption bound %d", fam, t.Skipped, bound)
		}
		sort.Slice(t.Viol, func(i, j int) bool {
			return t.Viol[i].Program+fmt.Sprint(t.Viol[i].Choices) < t.Viol[j].Program+fmt.Sprint(t.Viol[j].Choices)
		})
		for _, v := range t.Viol {
			r.Violation(fam+":"+v.Key, fmt.Sprintf("%s schedule [%s]: %s", v.Program, v.Schedule, v.Detail), map[string]any{"program": v.Program, "choices": v.Choices, "schedule": v.Schedule})
		}
	}
	r.Set("preemption_bound", bound)
	// ---- race pass (complement, see DESIGN §3.6) ----
	raceRuns, raceOut := racePass(self+".race", r.Thorough())
	r.Set("race_runs", raceRuns)
	if strings.HasPrefix(raceOut, "NO-TERMINATION") {
		r.Violation("free-running-pass:no-termination", raceOut, nil)
	} else if raceOut != "" {
		r.Violation("data-race:"+raceSite(raceOut), raceOut, map[string]any{"report": raceOut})
	}
	r.Assume("scheduling points at Mutex/WaitGroup/channel operations, goroutine spawn and harness callbacks are sufficient; unsynchronised accesses are the business of the free-running -race pass")
	r.Assume("instrumentation is regenerated from the repository's current cache.go and common.go on every build (overlay), nothing else in those packages spawns goroutines")
	exhaustive := !total["cache"].HorizonCut && !total["patches"].HorizonCut
	r.Finish(fmt.Sprintf("stateless DFS over scheduler choice sequences, preemption bound %d (every execution with <= %d preemptions; non-preemptive choices - blocked thread, channel delivery order - are unbounded), on: 2-4 concurrent first uses of the combined native client's lazily created per-ecosystem client (exactly one instance); RequestCache programs (2 threads x 1-2 ops, 3 threads x 1 op, 3 threads x (2,2,1) ops, 4 threads x Get(k1), over {Get k1, Get k2, GetMap} plus 2-thread programs with a SetMap of a disjoint key, x {all fetches ok, first fetch of a key fails} x {empty, pre-populated}); override/relax ComputePatches on universes with 2-3 vulnerabilities (callbacks = resolve-client and matcher calls). states = choice-tree nodes, transitions = scheduling steps, traces = complete executions of the real instrumented code; non-trivial = programs with >1 distinct outcome vector. Separate free-running -race pass: %d runs", bound, bound, raceRuns), exhaustive)
}

func replay(rp string) {
	b, _ := os.ReadFile(rp)
	var doc struct {
		Replay struct {
			Program string `json:"program"`
			Choices []int  `json:"choices"`
		} `json:"replay"`
	}
	if json.Unmarshal(b, &doc) != nil {
		os.Exit(3)
	}
	for _, th := range []bool{false, true} {
		for _, h := range allHarnesses(th) {
			if h.name() != doc.Replay.Program {
				continue
			}
			for rep := 0; rep < 2; rep++ {
				body, verify := h.fresh()
				e := verifsched.Run(doc.Replay.Choices, 5000, body)
				k, d, out := "", "", ""
				if e.Deadlock {
					k = "deadlock"
				} else if e.Aborted != "" {
					k = e.Aborted
				} else {
					k, d, out = verify(e)
				}
				fmt.Printf("replay %s\n  schedule: %s\n  outcome: %s\n  verdict: %q %s\n", h.name(), e.Schedule(), out, k, d)
				if rep == 1 && k != "" {
					fmt.Printf("VIOLATION property=C16 replay=%s\n", rp)
					os.Exit(1)
				}
			}
			os.Exit(0)
		}
	}
	fmt.Println("program not found")
	os.Exit(3)
}

func racePass(bin string, thorough bool) (int, string) {
	// The free-running companion normally finishes in 10-20 s (quick) / ~2 min (thorough). A
	// deadlock in the code under test would make it wait forever, so it runs under a generous
	// limit (>= 30x its normal time); running into the limit is reported as non-termination.
	limit := 10 * time.Minute
	if thorough {
		limit = 60 * time.Minute
	}
	ctx, cancel := context.WithTimeout(context.Background(), limit)
	defer cancel()
	cmd := exec.CommandContext(ctx, bin)
	cmd.Env = append(os.Environ(), "GORACE=halt_on_error=0")
	out, err := cmd.CombinedOutput()
	if ctx.Err() != nil {
		return 0, "NO-TERMINATION: the free-running companion did not finish within " + limit.String() + " (a deadlock or livelock in the cache hammer, ComputePatches or a scan)"
	}
	runs := 0
	for _, l := range strings.Split(string(out), "\n") {
		if strings.HasPrefix(l, "race-runs=") {
			runs, _ = strconv.Atoi(strings.TrimPrefix(l, "race-runs="))
		}
	}
	if strings.Contains(string(out), "WARNING: DATA RACE") {
		i := strings.Index(string(out), "WARNING: DATA RACE")
		rep := string(out)[i:]
		if len(rep) > 3000 {
			rep = rep[:3000]
		}
		return runs, rep
	}
	if err != nil {
		fmt.Fprintf(os.Stderr, "race pass failed: %v\n%s\n", err, out)
		os.Exit(3)
	}
	return runs, ""
}

// raceSite extracts "func1 / func2" of the two conflicting accesses for a stable cause key.
func raceSite(rep string) string {
	var fns []string
	lines := strings.Split(rep, "\n")
	for i, l := range lines {
		if (strings.HasPrefix(l, "Read at") || strings.HasPrefix(l, "Write at") || strings.HasPrefix(l, "Previous read at") || strings.HasPrefix(l, "Previous write at")) && i+1 < len(lines) {
			fn := strings.TrimSpace(lines[i+1])
			if j := strings.LastIndex(fn, "("); j > 0 {
				fn = fn[:j]
			}
			fn = strings.TrimPrefix(fn, "github.com/google/osv-scalibr/")
			fns = append(fns, fn)
		}
	}
	sort.Strings(fns)
	if len(fns) > 2 {
		fns = fns[:2]
	}
	return strings.Join(fns, "|")
}
