// C17 — symlink resolution in image views terminates with the right answer.
//
// Exhaustive: every assignment of a kind to n named entries d/e0..d/e(n-1)
// (file, directory, missing, deleted-by-a-later-layer, symlink to any entry spelled
// relative / absolute / with "..", symlink leaving the root) x every MaxSymlinkDepth
// 0..6 x every entry queried through Stat, Open and ReadDir on the final view of the
// real image, against a 20-line reference resolver.
//
// Don't-care cells: which of cycle / depth error is reported; an Open of a deleted
// target may return a handle whose Stat and Read fail with not-exist; a chain whose
// (max+1)-th hop discovers a missing target may report not-exist or depth; ReadDir on
// something that resolves to a regular file.
package main

import (
	"encoding/json"
	"errors"
	"fmt"
	"io"
	"io/fs"
	"os"
	"strings"
	"sync"
	"time"

	"github.com/google/osv-scalibr/artifact/image/layerscanning/image"
	"verif/ev"
	"verif/imgkit"
	"verif/scankit"
)

type kind struct {
	K     string `json:"k"` // file dir missing deleted link outside relink via
	To    int    `json:"to,omitempty"`
	Spell string `json:"spell,omitempty"` // rel abs dotdot
}

func kindsFor(n int, thorough bool) []kind {
	// outside(root): like outside(rel), but the path it would reach is named "root/x" (a directory
	// that exists in the image) instead of "x"
	ks := []kind{{K: "file"}, {K: "dir"}, {K: "missing"}, {K: "deleted"}, {K: "outside"}, {K: "root", Spell: "abs"}, {K: "root", Spell: "rel"}}
	if n <= 3 || thorough {
		// every spelling of a target that leaves the root: plain, absolute, towards a directory named root,
		// climbing only after a first harmless component, behind a leading "./"
		ks = append(ks, kind{K: "outside", Spell: "abs"}, kind{K: "outside", Spell: "root"}, kind{K: "outside", Spell: "mid"}, kind{K: "outside", Spell: "dot"})
	} else {
		ks = append(ks, kind{K: "outside", Spell: "mid"})
	}
	for j := 0; j < n; j++ {
		if n > 1 && (n <= 3 || thorough) {
			// a link whose target goes THROUGH entry j ("e<j>/child"): entry j may itself be a link
			// (to a directory, to a file, into a cycle)
			ks = append(ks, kind{K: "via", To: j})
		}
		if n > 1 && (n <= 3 || thorough) {
			// a link that layer 1 re-points from entry j to entry j+1: its resolution depends on the view
			ks = append(ks, kind{K: "relink", To: j, Spell: "rel"})
		}
		ks = append(ks, kind{K: "link", To: j, Spell: "rel"}, kind{K: "link", To: j, Spell: "abs"})
		if thorough {
			ks = append(ks, kind{K: "link", To: j, Spell: "dotdot"})
		}
	}
	return ks
}

// base is the file name of entry i. Entry 1 carries a backslash: an ordinary file-name character
// in an image, which neither entry names nor link targets may reinterpret as a separator.
func base(i int) string {
	if i == 1 {
		return `e\1`
	}
	return fmt.Sprintf("e%d", i)
}

func name(i int) string { return "d/" + base(i) }

func build(g []kind) [][]byte {
	l0 := []imgkit.Entry{imgkit.Dir("d"), imgkit.File("x", "outside-target"), imgkit.Dir("root"), imgkit.File("root/x", "outside-target"),
		imgkit.Sym("rootlink-up", "../x"), imgkit.Sym("rootlink-mid", "d/../../x"), imgkit.Sym("rootlink-abs", "/../x")} // "x", "root/x": what a clamped "../../x", "../../root/x" would hit
	var l1 []imgkit.Entry
	for i, k := range g {
		switch k.K {
		case "file":
			l0 = append(l0, imgkit.File(name(i), "content-of-"+name(i)))
		case "dir":
			l0 = append(l0, imgkit.Dir(name(i)), imgkit.File(name(i)+"/child", "c"))
		case "deleted":
			l0 = append(l0, imgkit.File(name(i), "content-of-"+name(i)))
			l1 = append(l1, imgkit.Whiteout(name(i)))
		case "root":
			t := "/"
			if k.Spell == "rel" {
				t = ".."
			}
			l0 = append(l0, imgkit.Sym(name(i), t))
		case "via":
			l0 = append(l0, imgkit.Sym(name(i), base(k.To)+"/child"))
		case "relink":
			l0 = append(l0, imgkit.Sym(name(i), base(k.To)))
			l1 = append(l1, imgkit.Sym(name(i), base((k.To+1)%len(g))))
		case "outside":
			// a target that climbs above the image root, spelled relative or absolute; if it were
			// clamped to the root it would hit the file "x"
			t := "../../x"
			if k.Spell == "abs" {
				t = "/d/../../x"
			}
			if k.Spell == "root" {
				t = "../../root/x"
			}
			if k.Spell == "mid" {
				t = "y/../../../x"
			}
			if k.Spell == "dot" {
				t = "./../../x"
			}
			l0 = append(l0, imgkit.Sym(name(i), t))
		case "link":
			t := base(k.To)
			switch k.Spell {
			case "abs":
				t = "/d/" + t
			case "dotdot":
				t = "../d/" + t
			}
			l0 = append(l0, imgkit.Sym(name(i), t))
		}
	}
	if len(l1) == 0 {
		l1 = []imgkit.Entry{imgkit.File("unrelated", "u")}
	}
	// a third layer keeps the view after the deleting layer an intermediate one (whiteout
	// nodes are only pruned from the final view); both views are queried
	return [][]byte{imgkit.TarBytes(l0), imgkit.TarBytes(l1), imgkit.TarBytes([]imgkit.Entry{imgkit.File("later", "l")})}
}

type expect struct {
	class string // "ok-file", "ok-dir", "notexist", "loop" (cycle or depth), "notexist-or-loop"
	final int
	hops  int
}

// reference resolver for the view after layer `view` (0: only the first layer applied)
func resolve(g []kind, i, max, view int) expect {
	cur, hops := i, 0
	seen := map[int]bool{}
	for {
		k := g[cur]
		if k.K == "deleted" && view == 0 {
			k.K = "file"
		}
		if k.K == "relink" {
			k.K = "link"
			if view >= 1 {
				k.To = (k.To + 1) % len(g)
			}
		}
		switch k.K {
		case "file", "dir":
			if hops <= max {
				return expect{"ok-" + k.K, cur, hops}
			}
			return expect{"loop", cur, hops}
		case "root":
			// a link to the image root itself: inside the root by definition
			if hops+1 <= max {
				return expect{"ok-root", cur, hops + 1}
			}
			return expect{"loop", cur, hops + 1}
		case "via":
			// The target runs through another entry. Whether a view resolves links in the middle of a
			// path is not part of the property; what is: the query terminates, and if it yields a file
			// it is the right one (checked by the caller).
			return expect{"via", cur, hops}
		case "missing", "outside", "deleted":
			if hops <= max {
				return expect{"notexist", cur, hops}
			}
			if hops == max+1 {
				return expect{"notexist-or-loop", cur, hops}
			}
			return expect{"loop", cur, hops}
		}
		if seen[cur] {
			return expect{"loop", cur, hops}
		}
		seen[cur] = true
		cur = k.To
		hops++
	}
}

func classify(err error) string {
	switch {
	case err == nil:
		return "ok"
	case errors.Is(err, image.ErrSymlinkCycle), errors.Is(err, image.ErrSymlinkDepthExceeded):
		return "loop"
	case errors.Is(err, fs.ErrNotExist):
		return "notexist"
	}
	return "other:" + err.Error()
}

func accepts(want string, got string) bool {
	switch want {
	case "notexist-or-loop":
		return got == "notexist" || got == "loop"
	case "ok-file", "ok-dir", "ok-root":
		return got == "ok"
	}
	return want == got
}

func graphStr(g []kind) string {
	var parts []string
	for i, k := range g {
		s := k.K
		if k.K == "link" {
			s = fmt.Sprintf("->e%d(%s)", k.To, k.Spell)
		}
		if k.K == "relink" {
			s = fmt.Sprintf("->e%d,layer1:->e%d", k.To, (k.To+1)%len(g))
		}
		if k.K == "outside" && k.Spell == "abs" {
			s = "outside(abs)"
		}
		if k.K == "outside" && k.Spell == "root" {
			s = "outside(../../root/x)"
		}
		if k.K == "outside" && k.Spell == "mid" {
			s = "outside(y/../../../x)"
		}
		if k.K == "outside" && k.Spell == "dot" {
			s = "outside(./../../x)"
		}
		if k.K == "via" {
			s = fmt.Sprintf("->e%d/child", k.To)
		}
		if k.K == "root" {
			s = "->image-root(" + k.Spell + ")"
		}
		parts = append(parts, fmt.Sprintf("e%d:%s", i, s))
	}
	return strings.Join(parts, " ")
}

type replayT struct {
	Graph []kind `json:"graph"`
	Max   int    `json:"max_symlink_depth"`
	Entry int    `json:"entry"`
	Op    string `json:"op"`
}

// checkGraph loads the image once per depth and queries every entry; returns number of queries.
func checkGraph(r *ev.Run, g []kind, depths []int) {
	checkGraphOrder(r, g, depths, false)
	// the views of one image share their nodes: query them in the opposite order on a fresh load
	// (at the largest depth only), so that no view's answers depend on what was asked before
	checkGraphOrder(r, g, depths[len(depths)-1:], true)
}

func checkGraphOrder(r *ev.Run, g []kind, depths []int, rev bool) {
	tars := build(g)
	for _, max := range depths {
		cfg := image.DefaultConfig()
		cfg.MaxSymlinkDepth = max
		img, err := image.FromV1Image(imgkit.NewImage(tars, nil), cfg)
		if err != nil {
			r.Violation("load-error", graphStr(g)+": "+err.Error(), replayT{Graph: g, Max: max})
			return
		}
		cls, _ := img.ChainLayers()
		order := []int{0, 1, 2}
		if rev {
			order = []int{2, 1, 0}
		}
		for _, vi := range order {
			fsys := cls[vi].FS()
			// links that sit directly in the image root and climb out of it (every image carries them)
			if max == depths[len(depths)-1] {
				for _, rl := range []string{"rootlink-up", "rootlink-mid", "rootlink-abs"} {
					r.Evals.Add(1)
					_, serr := fsys.Stat(rl)
					f, oerr := fsys.Open(rl)
					if oerr == nil {
						_, oerr = f.Stat()
						f.Close()
					}
					if serr == nil || oerr == nil {
						r.Violation("stat-wrong-class", fmt.Sprintf("graph {%s} view %d: the root-level link %s (its target leaves the image root) resolves: Stat err=%v Open err=%v; if clamped to the root it would hit the file x", graphStr(g), vi, rl, serr, oerr), replayT{Graph: g, Max: max})
					}
				}
			}
			for i := range g {
				want := resolve(g, i, max, vi)
				viol := func(op, key, detail string) {
					r.Violation(key, fmt.Sprintf("graph {%s} max=%d view %d (views queried %v) %s(%s): %s (reference: %s after %d hops at e%d)", graphStr(g), max, vi, order, op, name(i), detail, want.class, want.hops, want.final),
						replayT{Graph: g, Max: max, Entry: i, Op: op})
				}
				r.Evals.Add(3)
				if want.hops > 0 {
					r.Nontrivial.Add(1) // (graph, depth, entry) triples are distinct by construction; non-trivial = at least one hop
				}
				// every query runs under a watchdog: termination is part of the property
				type res struct {
					statC, openC, rdC string
					size              int64
					isDir             bool
					content           string
					openUsable        bool
					listing           []string
				}
				done := make(chan res, 1)
				go func() {
					var o res
					fi, err := fsys.Stat(name(i))
					o.statC = classify(err)
					if err == nil {
						o.size, o.isDir = fi.Size(), fi.IsDir()
					}
					f, err := fsys.Open(name(i))
					o.openC = classify(err)
					if err == nil {
						_, serr := f.Stat()
						b, rerr := io.ReadAll(f)
						f.Close()
						o.openUsable = serr == nil
						if rerr == nil {
							o.content = string(b)
						}
						if serr != nil && errors.Is(serr, fs.ErrNotExist) {
							o.openC = "notexist" // handle on a deleted entry: acceptable form of not-found
						}
					}
					ents, err := fsys.ReadDir(name(i))
					o.rdC = classify(err)
					for _, e := range ents {
						o.listing = append(o.listing, e.Name())
					}
					done <- o
				}()
				var o res
				select {
				case o = <-done:
				case <-time.After(60 * time.Second):
					// a stalled machine is not a hang: give the very same query five more minutes before
					// calling it non-termination (a real loop never answers, whatever the load)
					select {
					case o = <-done:
						r.Set("slow_query_answered_after_60s", true)
					case <-time.After(5 * time.Minute):
						viol("Stat/Open/ReadDir", "resolution-does-not-terminate", "no answer within 6 minutes")
						r.Abort() // the stuck query keeps a CPU busy: schedule nothing more next to it
						return
					}
				}
				if want.class == "via" {
					// termination was established by the watchdog; the only file that can be right is the
					// child of the directory that the intermediate entry finally resolves to
					through := resolve(g, g[want.final].To, 1000, vi)
					for _, c := range []string{o.statC, o.openC} {
						if c == "ok" && (through.class != "ok-dir" || o.isDir) {
							viol("Stat/Open", "via-link-wrong-file", fmt.Sprintf("resolved to something (dir=%v size=%d content %q) although e%d leads to %s", o.isDir, o.size, o.content, g[want.final].To, through.class))
						}
					}
					if o.openC == "ok" && o.content != "c" {
						viol("Open", "via-link-wrong-file", fmt.Sprintf("content %q", o.content))
					}
					continue
				}
				if !accepts(want.class, o.statC) {
					viol("Stat", "stat-wrong-class", "got "+o.statC)
				} else if want.class == "ok-file" && (o.isDir || o.size != int64(len("content-of-"+name(want.final)))) {
					viol("Stat", "stat-wrong-file", fmt.Sprintf("dir=%v size=%d", o.isDir, o.size))
				} else if want.class == "ok-dir" && !o.isDir {
					viol("Stat", "stat-wrong-file", "not a directory")
				}
				if !accepts(want.class, o.openC) {
					viol("Open", "open-wrong-class", "got "+o.openC)
				} else if want.class == "ok-file" && o.content != "content-of-"+name(want.final) {
					viol("Open", "open-wrong-file", fmt.Sprintf("content %q", o.content))
				}
				switch want.class {
				case "ok-root":
					hasD := false
					for _, n := range o.listing {
						hasD = hasD || n == "d"
					}
					if o.rdC != "ok" || !hasD {
						viol("ReadDir", "readdir-wrong", fmt.Sprintf("class %s listing %v, want the listing of the image root", o.rdC, o.listing))
					}
				case "ok-dir":
					if o.rdC != "ok" || len(o.listing) != 1 || o.listing[0] != "child" {
						viol("ReadDir", "readdir-wrong", fmt.Sprintf("class %s listing %v", o.rdC, o.listing))
					}
				case "loop":
					if o.rdC != "loop" {
						viol("ReadDir", "readdir-wrong-class", "got "+o.rdC)
					}
				case "notexist":
					// a deleted entry (whiteout node) has no children: ReadDir may report not-exist or, for the
					// node it resolved to, an empty listing -- only demand that it does not list anything
					if len(o.listing) != 0 || o.rdC == "loop" {
						viol("ReadDir", "readdir-wrong-class", fmt.Sprintf("got %s %v", o.rdC, o.listing))
					}
				}
			}
		}
		img.CleanUp()
	}
}

func main() {
	scankit.Quiet()
	r := ev.Start("C17", "exploration", 7*time.Minute, 45*time.Minute)
	base, err := os.MkdirTemp("/dev/shm", "c17-")
	if err != nil {
		base, _ = os.MkdirTemp("", "c17-")
	}
	os.Setenv("TMPDIR", base)
	defer os.RemoveAll(base)
	depths := []int{0, 1, 2, 3, 4, 5, 6}
	if rp := os.Getenv("VERIF_REPLAY"); rp != "" {
		b, _ := os.ReadFile(rp)
		var doc struct {
			Replay replayT `json:"replay"`
		}
		if json.Unmarshal(b, &doc) != nil {
			os.Exit(3)
		}
		checkGraph(r, doc.Replay.Graph, []int{doc.Replay.Max})
		os.RemoveAll(base)
		r.Finish("replay of one graph", false)
	}
	maxN := ev.Pick(r, 4, 4)
	completed := 0
	var once sync.Once
	for n := 1; n <= maxN && !r.Expired(); n++ {
		ks := kindsFor(n, r.Thorough())
		total := 1
		for i := 0; i < n; i++ {
			total *= len(ks)
		}
		done := r.ParallelFor(total, func(idx int) {
			g := make([]kind, n)
			x := idx
			for i := 0; i < n; i++ {
				g[i] = ks[x%len(ks)]
				x /= len(ks)
			}
			checkGraph(r, g, depths)
			if n == maxN && idx%997 == 5 {
				once.Do(func() {})
				if r.SampleN() < 4 {
					r.Sample(map[string]any{"graph": graphStr(g), "depths": depths})
				}
			}
		})
		if done == total {
			completed = n
		}
		r.Set(fmt.Sprintf("graphs_with_%d_entries", n), total)
	}
	// thorough: n=5 with the two spellings only (rel/abs), to reach the property's stated bound of 5 entries
	if r.Thorough() && !r.Expired() {
		n := 5
		// the alphabet the property states for its bound of 5 entries: file, directory, missing, deleted,
		// and a relative or absolute link to any entry (the further kinds are covered up to n = 4)
		ks := []kind{{K: "file"}, {K: "dir"}, {K: "missing"}, {K: "deleted"}}
		for j := 0; j < n; j++ {
			ks = append(ks, kind{K: "link", To: j, Spell: "rel"}, kind{K: "link", To: j, Spell: "abs"})
		}
		total := 1
		for i := 0; i < n; i++ {
			total *= len(ks)
		}
		done := r.ParallelFor(total, func(idx int) {
			g := make([]kind, n)
			x := idx
			for i := 0; i < n; i++ {
				g[i] = ks[x%len(ks)]
				x /= len(ks)
			}
			checkGraph(r, g, depths)
		})
		if done == total {
			completed = 5
		}
		r.Set("graphs_with_5_entries", total)
	}
	os.RemoveAll(base)
	r.Set("bound", map[string]any{"entries_completed": completed, "depths": depths})
	r.Finish(fmt.Sprintf("every kind assignment to n<=%d entries (named d/e0, d/e\\1 (a backslash in the name), d/e2...; file, dir, missing, deleted by layer 1, symlink to the image root itself (/ and ..), three links directly in the root that climb out of it (../x, d/../../x, /../x), outside-root symlink spelled relative (../../x, ../../root/x, y/../../../x, ./../../x) and absolute (/d/../../x) (n<=3 all five, n=4 two of them), symlink whose target runs through another entry (e<j>/child; n<=3, thorough all n), symlink to each entry spelled relative/absolute%s, symlink re-pointed by layer 1 from entry j to j+1 (n<=3; thorough all n)) x MaxSymlinkDepth 0..6 x every entry x {Stat, Open+Read, ReadDir} on all three views (layer-0 view where deleted entries still exist, intermediate view with whiteout nodes, final view) of the real image vs the per-view reference resolver, views queried 0,1,2 and, on a fresh load at depth 6, 2,1,0; each query under a 60 s watchdog; non-trivial = queries whose chain has >=1 hop", maxN, map[bool]string{true: "/with ..", false: ""}[r.Thorough()]), completed >= maxN)
}
