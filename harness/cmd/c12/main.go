// C12 — a reported fix is a real fix: re-analysis matches the report.
//
// Bounded-exhaustive exploration over the same generated universes as C11
// (verif/universe GenFix with the Lite bounds, plus GenScopeShape "shift": universes in which the patch
// changes the depth or the dev-only reachability of a vulnerable transitive package, and GenOriginShape: Maven
// manifests that declare one artifact under two origins (direct + dependencyManagement / profile, management only);
// npm/relax and Maven/override),
// each multiplied by every option variant of universe.OptionVariants (default,
// ignore list, explicit list, dev dependencies off, depth 1/2, severity
// threshold, no-introduce), always with MaxUpgrades=1.
//
// Per tuple
//
//	run 1  FixVulns on the manifest written to a scratch directory under /dev/shm -> res1 and the file it wrote
//	run 2  a second FixVulns with fresh clients and the same filter options, but an upgrade configuration
//	       of `none` for everything (so it analyses and changes nothing), on the file run 1 wrote -> res2
//
// Oracle
//
//	(A) res1 applied exactly one patch P:  ids(res2.Vulnerabilities) == ids(res1.Vulnerabilities) - ids(P.Fixed) + ids(P.Introduced)
//	(B) res1 applied no patch:             the requirement list (name, version, origin) the real reader parses from the
//	                                       written file equals the one of the original file
//	(C) internal consistency of every result (res1, and res0 = the same FixVulns with MaxUpgrades=0, i.e. every
//	    compatible patch applied, on its own copy of the manifest): no vulnerability is both listed in the Fixed
//	    of one of the result's patches and marked Unactionable
//	(F) independent reference: the ids in res1.Vulnerabilities (for the original manifest) and in
//	    res2.Vulnerabilities (for the written manifest) equal the harness's own analysis of the same file:
//	    requirements read by the real manifest reader, resolved by the deps.dev npm/Maven resolver directly on a
//	    client written in verif/universe (no repository resolution / override-client / vulnerability / sub-graph /
//	    filter code), matched with IsAffected, filtered per the documented option semantics (ignore, explicit,
//	    dev-only, CVSS threshold, max depth = some affected package within the depth)
//	(C') every patch a result reports changes the manifest for a reason: its Fixed list is not empty
//	(D) with the no-introduce option the applied patch reports no Introduced vulnerability (the documented meaning
//	    of the option; together with (A) this means the re-analysis finds no new vulnerability)
//
// Don't-care cells (accepted; counted in the evidence):
//   - run 1 returns an error (unresolvable manifest, ...): nothing is demanded.
//   - (F) is skipped when the reference cannot resolve the manifest, or when dev dependencies are off and a package
//     is declared twice in the manifest (two origins), where the scope of the root edge is ambiguous.
//   - res1 reports more than one patch although MaxUpgrades=1: not this property's business (never observed).
//   - Packages lists inside the vulnerabilities, patch ordering/choice, errors lists, file bytes (C13).
//   - which filter run 2 must use is fixed by the property text: "a fresh analysis" under the same options.
//     With an explicit list this makes run 2 drop vulnerabilities outside the list that run 1 reported as
//     Introduced; that disagreement is reported under its own cause key
//     (explicit-list:introduced-vuln-not-filtered) because RemediationOptions.ExplicitVulns is documented as
//     "only consider these vulnerability IDs & ignore all others".
//
// Cause keys: <strategy>:fixed-still-present, :introduced-not-found, :unreported-new-vuln, :vuln-vanished,
// :no-patch-but-requirements-changed, :fixed-marked-unactionable, :patch-fixes-nothing, :no-introduce-violated, :rewritten-manifest-unanalysable, :analysis-differs-from-reference, :hang,
// :panic:<site>, explicit-list:introduced-vuln-not-filtered, pom:shared-property-collateral-change.
package main

import (
	"encoding/json"
	"fmt"
	"os"
	"path/filepath"
	"reflect"
	"runtime/debug"
	"sort"
	"strconv"
	"strings"
	"sync/atomic"
	"time"

	"github.com/google/osv-scalibr/guidedremediation"
	"github.com/google/osv-scalibr/guidedremediation/result"
	"verif/ev"
	u "verif/universe"
)

const (
	stRelax    = "npm-relax"
	stOverride = "maven-override"
)

type finding struct{ Key, What string }

type tupleOut struct {
	findings []finding
	applied  int
	dontcare map[string]int
	log      []string
}

func (o *tupleOut) dc(k string) {
	if o.dontcare == nil {
		o.dontcare = map[string]int{}
	}
	o.dontcare[k]++
}
func (o *tupleOut) add(key, format string, a ...any) {
	o.findings = append(o.findings, finding{key, fmt.Sprintf(format, a...)})
}
func (o *tupleOut) logf(format string, a ...any) { o.log = append(o.log, fmt.Sprintf(format, a...)) }

func ids(vs []result.Vuln) []string {
	m := map[string]bool{}
	for _, v := range vs {
		m[v.ID] = true
	}
	out := make([]string, 0, len(m))
	for k := range m {
		out = append(out, k)
	}
	sort.Strings(out)
	return out
}

func set(xs []string) map[string]bool {
	m := map[string]bool{}
	for _, x := range xs {
		m[x] = true
	}
	return m
}

func strategyOf(c *u.Case) string {
	if c.Eco == u.Maven {
		return stOverride
	}
	return stRelax
}

// sharedPropertyTouched: the applied patch updates a requirement whose Maven property is also used by another requirement.
func sharedPropertyTouched(c *u.Case, p result.Patch) bool {
	for _, up := range p.PackageUpdates {
		prop := ""
		for _, q := range c.Manifest {
			if c.Full(q.Name) == up.Name {
				prop = q.Prop
			}
		}
		if prop == "" {
			continue
		}
		for _, q := range c.Manifest {
			if q.Prop == prop && c.Full(q.Name) != up.Name {
				return true
			}
		}
	}
	return false
}

func readReqs(c *u.Case, dir string, data []byte) ([]u.ReqView, error) {
	p, err := c.PutManifest(dir, data)
	if err != nil {
		return nil, err
	}
	rw, err := c.ReadWriter()
	if err != nil {
		return nil, err
	}
	m, err := guidedremediation.VerifParseManifest(p, rw)
	if err != nil {
		return nil, err
	}
	return u.Requirements(m), nil
}

func runTuple(c *u.Case, dir string) *tupleOut {
	out := &tupleOut{}
	st := strategyOf(c)
	base := c.ManifestBytes()

	// run 1
	var res1 result.Result
	var err1 error
	var written []byte
	p, stack := ev.Recover(func() {
		path, err := c.PutManifest(filepath.Join(dir, "r1"), base)
		if err != nil {
			panic(err)
		}
		o, err := c.FixOptions(path, 1)
		if err != nil {
			panic(err)
		}
		res1, err1 = guidedremediation.FixVulns(o)
		written, _ = os.ReadFile(path)
	})
	if p != nil {
		out.add(st+":panic:"+ev.PanicSite(stack), "FixVulns (run 1) panics: %v", p)
		out.logf("%s", stack)
		return out
	}
	if err1 != nil {
		out.dc("run1-error")
		out.logf("run 1: %v", err1)
		return out
	}
	out.logf("run 1: vulns=%v patches=%s", describeVulns(res1.Vulnerabilities), describePatches(res1.Patches))
	checkReference(c, st, "run 1 (original manifest)", filepath.Join(dir, "f1"), base, res1, out)
	if len(res1.Patches) > 1 {
		out.dc("more-than-one-patch")
		return out
	}

	// run 0: the same analysis with MaxUpgrades=0 (every compatible patch is applied) on its own copy; law (E)
	var res0 result.Result
	var err0 error
	p, stack = ev.Recover(func() {
		path, err := c.PutManifest(filepath.Join(dir, "r0"), base)
		if err != nil {
			panic(err)
		}
		o, err := c.FixOptions(path, 0)
		if err != nil {
			panic(err)
		}
		res0, err0 = guidedremediation.FixVulns(o)
	})
	if p != nil {
		out.add(st+":panic:"+ev.PanicSite(stack), "FixVulns (MaxUpgrades=0) panics: %v", p)
		out.logf("%s", stack)
		return out
	}
	if err0 == nil {
		checkConsistent(st, "MaxUpgrades=0", res0, out)
	}
	checkConsistent(st, "MaxUpgrades=1", res1, out)

	// run 2: fresh clients, same filters, nothing may be upgraded
	var res2 result.Result
	var err2 error
	p, stack = ev.Recover(func() {
		path, err := c.PutManifest(filepath.Join(dir, "r2"), written)
		if err != nil {
			panic(err)
		}
		o, err := c.FixOptions(path, 1)
		if err != nil {
			panic(err)
		}
		o.UpgradeConfig = u.AllNone()
		res2, err2 = guidedremediation.FixVulns(o)
	})
	if p != nil {
		out.add(st+":panic:"+ev.PanicSite(stack), "FixVulns (run 2, on the written manifest) panics: %v", p)
		out.logf("%s", stack)
		return out
	}
	if err2 != nil {
		out.add(st+":rewritten-manifest-unanalysable", "run 1 succeeded (%d patch) but the manifest it wrote cannot be analysed: %v", len(res1.Patches), err2)
		return out
	}
	out.logf("run 2: vulns=%v", describeVulns(res2.Vulnerabilities))
	checkReference(c, st, "run 2 (written manifest)", filepath.Join(dir, "f2"), written, res2, out)

	if len(res1.Patches) == 0 {
		// (B)
		a, errA := readReqs(c, filepath.Join(dir, "q1"), base)
		b, errB := readReqs(c, filepath.Join(dir, "q2"), written)
		if errA != nil || errB != nil {
			out.add(st+":rewritten-manifest-unanalysable", "no patch applied but the manifest cannot be re-read: %v / %v", errA, errB)
			return out
		}
		if !reflect.DeepEqual(a, b) {
			out.add(st+":no-patch-but-requirements-changed", "no patch reported, but requirements changed from %v to %v", a, b)
		}
		return out
	}

	// (A), (C)
	out.applied = 1
	P := res1.Patches[0]
	fixed, intro := set(ids(P.Fixed)), set(ids(P.Introduced))
	if c.Opt.NoIntroduce && len(intro) > 0 {
		out.add(st+":no-introduce-violated", "NoIntroduce is set but the applied patch %s reports introduced vulnerabilities", describePatches(res1.Patches))
	}
	want := map[string]bool{}
	for _, id := range ids(res1.Vulnerabilities) {
		if !fixed[id] {
			want[id] = true
		}
	}
	for id := range intro {
		want[id] = true
	}
	got := set(ids(res2.Vulnerabilities))
	if reflect.DeepEqual(want, got) {
		return out
	}
	orig := set(ids(res1.Vulnerabilities))
	explicit := set(c.Opt.Explicit)
	shared := sharedPropertyTouched(c, P)
	desc := fmt.Sprintf("options=%s: run 1 reported vulns %v and applied %s; re-analysis of the written manifest finds %v, expected %v", c.Opt.Name, ids(res1.Vulnerabilities), describePatches(res1.Patches), keys(got), keys(want))
	var all []string
	for id := range want {
		all = append(all, id)
	}
	for id := range got {
		if !want[id] {
			all = append(all, id)
		}
	}
	sort.Strings(all)
	seen := map[string]bool{}
	for _, id := range all {
		var key string
		switch {
		case want[id] && got[id]:
			continue
		case shared:
			key = "pom:shared-property-collateral-change"
		case want[id] && intro[id] && len(explicit) > 0 && !explicit[id]:
			key = "explicit-list:introduced-vuln-not-filtered"
		case want[id] && intro[id]:
			key = st + ":introduced-not-found"
		case want[id]:
			key = st + ":vuln-vanished"
		case fixed[id]:
			key = st + ":fixed-still-present"
		case orig[id]:
			key = st + ":vuln-vanished" // unreachable (orig and not fixed => wanted); kept for completeness
		default:
			key = st + ":unreported-new-vuln"
		}
		if !seen[key] {
			seen[key] = true
			out.add(key, "%s [%s]", desc, id)
		}
	}
	return out
}

// checkReference is law (F): the vulnerability ids a FixVulns result lists for the manifest it analysed equal
// the harness's own reference analysis of that manifest (universe.RefAnalyse / RefFiltered).
func checkReference(c *u.Case, st, label, dir string, data []byte, res result.Result, out *tupleOut) {
	p, err := c.PutManifest(dir, data)
	if err != nil {
		return
	}
	rw, err := c.ReadWriter()
	if err != nil {
		return
	}
	m, err := guidedremediation.VerifParseManifest(p, rw)
	if err != nil {
		out.dc("reference-manifest-unreadable")
		return
	}
	vs, devKnown, err := c.RefAnalyse(m)
	if err != nil {
		out.dc("reference-unresolvable")
		return
	}
	want, ok := c.RefFiltered(vs, devKnown)
	if !ok {
		out.dc("reference-dev-flags-unknown")
		return
	}
	got := ids(res.Vulnerabilities)
	if !reflect.DeepEqual(set(want), set(got)) {
		out.add(st+":analysis-differs-from-reference", "options=%s, %s: FixVulns lists vulnerabilities %v, the reference analysis (deps.dev resolver on the same manifest + IsAffected + documented filters) finds %v (unfiltered: %v)", c.Opt.Name, label, got, want, vs)
	}
}

// checkConsistent is the internal-consistency law on one result: no vulnerability is both listed as
// fixed by one of the result's patches and marked unactionable.
func checkConsistent(st, label string, res result.Result, out *tupleOut) {
	fixedBy := map[string]bool{}
	for _, p := range res.Patches {
		for _, v := range p.Fixed {
			fixedBy[v.ID] = true
		}
	}
	for _, p := range res.Patches {
		if len(p.PackageUpdates) > 0 && len(p.Fixed) == 0 {
			out.add(st+":patch-fixes-nothing", "%s result: a patch is reported (and written) that lists no fixed vulnerability: %s", label, describePatches(res.Patches))
			break
		}
	}
	for _, v := range res.Vulnerabilities {
		if fixedBy[v.ID] && v.Unactionable {
			out.add(st+":fixed-marked-unactionable", "%s result: %s is listed as fixed by a patch of %s but marked unactionable", label, v.ID, describePatches(res.Patches))
			return
		}
	}
}

func keys(m map[string]bool) []string {
	out := make([]string, 0, len(m))
	for k := range m {
		out = append(out, k)
	}
	sort.Strings(out)
	return out
}

func describeVulns(vs []result.Vuln) string {
	var parts []string
	for _, v := range vs {
		s := v.ID
		if v.Unactionable {
			s += "(unactionable)"
		}
		parts = append(parts, s)
	}
	return "[" + strings.Join(parts, " ") + "]"
}

func describePatches(ps []result.Patch) string {
	var parts []string
	for _, p := range ps {
		var us []string
		for _, x := range p.PackageUpdates {
			us = append(us, fmt.Sprintf("%s %q->%q", x.Name, x.VersionFrom, x.VersionTo))
		}
		parts = append(parts, fmt.Sprintf("{%s fixed=%v introduced=%v}", strings.Join(us, ", "), ids(p.Fixed), ids(p.Introduced)))
	}
	return "[" + strings.Join(parts, " ") + "]"
}

type replayData struct {
	Case u.Case `json:"case"`
}

const watchdog = 120 * time.Second

var scratchRoot = "/dev/shm/verif-c12"

func main() {
	r := ev.Start("C12", "exploration", 6*time.Minute, 45*time.Minute)
	scratchRoot = fmt.Sprintf("%s-%d", scratchRoot, os.Getpid())
	debug.SetGCPercent(400) // allocation-heavy XML/JSON parsing; memory is not the constraint
	if f := os.Getenv("VERIF_REPLAY"); f != "" {
		code := replay(f)
		os.RemoveAll(scratchRoot)
		os.Exit(code)
	}

	b := u.LiteBoundsFor(r.Thorough())
	var dirSeq atomic.Int64
	dirs := make(chan string, 64)
	getDir := func() string {
		select {
		case d := <-dirs:
			return d
		default:
			return filepath.Join(scratchRoot, fmt.Sprintf("w%d", dirSeq.Add(1)))
		}
	}
	putDir := func(d string) {
		select {
		case dirs <- d:
		default:
		}
	}
	dcTotals := map[string]*atomic.Int64{"run1-error": {}, "more-than-one-patch": {}, "reference-manifest-unreadable": {}, "reference-unresolvable": {}, "reference-dev-flags-unknown": {}}
	perStrategy := map[string]map[string]int64{}
	perOption := map[string]*[2]atomic.Int64{}
	exhaustive := true
	// development aid only: VERIF_DEBUG_STRIDE=k executes every k-th generated tuple (smoke test of the
	// thorough bounds); such a run is never reported as exhaustive.
	stride, genSeq := 0, 0
	if k, err := strconv.Atoi(os.Getenv("VERIF_DEBUG_STRIDE")); err == nil && k > 1 {
		stride = k
		r.Cap("VERIF_DEBUG_STRIDE=%d: only every %d-th tuple executed", k, k)
	}

	runAll := func(st string, gen func(emit func(*u.Case))) {
		var tuples, applied atomic.Int64
		const chunkSize = 1 << 15
		chunk := make([]u.Case, 0, chunkSize+16)
		base := 0
		flush := func() {
			if len(chunk) == 0 {
				return
			}
			n := len(chunk)
			if r.Expired() {
				exhaustive = false
				r.Cap("deadline: %s stopped after %d tuples", st, tuples.Load())
			} else {
				cur, off := chunk, base
				done := r.ParallelFor(len(cur), func(i int) {
					c := &cur[i]
					dir := getDir()
					var out, out1 *tupleOut
					ok := u.Watchdog(watchdog, func() { out1 = runTuple(c, dir) })
					if ok {
						out = out1
					} else {
						// A stall of the whole process (machine overload) also trips a wall-clock watchdog: a hang is
						// only reported if a second, fresh attempt in a new scratch directory does not terminate either.
						// (out1 and dir stay with the abandoned goroutine.)
						dir2 := getDir()
						var out2 *tupleOut
						if ok = u.Watchdog(watchdog, func() { out2 = runTuple(c, dir2) }); ok {
							out, dir = out2, dir2
						}
					}
					r.Evals.Add(1)
					tuples.Add(1)
					if !ok {
						r.Violation(st+":hang", fmt.Sprintf("tuple #%d did not terminate within %v (twice)", off+i, watchdog), replayData{*c})
						return
					}
					putDir(dir)
					for k, n := range out.dontcare {
						if a, ok := dcTotals[k]; ok {
							a.Add(int64(n))
						}
					}
					po := perOption[optClass(c.Opt.Name)]
					po[0].Add(1)
					if out.applied > 0 {
						po[1].Add(1)
						applied.Add(1)
						r.Nontrivial.Add(1) // tuples are pairwise distinct by construction
						if r.SampleN() < 6 && applied.Load()%700 == 1 {
							r.Sample(map[string]any{"case": *c, "observed": out.log})
						}
					}
					for _, f := range out.findings {
						r.Violation(f.Key, fmt.Sprintf("[%s tuple #%d] %s", st, off+i, f.What), replayData{*c})
					}
				})
				if done < len(cur) {
					exhaustive = false
				}
			}
			base += n
			chunk = chunk[:0]
		}
		gen(func(c *u.Case) {
			if genSeq++; stride > 1 && genSeq%stride != 0 {
				return
			}
			chunk = append(chunk, u.OptionVariants(c)...)
			if len(chunk) >= chunkSize {
				flush()
			}
		})
		flush()
		ps := perStrategy[st]
		if ps == nil {
			ps = map[string]int64{}
			perStrategy[st] = ps
		}
		ps["generated"] += int64(base)
		ps["executed"] += tuples.Load()
		ps["patch_applied"] += applied.Load()
	}
	for _, k := range []string{"default", "ignore", "explicit", "nodev", "devkept", "depth=1", "depth=2", "minsev", "nointroduce"} {
		perOption[k] = &[2]atomic.Int64{}
	}

	// the small position-shift shape first (a patch changes depth / dev-only reachability of a vulnerable package)
	for _, sh := range u.ScopeShapes {
		runAll(stOverride, func(emit func(*u.Case)) { b.GenScopeShape(u.Maven, sh, emit) })
		runAll(stRelax, func(emit func(*u.Case)) { b.GenScopeShape(u.NPM, sh, emit) })
	}
	// Maven manifests declaring one artifact under two origins (direct + management / profile, management only)
	for _, sh := range u.OriginShapes {
		runAll(stOverride, func(emit func(*u.Case)) { b.GenOriginShape(sh, emit) })
	}
	for _, sh := range u.FixShapes {
		runAll(stOverride, func(emit func(*u.Case)) { b.GenFixShape(u.Maven, sh, emit) })
		runAll(stRelax, func(emit func(*u.Case)) { b.GenFixShape(u.NPM, sh, emit) })
	}

	dc := map[string]int64{}
	for k, a := range dcTotals {
		if n := a.Load(); n > 0 {
			dc[k] = n
		}
	}
	po := map[string]map[string]int64{}
	for k, v := range perOption {
		po[k] = map[string]int64{"tuples": v[0].Load(), "patch_applied": v[1].Load()}
	}
	r.Set("tuples_per_strategy", perStrategy)
	r.Set("tuples_per_option", po)
	r.Set("dont_care_cells_hit", dc)
	r.Assume("the in-memory deps.dev LocalClient and the npm/Maven resolvers of deps.dev/util/resolve are the resolution semantics (the same ones the repository's own tests use)")
	r.Assume("vulnerability matching uses the repository's IsAffected (decided separately by C18)")
	rule := "For every tuple (universe, manifest, vulnerability set, upgrade config, option variant) of the bounded product below, npm/relax and Maven/override, MaxUpgrades=1: run 1 = FixVulns on the manifest file; run 2 = fresh FixVulns (fresh clients, same filter options, every upgrade level none) on the file run 1 wrote. (A) if run 1 applied one patch P: ids(run2 vulns) = ids(run1 vulns) - ids(P.Fixed) + ids(P.Introduced); (B) if run 1 applied no patch: the re-read requirement list equals the original; (C) in run 1 and in a run with MaxUpgrades=0 no vulnerability is both in the Fixed list of a reported patch and Unactionable; every reported patch lists at least one fixed vulnerability; (D) with no-introduce P.Introduced is empty; (F) the ids listed by run 1 / run 2 equal the harness's independent reference analysis (deps.dev resolver + IsAffected + documented filters) of the original / written manifest; no panic, no tuple longer than 120 s. " +
		"Bound (" + r.Tier + ", Lite lists): " + b.Describe() + "; upgrade configs {major},{patch},{minor,first package:none},{major,last package:none} (the last package is the vulnerable transitive one in the chain shapes); shapes " + strings.Join(u.FixShapes, ", ") + " of verif/universe/gen.go, each the full product of its lists, times the option variants of universe.OptionVariants (default, ignore=[Vi], explicit=[Vi], dev-deps off with requirement i marked dev, requirement i marked dev with dev-deps on, max depth 1, max depth 2, min severity 5.0 with V1 low/V2 high and vice versa, no-introduce), enumerated simplest first."
	os.RemoveAll(scratchRoot)
	r.Finish(rule, exhaustive)
}

func optClass(name string) string {
	for _, k := range []string{"ignore", "explicit", "nodev", "devkept", "minsev"} {
		if strings.HasPrefix(name, k) {
			return k
		}
	}
	return name
}

func replay(file string) int {
	b, err := os.ReadFile(file)
	if err != nil {
		fmt.Fprintln(os.Stderr, err)
		return 3
	}
	var rec struct {
		Key    string     `json:"key"`
		Replay replayData `json:"replay"`
	}
	if err := json.Unmarshal(b, &rec); err != nil {
		fmt.Fprintln(os.Stderr, err)
		return 3
	}
	c := &rec.Replay.Case
	ob, _ := json.Marshal(c.Opt)
	fmt.Printf("replaying %s tuple (recorded key %s)\nregistry:\n%s\nmanifest:\n%s\nvulns: %+v\ncfg: %v\noptions: %s\n", strategyOf(c), rec.Key, c.SchemaText(), c.ManifestBytes(), c.Vulns, c.Cfg, ob)
	var out *tupleOut
	if !u.Watchdog(watchdog, func() { out = runTuple(c, filepath.Join(scratchRoot, "replay")) }) {
		fmt.Println("HANG: tuple did not terminate within", watchdog)
		return 1
	}
	for _, l := range out.log {
		fmt.Println("  ", l)
	}
	for k, n := range out.dontcare {
		fmt.Printf("   don't-care cell %s x%d\n", k, n)
	}
	if len(out.findings) == 0 {
		fmt.Println("replay: property holds on this tuple")
		return 0
	}
	for _, f := range out.findings {
		fmt.Printf("VIOLATION key=%s: %s\n", f.Key, f.What)
	}
	return 1
}
