// C08 — scan results depend only on content, not on enumeration order or root count.
//
// Exhaustive over: every tree with <= N nodes over a label alphabet chosen to create
// ties on the sort keys x EVERY permutation of EVERY directory's listing order x
// every permutation of the extractor list (the order ExtractorsFromNames' map
// iteration may produce) and of the detector list x root sets of size 1..3.
//
// Oracle (no hand-written expected values):
//
//	(1) multiset of packages / findings / statuses and the overall status are identical
//	    across all permutations; the sequence of *sort keys* of the emitted slices is identical;
//	(2) packages are non-decreasing under CmpPackages, statuses by name, findings by
//	    (advisory reference, extra);
//	(3) Scan(r1..rn) == multiset union of Scan(ri): packages and findings (extractor-produced);
//	    exactly one status entry per plugin.
//
// Don't care: relative order of entries that tie on every documented sort key.
package main

import (
	"context"
	"fmt"
	"io/fs"
	"sort"
	"strings"
	"time"

	scalibr "github.com/google/osv-scalibr"
	"github.com/google/osv-scalibr/detector"
	"github.com/google/osv-scalibr/extractor"
	"github.com/google/osv-scalibr/extractor/filesystem"
	scalibrfs "github.com/google/osv-scalibr/fs"
	"github.com/google/osv-scalibr/inventory"
	"github.com/google/osv-scalibr/packageindex"
	"github.com/google/osv-scalibr/plugin"
	"verif/ev"
	"verif/memfs"
	"verif/scankit"
)

type label struct {
	name string
	dir  bool
	data string
}

// file content = "name version" of the package the file declares
var labels = []label{
	{"a", true, ""},
	{"b", true, ""},
	{"f1.pkg", false, "X 1"},
	{"f2.pkg", false, "X 1"},   // ties with f1.pkg on name+version
	{"f3.pkg", false, "X-a 2"}, // "X" is a proper prefix of this name and '-' sorts below most separators a joined key might use
	{"f4.pkg", false, "X 0"},   // ties on name only
}

func genTrees(n int) []*memfs.Node {
	type key struct{ k, from int }
	memo := map[key][][]*memfs.Node{}
	var forests func(k, from int) [][]*memfs.Node
	forests = func(k, from int) [][]*memfs.Node {
		if k == 0 {
			return [][]*memfs.Node{nil}
		}
		if v, ok := memo[key{k, from}]; ok {
			return v
		}
		var out [][]*memfs.Node
		for i := from; i < len(labels); i++ {
			l := labels[i]
			maxSub := 0
			if l.dir {
				maxSub = k - 1
			}
			for sub := 0; sub <= maxSub; sub++ {
				for _, ch := range forests(sub, 0) {
					for _, rest := range forests(k-1-sub, i+1) {
						nd := &memfs.Node{Name: l.name, Data: l.data, Kind: memfs.File}
						if l.dir {
							nd.Kind = memfs.Dir
						}
						nd.Children = ch
						out = append(out, append([]*memfs.Node{nd}, rest...))
					}
				}
			}
		}
		memo[key{k, from}] = out
		return out
	}
	var trees []*memfs.Node
	for _, f := range forests(n, 0) {
		t := (&memfs.Node{Kind: memfs.Dir, Children: f}).Clone()
		// the same relative path has a different mode and size in different sub-trees: f4.pkg is
		// executable and longer only directly under a directory named "a" (sub-trees become scan roots)
		var rec func(n *memfs.Node, inA bool)
		rec = func(n *memfs.Node, inA bool) {
			for _, c := range n.Children {
				if c.Kind == memfs.File && c.Name == "f4.pkg" && inA {
					c.Perm = 0o755
					c.Data = "X 0 padded"
				}
				if c.Kind == memfs.Dir {
					rec(c, c.Name == "a")
				}
			}
		}
		rec(t, false)
		trees = append(trees, t)
	}
	return trees
}

// dirsOf lists the directories (incl. root) with >= 2 children.
func dirsOf(root *memfs.Node) []*memfs.Node {
	var ds []*memfs.Node
	var rec func(n *memfs.Node)
	rec = func(n *memfs.Node) {
		if n.Kind != memfs.Dir {
			return
		}
		if len(n.Children) >= 2 {
			ds = append(ds, n)
		}
		for _, c := range n.Children {
			rec(c)
		}
	}
	rec(root)
	return ds
}

// allOrders calls fn for every combination of per-directory listing permutations.
func allOrders(root *memfs.Node, fn func(desc string)) int {
	ds := dirsOf(root)
	orig := make([][]*memfs.Node, len(ds))
	perms := make([][][]int, len(ds))
	for i, d := range ds {
		orig[i] = append([]*memfs.Node{}, d.Children...)
		perms[i] = memfs.Permutations(len(d.Children))
	}
	count := 0
	idx := make([]int, len(ds))
	for {
		var desc []string
		for i, d := range ds {
			p := perms[i][idx[i]]
			for j, k := range p {
				d.Children[j] = orig[i][k]
			}
			desc = append(desc, fmt.Sprint(p))
		}
		fn(strings.Join(desc, ""))
		count++
		k := 0
		for k < len(ds) {
			idx[k]++
			if idx[k] < len(perms[k]) {
				break
			}
			idx[k] = 0
			k++
		}
		if k == len(ds) {
			break
		}
	}
	for i, d := range ds {
		copy(d.Children, orig[i])
	}
	return count
}

type meta struct{ From string }

func mkExtractors() []filesystem.Extractor {
	parse := func(data []byte) (string, string) {
		n, v, _ := strings.Cut(string(data), " ")
		return n, v
	}
	req := func(api filesystem.FileAPI) bool { return strings.HasSuffix(api.Path(), ".pkg") }
	eA := &scankit.Ex{N: "ex-a", Req: req, Out: func(e *scankit.Ex, in *filesystem.ScanInput, data []byte, _ error) (inventory.Inventory, error) {
		n, v := parse(data)
		return inventory.Inventory{Packages: []*extractor.Package{{Name: n, Version: v, Locations: []string{in.Path}}}}, nil
	}}
	// ex-b ties with ex-a on name+version+location, differs in extractor; also emits an extractor-side finding
	eB := &scankit.Ex{N: "ex-b", Req: req, Out: func(e *scankit.Ex, in *filesystem.ScanInput, data []byte, _ error) (inventory.Inventory, error) {
		n, v := parse(data)
		return inventory.Inventory{
			Packages: []*extractor.Package{{Name: n, Version: v, Locations: []string{in.Path}}},
			Findings: []*detector.Finding{{Adv: adv("FS-1"), Extra: in.Path}},
		}, nil
	}}
	// ex-c: ties on all four sort keys (fixed location), differs only in metadata
	eC := &scankit.Ex{N: "ex-c", Req: func(api filesystem.FileAPI) bool {
		return strings.HasSuffix(api.Path(), "f1.pkg") || strings.HasSuffix(api.Path(), "f3.pkg")
	},
		Out: func(e *scankit.Ex, in *filesystem.ScanInput, data []byte, _ error) (inventory.Inventory, error) {
			return inventory.Inventory{Packages: []*extractor.Package{{Name: "T", Version: "1", Locations: []string{"fixed"}, Metadata: &meta{in.Path}}}}, nil
		}}
	// ex-d: packages with SEVERAL locations that arrive unsorted; the two packages tie on name,
	// version and extractor, and their order under sorted locations ([aa/.. zz/..] < [mm/..]) is the
	// opposite of their order under the arrival order ([zz/.. aa/..] > [mm/..])
	eD := &scankit.Ex{N: "ex-d", Req: func(api filesystem.FileAPI) bool {
		return strings.HasSuffix(api.Path(), "f1.pkg") || strings.HasSuffix(api.Path(), "f3.pkg")
	},
		Out: func(e *scankit.Ex, in *filesystem.ScanInput, data []byte, _ error) (inventory.Inventory, error) {
			locs := []string{"mm/" + in.Path}
			if strings.HasSuffix(in.Path, "f1.pkg") {
				locs = []string{"zz/" + in.Path, "aa/" + in.Path}
			}
			return inventory.Inventory{Packages: []*extractor.Package{{Name: "M", Version: "1", Locations: locs}}}, nil
		}}
	// ex-x: requires executables only, i.e. its FileRequired calls Stat() (lazy, cached by the walker)
	eX := &scankit.Ex{N: "ex-x", Req: func(api filesystem.FileAPI) bool {
		return strings.HasSuffix(api.Path(), ".pkg") && scankit.ReqExec(api)
	}, Out: func(e *scankit.Ex, in *filesystem.ScanInput, data []byte, _ error) (inventory.Inventory, error) {
		return inventory.Inventory{Packages: []*extractor.Package{{Name: "exec", Version: fmt.Sprint(in.Info.Size()), Locations: []string{in.Path}}}}, nil
	}}
	return []filesystem.Extractor{eA, eB, eC, eD, eX}
}

func adv(ref string) *detector.Advisory {
	return &detector.Advisory{ID: &detector.AdvisoryID{Publisher: "P", Reference: ref}, Title: "t-" + ref}
}

func mkDetectors() []detector.Detector {
	d1 := &scankit.Det{N: "det-1", Fn: func(_ context.Context, _ *scalibrfs.ScanRoot, px *packageindex.PackageIndex) ([]*detector.Finding, error) {
		return []*detector.Finding{{Adv: adv("ADV-2"), Extra: "z"}, {Adv: adv("ADV-1"), Extra: "b"}}, nil
	}}
	d2 := &scankit.Det{N: "det-0", Fn: func(_ context.Context, _ *scalibrfs.ScanRoot, px *packageindex.PackageIndex) ([]*detector.Finding, error) {
		return []*detector.Finding{{Adv: adv("ADV-1"), Extra: "a"}, {Adv: adv("ADV-1"), Extra: fmt.Sprintf("n=%d", len(px.GetAll()))}}, nil
	}}
	return []detector.Detector{d1, d2}
}

type observed struct {
	pkgKeys  []string // documented sort keys, in emitted order
	pkgFull  []string // full description incl. metadata (compared as multiset)
	findKeys []string
	findFull []string
	status   []string
	overall  string
}

func pkgKey(p *extractor.Package) string {
	en := "<nil>"
	if p.Extractor != nil {
		en = p.Extractor.Name()
	}
	return fmt.Sprintf("%s\x00%s\x00%s\x00%v", p.Name, p.Version, en, p.Locations)
}

func observe(res *scalibr.ScanResult) observed {
	var o observed
	for _, p := range res.Inventory.Packages {
		o.pkgKeys = append(o.pkgKeys, pkgKey(p))
		md := ""
		if m, ok := p.Metadata.(*meta); ok {
			md = m.From
		}
		o.pkgFull = append(o.pkgFull, pkgKey(p)+"\x00"+md)
	}
	for _, f := range res.Inventory.Findings {
		o.findKeys = append(o.findKeys, f.Adv.ID.Reference+"\x00"+f.Extra)
		o.findFull = append(o.findFull, fmt.Sprintf("%s\x00%s\x00%v", f.Adv.ID.Reference, f.Extra, f.Detectors))
	}
	for _, s := range res.PluginStatus {
		o.status = append(o.status, s.Name+"="+s.Status.String())
	}
	o.overall = res.Status.String()
	return o
}

func sorted(xs []string) []string {
	c := append([]string{}, xs...)
	sort.Strings(c)
	return c
}

func eq(a, b []string) bool { return strings.Join(a, "\x01") == strings.Join(b, "\x01") }

func scan(roots []*memfs.Node, exs []filesystem.Extractor, dets []detector.Detector) (*scalibr.ScanResult, observed) {
	return scanAt(roots, nil, exs, dets)
}

// scanAt is scan with host paths for the roots (nil: virtual roots) and, if paths are given,
// StoreAbsolutePath switched on.
func scanAt(roots []*memfs.Node, paths []string, exs []filesystem.Extractor, dets []detector.Detector) (*scalibr.ScanResult, observed) {
	var sr []*scalibrfs.ScanRoot
	for i, r := range roots {
		p := ""
		if paths != nil {
			p = paths[i]
		}
		sr = append(sr, &scalibrfs.ScanRoot{FS: memfs.New(r), Path: p})
	}
	cfg := &scalibr.ScanConfig{FilesystemExtractors: exs, Detectors: dets, Capabilities: &plugin.Capabilities{}, ScanRoots: sr, StoreAbsolutePath: paths != nil}
	res := scalibr.New().Scan(context.Background(), cfg)
	return res, observe(res)
}

// statusSet describes plugin statuses up to the order of the lines of a failure reason (the
// reason is free text assembled in walk order; which files failed is content, their order is not).
func statusSet(res *scalibr.ScanResult) []string {
	var out []string
	for _, s := range res.PluginStatus {
		lines := strings.Split(s.Status.FailureReason, "\n")
		sort.Strings(lines)
		out = append(out, fmt.Sprintf("%s=%v[%s]", s.Name, s.Status.Status, strings.Join(lines, "|")))
	}
	sort.Strings(out)
	return out
}

// failingFamily: one extractor fails on every file of a directory holding N files; the files are
// listed in several orders and split over two roots. The plugin status (enum and the set of
// reported failures) must not depend on the listing order, and the two-root scan must report the
// union of what the single-root scans report.
func failingFamily(r *ev.Run) {
	fail := func() []filesystem.Extractor {
		return []filesystem.Extractor{&scankit.Ex{N: "ex-f", Req: scankit.ReqAlways, Out: func(e *scankit.Ex, in *filesystem.ScanInput, _ []byte, _ error) (inventory.Inventory, error) {
			if strings.HasSuffix(in.Path, "ok.pkg") {
				return inventory.Inventory{Packages: []*extractor.Package{{Name: "ok", Version: "1", Locations: []string{in.Path}}}}, nil
			}
			return inventory.Inventory{}, fmt.Errorf("cannot parse %s", in.Path)
		}}}
	}
	for _, n := range ev.Pick(r, []int{1, 2, 3, 9, 10, 11, 12, 25}, []int{1, 2, 3, 4, 5, 9, 10, 11, 12, 13, 25, 64, 101, 257}) {
		for _, withOK := range []bool{false, true} {
			var files []*memfs.Node
			for i := 0; i < n; i++ {
				if withOK && i == n/2 {
					// the one file that yields results sits in the middle of the canonical listing, so
					// that the listing orders below put it first, last and in between
					files = append(files, memfs.F("m-ok.pkg", "x"))
				}
				files = append(files, memfs.F(fmt.Sprintf("f%03d.pkg", i), "x"))
			}
			n := len(files)
			orders := map[string][]*memfs.Node{"identity": files}
			rev := make([]*memfs.Node, n)
			for i := range files {
				rev[n-1-i] = files[i]
			}
			orders["reversed"] = rev
			orders["rotated-by-1"] = append(append([]*memfs.Node{}, files[1:]...), files[0])
			orders["rotated-by-half"] = append(append([]*memfs.Node{}, files[n/2:]...), files[:n/2]...)
			var inter []*memfs.Node
			for i := 0; i < n; i += 2 {
				inter = append(inter, files[i])
			}
			for i := 1; i < n; i += 2 {
				inter = append(inter, files[i])
			}
			orders["evens-then-odds"] = inter
			{
				mk := func(fs []*memfs.Node) *memfs.Node {
					return memfs.D("", memfs.D("a", append([]*memfs.Node{}, fs...)...))
				}
				resRef, _ := scan([]*memfs.Node{mk(files)}, fail(), nil)
				ref := statusSet(resRef)
				for name, o := range orders {
					res, _ := scan([]*memfs.Node{mk(o)}, fail(), nil)
					r.Evals.Add(1)
					r.Nontrivial.Add(1)
					if got := statusSet(res); !eq(got, ref) {
						r.Violation("status-depends-on-enumeration", fmt.Sprintf("%d failing files (ok file: %v) listed %s: statuses %q, canonical listing %q", n, withOK, name, got, ref), map[string]any{"failing_files": n, "listing": name, "with_ok_file": withOK})
					}
				}
				if n >= 2 {
					a, b := mk(files[:n/2]), mk(files[n/2:])
					ra, _ := scan([]*memfs.Node{a}, fail(), nil)
					rb, _ := scan([]*memfs.Node{b}, fail(), nil)
					rab, _ := scan([]*memfs.Node{a, b}, fail(), nil)
					r.Evals.Add(1)
					lines := func(res *scalibr.ScanResult) []string {
						var out []string
						for _, s := range res.PluginStatus {
							if s.Status.FailureReason != "" {
								out = append(out, strings.Split(s.Status.FailureReason, "\n")...)
							}
						}
						sort.Strings(out)
						return out
					}
					want := sorted(append(lines(ra), lines(rb)...))
					if got := lines(rab); !eq(got, want) {
						r.Violation("multi-root-status-not-union", fmt.Sprintf("%d failing files split over two roots: failures reported %q, the single-root scans report %q", n, got, want), map[string]any{"failing_files": n, "with_ok_file": withOK})
					}
					// the status enum too: failed / partially succeeded is decided by whether ANY file of ANY
					// root yielded results, not by the last one
					enum := func(res *scalibr.ScanResult) string {
						for _, s := range res.PluginStatus {
							if s.Name == "ex-f" {
								return fmt.Sprint(s.Status.Status)
							}
						}
						return "absent"
					}
					rba, _ := scan([]*memfs.Node{b, a}, fail(), nil)
					if enum(rab) != enum(rba) {
						r.Violation("status-depends-on-enumeration", fmt.Sprintf("%d failing files (ok file: %v) split over two roots: status %s with roots in one order, %s in the other", n, withOK, enum(rab), enum(rba)), map[string]any{"failing_files": n, "with_ok_file": withOK})
					}
				}
			}
		}
	}
	gitignoreRoots(r)
	faultedListing(r)
}

// faultedListing: "no package reported twice" also when a directory listing fails part-way: for a
// directory of 4 package files in 3 listing orders and a fault at each of its entry reads (two error
// kinds), with the streaming and the one-shot listing interface, the result holds no package twice
// and nothing that the fault-free scan does not hold.
func faultedListing(r *ev.Run) {
	ex := func() []filesystem.Extractor {
		return []filesystem.Extractor{&scankit.Ex{N: "ex-g", Req: func(api filesystem.FileAPI) bool { return strings.HasSuffix(api.Path(), ".pkg") }}}
	}
	files := []*memfs.Node{memfs.F("f1.pkg", "x"), memfs.F("f2.pkg", "x"), memfs.F("f3.pkg", "x"), memfs.F("f4.pkg", "x")}
	orders := [][]*memfs.Node{files, {files[3], files[2], files[1], files[0]}, {files[2], files[0], files[3], files[1]}}
	for oi, o := range orders {
		for _, noRDF := range []bool{false, true} {
			root := memfs.D("", memfs.D("a", o...), memfs.F("z.pkg", "x"))
			clean := memfs.New(root)
			clean.NoReadDirFile = noRDF
			cfg := &scalibr.ScanConfig{FilesystemExtractors: ex(), Capabilities: &plugin.Capabilities{}, ScanRoots: []*scalibrfs.ScanRoot{{FS: clean, Path: ""}}}
			ref := scalibr.New().Scan(context.Background(), cfg)
			full := map[string]bool{}
			for _, p := range ref.Inventory.Packages {
				full[p.Name] = true
			}
			seen := map[string]bool{}
			for _, site := range clean.Log {
				if seen[site] || !strings.HasPrefix(site, "readdir") {
					continue
				}
				seen[site] = true
				for _, e := range []error{fs.ErrPermission, memfs.ErrInjectedIO} {
					m := memfs.New(root)
					m.NoReadDirFile = noRDF
					m.Faults = map[string]error{site: e}
					c2 := &scalibr.ScanConfig{FilesystemExtractors: ex(), Capabilities: &plugin.Capabilities{}, ScanRoots: []*scalibrfs.ScanRoot{{FS: m, Path: ""}}}
					res := scalibr.New().Scan(context.Background(), c2)
					r.Evals.Add(1)
					r.Nontrivial.Add(1)
					cnt := map[string]int{}
					for _, p := range res.Inventory.Packages {
						cnt[p.Name]++
					}
					for name, n := range cnt {
						if n > 1 || !full[name] {
							r.Violation("package-reported-twice-under-listing-fault", fmt.Sprintf("listing order %d (ReadDirFile=%v), fault %s (%v): package %s reported %d times (fault-free scan has it: %v)", oi, !noRDF, site, e, name, n, full[name]), map[string]any{"listing_order": oi, "no_readdirfile": noRDF, "fault_site": site})
						}
					}
				}
			}
		}
	}
}

// gitignoreRoots: options that keep per-directory state during the walk (gitignore patterns, skipped
// directories) must not leak from one root into the next: a two-root scan is the union of the
// single-root scans, in both root orders.
func gitignoreRoots(r *ev.Run) {
	ex := func() []filesystem.Extractor {
		return []filesystem.Extractor{&scankit.Ex{N: "ex-g", Req: func(api filesystem.FileAPI) bool { return strings.HasSuffix(api.Path(), ".pkg") }}}
	}
	for _, body := range []string{"f2.pkg\n", "*.pkg\n", "/f1.pkg\n"} {
		for _, skipAt := range []string{"", "skipme", "a/skipme"} {
			r1 := memfs.D("", memfs.F(".gitignore", body), memfs.D("a", memfs.D("skipme", memfs.F("f3.pkg", "x")), memfs.F("f2.pkg", "x")), memfs.F("f1.pkg", "x"), memfs.F("f2.pkg", "x"), memfs.D("skipme", memfs.F("f4.pkg", "x")))
			r2 := memfs.D("", memfs.D("a", memfs.F("f2.pkg", "x")), memfs.F("f1.pkg", "x"), memfs.F("f2.pkg", "x"))
			one := func(roots []*memfs.Node) []string {
				var sr []*scalibrfs.ScanRoot
				for _, rt := range roots {
					sr = append(sr, &scalibrfs.ScanRoot{FS: memfs.New(rt), Path: ""})
				}
				cfg := &scalibr.ScanConfig{FilesystemExtractors: ex(), Capabilities: &plugin.Capabilities{}, ScanRoots: sr, UseGitignore: true}
				if skipAt != "" {
					cfg.DirsToSkip = []string{skipAt}
				}
				res := scalibr.New().Scan(context.Background(), cfg)
				var out []string
				for _, p := range res.Inventory.Packages {
					out = append(out, p.Name)
				}
				sort.Strings(out)
				return out
			}
			// one root, every listing order of its directories: a skipped directory listed BEFORE an
			// ignored file must not disturb the patterns that apply to its later siblings
			canonical := one([]*memfs.Node{r1})
			perms := allOrders(r1, func(desc string) {
				got := one([]*memfs.Node{r1})
				r.Evals.Add(1)
				if !eq(got, canonical) {
					r.Violation("package-multiset-depends-on-enumeration", fmt.Sprintf("gitignore %q, skipped directory %q, listing %s: packages %q, canonical listing %q", body, skipAt, desc, got, canonical), map[string]any{"gitignore": body, "skip": skipAt, "listing": desc})
				}
			})
			r.Nontrivial.Add(int64(perms))
			want := sorted(append(one([]*memfs.Node{r1}), one([]*memfs.Node{r2})...))
			for _, order := range [][]*memfs.Node{{r1, r2}, {r2, r1}} {
				got := one(order)
				r.Evals.Add(1)
				r.Nontrivial.Add(1)
				if !eq(got, want) {
					r.Violation("multi-root-packages-not-union", fmt.Sprintf("gitignore %q, skipped directory %q, roots in order %v: packages %q, union of the single-root scans %q", body, skipAt, order[0] == r1, got, want), map[string]any{"gitignore": body, "skip": skipAt})
				}
			}
		}
	}
}

// sortedness checks the documented order on the emitted slices.
func sortedness(res *scalibr.ScanResult) string {
	ps := res.Inventory.Packages
	for i := 1; i < len(ps); i++ {
		if scalibr.CmpPackages(ps[i-1], ps[i]) > 0 {
			return fmt.Sprintf("packages not sorted at %d: %q > %q", i, pkgKey(ps[i-1]), pkgKey(ps[i]))
		}
		// independent statement of the documented order (name, version, extractor, locations)
		a, b := ps[i-1], ps[i]
		ka := []string{a.Name, a.Version, a.Extractor.Name(), fmt.Sprint(a.Locations)}
		kb := []string{b.Name, b.Version, b.Extractor.Name(), fmt.Sprint(b.Locations)}
		for j := range ka {
			if ka[j] < kb[j] {
				break
			}
			if ka[j] > kb[j] {
				return fmt.Sprintf("packages not in documented order at %d: %v > %v", i, ka, kb)
			}
		}
	}
	st := res.PluginStatus
	for i := 1; i < len(st); i++ {
		if st[i-1].Name > st[i].Name {
			return fmt.Sprintf("statuses not sorted: %s > %s", st[i-1].Name, st[i].Name)
		}
	}
	fs := res.Inventory.Findings
	for i := 1; i < len(fs); i++ {
		a, b := fs[i-1], fs[i]
		if a.Adv.ID.Reference > b.Adv.ID.Reference || (a.Adv.ID.Reference == b.Adv.ID.Reference && a.Extra > b.Extra) {
			return fmt.Sprintf("findings not sorted at %d", i)
		}
	}
	for _, p := range ps {
		if !sort.StringsAreSorted(p.Locations) {
			return "package locations not sorted"
		}
	}
	return ""
}

func permuteEx(exs []filesystem.Extractor, p []int) []filesystem.Extractor {
	out := make([]filesystem.Extractor, len(exs))
	for i, k := range p {
		out[i] = exs[k]
	}
	return out
}

func main() {
	scankit.Quiet()
	r := ev.Start("C08", "exploration", 5*time.Minute, 30*time.Minute)
	maxNodes := ev.Pick(r, 5, 6)
	// 10 of the 120 orders of the 5 extractors: every rotation of the canonical order and of its
	// reverse, so that every pair of extractors occurs in both relative orders and every
	// extractor occurs in every position
	var exPerms [][]int
	for rot := 0; rot < 5; rot++ {
		var a, b []int
		for i := 0; i < 5; i++ {
			a = append(a, (i+rot)%5)
			b = append(b, (4-i+rot)%5)
		}
		exPerms = append(exPerms, a, b)
	}
	detPerms := memfs.Permutations(2)
	completed := -1
	for n := 1; n <= maxNodes && !r.Expired(); n++ {
		trees := genTrees(n)
		done := r.ParallelFor(len(trees), func(i int) {
			root := trees[i]
			ts := root.String()
			exs, dets := mkExtractors(), mkDetectors()
			// reference observation: canonical listing, canonical plugin order
			_, ref := scan([]*memfs.Node{root}, exs, dets)
			nt := len(ref.pkgKeys) >= 2 && len(dirsOf(root)) >= 1
			cnt := allOrders(root, func(desc string) {
				for _, ep := range exPerms {
					for _, dp := range detPerms {
						de := []detector.Detector{dets[dp[0]], dets[dp[1]]}
						res, o := scan([]*memfs.Node{root}, permuteEx(exs, ep), de)
						r.Evals.Add(1)
						what := ""
						switch {
						case !eq(o.pkgKeys, ref.pkgKeys):
							what = "package-order-depends-on-enumeration"
						case !eq(sorted(o.pkgFull), sorted(ref.pkgFull)):
							what = "package-multiset-depends-on-enumeration"
						case !eq(o.findKeys, ref.findKeys):
							what = "finding-order-depends-on-enumeration"
						case !eq(sorted(o.findFull), sorted(ref.findFull)):
							what = "finding-multiset-depends-on-enumeration"
						case !eq(o.status, ref.status) || o.overall != ref.overall:
							what = "status-depends-on-enumeration"
						}
						if what == "" {
							if sortedness(res) != "" {
								what = "not-sorted"
							}
						}
						if what != "" {
							r.Violation(what, fmt.Sprintf("tree %s listing %s extractor order %v detector order %v: got pkgs %q findings %q status %v; reference pkgs %q findings %q status %v; %s",
								ts, desc, ep, dp, o.pkgKeys, o.findKeys, o.status, ref.pkgKeys, ref.findKeys, ref.status, sortedness(res)),
								map[string]any{"tree": ts, "listing": desc, "extractor_order": ep, "detector_order": dp})
						}
					}
				}
			})
			// the same listing orders for a scan that FAILS late (two detectors disagree on an advisory):
			// what such a scan still reports must be as sorted and as order-independent as any other result
			conflict := &scankit.Det{N: "det-2", Fn: func(_ context.Context, _ *scalibrfs.ScanRoot, _ *packageindex.PackageIndex) ([]*detector.Finding, error) {
				a := adv("ADV-1")
				a.Title = "another body for ADV-1"
				return []*detector.Finding{{Adv: a, Extra: "c"}}, nil
			}}
			detsC := append(append([]detector.Detector{}, dets...), conflict)
			_, refC := scan([]*memfs.Node{root}, exs, detsC)
			allOrders(root, func(desc string) {
				res, o := scan([]*memfs.Node{root}, exs, detsC)
				r.Evals.Add(1)
				what := ""
				switch {
				case !eq(o.pkgKeys, refC.pkgKeys):
					what = "package-order-depends-on-enumeration"
				case !eq(o.status, refC.status) || o.overall != refC.overall:
					what = "status-depends-on-enumeration"
				case sortedness(res) != "":
					what = "not-sorted"
				}
				if what != "" {
					r.Violation(what, fmt.Sprintf("tree %s listing %s, scan failing on conflicting advisories: pkgs %q status %v (%s); canonical listing pkgs %q status %v; %s", ts, desc, o.pkgKeys, o.status, o.overall, refC.pkgKeys, refC.status, sortedness(res)),
						map[string]any{"tree": ts, "listing": desc, "conflicting_advisories": true})
				}
			})
			if nt {
				r.Nontrivial.Add(int64(cnt)) // distinct (tree, listing-permutation vector) pairs with >=2 packages and a directory with >=2 entries
			}
			if nt && r.SampleN() < 3 && cnt >= 12 {
				r.Sample(map[string]any{"tree": ts, "listing_permutation_vectors": cnt, "extractor_orders": len(exPerms), "detector_orders": len(detPerms), "packages": len(ref.pkgKeys)})
			}
			// (3) multi-root: the top-level directories as separate roots, every ordered selection of 2..3
			var tops []*memfs.Node
			for _, c := range root.Children {
				if c.Kind == memfs.Dir {
					tops = append(tops, &memfs.Node{Kind: memfs.Dir, Children: c.Children})
				}
			}
			// also the whole tree itself as a root next to its sub-trees (overlapping content, distinct roots)
			tops = append(tops, root)
			var sel func(cur []int)
			sel = func(cur []int) {
				if len(cur) >= 2 {
					var rs []*memfs.Node
					var union observed
					for _, k := range cur {
						rs = append(rs, tops[k])
						_, o1 := scan([]*memfs.Node{tops[k]}, exs, nil)
						union.pkgFull = append(union.pkgFull, o1.pkgFull...)
						union.findFull = append(union.findFull, o1.findFull...)
					}
					res, o := scan(rs, exs, nil)
					r.Evals.Add(1)
					if len(union.pkgFull) > 0 {
						r.Nontrivial.Add(1)
					}
					// the same selection with host paths /r0, /r1, ... and absolute locations
					{
						var paths []string
						var unionAbs []string
						for j, k := range cur {
							paths = append(paths, fmt.Sprintf("/r%d", j))
							_, o1 := scanAt([]*memfs.Node{tops[k]}, []string{fmt.Sprintf("/r%d", j)}, exs, nil)
							unionAbs = append(unionAbs, o1.pkgFull...)
						}
						_, oa := scanAt(rs, paths, exs, nil)
						r.Evals.Add(1)
						if !eq(sorted(oa.pkgFull), sorted(unionAbs)) {
							r.Violation("multi-root-packages-not-union", fmt.Sprintf("tree %s roots %v with host paths %v and StoreAbsolutePath: got %q want %q", ts, cur, paths, sorted(oa.pkgFull), sorted(unionAbs)), map[string]any{"tree": ts, "roots": cur, "absolute": true})
						}
					}
					switch {
					case !eq(sorted(o.pkgFull), sorted(union.pkgFull)):
						r.Violation("multi-root-packages-not-union", fmt.Sprintf("tree %s roots %v: %d packages, union of single-root scans has %d: got %q want %q", ts, cur, len(o.pkgFull), len(union.pkgFull), sorted(o.pkgFull), sorted(union.pkgFull)), map[string]any{"tree": ts, "roots": cur})
					case !eq(sorted(o.findFull), sorted(union.findFull)):
						r.Violation("multi-root-findings-not-union", fmt.Sprintf("tree %s roots %v: findings %q want %q", ts, cur, sorted(o.findFull), sorted(union.findFull)), map[string]any{"tree": ts, "roots": cur})
					case len(o.status) != len(exs):
						r.Violation("multi-root-status-per-root", fmt.Sprintf("tree %s roots %v: %d status entries for %d plugins: %v", ts, cur, len(o.status), len(exs), o.status), map[string]any{"tree": ts, "roots": cur})
					default:
						if s := sortedness(res); s != "" {
							r.Violation("not-sorted", fmt.Sprintf("tree %s roots %v: %s", ts, cur, s), nil)
						}
					}
				}
				if len(cur) == 3 {
					return
				}
				for k := range tops {
					used := false
					for _, c := range cur {
						if c == k {
							used = true
						}
					}
					if !used {
						sel(append(append([]int{}, cur...), k))
					}
				}
			}
			if len(tops) >= 2 && len(tops) <= 4 {
				sel(nil)
			}
		})
		if done == len(trees) {
			completed = n
		}
		r.Set(fmt.Sprintf("trees_with_%d_nodes", n), len(trees))
	}
	failingFamily(r)
	r.Set("bound", map[string]any{"max_nodes_completed": completed})
	r.Assume("Go map iteration order itself cannot be controlled; its consequence (the order of the extractor/detector lists) is enumerated instead")
	r.Finish(fmt.Sprintf("every tree with <=%d nodes over {dir a, dir b, f1.pkg..f4.pkg with tying contents (names X, X, X-a, X)} x every combination of per-directory listing permutations x 10 extractor-list orders (all rotations of the canonical order and of its reverse) x 2 detector-list orders, all compared with the canonical-order scan of the same tree (key sequences, full multisets, statuses) + sortedness; the same listing orders for a scan that fails late on conflicting advisories; plus every ordered selection of 2..3 roots among the top-level sub-trees and the whole tree vs the union of single-root scans, virtual roots and host-path roots with StoreAbsolutePath; plus the failing family: one extractor failing on N files (N up to 25, thorough 257) listed in 5 orders and split over two roots, statuses compared up to the order of failure-reason lines (with one result-yielding file first, last and in between); a root with a .gitignore and a skipped directory under every listing order; two such roots, both root orders, vs the union of single-root scans; a directory whose listing fails at each entry read (3 listing orders x 2 listing interfaces x 2 error kinds): no package twice. non-trivial = (tree, listing vector) with >=2 packages and a directory with >=2 entries, or a multi-root selection with >=1 package", maxNodes), completed == maxNodes)
}
