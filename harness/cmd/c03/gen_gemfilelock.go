package main

import (
	"github.com/google/osv-scalibr/extractor/filesystem"
	"github.com/google/osv-scalibr/extractor/filesystem/language/ruby/gemfilelock"
)

// Gemfile.lock: source sections (GEM / GIT / PATH) whose `specs:` list the locked gems at
// four spaces of indentation, their dependencies at six; PLATFORMS, DEPENDENCIES,
// RUBY VERSION, BUNDLED WITH and CHECKSUMS are not package records.
// A platform-specific spec `name (version-platform)` is the gem at `version`
// (gemfilelock_test.go:420 nokogiri 1.13.3 for `nokogiri (1.13.3-x86_64-linux)`).
// Source sections may come after the other sections (testdata/source-section-at-end.lock).
func fmtGemfile() *format {
	f := &format{
		id:   "gemfilelock",
		path: "Gemfile.lock",
		pool: []rec{
			{Name: "rake", Version: "13.0.6", Tag: "plain"},
			{Name: "nokogiri", Version: "1.13.3", W: "1.13.3-x86_64-linux", Tag: "platform-suffix"},
			{Name: "eco-source", Version: "1.1.0.rc.1", Tag: "hyphen-name-prerelease"},
			{Name: "a.b-c_d", Version: "1", Tag: "dots-underscore-name-single-char-version"},
			{Name: "rake1", Version: "3.0.6", Tag: "name+version-concat-equals-plain"},
			{Name: "activesupport", Version: "7.0.8.1", Tag: "four-segments"},
		},
		dims: []dim{
			{name: "eol", labels: eolLabels},
			{name: "trail", labels: trailLabels},
			{name: "deps", labels: []string{"none", "sub-dependency-lines"}},
			{name: "sections", labels: []string{"gem-only", "full", "sources-at-end+checksums"}},
			{name: "blank", labels: []string{"1", "2"}},
			// blank lines INSIDE a source section (after `specs:`, between specs): Bundler's
			// LockfileParser splits on runs of newlines and ignores lines that match nothing
			{name: "inblank", labels: []string{"none", "empty-lines-inside-sections", "whitespace-only-lines-inside-sections"}},
			{name: "othersrc", kind: posIdx, labels: []string{"GIT", "PATH"}},
		},
		newEx: func() filesystem.Extractor { return gemfilelock.New() },
	}
	f.gen = func(recs []rec, lay []int) genOut {
		l := layout{f, lay}
		oi, ok := l.at("othersrc") // records 0..oi live in a GIT / PATH section, the rest in GEM
		var truth []rec
		spec := func(r rec) []string {
			var out []string
			switch l.get("inblank") {
			case 1:
				out = append(out, "")
			case 2:
				out = append(out, "  ")
			}
			out = append(out, "    "+r.Name+" ("+r.written()+")")
			if l.get("deps") == 1 {
				out = append(out, "      concurrent-ruby (~> 1.0, >= 1.0.2)", "      not-a-package (= 9.9.9)", "      tzinfo")
			}
			return out
		}
		var other, gem []string
		if oi >= 0 {
			if ok == 0 {
				other = []string{"GIT", "  remote: https://github.com/example/forks.git", "  revision: 9b9d2f6e1d5c8f3b2a1c0d9e8f7a6b5c4d3e2f10", "  branch: main", "  specs:"}
			} else {
				other = []string{"PATH", "  remote: vendor/gems", "  specs:"}
			}
		}
		gem = []string{"GEM", "  remote: https://rubygems.org/", "  specs:"}
		for i, r := range recs {
			truth = append(truth, rec{Name: r.Name, Version: r.Version})
			if i <= oi {
				other = append(other, spec(r)...)
			} else {
				gem = append(gem, spec(r)...)
			}
		}
		var secs [][]string
		sources := [][]string{}
		if other != nil {
			sources = append(sources, other)
		}
		sources = append(sources, gem)
		if l.get("sections") == 0 {
			secs = sources
		} else {
			deps := []string{"DEPENDENCIES"}
			for i, r := range recs {
				d := "  " + r.Name
				if i%2 == 0 {
					d += " (~> " + r.Version + ")"
				}
				if i <= oi {
					d += "!"
				}
				deps = append(deps, d)
			}
			rest := [][]string{
				{"PLATFORMS", "  ruby", "  x86_64-linux"},
				deps,
				{"RUBY VERSION", "   ruby 3.2.2p53"},
			}
			bundled := []string{"BUNDLED WITH", "   2.4.10"}
			if l.get("sections") == 1 {
				secs = append(append(secs, sources...), rest...)
				secs = append(secs, bundled)
			} else {
				sums := []string{"CHECKSUMS"}
				for _, r := range recs {
					sums = append(sums, "  "+r.Name+" ("+r.written()+") sha256=814f4b1d2e0ebd6fe8a4e8f2e5d3c6f9a0b1c2d3e4f5a6b7c8d9e0f1a2b3c4d5")
				}
				secs = append(append(secs, rest...), sources...)
				secs = append(secs, sums, bundled)
			}
		}
		var lines []string
		for i, s := range secs {
			if i > 0 {
				for k := 0; k <= l.get("blank"); k++ {
					lines = append(lines, "")
				}
			}
			lines = append(lines, s...)
		}
		return genOut{file: finish(lines, eolOf(l.get("eol")), l.get("trail")), truth: truth}
	}
	return f
}
