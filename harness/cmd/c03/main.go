// C03 — well-formed package databases are reported completely and exactly.
//
// Bounded-exhaustive exploration. For each of 17 format variants (requirements.txt and go.mod
// have extra variants that enumerate discarded-line classes between records, comment texts
// quoting active syntax, and sequences of replace directives; dpkg status, apk
// installed, requirements.txt, go.mod, Cargo.lock, package-lock.json v1/v2/v3,
// composer.lock, Gemfile.lock, gradle.lockfile, poetry.lock, Pipfile.lock,
// packages.lock.json) a generator (gen_<format>.go) takes an ordered tuple of distinct
// (name, version) records drawn from a 6-entry pool of alphabet corners plus a layout
// vector, and WRITES the file together with the ground-truth multiset; it never parses.
// Every pool contains one pair of records whose name+version concatenations are equal
// (e.g. ("rake","13.0.6") / ("rake1","3.0.6")), so a de-duplication or map key built without
// a separator merges them; several pools contain the same name at two versions.
// The full product
//
//	every ordered n-tuple of distinct pool entries, n = 0..2 (quick) / 0..4 (thorough; 0..3 for the
//	formats with the largest layout products: dpkg, requirements (both variants), gomod (both
//	variants), cargolock, poetrylock)
//	x every value combination of the format's layout dimensions
//
// is enumerated, each file is handed to the real extractor's Extract(), and the
// multiset of (Name, Version) that comes back must equal the ground truth, every
// package must carry the file path among its Locations, and no error / panic may occur.
//
// DON'T-CARE CELLS (the property text is silent; the model avoids or accepts them):
//   - PyPI name spelling (requirements.txt, poetry.lock, Pipfile.lock): names are compared
//     after PEP 503 normalisation on both sides (lower-case, runs of [-_.] -> "-").
//   - go.mod: versions compared with a leading "v" trimmed on both sides (the extractor
//     documents trimming it: gomod_test.go:97 "1.0.0" for "v1.0.0").
//   - dpkg states other than `* * installed` vs `* * config-files` / `* * not-installed`
//     (half-installed, unpacked, triggers-*): never generated.
//   - dpkg multi-arch duplicates (same Package twice with different Architecture): never generated.
//   - packages.lock.json: the same (name, version) under two target frameworks (one or two
//     reports?) is never generated; `"type": "Project"` entries are never generated.
//   - package-lock.json `link: true` workspace entries, git/file/url versions: never generated.
//   - Pipfile.lock entries without a "version" (git / editable): never generated; the same
//     package in both "default" and "develop": never generated.
//   - requirements.txt: only `==` pins (what a frozen requirements file lists); range
//     operators, `name @ url`, env-vars, `-r` includes that add packages: never generated.
//     The `-r` target exists and holds only a comment.
//   - go.mod: `go` < 1.17 (go.sum merging), same module path required twice, two replace
//     directives with the same left side (go rejects them): never generated. A local-path replacement is
//     expected as (path, "") as documented by gomod_test.go "replacements_ local".
//   - Gemfile.lock: the same gem for two platforms: never generated. One platform-suffixed
//     spec `nokogiri (1.13.3-x86_64-linux)` is generated with ground truth version 1.13.3,
//     as documented by gemfilelock_test.go:420.
//   - CRLF is NOT part of the dpkg / apk alphabet (those databases are written by the
//     package manager on Linux and never carry CRLF); it IS part of the alphabet for the
//     text lockfiles and (as insignificant whitespace) for the JSON formats.
//   - Order of the returned packages, Metadata, SourceCode, extra Locations entries.
//
// Ground-truth quirks that are documented extractor behaviour (each cited in the generator):
// gomod `stdlib` package from go/toolchain directive, gomod replace semantics,
// package-lock de-duplication by name@version and alias resolution, root "" entry skipped.
package main

import (
	"bytes"
	"context"
	"encoding/json"
	"fmt"
	"hash/fnv"
	"os"
	"path"
	"regexp"
	"sort"
	"strings"
	"time"

	"github.com/google/osv-scalibr/extractor/filesystem"
	scalibrlog "github.com/google/osv-scalibr/log"
	"verif/ev"
	"verif/memfs"
)

// rec is one package record. W is the version text as written in the file when it
// differs from the ground-truth Version (Gemfile platform suffix); Tag names the
// alphabet corner the record stands for (used in cause keys).
type rec struct {
	Name, Version string
	W             string
	Tag           string
}

func (r rec) written() string {
	if r.W != "" {
		return r.W
	}
	return r.Version
}

type dimKind int

const (
	fixed  dimKind = iota // labels[] values, value 0 is the plain default
	posIdx                // 0 = none, else 1 + idx*kinds + kind : applies to record idx
	count                 // 0..n : applies to the last v records
)

type dim struct {
	name   string
	kind   dimKind
	labels []string // fixed: value labels; posIdx: kind labels (len = kinds)
	// slot groups interchangeable positional dimensions (a sequence of like items): the cause key
	// lists their values in order as <slot>[a,b] instead of naming the individual positions.
	slot string
}

func (d dim) size(n int) int {
	switch d.kind {
	case posIdx:
		return 1 + n*len(d.labels)
	case count:
		return n + 1
	}
	return len(d.labels)
}

// pos decodes a posIdx value: (record index, kind) or (-1, 0) for "none".
func pos(d dim, v int) (int, int) {
	if v == 0 {
		return -1, 0
	}
	k := len(d.labels)
	return (v - 1) / k, (v - 1) % k
}

type genOut struct {
	file  string
	truth []rec
	extra map[string]string // other files of the file system (path -> content)
}

type format struct {
	id    string
	path  string
	pool  []rec
	dims  []dim
	gen   func(recs []rec, lay []int) genOut
	newEx func() filesystem.Extractor
	norm  func(r rec) rec // comparison normalisation (don't-care cells), may be nil
	// maxThorough caps the record count in the thorough tier for formats whose layout
	// product is large (0 = the global bound 4). Quick always uses 0..2.
	maxThorough int
}

func (f *format) dimIndex(name string) int {
	for i, d := range f.dims {
		if d.name == name {
			return i
		}
	}
	panic("no dim " + name + " in " + f.id)
}

// L gives the layout value of a named dimension (generator convenience).
type layout struct {
	f *format
	v []int
}

func (l layout) get(name string) int { return l.v[l.f.dimIndex(name)] }
func (l layout) at(name string) (int, int) {
	i := l.f.dimIndex(name)
	return pos(l.f.dims[i], l.v[i])
}

type silent struct{}

func (silent) Errorf(string, ...any) {}
func (silent) Warnf(string, ...any)  {}
func (silent) Infof(string, ...any)  {}
func (silent) Debugf(string, ...any) {}
func (silent) Error(...any)          {}
func (silent) Warn(...any)           {}
func (silent) Info(...any)           {}
func (silent) Debug(...any)          {}

func buildFS(files map[string]string) *memfs.FS {
	root := memfs.D("")
	paths := make([]string, 0, len(files))
	for p := range files {
		paths = append(paths, p)
	}
	sort.Strings(paths)
	for _, p := range paths {
		cur := root
		parts := strings.Split(p, "/")
		for i, part := range parts {
			if i == len(parts)-1 {
				cur.Children = append(cur.Children, memfs.F(part, files[p]))
				break
			}
			var next *memfs.Node
			for _, c := range cur.Children {
				if c.Name == part && c.Kind == memfs.Dir {
					next = c
				}
			}
			if next == nil {
				next = memfs.D(part)
				cur.Children = append(cur.Children, next)
			}
			cur = next
		}
	}
	return memfs.New(root)
}

type observed struct {
	pkgs   []rec
	locBad string
	err    error
	panicV any
	stack  string
}

// extract runs the real extractor on the file.
func extract(f *format, file string, extra map[string]string) observed {
	files := map[string]string{f.path: file}
	for k, v := range extra {
		files[k] = v
	}
	m := buildFS(files)
	var o observed
	o.panicV, o.stack = ev.Recover(func() {
		fh, err := m.Open(f.path)
		if err != nil {
			panic("harness: open: " + err.Error())
		}
		info, err := fh.Stat()
		if err != nil {
			panic("harness: stat: " + err.Error())
		}
		in := &filesystem.ScanInput{FS: m, Path: f.path, Root: "", Info: info, Reader: bytes.NewReader([]byte(file))}
		inv, err := f.newEx().Extract(context.Background(), in)
		o.err = err
		for _, p := range inv.Packages {
			if p == nil {
				o.locBad = "nil package in inventory"
				continue
			}
			o.pkgs = append(o.pkgs, rec{Name: p.Name, Version: p.Version})
			has := false
			for _, l := range p.Locations {
				if l == f.path {
					has = true
				}
			}
			if !has && o.locBad == "" {
				o.locBad = fmt.Sprintf("package %s@%s has Locations=%q, none equals %q", p.Name, p.Version, p.Locations, f.path)
			}
		}
	})
	return o
}

func keyOf(r rec) string { return r.Name + "\x00" + r.Version }

func normed(f *format, rs []rec) []string {
	out := make([]string, 0, len(rs))
	for _, r := range rs {
		if f.norm != nil {
			r = f.norm(r)
		}
		out = append(out, keyOf(r))
	}
	sort.Strings(out)
	return out
}

func show(ks []string) string {
	var b strings.Builder
	b.WriteString("[")
	for i, k := range ks {
		if i > 0 {
			b.WriteString(" ")
		}
		n, v, _ := strings.Cut(k, "\x00")
		fmt.Fprintf(&b, "%q@%q", n, v)
	}
	b.WriteString("]")
	return b.String()
}

// diffMultiset returns want-got and got-want.
func diffMultiset(want, got []string) (missing, extra []string) {
	i, j := 0, 0
	for i < len(want) && j < len(got) {
		switch {
		case want[i] == got[j]:
			i++
			j++
		case want[i] < got[j]:
			missing = append(missing, want[i])
			i++
		default:
			extra = append(extra, got[j])
			j++
		}
	}
	missing = append(missing, want[i:]...)
	extra = append(extra, got[j:]...)
	return
}

// judge compares an observation with the ground truth. symptom is "" when it holds.
func judge(f *format, truth []rec, o observed) (symptom, what string) {
	if o.panicV != nil {
		return "panic@" + ev.PanicSite(o.stack), fmt.Sprintf("panic: %v", o.panicV)
	}
	if o.err != nil {
		return "error", fmt.Sprintf("Extract returned error: %v", o.err)
	}
	want, got := normed(f, truth), normed(f, o.pkgs)
	missing, extra := diffMultiset(want, got)
	if len(missing) > 0 || len(extra) > 0 {
		s := "mismatch"
		switch {
		case len(extra) == 0:
			s = "dropped"
		case len(missing) == 0:
			s = "extra"
		}
		return s, fmt.Sprintf("want %s got %s (missing %s, unexpected %s)", show(want), show(got), show(missing), show(extra))
	}
	if o.locBad != "" {
		return "location", o.locBad
	}
	return "", ""
}

func (f *format) check(recs []rec, lay []int) (symptom, what string, g genOut) {
	g = f.gen(recs, lay)
	symptom, what = judge(f, g.truth, extract(f, g.file, g.extra))
	return
}

// ---- failure attribution: shrink the failing case to its essential layout values and
// record corners; those form the cause key (one key per root cause, not per input).

func shiftLayout(f *format, lay []int, drop, n int) ([]int, bool) {
	nl := append([]int{}, lay...)
	for i, d := range f.dims {
		switch d.kind {
		case posIdx:
			idx, k := pos(d, lay[i])
			if idx == drop {
				return nil, false
			}
			if idx > drop {
				nl[i] = 1 + (idx-1)*len(d.labels) + k
			}
		case count:
			if nl[i] > n-1 {
				nl[i] = n - 1
			}
		}
	}
	return nl, true
}

func minimise(f *format, recs []rec, lay []int) ([]rec, []int, []string) {
	recs = append([]rec{}, recs...)
	lay = append([]int{}, lay...)
	fails := func(rs []rec, l []int) bool { s, _, _ := f.check(rs, l); return s != "" }
	zeroDims := func() {
		for changed := true; changed; {
			changed = false
			for d := range lay {
				if lay[d] == 0 {
					continue
				}
				old := lay[d]
				lay[d] = 0
				if fails(recs, lay) {
					changed = true
				} else {
					lay[d] = old
				}
			}
		}
	}
	zeroDims()
	for i := len(recs) - 1; i >= 0; i-- {
		nl, ok := shiftLayout(f, lay, i, len(recs))
		if !ok {
			continue
		}
		nr := append(append([]rec{}, recs[:i]...), recs[i+1:]...)
		if fails(nr, nl) {
			recs, lay = nr, nl
		}
	}
	zeroDims()
	// which record corners matter: a record that can be swapped for another (healthy) pool
	// entry without curing the failure contributes no tag.
	var tags []string
	sf := soloFails[f.id]
	for i := range recs {
		swapped := false
		for c, cand := range f.pool {
			if sf != nil && sf[c] {
				continue
			}
			clash := false
			for j := range recs {
				if recs[j] == cand || (j != i && recs[j].Name == cand.Name) {
					clash = true
				}
			}
			if clash {
				continue
			}
			trial := append([]rec{}, recs...)
			trial[i] = cand
			swapped = fails(trial, lay)
			break
		}
		if !swapped {
			tags = append(tags, recs[i].Tag)
		}
	}
	sort.Strings(tags)
	return recs, lay, tags
}

func layoutLabels(f *format, lay []int) []string {
	var out []string
	slots := map[string][]string{}
	var slotOrder []string
	for i, d := range f.dims {
		if lay[i] == 0 {
			continue
		}
		if d.slot != "" && d.kind == posIdx {
			_, k := pos(d, lay[i])
			if _, ok := slots[d.slot]; !ok {
				slotOrder = append(slotOrder, d.slot)
			}
			slots[d.slot] = append(slots[d.slot], d.labels[k])
			continue
		}
		switch d.kind {
		case fixed:
			out = append(out, d.name+"="+d.labels[lay[i]])
		case posIdx:
			_, k := pos(d, lay[i])
			out = append(out, d.name+"="+d.labels[k])
		case count:
			out = append(out, d.name)
		}
	}
	for _, sl := range slotOrder {
		out = append(out, sl+"["+strings.Join(slots[sl], ",")+"]")
	}
	return out
}

func layoutFull(f *format, lay []int) map[string]any {
	m := map[string]any{}
	for i, d := range f.dims {
		switch d.kind {
		case fixed:
			m[d.name] = d.labels[lay[i]]
		case posIdx:
			idx, k := pos(d, lay[i])
			if idx < 0 {
				m[d.name] = "none"
			} else {
				m[d.name] = fmt.Sprintf("%s@record%d", d.labels[k], idx)
			}
		case count:
			m[d.name] = lay[i]
		}
	}
	return m
}

type replayData struct {
	Format   string            `json:"format"`
	File     string            `json:"file"`
	Extra    map[string]string `json:"extra_files,omitempty"`
	Expected [][2]string       `json:"expected"`
	Layout   map[string]any    `json:"layout,omitempty"`
	Records  [][2]string       `json:"records,omitempty"`
}

func pairs(rs []rec) [][2]string {
	out := [][2]string{}
	for _, r := range rs {
		out = append(out, [2]string{r.Name, r.Version})
	}
	return out
}

// soloFails[format id][pool index]: the file holding just that record under the all-default
// layout already fails. Computed once before the exploration; lets report() attribute the
// (many) failing cases that contain such a record without re-running a minimisation each time.
var soloFails = map[string][]bool{}

func computeSoloFails(formats []*format) {
	for _, f := range formats {
		v := make([]bool, len(f.pool))
		for i, rc := range f.pool {
			s, _, _ := f.check([]rec{rc}, make([]int, len(f.dims)))
			v[i] = s != ""
		}
		soloFails[f.id] = v
	}
}

func soloCause(f *format, recs []rec) ([]rec, []int, []string, bool) {
	sf := soloFails[f.id]
	for _, rc := range recs {
		for i, p := range f.pool {
			if p == rc && sf[i] {
				var tags []string
				if !sf[0] { // the plain record passes, so this record's corner is what matters
					tags = []string{rc.Tag}
				}
				return []rec{rc}, make([]int, len(f.dims)), tags, true
			}
		}
	}
	return nil, nil, nil, false
}

func report(r *ev.Run, f *format, recs []rec, lay []int) {
	mr, ml, tags, ok := soloCause(f, recs)
	if !ok {
		mr, ml, tags = minimise(f, recs, lay)
	}
	symptom, what, g := f.check(mr, ml)
	if symptom == "" { // cannot happen (minimise keeps the failure); fall back to the original case
		mr, ml = recs, lay
		symptom, what, g = f.check(mr, ml)
	}
	parts := layoutLabels(f, ml)
	if len(tags) > 0 {
		parts = append(parts, "rec["+strings.Join(tags, ",")+"]")
	}
	if strings.HasPrefix(symptom, "panic@") || symptom == "error" || symptom == "location" {
		parts = append(parts, symptom)
	}
	if len(parts) == 0 {
		parts = []string{"any-file:" + symptom}
	}
	key := f.id + ":" + strings.Join(parts, "+")
	r.Violation(key, fmt.Sprintf("%s %s: %s | file=%q", f.id, f.path, what, g.file),
		replayData{Format: f.id, File: g.file, Extra: g.extra, Expected: pairs(g.truth), Layout: layoutFull(f, ml), Records: pairs(mr)})
}

// ---- enumeration

type task struct {
	f   *format
	idx []int // ordered tuple of distinct pool indices
}

func tuples(pool, n int) [][]int {
	var out [][]int
	var cur []int
	used := make([]bool, pool)
	var go1 func()
	go1 = func() {
		if len(cur) == n {
			out = append(out, append([]int{}, cur...))
			return
		}
		for i := 0; i < pool; i++ {
			if !used[i] {
				used[i] = true
				cur = append(cur, i)
				go1()
				cur = cur[:len(cur)-1]
				used[i] = false
			}
		}
	}
	go1()
	return out
}

func hash64(s string) uint64 { h := fnv.New64a(); h.Write([]byte(s)); return h.Sum64() }

func runTask(r *ev.Run, t task) {
	f := t.f
	recs := make([]rec, len(t.idx))
	for i, k := range t.idx {
		recs[i] = f.pool[k]
	}
	n := len(recs)
	sizes := make([]int, len(f.dims))
	for i, d := range f.dims {
		sizes[i] = d.size(n)
	}
	lay := make([]int, len(f.dims))
	seen := map[uint64]struct{}{}
	for {
		g := f.gen(recs, lay)
		r.Evals.Add(1)
		symptom, _ := judge(f, g.truth, extract(f, g.file, g.extra))
		if n > 0 {
			// Files of different tasks differ (different format, or a different ordered tuple whose
			// names/versions are written in tuple order), so de-duplicating per task is exact.
			h := hash64(g.file)
			if _, ok := seen[h]; !ok {
				seen[h] = struct{}{}
				r.Nontrivial.Add(1)
			}
		}
		if symptom != "" {
			report(r, f, recs, lay)
		}
		// next layout (mixed radix, first dimension fastest)
		i := 0
		for ; i < len(lay); i++ {
			lay[i]++
			if lay[i] < sizes[i] {
				break
			}
			lay[i] = 0
		}
		if i == len(lay) {
			return
		}
	}
}

func allFormats() []*format {
	return []*format{
		fmtDpkg(), fmtApk(), fmtRequirements(), fmtRequirementsSkip(), fmtRequirementsComments(), fmtGomod(), fmtGomodReplace(), fmtCargo(),
		fmtPackageLock(1), fmtPackageLock(2), fmtPackageLock(3),
		fmtComposer(), fmtGemfile(), fmtGradle(), fmtPoetry(), fmtPipfile(), fmtPackagesLock(),
	}
}

func replay(p string) {
	b, err := os.ReadFile(p)
	if err != nil {
		fmt.Fprintln(os.Stderr, err)
		os.Exit(3)
	}
	var doc struct {
		Key    string     `json:"key"`
		Replay replayData `json:"replay"`
	}
	if err := json.Unmarshal(b, &doc); err != nil {
		fmt.Fprintln(os.Stderr, err)
		os.Exit(3)
	}
	for _, f := range allFormats() {
		if f.id != doc.Replay.Format {
			continue
		}
		var truth []rec
		for _, e := range doc.Replay.Expected {
			truth = append(truth, rec{Name: e[0], Version: e[1]})
		}
		o := extract(f, doc.Replay.File, doc.Replay.Extra)
		symptom, what := judge(f, truth, o)
		fmt.Printf("replay %s key=%s\nfile %s:\n%s\n--\nexpected %s\nobserved %s err=%v\n", f.id, doc.Key, f.path, doc.Replay.File, show(normed(f, truth)), show(normed(f, o.pkgs)), o.err)
		if symptom != "" {
			fmt.Printf("VIOLATION reproduced (%s): %s\n", symptom, what)
			os.Exit(1)
		}
		fmt.Println("holds")
		os.Exit(0)
	}
	fmt.Fprintln(os.Stderr, "unknown format", doc.Replay.Format)
	os.Exit(3)
}

func main() {
	scalibrlog.SetLogger(silent{})
	if p := os.Getenv("VERIF_REPLAY"); p != "" {
		replay(p)
	}
	r := ev.Start("C03", "exploration", 4*time.Minute, 40*time.Minute)
	maxN := ev.Pick(r, 2, 4)
	formats := allFormats()
	if only := os.Getenv("C03_ONLY"); only != "" { // development aid: restrict to some formats
		var keep []*format
		for _, f := range formats {
			if strings.Contains(","+only+",", ","+f.id+",") {
				keep = append(keep, f)
			}
		}
		formats = keep
	}
	if d := os.Getenv("C03_DUMP"); d != "" { // development aid: C03_DUMP=<format>:<v0,v1,...> prints one generated file
		id, vs, _ := strings.Cut(d, ":")
		for _, f := range formats {
			if f.id != id {
				continue
			}
			lay := make([]int, len(f.dims))
			for i, v := range strings.Split(vs, ",") {
				if i < len(lay) {
					fmt.Sscan(v, &lay[i])
				}
			}
			g := f.gen([]rec{f.pool[1], f.pool[0]}, lay)
			fmt.Printf("%v\n%q\n%s\n", layoutFull(f, lay), g.file, g.file)
		}
		os.Exit(0)
	}
	var tasks []task
	perFormat := map[string]int64{}
	for n := 0; n <= maxN; n++ { // simplest first
		var level []task
		for _, f := range formats {
			if f.maxThorough > 0 && n > f.maxThorough {
				continue
			}
			for _, idx := range tuples(len(f.pool), n) {
				level = append(level, task{f, idx})
				c := int64(1)
				for _, d := range f.dims {
					c *= int64(d.size(n))
				}
				perFormat[f.id] += c
			}
		}
		if r.Seed != 0 && len(level) > 0 { // the seed only rotates the work order inside a level
			k := r.Seed % len(level)
			if k < 0 {
				k += len(level)
			}
			level = append(level[k:], level[:k]...)
		}
		tasks = append(tasks, level...)
	}
	// written-out samples: records (pool[1], pool[0]) under the layout with every dimension at value 1
	for i, f := range formats {
		if i%3 != 0 || r.SampleN() >= 6 {
			continue
		}
		recs := []rec{f.pool[1], f.pool[0]}
		lay := make([]int, len(f.dims))
		for d := range lay {
			if f.dims[d].size(2) > 1 {
				lay[d] = 1
			}
		}
		g := f.gen(recs, lay)
		r.Sample(map[string]any{"format": f.id, "path": f.path, "file": g.file, "expected": pairs(g.truth), "layout": layoutFull(f, lay)})
	}
	computeSoloFails(formats)
	done := r.ParallelFor(len(tasks), func(i int) { runTask(r, tasks[i]) })
	r.Set("max_records", maxN)
	caps := map[string]int{}
	for _, f := range formats {
		if f.maxThorough > 0 && f.maxThorough < maxN {
			caps[f.id] = f.maxThorough
		}
	}
	r.Set("max_records_per_format_override", caps)
	r.Set("formats", len(formats))
	r.Set("cases_per_format", perFormat)
	r.Set("tasks_done", done)
	dims := map[string][]string{}
	for _, f := range formats {
		for _, d := range f.dims {
			dims[f.id] = append(dims[f.id], d.name)
		}
	}
	r.Set("layout_dimensions", dims)
	r.Assume("well-formedness is what the generators write; they never read back their own output")
	r.Assume("CRLF is outside the dpkg/apk alphabet; PyPI names compared PEP 503-normalised; go.mod versions compared without leading v")
	r.Finish("for every generated file: multiset of (Name,Version) from Extract == generator ground truth (not-installed records removed), "+
		"every package has the file path among Locations, no error, no panic", done == len(tasks))
}

// ---- shared helpers for the generators

var pep503 = regexp.MustCompile(`[-_.]+`)

func normPyPI(r rec) rec {
	r.Name = strings.ToLower(pep503.ReplaceAllString(r.Name, "-"))
	return r
}

func eolOf(v int) string {
	if v == 1 {
		return "\r\n"
	}
	return "\n"
}

// finish joins lines with the line ending and applies the trailing-newline dimension:
// 0 = exactly one, 1 = none, 2 = two.
func finish(lines []string, eol string, trail int) string {
	// drop trailing empty lines the caller may have left
	for len(lines) > 0 && lines[len(lines)-1] == "" {
		lines = lines[:len(lines)-1]
	}
	if len(lines) == 0 {
		return strings.Repeat(eol, []int{0, 0, 1}[trail])
	}
	s := strings.Join(lines, eol)
	switch trail {
	case 0:
		s += eol
	case 2:
		s += eol + eol
	}
	return s
}

var (
	eolLabels   = []string{"lf", "crlf"}
	trailLabels = []string{"one-newline", "no-newline", "two-newlines"}
)

func baseName(p string) string { return path.Base(p) }

// tomlWhitespace rewrites generated TOML lines in place: tight '=' with tab-indented keys and
// trailing blanks (ws), and a tab-separated trailing comment after single-line string values.
func tomlWhitespace(lines []string, ws, trailingComments bool) {
	for k, ln := range lines {
		if ln == "" || ln[0] == '#' {
			continue
		}
		key, val, isKV := strings.Cut(ln, " = ")
		simple := isKV && !strings.ContainsAny(key, " \t[{") && strings.HasPrefix(val, `"`) && strings.HasSuffix(val, `"`) && strings.Count(val, `"`) == 2
		if ws {
			if simple {
				ln = "\t" + key + "=" + val + "  "
			} else if ln[0] == '[' {
				ln = "  " + ln + " \t"
			}
		}
		if trailingComments && simple {
			ln += "\t# name = \"fake\" version = \"9.9.9\""
		}
		lines[k] = ln
	}
}
