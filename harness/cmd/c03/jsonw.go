package main

import (
	"encoding/json"
	"strconv"
	"strings"
)

// A tiny JSON *writer* with ordered objects so the generators control key order,
// indentation and line endings. (It only writes; nothing in C03 parses its own output.)

type jkv struct {
	K string
	V any
}

// jo is an ordered JSON object.
type jo []jkv

// ja is a JSON array.
type ja []any

func jstr(s string) string { b, _ := json.Marshal(s); return string(b) }

// renderJSON renders v. indent=="" gives the compact single-line form.
func renderJSON(v any, indent, eol string) string {
	var b strings.Builder
	writeJSON(&b, v, indent, eol, 0)
	return b.String()
}

func nl(b *strings.Builder, indent, eol string, depth int) {
	if indent == "" {
		return
	}
	b.WriteString(eol)
	for i := 0; i < depth; i++ {
		b.WriteString(indent)
	}
}

func writeJSON(b *strings.Builder, v any, indent, eol string, depth int) {
	switch x := v.(type) {
	case jo:
		if len(x) == 0 {
			b.WriteString("{}")
			return
		}
		b.WriteString("{")
		for i, kv := range x {
			if i > 0 {
				b.WriteString(",")
			}
			nl(b, indent, eol, depth+1)
			b.WriteString(jstr(kv.K))
			b.WriteString(":")
			if indent != "" {
				b.WriteString(" ")
			}
			writeJSON(b, kv.V, indent, eol, depth+1)
		}
		nl(b, indent, eol, depth)
		b.WriteString("}")
	case ja:
		if len(x) == 0 {
			b.WriteString("[]")
			return
		}
		b.WriteString("[")
		for i, e := range x {
			if i > 0 {
				b.WriteString(",")
			}
			nl(b, indent, eol, depth+1)
			writeJSON(b, e, indent, eol, depth+1)
		}
		nl(b, indent, eol, depth)
		b.WriteString("]")
	case string:
		b.WriteString(jstr(x))
	case bool:
		b.WriteString(strconv.FormatBool(x))
	case int:
		b.WriteString(strconv.Itoa(x))
	case nil:
		b.WriteString("null")
	default:
		panic("renderJSON: unsupported value")
	}
}

// jsonFinish applies the trailing-newline dimension to a rendered document.
func jsonFinish(doc, eol string, trail int) string {
	switch trail {
	case 0:
		return doc + eol
	case 2:
		return doc + eol + eol
	}
	return doc
}

// oddFields returns unrelated per-record fields under real-world names in every JSON shape
// (string, number, bool, null, array, object, nested). The shape of several of them flips with
// the record's parity, as different generations of the tools wrote them (npm "engines" and
// "license" as object or array/string, "bundleDependencies" as array or bool, composer
// "abandoned" as bool or string ...). None of them is a package record.
func oddFields(i int) jo {
	if i%2 == 0 {
		return jo{
			{"engines", ja{"node >=0.6.0"}},
			{"license", jo{{"type", "MIT"}, {"url", "https://example.org/LICENSE"}}},
			{"bin", "cli.js"},
			{"funding", "https://github.com/sponsors/example"},
			{"os", ja{"darwin", "linux", "!win32"}},
			{"cpu", ja{}},
			{"bundleDependencies", false},
			{"abandoned", true},
			{"deprecated", "use not-a-package@9.9.9 instead"},
			{"extra", nil},
			{"hasInstallScript", true},
			{"size", 123456},
		}
	}
	return jo{
		{"engines", jo{{"node", ">=14"}, {"npm", ">=6"}}},
		{"license", "MIT"},
		{"bin", jo{{"not-a-package", "bin/cli.js"}}},
		{"funding", ja{jo{{"type", "github"}, {"url", "https://github.com/sponsors/example"}}, "https://opencollective.com/example"}},
		{"os", "linux"},
		{"cpu", ja{"x64", "arm64"}},
		{"bundleDependencies", ja{"not-a-package"}},
		{"abandoned", "not/a-package"},
		{"deprecated", false},
		{"extra", jo{{"branch-alias", jo{{"dev-main", "9.9.x-dev"}}}, {"nested", ja{ja{1, 2}, jo{{"name", "not-a-package"}, {"version", "9.9.9"}}}}}},
		{"peerDependenciesMeta", jo{{"not-a-package", jo{{"optional", true}}}}},
		{"size", 0},
	}
}

func withOdd(e jo, i int) jo {
	for _, kv := range oddFields(i) {
		e = append(e, kv)
	}
	return e
}
