package main

import (
	"fmt"

	"github.com/google/osv-scalibr/extractor/filesystem"
	"github.com/google/osv-scalibr/extractor/filesystem/language/javascript/packagelockjson"
)

// package-lock.json lockfileVersion 1 ("dependencies" tree), 2 ("packages" map plus the
// v1 tree for backwards compatibility) and 3 ("packages" only).
// Documented extractor behaviour in the ground truth:
//   - a package that appears several times in the tree at the same version is one package
//     (packagelockjson.go:53-55 "they can appear multiple times in the same dependency tree",
//     de-duplication key name@version at :126 / :169);
//   - the root project entry "" is not a dependency (packagelockjson.go:145-147);
//   - aliased packages are reported under their real name (packagelockjson.go:100-106,
//     internal/dependencyfile/packagelockjson Package.Name doc, tests "alias").
//
// The same name at two versions is expressed by nesting the second one under another
// package's node_modules, as npm does.
func fmtPackageLock(ver int) *format {
	f := &format{
		id:   fmt.Sprintf("packagelock-v%d", ver),
		path: "package-lock.json",
		pool: []rec{
			{Name: "lodash", Version: "4.17.21", Tag: "plain"},
			{Name: "@babel/core", Version: "7.23.0", Tag: "scoped"},
			{Name: "wrappy", Version: "11.0.2", Tag: "wrappy-11"},
			{Name: "wrappy", Version: "2.0.0-rc.1+build", Tag: "same-name-second-version"},
			{Name: "JSON.b-c_d", Version: "1.3.5", Tag: "uppercase-dots-hyphen-underscore"},
			{Name: "wrappy1", Version: "1.0.2", Tag: "name+version-concat-equals-wrappy-11"},
		},
		dims: []dim{
			{name: "eol", labels: eolLabels},
			{name: "trail", labels: trailLabels},
			{name: "indent", labels: []string{"2-spaces", "compact"}},
			{name: "extras", labels: []string{"minimal", "resolved-integrity-flags-requires", "unrelated-fields-in-every-json-shape"}},
			{name: "top", labels: []string{"canonical-order", "packages-before-name"}},
			{name: "dupnest", kind: posIdx, labels: []string{"also-nested-under-another"}},
			{name: "alias", kind: posIdx, labels: []string{"installed-under-alias"}},
		},
		newEx: func() filesystem.Extractor { return packagelockjson.NewDefault() },
	}
	f.gen = func(recs []rec, lay []int) genOut {
		l := layout{f, lay}
		di, _ := l.at("dupnest")
		ai, _ := l.at("alias")
		rich := l.get("extras") == 1
		var truth []rec
		for _, r := range recs {
			truth = append(truth, rec{Name: r.Name, Version: r.Version})
		}
		// install name of record i (its node_modules directory name)
		inst := make([]string, len(recs))
		for i, r := range recs {
			inst[i] = r.Name
			if i == ai {
				inst[i] = fmt.Sprintf("alias-%d", i)
			}
		}
		// placement: host[i] = index of the record under whose node_modules record i is nested, -1 = top level
		host := make([]int, len(recs))
		for i := range host {
			host[i] = -1
		}
		for i := range recs {
			for j := 0; j < i; j++ {
				if host[j] == -1 && inst[j] == inst[i] { // top-level slot taken: nest
					host[i] = j
					for k := range recs {
						if k != i && host[k] == -1 && inst[k] != inst[i] {
							host[i] = k
							break
						}
					}
					break
				}
			}
		}
		// extra copy of record di nested under another top-level record (same version => same package)
		dupHost := -1
		if di >= 0 {
			for k := range recs {
				if k != di && host[k] == -1 && inst[k] != inst[di] {
					// the host must not already have a nested entry with that install name
					clash := false
					for m := range recs {
						if host[m] == k && inst[m] == inst[di] {
							clash = true
						}
					}
					if !clash {
						dupHost = k
						break
					}
				}
			}
		}
		tarball := func(r rec) string {
			return "https://registry.npmjs.org/" + r.Name + "/-/" + baseName(r.Name) + "-" + r.Version + ".tgz"
		}

		// ---- "packages" (v2, v3)
		pkgEntry := func(i int) jo {
			r := recs[i]
			e := jo{}
			if i == ai {
				e = append(e, jkv{"name", r.Name})
			}
			e = append(e, jkv{"version", r.Version})
			if rich {
				e = append(e, jkv{"resolved", tarball(r)}, jkv{"integrity", "sha512-v2kDEe57lecTulaDIuNTPy3Ry4gLGJ6Z1O3vE1krgXZNrsQ+LFTGHVxVjcXPs17LhbZVGedAJv8XZ1tvj5FvSg=="})
				switch i % 3 {
				case 1:
					e = append(e, jkv{"dev", true})
				case 2:
					e = append(e, jkv{"optional", true}, jkv{"engines", jo{{"node", ">=6.9.0"}}})
				}
				e = append(e, jkv{"dependencies", jo{{"not-a-package", "^9.9.9"}}}, jkv{"license", "MIT"})
			}
			if l.get("extras") == 2 {
				e = withOdd(e, i)
			}
			return e
		}
		pkgPath := func(i int) string {
			if host[i] >= 0 {
				return "node_modules/" + inst[host[i]] + "/node_modules/" + inst[i]
			}
			return "node_modules/" + inst[i]
		}
		packages := jo{}
		root := jo{{"name", "app"}, {"version", "1.0.0"}}
		if rich {
			deps := jo{}
			for i, r := range recs {
				if host[i] == -1 && i != ai {
					deps = append(deps, jkv{r.Name, "^" + r.Version})
				}
			}
			root = append(root, jkv{"license", "ISC"}, jkv{"dependencies", deps})
		}
		packages = append(packages, jkv{"", root})
		for i := range recs {
			packages = append(packages, jkv{pkgPath(i), pkgEntry(i)})
		}
		if dupHost >= 0 {
			packages = append(packages, jkv{"node_modules/" + inst[dupHost] + "/node_modules/" + inst[di], pkgEntry(di)})
		}

		// ---- "dependencies" (v1, v2)
		var depEntry func(i int, withNested bool) jo
		depEntry = func(i int, withNested bool) jo {
			r := recs[i]
			e := jo{}
			if i == ai {
				e = append(e, jkv{"version", "npm:" + r.Name + "@" + r.Version})
			} else {
				e = append(e, jkv{"version", r.Version})
			}
			if rich {
				e = append(e, jkv{"resolved", tarball(r)}, jkv{"integrity", "sha512-v2kDEe57lecTulaDIuNTPy3Ry4gLGJ6Z1O3vE1krgXZNrsQ+LFTGHVxVjcXPs17LhbZVGedAJv8XZ1tvj5FvSg=="})
				switch i % 3 {
				case 1:
					e = append(e, jkv{"dev", true})
				case 2:
					e = append(e, jkv{"optional", true})
				}
				e = append(e, jkv{"requires", jo{{"not-a-package", "^9.9.9"}}})
			}
			if l.get("extras") == 2 {
				e = withOdd(append(e, jkv{"bundled", true}, jkv{"from", "not-a-package@^9.9.9"}), i)
			}
			if withNested {
				nested := jo{}
				for m := range recs {
					if host[m] == i {
						nested = append(nested, jkv{inst[m], depEntry(m, false)})
					}
				}
				if dupHost == i {
					nested = append(nested, jkv{inst[di], depEntry(di, false)})
				}
				if len(nested) > 0 {
					e = append(e, jkv{"dependencies", nested})
				}
			}
			return e
		}
		dependencies := jo{}
		for i := range recs {
			if host[i] == -1 {
				dependencies = append(dependencies, jkv{inst[i], depEntry(i, true)})
			}
		}

		head := jo{{"name", "app"}, {"version", "1.0.0"}, {"lockfileVersion", ver}, {"requires", true}}
		var body jo
		switch ver {
		case 1:
			body = jo{{"dependencies", dependencies}}
		case 2:
			body = jo{{"packages", packages}, {"dependencies", dependencies}}
		case 3:
			body = jo{{"packages", packages}}
		}
		var doc jo
		if l.get("top") == 0 {
			doc = append(append(doc, head...), body...)
		} else {
			doc = append(append(doc, body...), head...)
		}
		indent := "  "
		if l.get("indent") == 1 {
			indent = ""
		}
		eol := eolOf(l.get("eol"))
		return genOut{file: jsonFinish(renderJSON(doc, indent, eol), eol, l.get("trail")), truth: truth}
	}
	return f
}
