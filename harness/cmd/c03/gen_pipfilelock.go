package main

import (
	"github.com/google/osv-scalibr/extractor/filesystem"
	"github.com/google/osv-scalibr/extractor/filesystem/language/python/pipfilelock"
)

// Pipfile.lock (JSON): "_meta", "default" and "develop" objects mapping a name to
// {"version": "==x"}; both sections are locked packages (pipfilelock.go:85-86). No "not
// installed" marker. Names compared PEP 503-normalised (see main.go).
func fmtPipfile() *format {
	f := &format{
		id:   "pipfilelock",
		path: "Pipfile.lock",
		pool: []rec{
			{Name: "requests", Version: "12.31.0", Tag: "plain"},
			{Name: "zope.interface", Version: "6.0", Tag: "dotted-name"},
			{Name: "typing-extensions", Version: "4.7.1", Tag: "hyphen-name"},
			{Name: "q", Version: "7", Tag: "single-char-name-and-version"},
			{Name: "requests1", Version: "2.31.0", Tag: "name+version-concat-equals-plain"},
			{Name: "pyyaml", Version: "1!6.0rc1.post1", Tag: "epoch-pre-post"},
		},
		dims: []dim{
			{name: "eol", labels: eolLabels},
			{name: "trail", labels: trailLabels},
			{name: "indent", labels: []string{"4-spaces", "compact"}},
			{name: "extras", labels: []string{"minimal", "hashes-index-markers", "unrelated-fields-in-every-json-shape"}},
			{name: "top", labels: []string{"meta-default-develop", "develop-default-meta"}},
			{name: "develop", kind: count},
		},
		newEx: func() filesystem.Extractor { return pipfilelock.New() },
		norm:  normPyPI,
	}
	f.gen = func(recs []rec, lay []int) genOut {
		l := layout{f, lay}
		nDev := l.get("develop")
		var truth []rec
		def, dev := jo{}, jo{}
		for i, r := range recs {
			truth = append(truth, rec{Name: r.Name, Version: r.Version})
			e := jo{{"version", "==" + r.Version}}
			if l.get("extras") == 1 {
				e = jo{
					{"hashes", ja{"sha256:58cd2187c01e70e6e26505bca751777aa9f2ee0b7f4300988b709f44e013003f", "sha256:942c5a758f98d790eaed1a29cb6eefc7ffb0d1cf7af05c3d2791656dbd6ad1e1"}},
					{"index", "pypi"},
					{"markers", "python_version >= '3.7'"},
					{"version", "==" + r.Version},
				}
			}
			if l.get("extras") == 2 {
				e = withOdd(append(jo{{"extras", ja{"security", "socks"}}, {"hashes", ja{}}}, e...), i)
			}
			if i >= len(recs)-nDev {
				dev = append(dev, jkv{r.Name, e})
			} else {
				def = append(def, jkv{r.Name, e})
			}
		}
		meta := jo{
			{"hash", jo{{"sha256", "a1b2c3d4e5f60718293a4b5c6d7e8f9012345678a1b2c3d4e5f60718293a4b5c"}}},
			{"pipfile-spec", 6},
			{"requires", jo{{"python_version", "3.11"}}},
			{"sources", ja{jo{{"name", "pypi"}, {"url", "https://pypi.org/simple"}, {"verify_ssl", true}}}},
		}
		var doc jo
		if l.get("top") == 0 {
			doc = jo{{"_meta", meta}, {"default", def}, {"develop", dev}}
		} else {
			doc = jo{{"develop", dev}, {"default", def}, {"_meta", meta}}
		}
		indent := "    "
		if l.get("indent") == 1 {
			indent = ""
		}
		eol := eolOf(l.get("eol"))
		return genOut{file: jsonFinish(renderJSON(doc, indent, eol), eol, l.get("trail")), truth: truth}
	}
	return f
}
