package main

import (
	"strings"

	"github.com/google/osv-scalibr/extractor/filesystem"
	"github.com/google/osv-scalibr/extractor/filesystem/os/dpkg"
)

// dpkg status database (deb822 stanzas separated by blank lines). No comments, no CRLF
// in this alphabet (see main.go). The "not installed" markers are the Status values
// `deinstall ok config-files` (stanza keeps its Version) and `purge ok not-installed`
// (stanza has no Version), both documented as filtered: dpkg.go:60-62, dpkg.go:273-280.
// `hold ok installed` is an installed package (third word decides, dpkg.go:274).
func fmtDpkg() *format {
	f := &format{
		id:   "dpkg",
		path: "var/lib/dpkg/status",
		pool: []rec{
			{Name: "libc6", Version: "2.36-9+deb12u4", Tag: "plain"},
			{Name: "lib+x", Version: "1:2.0-1", Tag: "plus-name-epoch"},
			{Name: "a.b-c", Version: "0.1~rc1-1", Tag: "dotted-name-tilde"},
			{Name: "libstdc++6", Version: "12.2.0-14", Tag: "plusplus"},
			{Name: "0ad1", Version: "0.0.26-3", Tag: "name+version-concat-equals-digit-start"},
			{Name: "0ad", Version: "10.0.26-3", Tag: "digit-start"},
		},
		dims: []dim{
			{name: "trail", labels: []string{"blank-line-after-last", "no-newline", "one-newline"}},
			{name: "blank", labels: []string{"1", "2"}},
			{name: "lead", labels: []string{"none", "leading-blank-line"}},
			{name: "order", labels: []string{"package-first", "extras-first", "version-first-status-last"}},
			{name: "extras", labels: []string{"minimal", "rich"}},
			{name: "desc", labels: []string{"none", "single-line", "multi-line-with-fieldlike-continuation"}},
			{name: "want", labels: []string{"install", "hold-on-odd-records"}},
			// deb822: horizontal whitespace (spaces, tabs) before and after the value is ignored.
			{name: "sep", labels: []string{"colon-space", "colon-tab", "colon-only+trailing-blanks"}},
			{name: "notinst", kind: posIdx, labels: []string{"deinstall-config-files", "purge-not-installed"}},
		},
		newEx:       func() filesystem.Extractor { return dpkg.NewDefault() },
		maxThorough: 3,
	}
	f.gen = func(recs []rec, lay []int) genOut {
		l := layout{f, lay}
		ni, nk := l.at("notinst")
		var lines []string
		if l.get("lead") == 1 {
			lines = append(lines, "")
		}
		var truth []rec
		for i, r := range recs {
			if i > 0 {
				for k := 0; k <= l.get("blank"); k++ {
					lines = append(lines, "")
				}
			}
			status := "install ok installed"
			if l.get("want") == 1 && i%2 == 1 {
				status = "hold ok installed"
			}
			withVersion := true
			if i == ni {
				if nk == 0 {
					status = "deinstall ok config-files"
				} else {
					status = "purge ok not-installed"
					withVersion = false
				}
			} else {
				truth = append(truth, rec{Name: r.Name, Version: r.Version})
			}
			pkg := "Package: " + r.Name
			st := "Status: " + status
			ver := "Version: " + r.Version
			var before, after []string
			if l.get("extras") == 1 {
				before = []string{"Priority: optional", "Section: libs", "Installed-Size: 13364"}
				after = []string{
					"Maintainer: GNU Libc Maintainers <debian-glibc@lists.debian.org>",
					"Architecture: amd64",
					"Multi-Arch: same",
					// the source package has its own name and version (binNMU, split packages): decoy values
					"Source: src-" + r.Name + " (9.9.9-1)",
					"Depends: libgcc-s1, libcrypt1 (>= 1:4.4.10-10)",
					"Conffiles:",
					" /etc/ld.so.conf.d/x86_64-linux-gnu.conf d4e7a7b88a71b5ffd9e2644e71a0cfab",
					" /etc/default/" + r.Name + " 0123456789abcdef0123456789abcdef obsolete",
					"Homepage: https://www.gnu.org/software/libc/libc.html",
				}
			}
			switch l.get("desc") {
			case 1:
				after = append(after, "Description: GNU C Library: Shared libraries")
			case 2:
				after = append(after,
					"Description: GNU C Library: Shared libraries",
					" Contains the standard libraries that are used by nearly all programs.",
					" .",
					" Package: not-a-package",
					" Version: 9.9.9",
					"\tStatus: purge ok not-installed")
			}
			var st2 []string
			switch l.get("order") {
			case 0:
				st2 = append(st2, pkg, st)
				st2 = append(st2, before...)
				if withVersion {
					st2 = append(st2, ver)
				}
				st2 = append(st2, after...)
			case 1:
				st2 = append(st2, before...)
				st2 = append(st2, after...)
				st2 = append(st2, pkg, st)
				if withVersion {
					st2 = append(st2, ver)
				}
			case 2:
				if withVersion {
					st2 = append(st2, ver)
				}
				st2 = append(st2, before...)
				st2 = append(st2, pkg)
				st2 = append(st2, after...)
				st2 = append(st2, st)
			}
			if sv := l.get("sep"); sv != 0 {
				for k, ln := range st2 {
					if ln == "" || ln[0] == ' ' || ln[0] == '\t' { // continuation lines stay as they are
						continue
					}
					name, val, _ := strings.Cut(ln, ": ")
					if name == ln { // "Conffiles:" (empty first line)
						continue
					}
					if sv == 1 {
						st2[k] = name + ":\t" + val
					} else {
						st2[k] = name + ":" + val + " \t"
					}
				}
			}
			lines = append(lines, st2...)
		}
		file := strings.Join(lines, "\n")
		if len(recs) > 0 || l.get("lead") == 1 {
			switch l.get("trail") {
			case 0:
				file += "\n\n"
			case 2:
				file += "\n"
			}
		}
		return genOut{file: file, truth: truth, extra: map[string]string{
			"etc/os-release": "PRETTY_NAME=\"Debian GNU/Linux 12 (bookworm)\"\nID=debian\nVERSION_ID=\"12\"\nVERSION_CODENAME=bookworm\n",
		}}
	}
	return f
}
