package main

import (
	"github.com/google/osv-scalibr/extractor/filesystem"
	"github.com/google/osv-scalibr/extractor/filesystem/language/php/composerlock"
)

// composer.lock (JSON): "packages" and "packages-dev" arrays; both are locked packages
// (composerlock.go:92-118 reports both, dev ones with group "dev"). No "not installed"
// marker. JSON is whitespace-insensitive, so CRLF and indentation are free.
func fmtComposer() *format {
	f := &format{
		id:   "composerlock",
		path: "composer.lock",
		pool: []rec{
			{Name: "monolog/monolog", Version: "13.4.0", Tag: "plain"},
			{Name: "symfony/polyfill-mbstring", Version: "v1.28.0", Tag: "v-prefixed-version"},
			{Name: "a.b/c-d_e", Version: "2.0.0-RC1", Tag: "dots-underscore-name-rc"},
			{Name: "laravel/framework", Version: "dev-master", Tag: "dev-branch-version"},
			{Name: "drupal/core", Version: "10.1.x-dev", Tag: "x-dev-version"},
			{Name: "monolog/monolog1", Version: "3.4.0", Tag: "name+version-concat-equals-plain"},
		},
		dims: []dim{
			{name: "eol", labels: eolLabels},
			{name: "trail", labels: trailLabels},
			{name: "indent", labels: []string{"4-spaces", "compact"}},
			{name: "extras", labels: []string{"minimal", "source-dist-require-autoload", "unrelated-fields-in-every-json-shape"}},
			{name: "top", labels: []string{"canonical-order", "dev-first-meta-last"}},
			{name: "dev", kind: count},
		},
		newEx: func() filesystem.Extractor { return composerlock.New() },
	}
	f.gen = func(recs []rec, lay []int) genOut {
		l := layout{f, lay}
		nDev := l.get("dev")
		var truth []rec
		prod, dev := ja{}, ja{}
		for i, r := range recs {
			truth = append(truth, rec{Name: r.Name, Version: r.Version})
			e := jo{{"name", r.Name}, {"version", r.Version}}
			if l.get("extras") == 1 {
				e = jo{
					{"source", jo{{"type", "git"}, {"url", "https://github.com/" + r.Name + ".git"}, {"reference", "e2392369686d420ca32df3803de28b5d6f76867d"}}},
					{"name", r.Name},
					{"dist", jo{{"type", "zip"}, {"url", "https://api.github.com/repos/" + r.Name + "/zipball/e239"}, {"reference", "e2392369686d420ca32df3803de28b5d6f76867d"}, {"shasum", ""}}},
					{"require", jo{{"php", ">=8.1"}, {"not/a-package", "^9.9"}}},
					{"version", r.Version},
					{"type", "library"},
					{"autoload", jo{{"psr-4", jo{{"Monolog\\", "src/Monolog"}}}}},
					{"license", ja{"MIT"}},
					{"keywords", ja{"log", "name", "version"}},
					{"time", "2023-06-21T08:46:11+00:00"},
				}
			}
			if l.get("extras") == 2 {
				e = withOdd(append(e, jkv{"authors", ja{jo{{"name", "Jordi Boggiano"}, {"email", "j.boggiano@seld.be"}}}}, jkv{"suggest", jo{{"not/a-package", "9.9.9"}}}, jkv{"default-branch", true}), i)
			}
			if i >= len(recs)-nDev {
				dev = append(dev, e)
			} else {
				prod = append(prod, e)
			}
		}
		pre := jo{
			{"_readme", ja{"This file locks the dependencies of your project to a known state", "This file is @generated automatically"}},
			{"content-hash", "3f2a1c0b9d8e7f6a5b4c3d2e1f0a9b8c"},
		}
		post := jo{
			{"aliases", ja{}}, {"minimum-stability", "stable"}, {"stability-flags", jo{}},
			{"prefer-stable", false}, {"prefer-lowest", false},
			{"platform", jo{{"php", ">=8.1"}}}, {"platform-dev", jo{}}, {"plugin-api-version", "2.6.0"},
		}
		var doc jo
		if l.get("top") == 0 {
			doc = append(doc, pre...)
			doc = append(doc, jkv{"packages", prod}, jkv{"packages-dev", dev})
			doc = append(doc, post...)
		} else {
			doc = append(doc, jkv{"packages-dev", dev}, jkv{"packages", prod})
			doc = append(doc, post...)
			doc = append(doc, pre...)
		}
		indent := "    "
		if l.get("indent") == 1 {
			indent = ""
		}
		eol := eolOf(l.get("eol"))
		return genOut{file: jsonFinish(renderJSON(doc, indent, eol), eol, l.get("trail")), truth: truth}
	}
	return f
}
