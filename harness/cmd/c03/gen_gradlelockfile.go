package main

import (
	"github.com/google/osv-scalibr/extractor/filesystem"
	"github.com/google/osv-scalibr/extractor/filesystem/language/java/gradlelockfile"
)

// gradle.lockfile: `group:artifact:version=configuration[,configuration...]` lines,
// `#` comment lines and one `empty=` line listing configurations without dependencies
// (gradlelockfile.go:36-45: both are not dependency lines). The same module may be locked
// at different versions for different configurations. No "not installed" marker.
func fmtGradle() *format {
	f := &format{
		id:   "gradlelockfile",
		path: "gradle.lockfile",
		pool: []rec{
			{Name: "org.springframework:spring-core", Version: "15.3.9", Tag: "plain"},
			{Name: "com.google.guava:guava", Version: "31.1-jre", Tag: "qualifier-version"},
			{Name: "com.google.guava:guava", Version: "30.0-android", Tag: "same-name-second-version"},
			{Name: "io.netty:netty-transport-native-epoll", Version: "4.1.100.Final", Tag: "final-version"},
			{Name: "a.b_c-d:e.f_g-h", Version: "2.0.0-rc.1+build", Tag: "corner-alphabet"},
			{Name: "org.springframework:spring-core1", Version: "5.3.9", Tag: "name+version-concat-equals-plain"},
		},
		dims: []dim{
			{name: "eol", labels: eolLabels},
			{name: "trail", labels: trailLabels},
			// leading blanks before '#' / 'empty=' are insignificant (the extractor trims the line before
			// classifying it, gradlelockfile.go Extract); the comment text is a would-be lock entry
			{name: "comment", labels: []string{"none", "header", "header+between", "indented-commented-out-entries"}},
			{name: "indent", labels: []string{"none", "space", "tab", "two-spaces-and-trailing-blank"}},
			{name: "blank", labels: []string{"0", "1"}},
			{name: "empty", labels: []string{"at-end", "absent", "at-start-with-confs"}},
			{name: "confs", labels: []string{"one", "three"}},
		},
		newEx: func() filesystem.Extractor { return gradlelockfile.New() },
	}
	f.gen = func(recs []rec, lay []int) genOut {
		l := layout{f, lay}
		var lines []string
		var truth []rec
		ind := []string{"", " ", "\t", "  "}[l.get("indent")]
		tr := []string{"", "", "", " "}[l.get("indent")]
		if l.get("comment") >= 1 {
			lines = append(lines,
				"# This is a Gradle generated file for dependency locking.",
				"# Manual edits can break the build and are not advised.",
				"# This file is expected to be part of source control.")
		}
		if l.get("empty") == 2 {
			lines = append(lines, ind+"empty=annotationProcessor,testAnnotationProcessor"+tr)
		}
		for i, r := range recs {
			if i > 0 && l.get("blank") == 1 {
				lines = append(lines, "")
			}
			if l.get("comment") == 2 {
				lines = append(lines, ind+"# "+r.Name)
			}
			if l.get("comment") == 3 {
				lines = append(lines, ind+"# not.a:package:9.9.9=compileClasspath", ind+"#"+r.Name+":9.9.9=runtimeClasspath")
			}
			truth = append(truth, rec{Name: r.Name, Version: r.Version})
			confs := "compileClasspath"
			if l.get("confs") == 1 {
				confs = "compileClasspath,runtimeClasspath,testCompileClasspath"
			}
			lines = append(lines, ind+r.Name+":"+r.Version+"="+confs+tr)
		}
		if l.get("empty") == 0 {
			lines = append(lines, ind+"empty="+tr)
		}
		return genOut{file: finish(lines, eolOf(l.get("eol")), l.get("trail")), truth: truth}
	}
	return f
}
