package main

import (
	"fmt"
	"regexp"
	"strings"

	"github.com/google/osv-scalibr/extractor/filesystem"
	"github.com/google/osv-scalibr/extractor/filesystem/language/golang/gomod"
)

// go.mod, second variant: SEQUENCES of three replace directives, every combination and
// order of the directive classes, each applied to every record:
//
//	not-required   replace of a module that is not required at all        -> no effect
//	all-versions   `replace P => N v`   of a required module              -> N v reported instead
//	this-version   `replace P v => N v` matching the required version     -> N v reported instead
//	other-version  `replace P v' => N v` with v' NOT the required version -> no effect
//	local-path     `replace P => ../dir` of a required module             -> ("../dir", "") reported
//
// Reference = each directive evaluated independently (https://go.dev/ref/mod#go-mod-file-replace),
// as the extractor documents: gomod.go:132-160 ("has no effect if the name or version to
// replace is not present"), gomod_test.go "replacements_ one/mixed/local/different/not
// required/no version". Two effective directives for the same record are never generated
// (the second one is written as a not-required directive instead): go rejects duplicates.
func fmtGomodReplace() *format {
	classes := []string{"all-versions", "this-version", "other-version", "local-path"}
	f := &format{
		id:   "gomod-replace",
		path: "go.mod",
		pool: gomodPool(),
		dims: []dim{
			{name: "style", labels: []string{"single-line-directives", "one-replace-block"}},
			{name: "order", labels: []string{"require-first", "replace-first"}},
			{name: "d1", kind: posIdx, labels: classes},
			{name: "d2", kind: posIdx, labels: classes},
			{name: "d3", kind: posIdx, labels: classes},
		},
		newEx:       func() filesystem.Extractor { return gomod.New() },
		maxThorough: 3,
		norm: func(r rec) rec {
			r.Version = strings.TrimPrefix(r.Version, "v")
			return r
		},
	}
	major := regexp.MustCompile(`^v(\d+)`)
	f.gen = func(recs []rec, lay []int) genOut {
		l := layout{f, lay}
		repl := map[int]rec{} // record index -> what is reported instead
		var dirs []string
		for k, dn := range []string{"d1", "d2", "d3"} {
			idx, class := l.at(dn)
			newPath := fmt.Sprintf("example.com/fork/d%d", k+1)
			newVer := fmt.Sprintf("v1.4.%d", k+1)
			_, taken := repl[idx]
			effective := idx >= 0 && (class == 0 || class == 1 || class == 3)
			if idx < 0 || (effective && taken) {
				dirs = append(dirs, fmt.Sprintf("example.com/not/required%d v1.0.0 => %s %s", k+1, newPath, newVer))
				continue
			}
			r := recs[idx]
			switch class {
			case 0:
				dirs = append(dirs, r.Name+" => "+newPath+" "+newVer)
				repl[idx] = rec{Name: newPath, Version: newVer}
			case 1:
				dirs = append(dirs, r.Name+" "+r.Version+" => "+newPath+" "+newVer)
				repl[idx] = rec{Name: newPath, Version: newVer}
			case 2:
				other := "v" + major.FindStringSubmatch(r.Version)[1] + ".99.0"
				if strings.HasSuffix(r.Version, "+incompatible") {
					other += "+incompatible"
				}
				dirs = append(dirs, r.Name+" "+other+" => "+newPath+" "+newVer)
			case 3:
				local := fmt.Sprintf("../local/d%d", k+1)
				dirs = append(dirs, r.Name+" => "+local)
				repl[idx] = rec{Name: local, Version: ""}
			}
		}
		truth := []rec{{Name: "stdlib", Version: "1.21"}}
		req := []string{}
		if len(recs) > 0 {
			req = append(req, "require (")
			for i, r := range recs {
				req = append(req, "\t"+r.Name+" "+r.Version)
				if n, ok := repl[i]; ok {
					truth = append(truth, n)
				} else {
					truth = append(truth, rec{Name: r.Name, Version: r.Version})
				}
			}
			req = append(req, ")", "")
		}
		var rep []string
		if l.get("style") == 0 {
			for _, d := range dirs {
				rep = append(rep, "replace "+d, "")
			}
		} else {
			rep = append(rep, "replace (")
			for _, d := range dirs {
				rep = append(rep, "\t"+d)
			}
			rep = append(rep, ")", "")
		}
		lines := []string{"module example.com/app", "", "go 1.21", ""}
		if l.get("order") == 0 {
			lines = append(append(lines, req...), rep...)
		} else {
			lines = append(append(lines, rep...), req...)
		}
		return genOut{file: finish(lines, "\n", 0), truth: truth}
	}
	return f
}
