package main

import (
	"fmt"
	"regexp"
	"strings"

	"github.com/google/osv-scalibr/extractor/filesystem"
	"github.com/google/osv-scalibr/extractor/filesystem/language/golang/gomod"
)

// go.mod, second variant: SEQUENCES of three replace directives, every combination and
// order of the directive classes, each applied to every record:
//
//	not-required     replace of a module that is not required at all           -> no effect
//	all-versions     `replace P => N v`    wildcard for a required module      -> N v reported instead
//	this-version     `replace P v => N v`  matching the required version       -> N v reported instead
//	other-version    `replace P v' => N v` with v' NOT the required version    -> no effect
//	local-path       `replace P => ../dir` wildcard with a directory target    -> ("../dir", "") reported
//	chain-wildcard   `replace N => M v`    whose left side is the module that currently replaces
//	chain-versioned  `replace N v => M v`  the record                          -> no effect
//
// Reference = what the go command does (cmd/go/internal/modload.Replacement, one lookup per
// required module version): a version-specific directive for the required version has priority
// over a wildcard one WHATEVER the order of the lines; otherwise the wildcard applies; the
// replacement itself is not looked up again, so directives do not chain
// (https://go.dev/ref/mod#go-mod-file-replace). This is also what the extractor documents:
// gomod.go:132-160, gomod_test.go "replacements_ one/mixed/local/different/not required/no
// version". go rejects two directives with the same left side (same module and same
// version-or-wildcard): the later one is written as a not-required directive instead.
func fmtGomodReplace() *format {
	classes := []string{"all-versions", "this-version", "other-version", "local-path", "chain-wildcard", "chain-versioned"}
	f := &format{
		id:   "gomod-replace",
		path: "go.mod",
		pool: gomodPool(),
		dims: []dim{
			{name: "style", labels: []string{"single-line-directives", "one-replace-block"}},
			{name: "order", labels: []string{"require-first", "replace-first"}},
			{name: "d1", kind: posIdx, labels: classes, slot: "directives"},
			{name: "d2", kind: posIdx, labels: classes, slot: "directives"},
			{name: "d3", kind: posIdx, labels: classes, slot: "directives"},
		},
		newEx:       func() filesystem.Extractor { return gomod.New() },
		maxThorough: 2, // three directives over two records already give every pair on one record and across records
		norm: func(r rec) rec {
			r.Version = strings.TrimPrefix(r.Version, "v")
			return r
		},
	}
	major := regexp.MustCompile(`^v(\d+)`)
	f.gen = func(recs []rec, lay []int) genOut {
		l := layout{f, lay}
		type dir struct {
			idx, class int
			newPath    string
			newVer     string
		}
		var ds []dir
		leftTaken := map[string]bool{} // left sides already used (go rejects duplicates)
		// pass 1: fix which directives exist, so that the winner per record is known
		for k, dn := range []string{"d1", "d2", "d3"} {
			idx, class := l.at(dn)
			d := dir{idx: idx, class: class, newPath: fmt.Sprintf("example.com/fork/d%d", k+1), newVer: fmt.Sprintf("v1.4.%d", k+1)}
			if idx >= 0 && class <= 3 {
				left := fmt.Sprintf("%d/%d", idx, []int{0, 1, 2, 0}[class]) // all-versions and local-path share the wildcard left side
				if leftTaken[left] {
					d.idx = -1
				}
				leftTaken[left] = true
			}
			ds = append(ds, d)
		}
		// the go command's choice per record: matching specific directive first, then the wildcard
		winner := map[int]int{} // record -> directive position
		for _, want := range []int{1, 0} {
			for k, d := range ds {
				if d.idx < 0 {
					continue
				}
				if _, done := winner[d.idx]; done {
					continue
				}
				if (want == 1 && d.class == 1) || (want == 0 && (d.class == 0 || d.class == 3)) {
					winner[d.idx] = k
				}
			}
		}
		repl := map[int]rec{}
		var dirs []string
		for k, d := range ds {
			notRequired := fmt.Sprintf("example.com/not/required%d v1.0.0 => %s %s", k+1, d.newPath, d.newVer)
			if d.idx < 0 {
				dirs = append(dirs, notRequired)
				continue
			}
			r := recs[d.idx]
			switch d.class {
			case 0:
				dirs = append(dirs, r.Name+" => "+d.newPath+" "+d.newVer)
			case 1:
				dirs = append(dirs, r.Name+" "+r.Version+" => "+d.newPath+" "+d.newVer)
			case 2:
				other := "v" + major.FindStringSubmatch(r.Version)[1] + ".99.0"
				if strings.HasSuffix(r.Version, "+incompatible") {
					other += "+incompatible"
				}
				dirs = append(dirs, r.Name+" "+other+" => "+d.newPath+" "+d.newVer)
			case 3:
				dirs = append(dirs, r.Name+" => "+fmt.Sprintf("../local/d%d", k+1))
			case 4, 5:
				// left side = the module that replaces the record (if that is a module path)
				w, ok := winner[d.idx]
				if !ok || ds[w].class == 3 || w == k {
					dirs = append(dirs, notRequired)
					continue
				}
				left := ds[w].newPath
				if d.class == 5 {
					left += " " + ds[w].newVer
				}
				if leftTaken["chain/"+left] {
					dirs = append(dirs, notRequired)
					continue
				}
				leftTaken["chain/"+left] = true
				dirs = append(dirs, left+" => "+d.newPath+" "+d.newVer)
			}
			if w, ok := winner[d.idx]; ok && w == k {
				if d.class == 3 {
					repl[d.idx] = rec{Name: fmt.Sprintf("../local/d%d", k+1), Version: ""}
				} else {
					repl[d.idx] = rec{Name: d.newPath, Version: d.newVer}
				}
			}
		}
		truth := []rec{{Name: "stdlib", Version: "1.21"}}
		req := []string{}
		if len(recs) > 0 {
			req = append(req, "require (")
			for i, r := range recs {
				req = append(req, "\t"+r.Name+" "+r.Version)
				if n, ok := repl[i]; ok {
					truth = append(truth, n)
				} else {
					truth = append(truth, rec{Name: r.Name, Version: r.Version})
				}
			}
			req = append(req, ")", "")
		}
		var rep []string
		if l.get("style") == 0 {
			for _, d := range dirs {
				rep = append(rep, "replace "+d, "")
			}
		} else {
			rep = append(rep, "replace (")
			for _, d := range dirs {
				rep = append(rep, "\t"+d)
			}
			rep = append(rep, ")", "")
		}
		lines := []string{"module example.com/app", "", "go 1.21", ""}
		if l.get("order") == 0 {
			lines = append(append(lines, req...), rep...)
		} else {
			lines = append(append(lines, rep...), req...)
		}
		return genOut{file: finish(lines, "\n", 0), truth: truth}
	}
	return f
}
