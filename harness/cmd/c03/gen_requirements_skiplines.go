package main

import (
	"github.com/google/osv-scalibr/extractor/filesystem"
	"github.com/google/osv-scalibr/extractor/filesystem/language/python/requirements"
)

// requirements.txt, second variant: LINE-LEVEL STATE. Between any two records (and before
// the first / after the last) sits one logical line that is not a requirement, drawn from
// every class of line the format lets a reader discard: option lines, option lines that
// use pip's ${VAR} expansion (ignored as a whole by the extractor: requirements.go readLine
// "Ignore env variables", testdata/env_var.txt), option lines continued with a backslash
// (with the continuation holding a plain value, a ${VAR}, a trailing comment), a comment line
// that ends in a backslash (pip does not join comment lines), and a continuation that is
// still open at end-of-file. None of these is a package in any reading, so the ground truth
// is the records only; whatever the reader buffered for the discarded line must not leak
// into the next requirement.
func fmtRequirementsSkip() *format {
	junk := [][]string{
		{"-r other.txt"},
		{"  -r other.txt", "\t--index-url https://pypi.org/simple", "  # not-a-package==9.9.9"},
		{"--index-url https://${PYPI_HOST}/simple"},
		{`--extra-index-url \`, "    https://download.pytorch.org/whl/cpu"},
		{`--extra-index-url \`, "    https://${PYPI_HOST}/simple"},
		{`--find-links \`, "    ./wheels  # local wheel cache"},
		{`# see the notes in docs/deps.md \`},
		{`-r \`, "    other.txt"},
		{`--index-url https://${PYPI_HOST}/simple \`, "    --trusted-host pypi.internal"},
		{`--trusted-host \`, `    pypi.internal \`, "    # nothing else"},
	}
	labels := []string{"-r", "indented-options-and-comment", "envvar-option", "continued-option", "continued-option-envvar-in-continuation",
		"continued-option-trailing-comment", "comment-ending-in-backslash", "continued--r", "envvar-option-continued",
		"continued-option-ending-in-comment-line"}
	f := &format{
		id:   "requirements-skiplines",
		path: "requirements.txt",
		pool: requirementsPool(),
		dims: []dim{
			{name: "eol", labels: eolLabels},
			{name: "trail", labels: trailLabels},
			{name: "blank", labels: []string{"0", "1"}},
			{name: "deco", labels: []string{"none", "hash-continuation"}},
			{name: "top", labels: append([]string{"none"}, labels...)},
			{name: "eofcont", labels: []string{"none", "last-line-ends-in-backslash"}},
			{name: "skipline", kind: posIdx, labels: labels},
		},
		newEx:       func() filesystem.Extractor { return requirements.NewDefault() },
		norm:        normPyPI,
		maxThorough: 3,
	}
	f.gen = func(recs []rec, lay []int) genOut {
		l := layout{f, lay}
		si, sk := l.at("skipline")
		var lines []string
		var truth []rec
		if t := l.get("top"); t > 0 {
			lines = append(lines, junk[t-1]...)
		}
		for i, r := range recs {
			if l.get("blank") == 1 && len(lines) > 0 {
				lines = append(lines, "")
			}
			truth = append(truth, rec{Name: r.Name, Version: r.Version})
			if l.get("deco") == 1 {
				lines = append(lines, r.Name+"=="+r.Version+` \`,
					`    --hash=sha256:58cd2187c01e70e6e26505bca751777aa9f2ee0b7f4300988b709f44e013003f`)
			} else {
				lines = append(lines, r.Name+"=="+r.Version)
			}
			if i == si {
				if l.get("blank") == 1 {
					lines = append(lines, "")
				}
				lines = append(lines, junk[sk]...)
			}
		}
		if l.get("eofcont") == 1 && len(lines) > 0 {
			// a continuation still open at end-of-file: pip yields the line as it stands
			if last := lines[len(lines)-1]; last == "" || last[len(last)-1] != '\\' {
				lines[len(lines)-1] = last + ` \`
			}
		}
		return genOut{file: finish(lines, eolOf(l.get("eol")), l.get("trail")), truth: truth,
			extra: map[string]string{"other.txt": "# nothing pinned here\n"}}
	}
	return f
}
