package main

import (
	"github.com/google/osv-scalibr/extractor/filesystem"
	"github.com/google/osv-scalibr/extractor/filesystem/language/dotnet/packageslockjson"
)

// packages.lock.json (NuGet): "dependencies" -> target framework -> package id ->
// {type, requested, resolved, contentHash, dependencies} (packageslockjson.go:78-80).
// The same id may be locked at different versions for different frameworks. The same
// (id, version) under two frameworks and "type": "Project" entries are don't-care cells
// and never generated (see main.go).
func fmtPackagesLock() *format {
	f := &format{
		id:   "packageslockjson",
		path: "packages.lock.json",
		pool: []rec{
			{Name: "Newtonsoft.Json", Version: "13.0.3", Tag: "plain"},
			{Name: "Newtonsoft.Json", Version: "12.0.3", Tag: "same-name-second-version"},
			{Name: "Newtonsoft.Json1", Version: "3.0.3", Tag: "name+version-concat-equals-plain"},
			{Name: "A.B-C_D", Version: "2.0.0-rc.1", Tag: "corner-alphabet-prerelease"},
			{Name: "System.Text.Json", Version: "8.0.0-preview.7.23375.6", Tag: "preview-version"},
			{Name: "serilog", Version: "3.0.1", Tag: "lowercase"},
		},
		dims: []dim{
			{name: "eol", labels: eolLabels},
			{name: "trail", labels: trailLabels},
			{name: "indent", labels: []string{"2-spaces", "compact"}},
			{name: "extras", labels: []string{"minimal", "type-requested-hash-deps", "unrelated-fields-in-every-json-shape"}},
			{name: "top", labels: []string{"version-first", "version-last"}},
			{name: "frameworks", labels: []string{"one", "two"}},
		},
		newEx: func() filesystem.Extractor { return packageslockjson.NewDefault() },
	}
	f.gen = func(recs []rec, lay []int) genOut {
		l := layout{f, lay}
		names := []string{"net6.0", "net8.0/win-x64", ".NETStandard,Version=v2.0", "net48"}
		nf := l.get("frameworks") + 1
		fw := make([]jo, nf)
		has := make([]map[string]bool, nf)
		for i := range has {
			has[i] = map[string]bool{}
		}
		var truth []rec
		for i, r := range recs {
			truth = append(truth, rec{Name: r.Name, Version: r.Version})
			e := jo{{"resolved", r.Version}}
			if l.get("extras") == 1 {
				typ := "Direct"
				e = jo{}
				if i%2 == 1 {
					typ = "Transitive"
				}
				e = append(e, jkv{"type", typ})
				if typ == "Direct" {
					e = append(e, jkv{"requested", "[" + r.Version + ", )"})
				}
				e = append(e, jkv{"resolved", r.Version},
					jkv{"contentHash", "HrC5BXdl00IP9zeV+0Z848QWPAoCr9P3bDEZguI+gkLcBKAOxix/tLEAAHC+UvDNPv4a2d18lOReHMOagPa+zQ=="},
					jkv{"dependencies", jo{{"Not.A.Package", "9.9.9"}}})
			}
			if l.get("extras") == 2 {
				e = withOdd(append(jo{{"type", "Transitive"}}, e...), i)
			}
			// first framework (round robin start) that does not hold this id yet; a new one if all do
			placed := false
			for k := 0; k < len(fw); k++ {
				j := (i + k) % len(fw)
				if !has[j][r.Name] {
					fw[j] = append(fw[j], jkv{r.Name, e})
					has[j][r.Name] = true
					placed = true
					break
				}
			}
			if !placed {
				fw = append(fw, jo{{r.Name, e}})
				has = append(has, map[string]bool{r.Name: true})
			}
		}
		deps := jo{}
		for j := range fw {
			deps = append(deps, jkv{names[j], fw[j]})
		}
		var doc jo
		if l.get("top") == 0 {
			doc = jo{{"version", 1}, {"dependencies", deps}}
		} else {
			doc = jo{{"dependencies", deps}, {"version", 1}}
		}
		indent := "  "
		if l.get("indent") == 1 {
			indent = ""
		}
		eol := eolOf(l.get("eol"))
		return genOut{file: jsonFinish(renderJSON(doc, indent, eol), eol, l.get("trail")), truth: truth}
	}
	return f
}
