package main

import (
	"github.com/google/osv-scalibr/extractor/filesystem"
	"github.com/google/osv-scalibr/extractor/filesystem/language/python/requirements"
)

// requirements.txt, third variant: INERT COMMENT TEXT. One record carries a comment (trailing,
// or on a line of its own right after it) whose text quotes the format's own active syntax:
// a ${VAR} reference, an option line, a --hash option, a version specifier, an environment
// marker, a complete second requirement. pip strips the comment before anything else looks
// at the line (COMMENT_RE, cited at requirements.go:43-45; testdata/comments.txt), so the
// record must be reported unchanged and nothing else may appear.
// A trailing comment that ends in a backslash is a don't-care cell (pip joins such a line with
// the next one before it strips the comment) and is never generated; the comment-line form of
// it is part of requirements-skiplines.
func fmtRequirementsComments() *format {
	texts := []string{
		"needs ${HOME}/.netrc",
		"-r other.txt",
		"--hash=sha256:58cd2187c01e70e6e26505bca751777aa9f2ee0b7f4300988b709f44e013003f",
		"==9.9.9",
		`; python_version < "3"`,
		"not-a-package==9.9.9",
		"-e git+https://github.com/example/x.git#egg=x",
		"was: >=1.0,<2.0,!=1.5.*",
	}
	labels := []string{"envvar", "-r", "--hash", "specifier", "marker", "second-requirement", "-e-url-with-hash-sign", "range-specifiers"}
	f := &format{
		id:   "requirements-comments",
		path: "requirements.txt",
		pool: requirementsPool(),
		dims: []dim{
			{name: "eol", labels: eolLabels},
			{name: "trail", labels: trailLabels},
			{name: "deco", labels: []string{"none", "marker", "hash-continuation"}},
			{name: "sep", labels: []string{"2-spaces", "tab"}},
			{name: "place", labels: []string{"trailing", "own-line-after-record", "own-line-indented"}},
			{name: "comment", kind: posIdx, labels: labels},
		},
		newEx:       func() filesystem.Extractor { return requirements.NewDefault() },
		norm:        normPyPI,
		maxThorough: 3,
	}
	f.gen = func(recs []rec, lay []int) genOut {
		l := layout{f, lay}
		ci, ck := l.at("comment")
		sep := "  "
		if l.get("sep") == 1 {
			sep = "\t"
		}
		var lines []string
		var truth []rec
		for i, r := range recs {
			truth = append(truth, rec{Name: r.Name, Version: r.Version})
			var rl []string
			switch l.get("deco") {
			case 0:
				rl = []string{r.Name + "==" + r.Version}
			case 1:
				rl = []string{r.Name + "==" + r.Version + ` ; python_version >= "3.8"`}
			case 2:
				rl = []string{r.Name + "==" + r.Version + " \\",
					"    --hash=sha256:942c5a758f98d790eaed1a29cb6eefc7ffb0d1cf7af05c3d2791656dbd6ad1e1"}
			}
			if i == ci {
				switch l.get("place") {
				case 0:
					rl[len(rl)-1] += sep + "# " + texts[ck]
				case 1:
					rl = append(rl, "# "+texts[ck])
				case 2:
					rl = append(rl, "   "+sep+"#"+texts[ck])
				}
			}
			lines = append(lines, rl...)
		}
		return genOut{file: finish(lines, eolOf(l.get("eol")), l.get("trail")), truth: truth,
			extra: map[string]string{"other.txt": "# nothing pinned here\n"}}
	}
	return f
}
