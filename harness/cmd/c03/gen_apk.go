package main

import (
	"strings"

	"github.com/google/osv-scalibr/extractor/filesystem"
	"github.com/google/osv-scalibr/extractor/filesystem/os/apk"
)

// apk installed database: records of `K:value` lines separated by blank lines
// (https://wiki.alpinelinux.org/wiki/Apk_spec). No comments, no "not installed" marker,
// CRLF outside the alphabet (see main.go). Double blank lines are tolerated by design
// (apk.go:157-158).
func fmtApk() *format {
	f := &format{
		id:   "apk",
		path: "lib/apk/db/installed",
		pool: []rec{
			{Name: "musl", Version: "1.2.4-r2", Tag: "plain"},
			{Name: "libstdc++", Version: "12.2.1_git20220924-r10", Tag: "plusplus-git"},
			{Name: "a.b-c", Version: "0.1_rc1-r0", Tag: "dotted-name-rc"},
			{Name: "py3-foo_bar", Version: "2.0.0-r1", Tag: "underscore"},
			{Name: "9base1", Version: "6-r2", Tag: "name+version-concat-equals-digit-start"},
			{Name: "9base", Version: "16-r2", Tag: "digit-start"},
		},
		dims: []dim{
			{name: "trail", labels: []string{"blank-line-after-last", "no-newline", "one-newline"}},
			{name: "blank", labels: []string{"1", "2"}},
			{name: "order", labels: []string{"canonical", "version-before-name", "name-version-last"}},
			{name: "extras", labels: []string{"minimal", "rich"}},
		},
		newEx: func() filesystem.Extractor { return apk.NewDefault() },
	}
	f.gen = func(recs []rec, lay []int) genOut {
		l := layout{f, lay}
		var lines []string
		var truth []rec
		for i, r := range recs {
			if i > 0 {
				for k := 0; k <= l.get("blank"); k++ {
					lines = append(lines, "")
				}
			}
			truth = append(truth, rec{Name: r.Name, Version: r.Version})
			p, v := "P:"+r.Name, "V:"+r.Version
			var head, tail []string
			if l.get("extras") == 1 {
				head = []string{"C:Q1p78yvTLG094tHE1+dToJGbmYzQE="}
				tail = []string{
					"A:x86_64", "S:383152", "I:622592",
					"T:the musl c library (libc) implementation: P:fake V:9.9",
					"U:https://musl.libc.org/", "L:MIT", "o:" + r.Name + "-origin",
					"m:Timo Teräs <timo.teras@iki.fi>", "t:1690477698",
					"c:1e9ccbf01c9b3f0b5e0d0e8b4b3a1d7f2c6d1a11",
					"D:so:libc.musl-x86_64.so.1 !uclibc-utils scanelf",
					"p:so:libc.musl-x86_64.so.1=1 cmd:ldd=1.2.4-r2",
					"F:lib", "R:ld-musl-x86_64.so.1", "a:0:0:755", "Z:Q1TPCeqlJmbsQiaGdqo5cwqvvZLlE=",
					"F:usr", "F:usr/lib", "R:libc.so", "a:0:0:777",
				}
			}
			switch l.get("order") {
			case 0:
				lines = append(lines, head...)
				lines = append(lines, p, v)
				lines = append(lines, tail...)
			case 1:
				lines = append(lines, v)
				lines = append(lines, head...)
				lines = append(lines, p)
				lines = append(lines, tail...)
			case 2:
				lines = append(lines, head...)
				lines = append(lines, tail...)
				lines = append(lines, p, v)
			}
		}
		file := strings.Join(lines, "\n")
		if len(recs) > 0 {
			switch l.get("trail") {
			case 0:
				file += "\n\n"
			case 2:
				file += "\n"
			}
		}
		return genOut{file: file, truth: truth, extra: map[string]string{
			"etc/os-release": "NAME=\"Alpine Linux\"\nID=alpine\nVERSION_ID=3.18.4\n",
		}}
	}
	return f
}
