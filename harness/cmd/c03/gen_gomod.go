package main

import (
	"strings"

	"github.com/google/osv-scalibr/extractor/filesystem"
	"github.com/google/osv-scalibr/extractor/filesystem/language/golang/gomod"
)

// go.mod (https://go.dev/ref/mod#go-mod-file). Documented extractor behaviour that is part
// of the ground truth:
//   - a `stdlib` package carrying the go directive's version is added (gomod.go:42-43 doc
//     comment, gomod_test.go:113-117); a toolchain directive takes priority
//     (gomod.go:170, gomod_test.go:125-140);
//   - `replace old [v] => new v` reports the replacement instead of the replaced module,
//     a replace for a module that is not required has no effect (gomod.go:132-160,
//     gomod_test.go "replacements_*");
//   - versions are reported without the leading "v" (compared v-insensitively, see main.go);
//   - `// indirect` requirements are reported (gomod_test.go "indirect packages").
//
// exclude / retract directives are unrelated fields.
func fmtGomod() *format {
	f := &format{
		id:   "gomod",
		path: "go.mod",
		pool: gomodPool(),
		dims: []dim{
			{name: "eol", labels: eolLabels},
			{name: "trail", labels: trailLabels},
			{name: "header", labels: []string{"module-only", "go-1.21", "go+toolchain"}},
			{name: "style", labels: []string{"one-block", "single-line-requires", "direct+indirect-blocks"}},
			{name: "comment", labels: []string{"none", "comments", "comments-quoting-active-syntax"}},
			{name: "blank", labels: []string{"none", "blank-lines-in-blocks"}},
			{name: "extra", labels: []string{"none", "exclude-retract-unrelated-replace"}},
			{name: "order", labels: []string{"require-first", "replace-exclude-first"}},
			// the go.mod lexer treats blanks and tabs alike; testdata/replace-*.mod indent with 4 spaces
			{name: "ws", labels: []string{"tab-indent-single-space", "space-indent-wide-gaps-trailing-blanks"}},
			{name: "replaced", kind: posIdx, labels: []string{"all-versions", "this-version"}},
		},
		newEx:       func() filesystem.Extractor { return gomod.New() },
		maxThorough: 3,
		norm: func(r rec) rec {
			r.Version = strings.TrimPrefix(r.Version, "v")
			return r
		},
	}
	f.gen = func(recs []rec, lay []int) genOut {
		l := layout{f, lay}
		ri, rk := l.at("replaced")
		cm := l.get("comment") >= 1
		pinned, keep, fork := " // pinned", "// keep sorted", "// use our fork until upstream merges the fix"
		if l.get("comment") == 2 { // comment texts that look like directives must stay inert
			pinned = " // replace example.com/not/required => example.com/not/fork v9.9.9"
			keep = "// example.com/not/required v9.9.9 // indirect"
			fork = "// ) require ( example.com/not/required v9.9.9"
		}
		var truth []rec
		var head, req, other []string
		if cm {
			head = append(head, "// Module definition for the application.")
		}
		head = append(head, "module example.com/app", "")
		switch l.get("header") {
		case 1:
			head = append(head, "go 1.21", "")
			truth = append(truth, rec{Name: "stdlib", Version: "1.21"})
		case 2:
			head = append(head, "go 1.22.3", "", "toolchain go1.23.1", "")
			truth = append(truth, rec{Name: "stdlib", Version: "1.23.1"})
		}
		entry := func(i int, r rec, indirect bool) string {
			s := r.Name + " " + r.Version
			if indirect {
				s += " // indirect"
			} else if cm && i%2 == 0 {
				s += pinned
			}
			return s
		}
		for i, r := range recs {
			if i == ri {
				truth = append(truth, rec{Name: "example.com/fork/r", Version: "v1.4.5"})
			} else {
				truth = append(truth, rec{Name: r.Name, Version: r.Version})
			}
		}
		block := func(idx []int, indirect bool) []string {
			if len(idx) == 0 {
				return nil
			}
			out := []string{"require ("}
			for k, i := range idx {
				if k > 0 && l.get("blank") == 1 {
					out = append(out, "")
				}
				if cm && k == 0 {
					out = append(out, "\t"+keep)
				}
				out = append(out, "\t"+entry(i, recs[i], indirect))
			}
			return append(out, ")", "")
		}
		all := make([]int, len(recs))
		for i := range recs {
			all[i] = i
		}
		switch l.get("style") {
		case 0:
			req = block(all, false)
		case 1:
			for i, r := range recs {
				if cm && i == 0 {
					req = append(req, "// direct requirements")
				}
				req = append(req, "require "+entry(i, r, false))
				if l.get("blank") == 1 {
					req = append(req, "")
				}
			}
			req = append(req, "")
		case 2:
			h := (len(recs) + 1) / 2
			req = append(block(all[:h], false), block(all[h:], true)...)
		}
		if l.get("extra") == 1 {
			other = append(other,
				"exclude golang.org/x/net v1.2.3", "",
				"exclude (", "\tgithub.com/unrelated/excluded v0.9.0", ")", "",
				"retract v0.0.1 // published accidentally", "",
				"replace github.com/not/required v1.0.0 => example.com/fork/other v1.0.1", "")
		}
		if ri >= 0 {
			old := recs[ri].Name
			if rk == 1 {
				old += " " + recs[ri].Version
			}
			if cm {
				other = append(other, fork)
			}
			if l.get("extra") == 1 {
				other = append(other, "replace (", "\t"+old+" => example.com/fork/r v1.4.5", ")", "")
			} else {
				other = append(other, "replace "+old+" => example.com/fork/r v1.4.5", "")
			}
		}
		lines := append([]string{}, head...)
		if l.get("order") == 0 {
			lines = append(append(lines, req...), other...)
		} else {
			lines = append(append(lines, other...), req...)
		}
		if l.get("ws") == 1 {
			for k, ln := range lines {
				if ln == "" || strings.HasPrefix(strings.TrimLeft(ln, "\t"), "//") {
					continue
				}
				code, cmt, has := strings.Cut(ln, " //")
				code = strings.ReplaceAll(code, "\t", "    ")
				code = strings.ReplaceAll(code, " v", "  \t v") // gap before every version token
				code = strings.ReplaceAll(code, " => ", "\t=>  ")
				if has {
					code += "\t //" + cmt
				} else {
					code += "  "
				}
				lines[k] = code
			}
		}
		return genOut{file: finish(lines, eolOf(l.get("eol")), l.get("trail")), truth: truth}
	}
	return f
}

func gomodPool() []rec {
	return []rec{
		{Name: "github.com/BurntSushi/toml", Version: "v1.3.2", Tag: "plain"},
		{Name: "gopkg.in/yaml.v3", Version: "v3.0.1", Tag: "gopkg-in"},
		{Name: "example.com/m/v2", Version: "v2.0.0-rc.1", Tag: "major-suffix-prerelease"},
		{Name: "golang.org/x/sys", Version: "v0.0.0-20220715151400-c0bba94af5f8", Tag: "pseudo-version"},
		{Name: "github.com/docker/cli", Version: "v25.0.3+incompatible", Tag: "incompatible"},
		{Name: "github.com/docker/cli2", Version: "v5.0.3+incompatible", Tag: "name+version-concat-equals-incompatible"},
	}
}
