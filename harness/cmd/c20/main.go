// C20 — detectors see all extracted packages and their findings are reported intact.
//
// Exhaustive over configurations: every ordered list of 0..k scripted detectors (each
// returns a finding list of length <=2 over a 5-element finding alphabet, with or
// without an error) x every inventory (subset of 4 packages, two from a filesystem
// extractor and two from a standalone extractor, one of them without a package URL),
// each run through the real Scanner.Scan and compared with a reference model of the
// detector run.
//
// Don't care: the overall status when a detector returns an error but the findings are
// consistent; relative order of findings that tie on (advisory reference, extra).
package main

import (
	"context"
	"errors"
	"fmt"
	"reflect"
	"sort"
	"strings"
	"time"

	scalibr "github.com/google/osv-scalibr"
	"github.com/google/osv-scalibr/detector"
	"github.com/google/osv-scalibr/extractor"
	"github.com/google/osv-scalibr/extractor/filesystem"
	"github.com/google/osv-scalibr/extractor/standalone"
	scalibrfs "github.com/google/osv-scalibr/fs"
	"github.com/google/osv-scalibr/inventory"
	"github.com/google/osv-scalibr/packageindex"
	"github.com/google/osv-scalibr/plugin"
	"github.com/google/osv-scalibr/purl"
	"verif/ev"
	"verif/memfs"
	"verif/scankit"
)

// finding alphabet
const (
	fX1 = iota // advisory X, body 1
	fX2        // advisory X, body 2 (conflicts with fX1)
	fY1        // advisory Y, body 1
	fNoAdv
	fNoID
	fX3 // advisory X, body 1 except for a nested CVSS score (conflicts with fX1 only deep inside the struct)
	fX4 // advisory X, body 1 with the severity but WITHOUT the optional CVSS score (conflicts with fX1 and fX3)
	nFindingKinds
)

var fNames = []string{"X/body1", "X/body2", "Y/body1", "no-advisory", "no-advisory-id", "X/body1-other-cvss", "X/body1-no-cvss"}

func mkFinding(k int, extra string) *detector.Finding {
	switch k {
	case fX1:
		return &detector.Finding{Adv: &detector.Advisory{ID: &detector.AdvisoryID{Publisher: "P", Reference: "X"}, Title: "body1",
			Sev: &detector.Severity{Severity: detector.SeverityHigh, CVSSV3: &detector.CVSS{BaseScore: 7.5}}}, Extra: extra}
	case fX3:
		return &detector.Finding{Adv: &detector.Advisory{ID: &detector.AdvisoryID{Publisher: "P", Reference: "X"}, Title: "body1",
			Sev: &detector.Severity{Severity: detector.SeverityHigh, CVSSV3: &detector.CVSS{BaseScore: 9.8}}}, Extra: extra}
	case fX4:
		return &detector.Finding{Adv: &detector.Advisory{ID: &detector.AdvisoryID{Publisher: "P", Reference: "X"}, Title: "body1",
			Sev: &detector.Severity{Severity: detector.SeverityHigh}}, Extra: extra}
	case fX2:
		return &detector.Finding{Adv: &detector.Advisory{ID: &detector.AdvisoryID{Publisher: "P", Reference: "X"}, Title: "body2"}, Extra: extra}
	case fY1:
		return &detector.Finding{Adv: &detector.Advisory{ID: &detector.AdvisoryID{Publisher: "P", Reference: "Y"}, Title: "body1"}, Extra: extra}
	case fNoAdv:
		return &detector.Finding{Extra: extra}
	}
	return &detector.Finding{Adv: &detector.Advisory{Title: "no id"}, Extra: extra}
}

type script struct {
	Findings []int `json:"findings"`
	Err      bool  `json:"err"`
}

func (s script) String() string {
	var fs []string
	for _, f := range s.Findings {
		fs = append(fs, fNames[f])
	}
	e := ""
	if s.Err {
		e = "+error"
	}
	return "[" + strings.Join(fs, ",") + "]" + e
}

func scripts(maxLen int) []script {
	var lists [][]int
	lists = append(lists, nil)
	for a := 0; a < nFindingKinds; a++ {
		lists = append(lists, []int{a})
	}
	if maxLen >= 2 {
		for a := 0; a < nFindingKinds; a++ {
			for b := 0; b < nFindingKinds; b++ {
				lists = append(lists, []int{a, b})
			}
		}
	}
	var out []script
	for _, l := range lists {
		out = append(out, script{l, false}, script{l, true})
	}
	return out
}

// packages: bit 0,1 from the filesystem extractor; bit 2,3 from the standalone extractor
type pkgDef struct {
	name, ver, typ string // typ "" = no PURL
}

var pkgDefs = []pkgDef{{"n1", "1", "t1"}, {"n1", "2", "t1"}, {"n2", "1", "t2"}, {"nopurl", "1", ""}}

type metaT struct {
	typ      string
	purlName string // if set, the package URL's name (the package's display name then differs from it)
}

type fsEx struct {
	scankit.Ex
}

func toPURL(p *extractor.Package) *purl.PackageURL {
	m, _ := p.Metadata.(*metaT)
	if m == nil || m.typ == "" {
		return nil
	}
	if m.purlName != "" {
		return &purl.PackageURL{Type: m.typ, Name: m.purlName, Version: p.Version}
	}
	return &purl.PackageURL{Type: m.typ, Name: p.Name, Version: p.Version}
}
func (e *fsEx) ToPURL(p *extractor.Package) *purl.PackageURL { return toPURL(p) }

type stEx struct{ scankit.StEx }

func (e *stEx) ToPURL(p *extractor.Package) *purl.PackageURL { return toPURL(p) }

type observedDet struct {
	calls    int
	all      []string
	specific []string
	ofType   []string
	t2       []string
	missing  []string
}

type cfgT struct {
	Dets []script `json:"detectors"`
	Inv  int      `json:"inventory_mask"`
	// ExtraMode: 0 every finding has its own Extra text; 1 all findings have the same (empty) Extra and
	// differ in their target location; 2 all findings of one advisory are field-for-field identical
	ExtraMode int `json:"extra_mode,omitempty"`
	// Roots > 1: the scan gets that many scan roots (the further ones hold no package file); detectors
	// still run once per scan and see the same index
	Roots int `json:"scan_roots,omitempty"`
}

// finding builds finding j of detector i under the configuration's extra mode.
func (c cfgT) finding(kind, i, j int) *detector.Finding {
	switch c.ExtraMode {
	case 1:
		f := mkFinding(kind, "")
		f.Target = &detector.TargetDetails{Location: []string{fmt.Sprintf("loc-d%d-%d", i, j)}}
		return f
	case 2:
		return mkFinding(kind, "")
	}
	return mkFinding(kind, fmt.Sprintf("d%d-%d", i, j))
}

func locOf(f *detector.Finding) string {
	if f.Target == nil {
		return ""
	}
	return strings.Join(f.Target.Location, ",")
}

func pkgStr(ps []*extractor.Package) []string {
	var out []string
	for _, p := range ps {
		out = append(out, p.Name+"@"+p.Version)
	}
	sort.Strings(out)
	return out
}

func runCase(c cfgT) (key, detail string) {
	mk := func(i int) *extractor.Package {
		d := pkgDefs[i]
		return &extractor.Package{Name: d.name, Version: d.ver, Locations: []string{"f.pkg"}, Metadata: &metaT{typ: d.typ}}
	}
	fe := &fsEx{scankit.Ex{N: "fs-ex", Req: scankit.ReqBase("f.pkg"), Out: func(e *scankit.Ex, in *filesystem.ScanInput, _ []byte, _ error) (inventory.Inventory, error) {
		var inv inventory.Inventory
		for i := 0; i < 2; i++ {
			if c.Inv&(1<<i) != 0 {
				inv.Packages = append(inv.Packages, mk(i))
			}
		}
		return inv, nil
	}}}
	se := &stEx{scankit.StEx{N: "st-ex", Fn: func(context.Context, *standalone.ScanInput) (inventory.Inventory, error) {
		var inv inventory.Inventory
		for i := 2; i < 4; i++ {
			if c.Inv&(1<<i) != 0 {
				inv.Packages = append(inv.Packages, mk(i))
			}
		}
		return inv, nil
	}}}
	obs := make([]*observedDet, len(c.Dets))
	var dets []detector.Detector
	for i, s := range c.Dets {
		i, s := i, s
		obs[i] = &observedDet{}
		dets = append(dets, &scankit.Det{N: fmt.Sprintf("det-%d", i), Fn: func(_ context.Context, _ *scalibrfs.ScanRoot, px *packageindex.PackageIndex) ([]*detector.Finding, error) {
			o := obs[i]
			o.calls++
			o.all = pkgStr(px.GetAll())
			o.specific = pkgStr(px.GetSpecific("n1", "t1"))
			o.ofType = pkgStr(px.GetAllOfType("t1"))
			o.t2 = pkgStr(px.GetSpecific("n2", "t2"))
			o.missing = pkgStr(append(px.GetSpecific("n1", "t2"), px.GetAllOfType("t3")...))
			var fs []*detector.Finding
			for j, f := range s.Findings {
				fs = append(fs, c.finding(f, i, j))
			}
			var err error
			if s.Err {
				err = errors.New("detector failed")
			}
			return fs, err
		}})
	}
	root := memfs.D("", memfs.F("f.pkg", "x"))
	cfg := &scalibr.ScanConfig{
		FilesystemExtractors: []filesystem.Extractor{fe},
		StandaloneExtractors: []standalone.Extractor{se},
		Detectors:            dets,
		Capabilities:         &plugin.Capabilities{},
		ScanRoots:            []*scalibrfs.ScanRoot{{FS: memfs.New(root), Path: ""}},
	}
	for i := 1; i < c.Roots; i++ {
		cfg.ScanRoots = append(cfg.ScanRoots, &scalibrfs.ScanRoot{FS: memfs.New(memfs.D("", memfs.F("other.txt", "x"))), Path: ""})
	}
	var res *scalibr.ScanResult
	p, stack := ev.Recover(func() { res = scalibr.New().Scan(context.Background(), cfg) })
	if p != nil {
		return "panic:" + ev.PanicSite(stack), fmt.Sprint(p)
	}
	// ---- reference model ----
	var wantAll, wantN1, wantN2 []string
	for i, d := range pkgDefs {
		if c.Inv&(1<<i) != 0 && d.typ != "" {
			wantAll = append(wantAll, d.name+"@"+d.ver)
			if d.name == "n1" {
				wantN1 = append(wantN1, d.name+"@"+d.ver)
			}
			if d.name == "n2" {
				wantN2 = append(wantN2, d.name+"@"+d.ver)
			}
		}
	}
	sort.Strings(wantAll)
	eq := func(a, b []string) bool { return strings.Join(a, ",") == strings.Join(b, ",") }
	for i, o := range obs {
		if o.calls != 1 {
			return "detector-run-count", fmt.Sprintf("det-%d ran %d times", i, o.calls)
		}
		if !eq(o.all, wantAll) {
			return "index-getall", fmt.Sprintf("det-%d saw GetAll=%v want %v", i, o.all, wantAll)
		}
		if !eq(o.specific, wantN1) || !eq(o.ofType, wantN1) || !eq(o.t2, wantN2) || len(o.missing) != 0 {
			return "index-lookup", fmt.Sprintf("det-%d saw GetSpecific(n1,t1)=%v GetAllOfType(t1)=%v GetSpecific(n2,t2)=%v foreign=%v, want %v / %v / %v / []", i, o.specific, o.ofType, o.t2, o.missing, wantN1, wantN1, wantN2)
		}
	}
	// consistency of the advisories
	invalid := false
	type advT struct{ title string }
	seen := map[string]string{}
	var wantFindings []string
	for i, s := range c.Dets {
		for j, f := range s.Findings {
			fd := c.finding(f, i, j)
			if fd.Adv == nil || fd.Adv.ID == nil {
				invalid = true
				continue
			}
			body := fd.Adv.Title
			if fd.Adv.Sev != nil {
				body += "/sev"
				if fd.Adv.Sev.CVSSV3 != nil {
					body += fmt.Sprintf("/cvss3=%v", fd.Adv.Sev.CVSSV3.BaseScore)
				}
			}
			if t, ok := seen[fd.Adv.ID.Reference]; ok && t != body {
				invalid = true
			}
			seen[fd.Adv.ID.Reference] = body
			wantFindings = append(wantFindings, fmt.Sprintf("%s|%s|%s|det-%d|%s", fd.Adv.ID.Reference, fd.Adv.Title, fd.Extra, i, locOf(fd)))
		}
	}
	var gotFindings []string
	for _, f := range res.Inventory.Findings {
		ref, title := "<nil>", ""
		if f.Adv != nil {
			title = f.Adv.Title
			if f.Adv.ID != nil {
				ref = f.Adv.ID.Reference
			}
		}
		gotFindings = append(gotFindings, fmt.Sprintf("%s|%s|%s|%s|%s", ref, title, f.Extra, strings.Join(f.Detectors, "+"), locOf(f)))
	}
	failed := res.Status.Status == plugin.ScanStatusFailed
	if invalid {
		if !failed {
			return "inconsistent-findings-not-failed", fmt.Sprintf("status %s findings %v", res.Status, gotFindings)
		}
		if len(gotFindings) != 0 {
			return "inconsistent-findings-emitted", fmt.Sprintf("findings %v", gotFindings)
		}
	} else {
		// documented order: by advisory reference, then extra
		sort.SliceStable(wantFindings, func(a, b int) bool {
			pa, pb := strings.Split(wantFindings[a], "|"), strings.Split(wantFindings[b], "|")
			if pa[0] != pb[0] {
				return pa[0] < pb[0]
			}
			return pa[2] < pb[2]
		})
		if c.ExtraMode != 0 {
			// findings that compare equal under the documented order (reference, extra) may come in any
			// relative order: demand the documented order on the keys and the same multiset
			keys := func(xs []string) []string {
				var out []string
				for _, x := range xs {
					p := strings.Split(x, "|")
					out = append(out, p[0]+"|"+p[2])
				}
				return out
			}
			if !eq(keys(gotFindings), keys(wantFindings)) {
				return "findings-differ", fmt.Sprintf("got %v want %v", gotFindings, wantFindings)
			}
			gotFindings, wantFindings = append([]string{}, gotFindings...), append([]string{}, wantFindings...)
			sort.Strings(gotFindings)
			sort.Strings(wantFindings)
		}
		if !eq(gotFindings, wantFindings) {
			return "findings-differ", fmt.Sprintf("got %v want %v", gotFindings, wantFindings)
		}
		anyErr := false
		for _, s := range c.Dets {
			anyErr = anyErr || s.Err
		}
		if failed && !anyErr {
			return "consistent-scan-failed", res.Status.String()
		}
	}
	// statuses: one per plugin, detectors reflect their error
	want := map[string]plugin.ScanStatusEnum{"fs-ex": plugin.ScanStatusSucceeded, "st-ex": plugin.ScanStatusSucceeded}
	for i, s := range c.Dets {
		st := plugin.ScanStatusSucceeded
		if s.Err {
			st = plugin.ScanStatusFailed
		}
		want[fmt.Sprintf("det-%d", i)] = st
	}
	got := map[string]plugin.ScanStatusEnum{}
	for _, s := range res.PluginStatus {
		if _, dup := got[s.Name]; dup {
			return "duplicate-status", s.Name
		}
		got[s.Name] = s.Status.Status
	}
	if !reflect.DeepEqual(got, want) {
		return "plugin-status", fmt.Sprintf("got %v want %v", got, want)
	}
	// all extracted packages (with or without PURL) are in the result
	n := 0
	for i := range pkgDefs {
		if c.Inv&(1<<i) != 0 {
			n++
		}
	}
	if !invalid && len(res.Inventory.Packages) != n {
		return "packages-lost", fmt.Sprintf("%d packages in the result, %d extracted", len(res.Inventory.Packages), n)
	}
	return "", ""
}

// ---- index lookups over a name / type alphabet ----

var idxNames = []string{"n", "a-b", "a_b", "a.b", "A-B", "a--b", "typing_extensions", "Zope.Interface", "@scope/pkg", "github.com/x/y", "n 1", "ü"}
var idxTypes = []string{"pypi", "npm", "golang", "deb", "generic"}

// normName: the coarsest name equivalence any ecosystem defines (PEP 503: case-insensitive, runs of
// '-', '_', '.' are one separator). An index may treat such names as one package; it may never
// lose a package under the exact name of its own package URL.
func normName(n string) string {
	n = strings.ToLower(n)
	var b strings.Builder
	sep := false
	for _, c := range n {
		if c == '-' || c == '_' || c == '.' {
			sep = true
			continue
		}
		if sep {
			b.WriteByte('-')
			sep = false
		}
		b.WriteRune(c)
	}
	if sep {
		b.WriteByte('-')
	}
	return b.String()
}

type idxPkg struct{ name, typ string }

// indexCase scans an inventory made of pkgs (half from the filesystem extractor, half from the
// standalone one) and lets one detector query the index for every (name, type) of the alphabet.
func indexCase(pkgs []idxPkg, failingStandalone bool, deco int) (key, detail string) {
	nmk := deco
	mk := func(d idxPkg) *extractor.Package {
		p := &extractor.Package{Name: d.name, Version: "1", Locations: []string{"f.pkg"}, Metadata: &metaT{typ: d.typ}}
		// every optional field of a package in turn: none of them decides whether the package is "extracted"
		switch nmk % 8 {
		case 7:
			// the package's own name is a display name; the index is keyed by the package URL's name
			p.Name = "Display Name of " + d.name
			p.Metadata = &metaT{typ: d.typ, purlName: d.name}
		case 1:
			p.Annotations = []extractor.Annotation{extractor.Transitional}
		case 2:
			p.Annotations = []extractor.Annotation{extractor.InsideOSPackage}
		case 3:
			p.Annotations = []extractor.Annotation{extractor.InsideCacheDir, extractor.Transitional}
		case 4:
			p.SourceCode = &extractor.SourceCodeIdentifier{Repo: "https://example.com/r", Commit: "abc"}
		case 5:
			p.LayerDetails = &extractor.LayerDetails{Index: 1, DiffID: "d", Command: "c", InBaseImage: true}
		case 6:
			p.Locations = nil
		}
		nmk++
		return p
	}
	fe := &fsEx{scankit.Ex{N: "fs-ex", Req: scankit.ReqBase("f.pkg"), Out: func(e *scankit.Ex, in *filesystem.ScanInput, _ []byte, _ error) (inventory.Inventory, error) {
		var inv inventory.Inventory
		for i, d := range pkgs {
			if i%2 == 0 {
				inv.Packages = append(inv.Packages, mk(d))
			}
		}
		return inv, nil
	}}}
	se := &stEx{scankit.StEx{N: "st-ex", Fn: func(context.Context, *standalone.ScanInput) (inventory.Inventory, error) {
		var inv inventory.Inventory
		for i, d := range pkgs {
			if i%2 == 1 {
				inv.Packages = append(inv.Packages, mk(d))
			}
		}
		return inv, nil
	}}}
	sts := []standalone.Extractor{se}
	if failingStandalone {
		// a standalone extractor that fails, listed BEFORE the one that delivers: what the other
		// extractors found must still reach the index, and both get a status
		bad := &stEx{scankit.StEx{N: "st-bad", Fn: func(context.Context, *standalone.ScanInput) (inventory.Inventory, error) {
			return inventory.Inventory{}, errors.New("standalone extractor failed")
		}}}
		sts = []standalone.Extractor{bad, se}
	}
	var problems []string
	ran := 0
	var required []string
	if deco%2 == 1 {
		// the detector declares a required extractor; packages from OTHER extractors still belong in the index
		required = []string{"python/requirements"}
	}
	det := &scankit.Det{N: "det-0", Required: required, Fn: func(_ context.Context, _ *scalibrfs.ScanRoot, px *packageindex.PackageIndex) ([]*detector.Finding, error) {
		ran++
		id := func(p *extractor.Package) idxPkg {
			m := p.Metadata.(*metaT)
			if m.purlName != "" {
				return idxPkg{m.purlName, m.typ}
			}
			return idxPkg{p.Name, m.typ}
		}
		for _, t := range idxTypes {
			wantT := map[idxPkg]int{}
			for _, d := range pkgs {
				if d.typ == t {
					wantT[d]++
				}
			}
			gotT := map[idxPkg]int{}
			for _, p := range px.GetAllOfType(t) {
				gotT[id(p)]++
			}
			if !reflect.DeepEqual(wantT, gotT) {
				problems = append(problems, fmt.Sprintf("GetAllOfType(%q)=%v want %v", t, gotT, wantT))
			}
			for _, n := range idxNames {
				got := px.GetSpecific(n, t)
				has := false
				for _, p := range got {
					g := id(p)
					if g == (idxPkg{n, t}) {
						has = true
					}
					if g.typ != t || normName(g.name) != normName(n) {
						problems = append(problems, fmt.Sprintf("GetSpecific(%q,%q) returned foreign package %v", n, t, g))
					}
				}
				if wantT[idxPkg{n, t}] > 0 && !has {
					problems = append(problems, fmt.Sprintf("GetSpecific(%q,%q) does not return the package pkg:%s/%s that is in the inventory (got %d packages)", n, t, t, n, len(got)))
				}
			}
		}
		if len(px.GetAll()) != len(pkgs) {
			problems = append(problems, fmt.Sprintf("GetAll returns %d packages, %d extracted", len(px.GetAll()), len(pkgs)))
		}
		return nil, nil
	}}
	cfg := &scalibr.ScanConfig{
		FilesystemExtractors: []filesystem.Extractor{fe},
		StandaloneExtractors: sts,
		Detectors:            []detector.Detector{det},
		Capabilities:         &plugin.Capabilities{},
		ScanRoots:            []*scalibrfs.ScanRoot{{FS: memfs.New(memfs.D("", memfs.F("f.pkg", "x"))), Path: ""}},
	}
	var res *scalibr.ScanResult
	p, stack := ev.Recover(func() { res = scalibr.New().Scan(context.Background(), cfg) })
	if p != nil {
		return "panic:" + ev.PanicSite(stack), fmt.Sprint(p)
	}
	if ran != 1 {
		return "detector-run-count", fmt.Sprintf("det-0 ran %d times", ran)
	}
	if failingStandalone {
		st := map[string]plugin.ScanStatusEnum{}
		for _, s := range res.PluginStatus {
			st[s.Name] = s.Status.Status
		}
		if st["st-bad"] != plugin.ScanStatusFailed || st["st-ex"] != plugin.ScanStatusSucceeded || st["fs-ex"] != plugin.ScanStatusSucceeded {
			return "plugin-status", fmt.Sprintf("with a failing standalone extractor listed first: statuses %v", st)
		}
	}
	if len(problems) > 0 {
		return "index-lookup-by-purl-name", strings.Join(problems[:min(3, len(problems))], "; ")
	}
	return "", ""
}

// indexNames: every single (name, type) package, every pair of names of one type, and the whole
// alphabet at once.
func indexNames(r *ev.Run) {
	var cases [][]idxPkg
	var all []idxPkg
	for _, t := range idxTypes {
		for _, n := range idxNames {
			cases = append(cases, []idxPkg{{n, t}})
			all = append(all, idxPkg{n, t})
		}
		for i, a := range idxNames {
			for _, b := range idxNames[i+1:] {
				cases = append(cases, []idxPkg{{a, t}, {b, t}}, []idxPkg{{b, t}, {a, t}})
			}
		}
	}
	cases = append(cases, all)
	r.ParallelFor(len(cases), func(i int) {
		for _, failing := range []bool{false, true} {
			decos := []int{0}
			if len(cases[i]) == 1 {
				decos = []int{0, 1, 2, 3, 4, 5, 6, 7} // a single package with each optional field set in turn
			}
			for _, deco := range decos {
				k, d := indexCase(cases[i], failing, deco)
				r.Evals.Add(1)
				r.Nontrivial.Add(1)
				if k != "" {
					r.Violation(k, fmt.Sprintf("inventory %v (failing standalone extractor listed first: %v, optional-field variant %d): %s", cases[i], failing, deco, d), map[string]any{"index_inventory": fmt.Sprint(cases[i]), "failing_standalone": failing, "optional_field_variant": deco})
				}
			}
		}
	})
	r.Set("index_name_cases", len(cases))
}

func main() {
	scankit.Quiet()
	r := ev.Start("C20", "exploration", 3*time.Minute, 30*time.Minute)
	full := scripts(2)
	short := scripts(1)
	type plan struct {
		k       int
		scripts []script
		invs    []int
	}
	allInv := make([]int, 16)
	for i := range allInv {
		allInv[i] = i
	}
	plans := []plan{{0, full, allInv}, {1, full, allInv}, {2, full, allInv}}
	if r.Thorough() {
		plans = append(plans, plan{3, full, []int{0, 5, 15}}, plan{4, short, allInv})
	} else {
		plans = append(plans, plan{3, short, allInv})
	}
	complete := true
	for _, pl := range plans {
		total := 1
		for i := 0; i < pl.k; i++ {
			total *= len(pl.scripts)
		}
		done := r.ParallelFor(total, func(idx int) {
			ds := make([]script, pl.k)
			x := idx
			nf := 0
			for i := 0; i < pl.k; i++ {
				ds[i] = pl.scripts[x%len(pl.scripts)]
				x /= len(pl.scripts)
				nf += len(ds[i].Findings)
			}
			for _, inv := range pl.invs {
				c := cfgT{Dets: ds, Inv: inv}
				if nf >= 2 && (inv == 0 || inv == 15) {
					// the same detector lists with findings that share their Extra text (and so compare
					// equal in the result order): every one of them must still be reported
					for em := 1; em <= 2; em++ {
						ce := cfgT{Dets: ds, Inv: inv, ExtraMode: em}
						key, detail := runCase(ce)
						r.Evals.Add(1)
						r.Nontrivial.Add(1)
						if key != "" {
							r.Violation(key, fmt.Sprintf("detectors %v inventory mask %04b extra mode %d: %s", ds, inv, em, detail), ce)
						}
					}
				}
				if pl.k >= 1 && pl.k <= 2 && (inv == 0 || inv == 15) {
					// the same lists over two and three scan roots: detectors are per scan, not per root
					for _, nr := range []int{2, 3} {
						cr := cfgT{Dets: ds, Inv: inv, Roots: nr}
						key, detail := runCase(cr)
						r.Evals.Add(1)
						r.Nontrivial.Add(1)
						if key != "" {
							r.Violation(key, fmt.Sprintf("detectors %v inventory mask %04b, %d scan roots: %s", ds, inv, nr, detail), cr)
						}
					}
				}
				key, detail := runCase(c)
				r.Evals.Add(1)
				if nf >= 2 && inv != 0 {
					r.Nontrivial.Add(1) // distinct by construction; non-trivial = >=2 findings overall and a non-empty inventory
				}
				if key != "" {
					r.Violation(key, fmt.Sprintf("detectors %v inventory mask %04b: %s", ds, inv, detail), c)
				} else if nf >= 3 && inv == 15 && r.SampleN() < 4 {
					r.Sample(map[string]any{"detectors": fmt.Sprint(ds), "inventory_mask": inv})
				}
			}
		})
		if done < total {
			complete = false
		}
		r.Set(fmt.Sprintf("detector_lists_of_length_%d", pl.k), total)
	}
	indexNames(r)
	r.Finish("every ordered list of 0..2 detectors over all 114 scripts (finding lists of length <=2 over {X/body1, X/body2 (other title), X/body1 with another nested CVSS score, X/body1 without the optional CVSS score, Y/body1, no advisory, no advisory id} x {ok, error}) x all 16 inventories (2 packages from a filesystem extractor, 2 from a standalone extractor, one without PURL, two versions of one name); lists of 3 over the 14 short scripts (thorough: all 86 scripts x 3 inventories; lists of 4 over short scripts); for lists with >=2 findings and the empty/full inventory also with findings that all carry the same Extra text (differing only in target location, or identical); index lookups: every single package, every ordered pair of one type and the whole alphabet of 12 names (separators - _ . , case, scope, slash, space, non-ASCII) x 5 purl types (packages carry, in rotation, each annotation, a source-code identifier, layer details, no location, a display name different from the package URL's name; the detector with and without a declared required extractor), each queried by GetSpecific/GetAllOfType for every (name,type); lists of 1..2 detectors also over 2 and 3 scan roots; real Scanner.Scan vs reference model of the detector run", complete)
}
