package main

import (
	"crypto/sha256"
	"encoding/hex"
	"fmt"
	"io/fs"
	"os"
	"path/filepath"
	"sort"
	"strings"
)

// chain places S eight levels below the snapshot root R, so that an escape that
// climbs several "../" (possibly through chained symlinks) still lands inside R
// and is seen by the snapshot.
const chain = "l1/l2/l3/l4/l5/l6/l7/l8/S"

// hostProbes are locations on the real root that the alphabet's absolute names
// would hit if an entry point ever used them verbatim.
var hostProbes = []string{"/a", "/out2", "/out-evil", "/out.bak", "/OUT", "/Out", "/" + longSeg, "/aa"}

type ent struct {
	Path string `json:"p"`
	Type string `json:"t"` // f d l o
	Link string `json:"l,omitempty"`
	Size int64  `json:"s,omitempty"`
	Mode uint32 `json:"m"`
	Sum  string `json:"h,omitempty"`
}

func (e ent) String() string {
	switch e.Type {
	case "l":
		return fmt.Sprintf("%s symlink->%q", e.Path, e.Link)
	case "d":
		return fmt.Sprintf("%s dir %04o", e.Path, e.Mode)
	case "f":
		return fmt.Sprintf("%s file %dB %04o %s", e.Path, e.Size, e.Mode, e.Sum[:min(8, len(e.Sum))])
	}
	return fmt.Sprintf("%s other %o", e.Path, e.Mode)
}

// snapshot lists everything under root (root itself excluded), never following symlinks.
// mtime/atime are ignored; directory sizes are ignored (they depend on the file system).
func snapshot(root string) []ent {
	var out []ent
	var walk func(dir, rel string)
	walk = func(dir, rel string) {
		des, err := os.ReadDir(dir)
		if err != nil {
			out = append(out, ent{Path: rel + "/<unreadable:" + err.Error() + ">", Type: "o"})
			return
		}
		for _, de := range des {
			p := filepath.Join(dir, de.Name())
			r := de.Name()
			if rel != "" {
				r = rel + "/" + de.Name()
			}
			fi, err := os.Lstat(p)
			if err != nil {
				out = append(out, ent{Path: r + "<lstat-error>", Type: "o"})
				continue
			}
			e := ent{Path: r, Mode: uint32(fi.Mode() & (fs.ModePerm | fs.ModeSetuid | fs.ModeSetgid | fs.ModeSticky))}
			switch {
			case fi.Mode()&fs.ModeSymlink != 0:
				e.Type = "l"
				e.Link, _ = os.Readlink(p)
				e.Mode = 0
			case fi.IsDir():
				e.Type = "d"
			case fi.Mode().IsRegular():
				e.Type = "f"
				e.Size = fi.Size()
				b, err := os.ReadFile(p)
				if err != nil {
					e.Sum = "unreadable"
				} else {
					s := sha256.Sum256(b)
					e.Sum = hex.EncodeToString(s[:])
				}
			default:
				e.Type = "o"
				e.Mode = uint32(fi.Mode())
			}
			out = append(out, e)
			if e.Type == "d" {
				walk(p, r)
			}
		}
	}
	walk(root, "")
	sort.Slice(out, func(i, j int) bool { return out[i].Path < out[j].Path })
	return out
}

type change struct {
	Path   string `json:"path"` // relative to R
	Kind   string `json:"kind"` // created | deleted | modified
	Before *ent   `json:"before,omitempty"`
	After  *ent   `json:"after,omitempty"`
}

func (c change) String() string {
	switch c.Kind {
	case "created":
		return "created " + c.After.String()
	case "deleted":
		return "deleted " + c.Before.String()
	}
	return "modified " + c.Before.String() + " => " + c.After.String()
}

// diff of two sorted snapshots.
func diff(a, b []ent) []change {
	var out []change
	i, j := 0, 0
	for i < len(a) || j < len(b) {
		switch {
		case j >= len(b) || (i < len(a) && a[i].Path < b[j].Path):
			e := a[i]
			out = append(out, change{Path: e.Path, Kind: "deleted", Before: &e})
			i++
		case i >= len(a) || b[j].Path < a[i].Path:
			e := b[j]
			out = append(out, change{Path: e.Path, Kind: "created", After: &e})
			j++
		default:
			if a[i] != b[j] {
				x, y := a[i], b[j]
				out = append(out, change{Path: x.Path, Kind: "modified", Before: &x, After: &y})
			}
			i++
			j++
		}
	}
	return out
}

type sandbox struct {
	R    string // snapshot root
	S    string // R/<chain>
	base []ent  // snapshot of R in the seeded state
	host map[string]bool
}

func (sb *sandbox) dir(n string) string { return filepath.Join(sb.S, n) }

func must(err error) {
	if err != nil {
		fmt.Fprintln(os.Stderr, "c06 harness error:", err)
		os.Exit(3)
	}
}

func put(p, data string, mode fs.FileMode) {
	must(os.MkdirAll(filepath.Dir(p), 0o755))
	must(os.WriteFile(p, []byte(data), mode))
	must(os.Chmod(p, mode))
}

// newSandbox (re)creates R from scratch, seeds decoys, sets TMPDIR and the working directory.
func newSandbox(R string) *sandbox {
	sb := &sandbox{R: R, S: filepath.Join(R, filepath.FromSlash(chain))}
	sb.rebuild()
	return sb
}

func (sb *sandbox) rebuild() {
	_ = os.Chdir("/")
	makeRemovable(sb.R)
	must(os.RemoveAll(sb.R))
	for _, d := range []string{"out", "out2", "out-evil", "out.bak", "OUT", "cwd", "tmp", "in/emptyroot", "tree", "outer/out"} {
		must(os.MkdirAll(sb.dir(d), 0o755))
	}
	// decoys named like the temporary names the code uses
	put(sb.dir("cwd/file"), "decoy cwd/file\n", 0o644)
	put(sb.dir("cwd/image.tar"), "decoy cwd/image.tar\n", 0o644)
	put(sb.dir("cwd/scalibr-tmp/file"), "decoy cwd/scalibr-tmp/file\n", 0o644)
	put(sb.dir("cwd/Packages"), "decoy cwd/Packages\n", 0o644)
	put(sb.dir("tmp/file"), "decoy tmp/file\n", 0o644)
	put(sb.dir("tmp/image.tar"), "decoy tmp/image.tar\n", 0o644)
	put(sb.dir("tmp/scalibr-tmp/file"), "decoy tmp/scalibr-tmp/file\n", 0o644)
	put(sb.dir("tmp/image-tar-tmp-decoy/image.tar"), "decoy image-tar-tmp\n", 0o644)
	put(sb.dir("tmp/osv-scalibr-image-scanning-decoy/layer-0/a"), "decoy layer file\n", 0o644)
	put(sb.dir("out2/keep"), "decoy out2/keep\n", 0o644)
	put(sb.dir("out-evil/keep"), "decoy out-evil/keep\n", 0o644)
	put(sb.dir("out.bak/keep"), "decoy out.bak/keep\n", 0o644)
	// case variants of the target's name: OUT exists, Out does not (a newly created sibling shows in S)
	put(sb.dir("OUT/keep"), "decoy OUT/keep\n", 0o644)
	// symlink decoys outside every designated directory: dangling ones (a clean-up that walks too far
	// removes them) and a live one
	must(os.Symlink("nowhere", sb.dir("dangling")))
	must(os.Symlink("nowhere", sb.dir("out2/dangling")))
	must(os.Symlink("../nowhere", sb.dir("cwd/dangling")))
	must(os.Symlink("nowhere", sb.dir("tmp/dangling")))
	must(os.Symlink("file", sb.dir("cwd/live")))
	must(os.Setenv("TMPDIR", sb.dir("tmp")))
	must(os.Chdir(sb.dir("cwd")))
	sb.base = snapshot(sb.R)
	sb.host = map[string]bool{}
	for _, p := range hostProbes {
		_, err := os.Lstat(p)
		sb.host[p] = err == nil
	}
}

// makeRemovable gives back rwx on directories so RemoveAll works even if the code under test
// created read-only directories (we are usually root, then it is a no-op in effect).
func makeRemovable(root string) {
	_ = filepath.WalkDir(root, func(p string, d fs.DirEntry, err error) error {
		if err == nil && d.IsDir() {
			_ = os.Chmod(p, 0o755)
		}
		return nil
	})
}

// resetDir empties one designated directory (used after a clean case).
func (sb *sandbox) resetDir(n string) {
	makeRemovable(sb.dir(n))
	must(os.RemoveAll(sb.dir(n)))
	must(os.Mkdir(sb.dir(n), 0o755))
}

// hostChanges reports host-root probe paths that came into existence, and removes them again.
func (sb *sandbox) hostChanges() []string {
	var out []string
	for _, p := range hostProbes {
		_, err := os.Lstat(p)
		if err == nil && !sb.host[p] {
			out = append(out, p)
			_ = os.RemoveAll(p)
		}
	}
	return out
}

// relS turns a path relative to R into (area, rest): area is the first component below S
// ("out", "out2", "cwd", "tmp", ...), "S" for other things directly in S, "above" for anything
// outside S.
func relS(rp string) (area, rest string) {
	if rp == chain {
		return "S", ""
	}
	if !strings.HasPrefix(rp, chain+"/") {
		return "above", rp
	}
	r := rp[len(chain)+1:]
	first, tail, _ := strings.Cut(r, "/")
	switch first {
	case "out", "out2", "out-evil", "out.bak", "OUT", "cwd", "tmp", "in", "tree", "outer":
		return first, tail
	}
	return "S", r
}

// under reports whether rp (relative to R) is dir itself or below it (dir relative to R).
func under(rp, dir string) bool { return rp == dir || strings.HasPrefix(rp, dir+"/") }

// resolveLink follows the symlink at absolute path p component by component the way the kernel
// would, stopping at the first missing (or non-directory) component. It returns the absolute
// location reached. looped=true if more than 64 links were followed.
func resolveLink(p string) (loc string, looped bool) {
	hops := 0
	var walk func(cur string, comps []string) string
	walk = func(cur string, comps []string) string {
		for len(comps) > 0 {
			c := comps[0]
			comps = comps[1:]
			switch c {
			case "", ".":
				continue
			case "..":
				cur = filepath.Dir(cur)
				continue
			}
			next := filepath.Join(cur, c)
			fi, err := os.Lstat(next)
			if err != nil {
				return next // first missing component: stop here
			}
			if fi.Mode()&fs.ModeSymlink != 0 {
				hops++
				if hops > 64 {
					looped = true
					return next
				}
				t, err := os.Readlink(next)
				if err != nil {
					return next
				}
				tc := strings.Split(t, "/")
				if strings.HasPrefix(t, "/") {
					cur = "/"
				}
				comps = append(tc, comps...)
				continue
			}
			if !fi.IsDir() && len(comps) > 0 {
				return next // cannot descend through a non-directory
			}
			cur = next
		}
		return cur
	}
	dir, base := filepath.Split(p)
	loc = walk(filepath.Clean(dir), []string{base})
	return loc, looped
}

// escapingLinks lists symlinks below root (absolute) whose resolution ends outside root.
func escapingLinks(root string) []string {
	var out []string
	_ = filepath.WalkDir(root, func(p string, d fs.DirEntry, err error) error {
		if err != nil {
			return nil
		}
		if d.Type()&fs.ModeSymlink == 0 {
			return nil
		}
		loc, looped := resolveLink(p)
		if looped {
			return nil // never resolves anywhere: don't-care
		}
		inside := func(l string) bool { return l == root || strings.HasPrefix(l, root+"/") }
		if !inside(loc) {
			t, _ := os.Readlink(p)
			rel, _ := filepath.Rel(root, p)
			out = append(out, fmt.Sprintf("%s -> %q resolves to %s", rel, t, loc))
		} else if osLoc, err := filepath.EvalSymlinks(p); err == nil && !inside(osLoc) {
			// the operating system's own resolution, as a second opinion for links that fully resolve
			t, _ := os.Readlink(p)
			rel, _ := filepath.Rel(root, p)
			out = append(out, fmt.Sprintf("%s -> %q resolves (EvalSymlinks) to %s", rel, t, osLoc))
		}
		return nil
	})
	sort.Strings(out)
	return out
}
