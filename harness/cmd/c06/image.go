package main

import (
	"archive/tar"
	"bytes"
	"crypto/sha256"
	"encoding/hex"
	"errors"
	"fmt"
	"io"
	"io/fs"
	"os"
	"path/filepath"
	"sort"
	"strings"

	"github.com/google/go-containerregistry/pkg/name"
	v1 "github.com/google/go-containerregistry/pkg/v1"
	"github.com/google/go-containerregistry/pkg/v1/empty"
	"github.com/google/go-containerregistry/pkg/v1/mutate"
	"github.com/google/go-containerregistry/pkg/v1/tarball"
	"github.com/google/go-containerregistry/pkg/v1/types"
	"github.com/google/osv-scalibr/artifact/image/layerscanning/image"
	"github.com/google/osv-scalibr/artifact/image/require"
	scalibrtar "github.com/google/osv-scalibr/artifact/image/tar"
	"github.com/google/osv-scalibr/artifact/image/unpack"
	"verif/ev"
)

var longSeg = strings.Repeat("a", 300)

// ---------------------------------------------------------------- alphabet

// Entry names: built from the segments {.., ., "", a, out2, a x300} (plus the prefix sibling
// "out-evil"), up to 3 segments, relative and absolute.
var namesFull = []string{
	"a", "a/a", "a/a/a", "./a", "a/./a", "a//a", "a/", "out2", "out2/a",
	"/a", "//a", "/a/a", "/out2/a",
	".", "", "..", "/..",
	"../a", "../a/a", "../out2", "../out2/a", "../out-evil/a", "../out.bak/a", "../../a",
	// case variants of the target directory (existing OUT, absent Out) and of its ancestors (S, l8)
	"../OUT/a", "../Out/a", "../Out/a/a", "a/../../OUT/a", "a/../../Out/a", "../s/out/a", "../../L8/S/out/a", "./../a",
	"a/../a", "a/../../a", "a/../..", "a/..", "/../a", "/../out2/a",
	longSeg, longSeg + "/a", "a/" + longSeg, "../" + longSeg,
}

// namesQ is the sub-alphabet used for pairs in the quick tier and triples in the thorough tier.
var namesQ = []string{"a", "a/a", "a/a/a", "out2", "out2/a", "/a", "..", "../a", "../a/a", "../out2/a", "a/../../a", longSeg}

var targetsFull = []string{
	"a", "a/a", "./a", "/a", "/a/a", "//a", "/out2", ".", "", "..", "../..", "../a", "../out2", "../../out2", "../OUT", "../Out", "../OUT/keep",
	"/..", "/../a", "a/..", "a/a/..", "a/a/../..", "a/a/../a", "a/a/../out2", longSeg,
}

// namesT / targetsT: alphabet of the two leading entries of the thorough triples.
var namesT = []string{"a", "a/a", "out2", "out2/a", "/a", "../a", "../out2/a", "a/../../a"}
var targetsT = []string{"a", "..", "/a", "../out2", "a/a/..", "a/a/../out2"}

var targetsQ = []string{"a", "..", "/a", "../out2", "a/a/..", "a/a/../out2", "../..", "/.."}

type entry struct {
	Name   string `json:"n"`
	Kind   string `json:"k"` // f d s h
	Target string `json:"t,omitempty"`
}

func (e entry) String() string {
	n := strings.ReplaceAll(e.Name, longSeg, "<a*300>")
	t := strings.ReplaceAll(e.Target, longSeg, "<a*300>")
	switch e.Kind {
	case "!":
		return "<layer stream " + e.Name + ">"
	case "f":
		return fmt.Sprintf("reg %q", n)
	case "d":
		return fmt.Sprintf("dir %q", n)
	case "s":
		return fmt.Sprintf("symlink %q->%q", n, t)
	}
	return fmt.Sprintf("hardlink %q->%q", n, t)
}

func (e entry) isLink() bool { return e.Kind == "s" || e.Kind == "h" }

func entriesOver(names, targets []string) []entry {
	var out []entry
	// simplest first: regular, dir, then links
	for _, n := range names {
		out = append(out, entry{Name: n, Kind: "f"})
	}
	for _, n := range names {
		out = append(out, entry{Name: n, Kind: "d"})
	}
	for _, k := range []string{"s", "h"} {
		for _, n := range names {
			for _, t := range targets {
				out = append(out, entry{Name: n, Kind: k, Target: t})
			}
		}
	}
	return out
}

// imgCase is one image (layer list) run through one entry point with one configuration.
type imgCase struct {
	EP     string    `json:"ep"`  // v1 | tarball | squashed | raw | save
	Cfg    int       `json:"cfg"` // index into the entry point's configuration table
	Layers [][]entry `json:"layers"`
	// Dir selects how the unpack target is spelled ("" = S/out, absolute and clean; anything else =
	// a spelling of the nested target S/outer/out, see targetSpellings).
	Dir string `json:"dir,omitempty"`
	// Shape selects the image metadata ("" = one history entry per layer, see buildImage).
	Shape string `json:"shape,omitempty"`
}

// targetSpellings: the nested target S/outer/out handed to the unpacker in cleaned and uncleaned,
// absolute and working-directory-relative spellings.
var targetSpellings = []string{"nested", "trailing-slash", "double-slash", "dot-segment", "dotdot-segment", "rel-cwd", "rel-cwd-dot-slash"}

// target returns the string handed to the unpacker, the clean absolute path of the target and
// its path relative to R.
func (sb *sandbox) target(spelling string) (arg, abs, rel string) {
	if spelling == "" {
		return sb.dir("out"), sb.dir("out"), chain + "/out"
	}
	abs, rel = sb.dir("outer/out"), chain+"/outer/out"
	switch spelling {
	case "trailing-slash":
		arg = abs + "/"
	case "double-slash":
		arg = sb.dir("outer") + "//out"
	case "dot-segment":
		arg = sb.dir("outer") + "/./out"
	case "dotdot-segment":
		arg = abs + "/../out"
	case "rel-cwd": // the working directory is S/cwd
		arg = "../outer/out"
	case "rel-cwd-dot-slash":
		arg = "./../outer/out/"
	default:
		arg = abs
	}
	return
}

func (c imgCase) String() string {
	var ls []string
	for _, l := range c.Layers {
		var es []string
		for _, e := range l {
			es = append(es, e.String())
		}
		ls = append(ls, "["+strings.Join(es, ", ")+"]")
	}
	extra := ""
	if c.Dir != "" {
		extra += " target=" + c.Dir
	}
	if c.Shape != "" {
		extra += " image=" + c.Shape
	}
	return fmt.Sprintf("%s cfg=%s%s layers=%s", c.EP, cfgName(c.EP, c.Cfg), extra, strings.Join(ls, " + "))
}

// ---------------------------------------------------------------- configurations

type unpackCfg struct {
	Name    string
	Res     unpack.SymlinkResolution
	Err     unpack.SymlinkErrStrategy
	MaxPass int
	MaxFile int64
	Req     string // all | links
}

// reqLinks requires everything that is not a regular file (exercises the "targets of required
// symlinks" bookkeeping).
type reqLinks struct{}

func (reqLinks) FileRequired(_ string, fi fs.FileInfo) bool {
	return fi == nil || !fi.Mode().IsRegular()
}

var unpackCfgs = []unpackCfg{
	{"retain/log/pass3/all", unpack.SymlinkRetain, unpack.SymlinkErrLog, 3, 0, "all"}, // DefaultUnpackerConfig
	{"ignore/return/pass2/all", unpack.SymlinkIgnore, unpack.SymlinkErrReturn, 2, 0, "all"},
	{"retain/return/pass1/all", unpack.SymlinkRetain, unpack.SymlinkErrReturn, 1, 0, "all"},
	{"ignore/log/pass3/all", unpack.SymlinkIgnore, unpack.SymlinkErrLog, 3, 0, "all"},
	{"retain/log/pass3/links", unpack.SymlinkRetain, unpack.SymlinkErrLog, 3, 0, "links"},
	{"retain/log/pass2/all/max2B", unpack.SymlinkRetain, unpack.SymlinkErrLog, 2, 2, "all"},
	{"ignore/log/pass1/links", unpack.SymlinkIgnore, unpack.SymlinkErrLog, 1, 0, "links"},
	{"retain/return/pass3/links", unpack.SymlinkRetain, unpack.SymlinkErrReturn, 3, 0, "links"},
}

// UnpackSquashed rejects SymlinkIgnore, so only the retain configurations are meaningful there.
var squashedCfgIdx = []int{0, 2, 4, 5, 7}

type scanCfg struct {
	Name    string
	MaxFile int64
	Depth   int
	Req     string // all | none | links
}

var layerCfgs = []scanCfg{
	{"default", image.DefaultMaxFileBytes, image.DefaultMaxSymlinkDepth, "all"},
	{"require-none", image.DefaultMaxFileBytes, image.DefaultMaxSymlinkDepth, "none"},
	{"max2B/depth0/links", 2, 0, "links"},
}

func cfgName(ep string, i int) string {
	switch ep {
	case "save":
		return "-"
	case "v1", "tarball":
		if i >= 0 && i < len(layerCfgs) {
			return layerCfgs[i].Name
		}
	default:
		if i >= 0 && i < len(unpackCfgs) {
			return unpackCfgs[i].Name
		}
	}
	return fmt.Sprint(i)
}

func requirer(s string) require.FileRequirer {
	switch s {
	case "none":
		return &require.FileRequirerNone{}
	case "links":
		return reqLinks{}
	}
	return &require.FileRequirerAll{}
}

// ---------------------------------------------------------------- tar / image building

func payload(e entry) []byte {
	return []byte("payload of " + e.Kind + " " + e.Name[:min(len(e.Name), 20)] + "\n")
}

// layerTar serialises entries as a raw tar stream. ok=false if archive/tar cannot encode an entry
// (the case is then outside the space of tar streams and is skipped).
func layerTar(es []entry) (b []byte, ok bool) {
	// A leading pseudo entry of kind "!" damages the stream built from the remaining entries:
	// "garbage" = bytes that are no tar archive, "truncated" = the archive cut inside its first file.
	// ("unreadable" is handled by the layer object: its Uncompressed() fails.)
	if len(es) > 0 && es[0].Kind == "!" {
		rest := es[1:]
		if len(rest) == 0 {
			rest = []entry{{Name: "a", Kind: "f"}}
		}
		good, ok := layerTar(rest)
		if !ok {
			return nil, false
		}
		switch es[0].Name {
		case "garbage":
			return bytes.Repeat([]byte("not a tar archive. "), 80), true
		case "truncated":
			return good[:min(len(good), 700)], true
		}
		return good, true
	}
	var buf bytes.Buffer
	tw := tar.NewWriter(&buf)
	for _, e := range es {
		h := &tar.Header{Name: e.Name, Format: tar.FormatPAX}
		switch e.Kind {
		case "f":
			h.Typeflag, h.Mode, h.Size = tar.TypeReg, 0o755, int64(len(payload(e)))
		case "d":
			h.Typeflag, h.Mode = tar.TypeDir, 0o755
		case "s":
			h.Typeflag, h.Mode, h.Linkname = tar.TypeSymlink, 0o777, e.Target
		case "h":
			h.Typeflag, h.Mode, h.Linkname = tar.TypeLink, 0o644, e.Target
		}
		if err := tw.WriteHeader(h); err != nil {
			return nil, false
		}
		if e.Kind == "f" {
			if _, err := tw.Write(payload(e)); err != nil {
				return nil, false
			}
		}
	}
	if err := tw.Close(); err != nil {
		return nil, false
	}
	return buf.Bytes(), true
}

// rawLayer is a minimal v1.Layer over an uncompressed tar.
type rawLayer struct {
	b   []byte
	h   v1.Hash
	bad bool // Compressed()/Uncompressed() fail
}

func newRawLayer(b []byte) *rawLayer {
	s := sha256.Sum256(b)
	return &rawLayer{b: b, h: v1.Hash{Algorithm: "sha256", Hex: hex.EncodeToString(s[:])}}
}
func (l *rawLayer) Digest() (v1.Hash, error) { return l.h, nil }
func (l *rawLayer) DiffID() (v1.Hash, error) { return l.h, nil }
func (l *rawLayer) Compressed() (io.ReadCloser, error) {
	if l.bad {
		return nil, errLayerUnreadable
	}
	return io.NopCloser(bytes.NewReader(l.b)), nil
}
func (l *rawLayer) Uncompressed() (io.ReadCloser, error) {
	if l.bad {
		return nil, errLayerUnreadable
	}
	return io.NopCloser(bytes.NewReader(l.b)), nil
}

var errLayerUnreadable = errors.New("c06: layer blob cannot be read")

func (l *rawLayer) Size() (int64, error)                { return int64(len(l.b)), nil }
func (l *rawLayer) MediaType() (types.MediaType, error) { return types.DockerUncompressedLayer, nil }

// imageShapes: metadata variants. "no-layers" and "history-only" ignore the layer list.
//
//	no-layers             empty.Image
//	history-only          no layers, two empty_layer history entries (ENV/CMD on scratch)
//	history-missing       layers without any history
//	history-empty-entries an empty_layer entry before and after the layers' own entries
//	history-extra         two more non-empty history entries than layers
func buildImage(layers [][]entry, shape string) (v1.Image, bool) {
	img, ok := buildLayers(layers, shape)
	if !ok || shape == "" {
		return img, ok
	}
	cf, err := img.ConfigFile()
	if err != nil {
		return nil, false
	}
	cf = cf.DeepCopy()
	meta := v1.History{CreatedBy: "ENV c06=1", EmptyLayer: true}
	switch shape {
	case "no-layers":
		return img, true
	case "history-only":
		cf.History = []v1.History{meta, meta}
	case "history-missing":
		cf.History = nil
	case "history-empty-entries":
		cf.History = append(append([]v1.History{meta}, cf.History...), meta)
	case "history-extra":
		cf.History = append(cf.History, v1.History{CreatedBy: "RUN x"}, v1.History{CreatedBy: "RUN y"})
	default:
		return nil, false
	}
	img, err = mutate.ConfigFile(img, cf)
	if err != nil {
		return nil, false
	}
	return img, true
}

func buildLayers(layers [][]entry, shape string) (v1.Image, bool) {
	if shape == "no-layers" || shape == "history-only" {
		return empty.Image, true
	}
	var ls []v1.Layer
	for _, es := range layers {
		b, ok := layerTar(es)
		if !ok {
			return nil, false
		}
		l := newRawLayer(b)
		l.bad = len(es) > 0 && es[0].Kind == "!" && es[0].Name == "unreadable"
		ls = append(ls, l)
	}
	img, err := mutate.AppendLayers(empty.Image, ls...)
	if err != nil {
		return nil, false
	}
	return img, true
}

// ---------------------------------------------------------------- running one case

type viol struct {
	Key  string `json:"key"`
	What string `json:"what"`
	Only string `json:"-"` // scan phase: the single plugin the violation was attributed to
	Host bool   `json:"-"` // a probe path on the real root appeared (shared by all workers, so attribution needs a re-run)
}

type caseResult struct {
	Skipped bool   // the tar writer could not encode the case
	Wrote   bool   // something was written to the designated directory
	Err     string // error returned by the entry point (informational)
	Viols   []viol
}

func epLabel(ep string) string {
	switch ep {
	case "raw":
		return "unpack-raw-tarball"
	case "squashed":
		return "unpack-squashed"
	case "save":
		return "save-tarball"
	}
	return "layerscan"
}

// classify turns the changes that lie outside the designated directory into cause keys derived
// from what changed where.
func classify(ep string, c imgCase, outside []change, stage string) []viol {
	lab := epLabel(ep)
	byKey := map[string][]string{}
	add := func(k, w string) { byKey[k] = append(byKey[k], w) }
	ignoreMode := (ep == "raw" || ep == "squashed") && unpackCfgs[c.Cfg].Res == unpack.SymlinkIgnore
	for _, ch := range outside {
		area, _ := relS(ch.Path)
		sibling := area == "out2" || area == "out-evil" || area == "out.bak"
		switch {
		case ch.Kind == "created" && ch.After.Type == "d":
			if area == "tmp" && lab == "layerscan" {
				add(lab+":tmp-left-"+stage, ch.String())
			} else if lab == "layerscan" {
				add(lab+":dir-created-outside:"+area, ch.String())
			} else if area == "tmp" {
				add(lab+":tmp-left", ch.String())
			} else {
				add(lab+":mkdir-before-check", ch.String())
			}
		case ch.Kind == "created" && ch.After.Type == "l":
			if lab == "layerscan" {
				add(lab+":symlink-created-outside:"+area, ch.String())
			} else {
				add(lab+":symlink-unchecked", ch.String())
			}
		case (ch.Kind == "created" && ch.After.Type == "f") || (ch.Kind == "modified" && ch.After.Type == "f" && ch.Before.Type == "f"):
			switch {
			case area == "tmp" && ch.Kind == "created" && lab == "layerscan":
				add(lab+":tmp-left-"+stage, ch.String())
			case lab == "layerscan":
				add(lab+":file-written-outside:"+area, ch.String())
			case ignoreMode && ch.After.Mode == 0o644:
				add(lab+":linkcopy-unchecked", ch.String())
			case sibling:
				add(lab+":prefix-sibling", ch.String())
			case area == "tmp" && ch.Kind == "created":
				add(lab+":tmp-left", ch.String())
			default:
				add(lab+":file-written-outside:"+area, ch.String())
			}
		case ch.Kind == "deleted":
			add(lab+":deleted-outside:"+area, ch.String())
		default:
			add(lab+":modified-outside:"+area, ch.String())
		}
	}
	var keys []string
	for k := range byKey {
		keys = append(keys, k)
	}
	sort.Strings(keys)
	var out []viol
	for _, k := range keys {
		w := byKey[k]
		if len(w) > 4 {
			w = append(w[:4], fmt.Sprintf("… %d more", len(w)-4))
		}
		out = append(out, viol{Key: k, What: strings.Join(w, "; ")})
	}
	return out
}

// withFile returns base plus the regular file at abs (which the harness itself just wrote) under
// the relative name rel; cheaper than a second full snapshot.
func withFile(base []ent, rel, abs string) []ent {
	b, err := os.ReadFile(abs)
	must(err)
	fi, err := os.Lstat(abs)
	must(err)
	sum := sha256.Sum256(b)
	e := ent{Path: rel, Type: "f", Size: int64(len(b)), Mode: uint32(fi.Mode().Perm()), Sum: hex.EncodeToString(sum[:])}
	out := make([]ent, 0, len(base)+1)
	i := sort.Search(len(base), func(i int) bool { return base[i].Path >= rel })
	out = append(out, base[:i]...)
	out = append(out, e)
	out = append(out, base[i:]...)
	return out
}

func splitChanges(chs []change, designated string) (inside, outside []change) {
	for _, ch := range chs {
		if designated != "" && under(ch.Path, designated) {
			inside = append(inside, ch)
		} else {
			outside = append(outside, ch)
		}
	}
	return
}

// runImageCase executes one case in the sandbox and applies the oracle. The sandbox is left in
// its seeded state.
func runImageCase(sb *sandbox, c imgCase) caseResult {
	var res caseResult
	img, ok := buildImage(c.Layers, c.Shape)
	if !ok {
		res.Skipped = true
		return res
	}
	base := sb.base
	tarPath := sb.dir("in/image.tar")
	dirty := false
	defer func() {
		if dirty {
			sb.rebuild()
		}
	}()
	report := func(vs []viol) {
		for _, v := range vs {
			v.What = c.String() + ": " + strings.ReplaceAll(v.What, sb.R, "<R>")
			res.Viols = append(res.Viols, v)
		}
		if len(vs) > 0 {
			dirty = true
		}
	}
	hostCheck := func() {
		if hc := sb.hostChanges(); len(hc) > 0 {
			report([]viol{{Key: epLabel(c.EP) + ":host-root-written", What: "created on the real root: " + strings.Join(hc, ", "), Host: true}})
		}
	}

	switch c.EP {
	case "raw", "squashed":
		uc := unpackCfgs[c.Cfg]
		u, err := unpack.NewUnpacker(&unpack.UnpackerConfig{SymlinkResolution: uc.Res, SymlinkErrStrategy: uc.Err, MaxPass: uc.MaxPass, MaxFileBytes: uc.MaxFile, Requirer: requirer(uc.Req)})
		must(err)
		if c.EP == "raw" {
			// the raw entry point takes a flat file-system tarball: all entries in order
			var flat []entry
			var damage *entry
			for _, l := range c.Layers {
				for _, e := range l {
					if e.Kind == "!" {
						if damage == nil {
							d := e
							damage = &d
						}
						continue
					}
					flat = append(flat, e)
				}
			}
			if damage != nil {
				flat = append([]entry{*damage}, flat...)
			}
			if damage == nil || damage.Name != "unreadable" { // "unreadable": the tarball does not exist
				b, ok := layerTar(flat)
				if !ok {
					res.Skipped = true
					return res
				}
				must(os.WriteFile(tarPath, b, 0o644))
				base = withFile(sb.base, chain+"/in/image.tar", tarPath)
			}
		}
		arg, out, outRel := sb.target(c.Dir)
		var rerr error
		p, stack := ev.Recover(func() {
			if c.EP == "raw" {
				rerr = u.UnpackSquashedFromTarball(arg, tarPath)
			} else {
				rerr = u.UnpackSquashed(arg, img)
			}
		})
		if p != nil {
			res.Err = "panic: " + fmt.Sprint(p) + " at " + ev.PanicSite(stack)
		} else if rerr != nil {
			res.Err = rerr.Error()
		}
		after := snapshot(sb.R)
		inside, outside := splitChanges(diff(base, after), outRel)
		res.Wrote = len(inside) > 0
		report(classify(c.EP, c, outside, "after-return"))
		if esc := escapingLinks(out); len(esc) > 0 {
			report([]viol{{Key: epLabel(c.EP) + ":symlink-resolves-outside", What: "symlink left in the target directory resolves outside it: " + strings.Join(esc[:min(3, len(esc))], "; ")}})
		}
		hostCheck()
		if !dirty {
			if len(inside) > 0 && c.Dir == "" {
				sb.resetDir("out")
			} else if len(inside) > 0 {
				sb.resetDir("outer")
				must(os.Mkdir(sb.dir("outer/out"), 0o755))
			}
			if c.EP == "raw" {
				_ = os.Remove(tarPath)
			}
		}

	case "save":
		// scalibrtar.SaveToTarball(path, image): the designated location is exactly the file at path
		dst := sb.dir("out/saved.tar")
		var rerr error
		p, stack := ev.Recover(func() { rerr = scalibrtar.SaveToTarball(dst, img) })
		if p != nil {
			res.Err = "panic: " + fmt.Sprint(p) + " at " + ev.PanicSite(stack)
		} else if rerr != nil {
			res.Err = rerr.Error()
		}
		after := snapshot(sb.R)
		inside, outside := splitChanges(diff(base, after), chain+"/out/saved.tar")
		res.Wrote = len(inside) > 0
		report(classify(c.EP, c, outside, "after-return"))
		hostCheck()
		if !dirty && len(inside) > 0 {
			sb.resetDir("out")
		}

	case "v1", "tarball":
		lc := layerCfgs[c.Cfg]
		cfg := &image.Config{MaxFileBytes: lc.MaxFile, MaxSymlinkDepth: lc.Depth, Requirer: requirer(lc.Req)}
		if c.EP == "tarball" {
			tag, err := name.NewTag("c06:latest")
			must(err)
			if err := tarball.WriteToFile(tarPath, tag, img); err != nil {
				_ = os.Remove(tarPath)
				res.Skipped = true
				return res
			}
			base = withFile(sb.base, chain+"/in/image.tar", tarPath)
		}
		var li *image.Image
		var rerr error
		p, stack := ev.Recover(func() {
			if c.EP == "tarball" {
				li, rerr = image.FromTarball(tarPath, cfg)
			} else {
				li, rerr = image.FromV1Image(img, cfg)
			}
		})
		if p != nil {
			res.Err = "panic: " + fmt.Sprint(p) + " at " + ev.PanicSite(stack)
		} else if rerr != nil {
			res.Err = rerr.Error()
		}
		after := snapshot(sb.R)
		chs := diff(base, after)
		if li != nil {
			designated := ""
			if rel, err := filepath.Rel(sb.R, li.ExtractDir); err == nil && !strings.HasPrefix(rel, "..") && li.ExtractDir != "" {
				// the image's own directory only counts as designated if it is a fresh one
				fresh := true
				for _, e := range base {
					if e.Path == rel {
						fresh = false
					}
				}
				if fresh {
					designated = filepath.ToSlash(rel)
				}
			}
			inside, outside := splitChanges(chs, designated)
			res.Wrote = len(inside) > 1 // more than the bare extraction directory
			report(classify(c.EP, c, outside, "after-load"))
			if designated != "" {
				if esc := escapingLinks(li.ExtractDir); len(esc) > 0 {
					report([]viol{{Key: "layerscan:symlink-resolves-outside", What: "symlink left in the extraction directory resolves outside it: " + strings.Join(esc[:min(3, len(esc))], "; ")}})
				}
			}
			var cerr error
			ev.Recover(func() { cerr = li.CleanUp() })
			_ = cerr
			after2 := snapshot(sb.R)
			if designated != "" {
				for _, e := range after2 {
					if e.Path == designated {
						report([]viol{{Key: "layerscan:extractdir-left-after-cleanup", What: "extraction directory " + designated + " still exists after CleanUp"}})
					}
				}
			}
			if !dirty {
				report(classify(c.EP, c, diff(base, after2), "after-cleanup"))
			}
		} else {
			// no image returned: nothing may be left anywhere
			report(classify(c.EP, c, chs, "after-error"))
		}
		hostCheck()
		if !dirty && c.EP == "tarball" {
			must(os.Remove(tarPath))
		}
	}
	return res
}
