// C06 — no filesystem side effects outside the directories designated for them.
//
// Decided by bounded exhaustive exploration with a before/after snapshot oracle.
// Every case runs in a sandbox  R/l1/../l8/S/{tree|out, out2, out-evil, cwd, tmp, in}  on tmpfs with
// TMPDIR=S/tmp and the working directory S/cwd (both process-global, hence 16 worker
// SUBPROCESSES, one sandbox each, cases sequential inside a worker). cwd and tmp hold decoys named
// like the temporary names the code uses. A snapshot is the sorted list of (relative path, type,
// link target, size, permission bits, sha256) of everything below R; times are ignored.
//
// (a) scans: for every offline built-in filesystem extractor (el.All minus java/pomxmlnet) the
// production paths it accepts are harvested from the string literals of its own package (its
// FileRequired tests and path constants), filtered by calling FileRequired. Trees: one per
// (extractor, variant in {valid fixture, empty, first half, one bit flipped in the middle}) plus
// everything at once per variant; the valid trees also carry the plugin's whole testdata
// directory. os/rpm additionally gets SQLite databases built by the harness (WAL / rollback journal,
// 0, 1 or 3 rows with a header blob go-rpmdb cannot import) since the checkout's sqlite fixtures are stubs. Each tree is scanned with scalibr.Scanner.Scan through a real-directory root
// through a virtual root (ScanRoot.Path "") and through roots whose Path names a directory other
// than the one the FS serves (an existing empty one / a missing one), DirectFS declared in both cases so that the
// plugins that want host paths run on both, with every offline plugin the declared capability tuple admits
// (tuples: Linux, Mac, Windows; RunningSystem declared). Oracle: the snapshot of R is identical
// before and after Scan (tree, cwd unchanged; tmp back to its seeded state).
//
// (b) images: raw tar layers from the entry alphabet in image.go (names/targets made of
// '..', '.', the empty segment, 'a', 'out2', 300 x 'a', case variants of the target's and its
// ancestors' names (OUT exists in the sandbox, Out does not), relative and absolute; regular/dir/symlink/hardlink).
// Blocks, simplest first: all single entries of the full alphabet x 4 entry points x every
// configuration; all ordered pairs over the pair alphabet (1 layer and split over 2 layers);
// normalised escapes (names that only leave the designated directory after path cleaning, 1-4 levels);
// shapes (layer-less images, empty-tar layers, history-only/missing/mismatched history); spellings
// (the unpack target nested as S/outer/out and spelled with trailing slash, doubled slash, '.' and
// '..' segments, relative to the working directory); chains (two links that only escape together + a write-through into every existing sandbox sibling
// + optionally a link that makes that entry required; all orders, every 1-2 layer split);
// trampolines (a link to '.', a link through it that really lands on the parent, tmp, cwd or a
// sibling whose name extends the target's name - out2, out-evil, out.bak - plus a lexical twin inside
// the target so the link is not removed as dangling);
// collisions (a link created through a link to '..' so that it points outside, then an entry whose
// name is that link's real location);
// thorough only: triples = ordered pair + a write-through of one of its links, inserted at every
// position, every 1-2 layer split. Entry points: image.FromV1Image + CleanUp,
// image.FromTarball + CleanUp (singles and thorough pairs only - it is FromV1Image behind
// go-containerregistry's tarball reader), Unpacker.UnpackSquashed,
// Unpacker.UnpackSquashedFromTarball, and scalibrtar.SaveToTarball (designated = exactly the file
// it is asked to write; singles and shapes), under the configuration tables in image.go. The shapes
// block also has damaged layer streams (no tar archive / cut inside a file / unreadable blob). Scans
// additionally place the auxiliary production paths a plugin's non-test code names without requiring
// them (aux-empty/half/flip variants, e.g. containerd's snapshotter metadata.db). The sandbox holds
// dangling and live symlink decoys outside every designated directory. Oracle: only
// S/out (resp. the image's fresh ExtractDir) differs from the before-snapshot; after CleanUp, and
// after an error return without an image, R is back to the before-snapshot; every symlink left in
// the designated directory resolves (component by component, stopping at the first missing
// component) to a location inside it. A few probe paths on the real root (/a, /out2, ...) are
// checked too; they are shared by all workers, so such a finding is attributed to a case only if
// it shows again when that case is re-run.
//
// Cause keys are derived from what changed where:
//
//	scan:<plugin>:<area>-<created|left|modified|deleted>[+...]   (plugin found by re-running the tree with single plugins)
//	unpack-raw-tarball|unpack-squashed : mkdir-before-check (directory created outside out),
//	  symlink-unchecked (symlink created outside), prefix-sibling (regular file written into
//	  out2/out-evil), linkcopy-unchecked (0644 copy of a link written outside in SymlinkIgnore
//	  mode), file-written-outside:<area>, deleted-outside:<area>, modified-outside:<area>,
//	  tmp-left, symlink-resolves-outside, host-root-written
//	layerscan : file-written-outside:<area>, dir-created-outside:<area>, symlink-created-outside:<area>,
//	  tmp-left-after-{load,cleanup,error}, extractdir-left-after-cleanup, symlink-resolves-outside
//
// Don't-care cells (accepted whatever the implementation does):
//   - what ends up INSIDE the designated directory (content, modes, which entries are kept or
//     dropped), returned errors and panics (other properties judge those);
//   - mtime/atime/ctime of anything, sizes of directories, mode of the designated directory itself;
//   - files the code only READS outside the designated directory (e.g. link targets read in
//     SymlinkIgnore mode);
//   - a symlink that loops (> 64 hops) never "resolves to a location" and is accepted;
//   - where the image's temporary directory lives, as long as it is a directory that did not
//     exist before the call;
//   - tar streams archive/tar cannot encode are outside the space (counted as skipped);
//   - behaviour while Scan/Unpack is still running (only the state after return is compared);
//   - scans: a difference that disappears by itself within 2 s after Scan returned (a dependency
//     closing a handle in its own goroutine) is not counted; waiting can only remove an alarm;
//   - unpack: whether the target directory ITSELF survives (an emptied target that gets removed is
//     accepted; its parent and everything else outside must not change).
package main

import (
	"bufio"
	"encoding/json"
	"fmt"
	"os"
	"os/exec"
	"path/filepath"
	"runtime/pprof"
	"sort"
	"strconv"
	"strings"
	"sync"
	"syscall"
	"time"

	"verif/ev"
	"verif/scankit"
)

// ---------------------------------------------------------------- image case enumeration

type epCfg struct {
	EP  string
	Cfg int
}

func singleEPs() []epCfg {
	var out []epCfg
	for i := range unpackCfgs {
		out = append(out, epCfg{"raw", i})
	}
	for _, i := range squashedCfgIdx {
		out = append(out, epCfg{"squashed", i})
	}
	for i := range layerCfgs {
		out = append(out, epCfg{"v1", i}, epCfg{"tarball", i})
	}
	out = append(out, epCfg{"save", 0})
	return out
}

// FromTarball only adds go-containerregistry's tarball reader in front of FromV1Image; it is left out
// of the quick pairs and of the triples (singles and thorough pairs run it).
var tripleEPs = []epCfg{{"raw", 0}, {"raw", 1}, {"squashed", 0}, {"v1", 0}}

// block boundaries (index of the first case of every block), filled by forEachImageCase.
type blockInfo struct {
	Name  string `json:"name"`
	First int    `json:"first"`
	N     int    `json:"n"`
}

// forEachImageCase enumerates the image cases of the tier in canonical, simplest-first order.
// fn returns false to stop.
func forEachImageCase(thorough bool, fn func(idx int, c imgCase) bool) []blockInfo {
	idx := 0
	var blocks []blockInfo
	stop := false
	emit := func(c imgCase) {
		if stop {
			return
		}
		if !fn(idx, c) {
			stop = true
		}
		idx++
	}
	begin := func(name string) { blocks = append(blocks, blockInfo{Name: name, First: idx}) }
	end := func() { blocks[len(blocks)-1].N = idx - blocks[len(blocks)-1].First }

	full := entriesOver(namesFull, targetsFull)
	eq := entriesOver(namesQ, targetsQ)

	begin("singles: every entry of the full alphabet x every entry point x every configuration")
	for _, e := range full {
		for _, ec := range singleEPs() {
			emit(imgCase{EP: ec.EP, Cfg: ec.Cfg, Layers: [][]entry{{e}}})
		}
	}
	end()

	// normalised escapes: names that leave the designated directory only after normalisation (they do
	// not START with "../"): <dir>/../../<x> with 1..4 net levels up, ./../<x>, /<dir>/./../../<x>,
	// <dir>//../..//<x>; <x> a fresh name, TMPDIR / cwd decoys, an existing sibling. Relative to the
	// unpack target S/out one level up is S, relative to a layer directory in TMPDIR two levels up is
	// TMPDIR and three are S.
	begin("normalised escapes: 4 spellings x 1-4 net levels up x 5 landing names x file/dir/symlink/hardlink x every entry point x every configuration")
	for lvl := 1; lvl <= 4; lvl++ {
		ups := strings.Repeat("../", lvl)
		for _, x := range []string{"a", "file", "out2/a", "tmp/file", "cwd/file"} {
			for _, n := range []string{"a/../" + ups + x, "./" + ups + x, "/a/./../" + ups + x, "a//../" + strings.ReplaceAll(ups, "../", "..//") + x} {
				es := []entry{{Name: n, Kind: "f"}, {Name: n, Kind: "d"}}
				for _, k := range []string{"s", "h"} {
					for _, t := range []string{"a", "..", "/a"} {
						es = append(es, entry{Name: n, Kind: k, Target: t})
					}
				}
				for _, e := range es {
					for _, ec := range singleEPs() {
						emit(imgCase{EP: ec.EP, Cfg: ec.Cfg, Layers: [][]entry{{e}}})
					}
				}
			}
		}
	}
	end()

	// shapes: images without any layer content and with history that does not match the layers
	begin("shapes: layer-less images, empty-tar layers, damaged layer streams, history-only / missing / mismatched history x every entry point x every configuration")
	fa := entry{Name: "a", Kind: "f"}
	layerSets := [][][]entry{{{}}, {{}, {}}, {{fa}}, {{}, {fa}}, {{fa}, {}}}
	type shaped struct {
		shape  string
		layers [][]entry
	}
	shapes := []shaped{{"no-layers", nil}, {"history-only", nil}}
	for _, sh := range []string{"", "history-missing", "history-empty-entries", "history-extra"} {
		for _, ls := range layerSets {
			if sh == "" && len(ls) == 1 && len(ls[0]) == 1 {
				continue // the plain one-entry image is in the singles
			}
			shapes = append(shapes, shaped{sh, ls})
		}
	}
	// damaged layer streams: not a tar archive, cut inside the first file, blob that cannot be read;
	// alone, below and above a good layer
	for _, dmg := range []string{"garbage", "truncated", "unreadable"} {
		bad := []entry{{Name: dmg, Kind: "!"}, fa}
		for _, ls := range [][][]entry{{bad}, {{fa}, bad}, {bad, {fa}}, {{{Name: "b", Kind: "f"}}, bad, {fa}}} {
			shapes = append(shapes, shaped{"", ls})
		}
	}
	for _, sh := range shapes {
		for _, ec := range singleEPs() {
			if ec.EP == "raw" && sh.shape != "" {
				continue // the raw tarball carries no image metadata
			}
			emit(imgCase{EP: ec.EP, Cfg: ec.Cfg, Layers: sh.layers, Shape: sh.shape})
		}
	}
	end()

	// spellings: the unpack target nested one level (S/outer/out, so that a removed ancestor shows)
	// and handed over in cleaned and uncleaned, absolute and cwd-relative spellings
	begin("spellings: every entry over (all names x pair targets) and two-dangling-link images x 7 spellings of the nested target x both unpack entry points")
	spellEPs := []epCfg{{"raw", 0}, {"raw", 4}, {"raw", 1}, {"squashed", 0}, {"squashed", 4}}
	if thorough {
		spellEPs = nil
		for _, ec := range singleEPs() {
			if ec.EP == "raw" || ec.EP == "squashed" {
				spellEPs = append(spellEPs, ec)
			}
		}
	}
	spellCases := [][][]entry{
		{{{Name: "usr/share/doc/pkg/copyright", Kind: "s", Target: "../../common-licenses/GPL-3"}, {Name: "etc/alternatives/editor", Kind: "s", Target: "/usr/bin/vim.tiny"}}},
		{{{Name: "a/b", Kind: "s", Target: ".."}, {Name: "c", Kind: "s", Target: "a/b/.."}}},
		{{{Name: "a/b", Kind: "s", Target: ".."}}, {{Name: "c/d", Kind: "s", Target: "../a/b/.."}}},
	}
	for _, e := range entriesOver(namesFull, targetsQ) {
		spellCases = append(spellCases, [][]entry{{e}})
	}
	for _, ls := range spellCases {
		for _, sp := range targetSpellings {
			for _, ec := range spellEPs {
				emit(imgCase{EP: ec.EP, Cfg: ec.Cfg, Layers: ls, Dir: sp})
			}
		}
	}
	end()

	// chains: two symlinks that each pass the lexical target check but together lead out of the
	// target (a/b -> .. , c -> a/b/..   and the trampoline  t -> . , up -> t/t/..), a third entry
	// written through them into a directory that already exists outside the target (each sandbox
	// sibling), optionally a fourth entry (a link to the third, which makes it "required" for the
	// links-only requirer). All orders, every 1-2 layer split, all four entry points.
	begin("chains: two chained links that escape together + a write-through into each existing sibling (+ a link requiring it), all orders, 1-2 layers")
	type chain2 struct{ n1, t1, n2, t2 string }
	for _, ch := range []chain2{{"a/b", "..", "c", "a/b/.."}, {"t", ".", "up", "t/t/.."}} {
		for _, lk := range []string{"s", "h"} {
			l1 := entry{Name: ch.n1, Kind: lk, Target: ch.t1}
			l2 := entry{Name: ch.n2, Kind: lk, Target: ch.t2}
			var ws []entry
			for _, sib := range []string{"out2", "out-evil", "out.bak", "cwd", "tmp"} {
				n := ch.n2 + "/" + sib + "/x"
				ws = append(ws, entry{Name: n, Kind: "f"}, entry{Name: n, Kind: "s", Target: "keep"}, entry{Name: n, Kind: "h", Target: "keep"}, entry{Name: n, Kind: "d"})
			}
			ws = append(ws, entry{Name: ch.n2 + "/cwd/scalibr-tmp/x", Kind: "f"}, entry{Name: ch.n2 + "/x", Kind: "f"}, entry{Name: ch.n2 + "/new/x", Kind: "f"})
			for _, w := range ws {
				req := entry{Name: "l", Kind: "s", Target: w.Name}
				for _, base := range [][]entry{{l1, l2, w}, {l1, l2, req, w}} {
					rawCfgs, sqCfgs, lsCfgs := []int{0, 1, 4, 6}, []int{0, 4}, []int{0}
					if thorough {
						rawCfgs, sqCfgs, lsCfgs = []int{0, 1, 2, 3, 4, 5, 6, 7}, squashedCfgIdx, []int{0, 1, 2}
					}
					for _, perm := range scankitPerms(len(base)) {
						seq := make([]entry, len(base))
						for i, j := range perm {
							seq[i] = base[j]
						}
						for _, c := range rawCfgs {
							emit(imgCase{EP: "raw", Cfg: c, Layers: [][]entry{seq}})
						}
						for cut := 0; cut < len(seq); cut++ {
							layers := [][]entry{seq}
							if cut > 0 {
								layers = [][]entry{seq[:cut], seq[cut:]}
							}
							for _, c := range sqCfgs {
								emit(imgCase{EP: "squashed", Cfg: c, Layers: layers})
							}
							if len(base) == 3 || thorough {
								for _, c := range lsCfgs {
									emit(imgCase{EP: "v1", Cfg: c, Layers: layers})
									emit(imgCase{EP: "tarball", Cfg: c, Layers: layers})
								}
							}
						}
					}
				}
			}
		}
	}
	end()

	// trampolines: a link to "." (or a nested link to ".."), a second link whose target goes through
	// it and then ".." so that it passes the lexical check but really lands on the parent, on tmp/cwd,
	// or on a sibling whose name extends the target's name (out2, out-evil, out.bak), and a third
	// entry that gives the lexically cleaned target a twin inside the target directory (so the link
	// is not removed as dangling). All orders, every 1-2 layer split, all four entry points.
	begin("trampolines: link to '.', link through it landing on parent / tmp / cwd / each prefix sibling, + lexical twin inside the target; all orders, 1-2 layers")
	type tramp struct{ n, t, via string }
	for _, tr := range []tramp{{"t", ".", "t/t/.."}, {"a/b", "..", "a/b/.."}} {
		for _, lk := range []string{"s", "h"} {
			l1 := entry{Name: tr.n, Kind: lk, Target: tr.t}
			for _, land := range []string{"", "out-evil", "out2", "out.bak", "tmp", "cwd", "out-evil/keep", "zzz", "out-evil/zzz"} {
				tgt := tr.via
				twinName := land
				if land != "" {
					tgt += "/" + land
				}
				// where the cleaned target points lexically: <dir of link>/<rest after the trampoline is cancelled>
				if tr.n == "a/b" {
					twinName = strings.TrimSuffix("a/"+land, "/")
				}
				l2 := entry{Name: "esc", Kind: lk, Target: tgt}
				var twins []entry
				if land == "" {
					twins = []entry{{Name: "placeholder", Kind: "f"}}
				} else if strings.Contains(land, "/") {
					twins = []entry{{Name: twinName, Kind: "f"}}
				} else {
					twins = []entry{{Name: twinName + "/placeholder", Kind: "f"}, {Name: twinName, Kind: "d"}, {Name: twinName, Kind: "f"}}
				}
				for _, tw := range twins {
					base := []entry{l1, l2, tw}
					for _, perm := range scankitPerms(3) {
						seq := []entry{base[perm[0]], base[perm[1]], base[perm[2]]}
						for _, c := range []int{0, 2, 4} {
							emit(imgCase{EP: "raw", Cfg: c, Layers: [][]entry{seq}})
						}
						for cut := 0; cut < 3; cut++ {
							layers := [][]entry{seq}
							if cut > 0 {
								layers = [][]entry{seq[:cut], seq[cut:]}
							}
							for _, c := range []int{0, 4} {
								emit(imgCase{EP: "squashed", Cfg: c, Layers: layers})
							}
							emit(imgCase{EP: "v1", Cfg: 0, Layers: layers})
							emit(imgCase{EP: "tarball", Cfg: 0, Layers: layers})
						}
					}
				}
			}
		}
	}
	end()

	// name collisions: a link to "..", a second link created THROUGH it (so that it really lives
	// one level up from where its name says and points to a sibling of the target / a missing
	// location / an existing outside file), then an entry whose name is where that second link really
	// is - regular file, directory, hard link, symlink, and a file below it. All orders, every 1-2
	// layer split, all four entry points.
	begin("collisions: link to '..', link created through it pointing outside, + an entry named like that link; all orders, 1-2 layers")
	for _, lk := range []string{"s", "h"} {
		l1 := entry{Name: "d/l", Kind: lk, Target: ".."}
		for _, x := range []string{"x", "out2", "out2/keep", "out2/new", "out.bak/new", "cwd/file", "tmp/new"} {
			l2 := entry{Name: "d/l/l2", Kind: lk, Target: "../" + x}
			for _, e3 := range []entry{{Name: "l2", Kind: "f"}, {Name: "l2", Kind: "d"}, {Name: "l2", Kind: "h", Target: "d"}, {Name: "l2", Kind: "s", Target: "d"}, {Name: "l2/y", Kind: "f"}} {
				base := []entry{l1, l2, e3}
				for _, perm := range scankitPerms(3) {
					seq := []entry{base[perm[0]], base[perm[1]], base[perm[2]]}
					for _, c := range []int{0, 1, 2, 4} {
						emit(imgCase{EP: "raw", Cfg: c, Layers: [][]entry{seq}})
					}
					for cut := 0; cut < 3; cut++ {
						layers := [][]entry{seq}
						if cut > 0 {
							layers = [][]entry{seq[:cut], seq[cut:]}
						}
						for _, c := range []int{0, 4} {
							emit(imgCase{EP: "squashed", Cfg: c, Layers: layers})
						}
						emit(imgCase{EP: "v1", Cfg: 0, Layers: layers})
						emit(imgCase{EP: "tarball", Cfg: 0, Layers: layers})
					}
				}
			}
		}
	}
	end()

	pairEPs := tripleEPs
	if thorough {
		pairEPs = singleEPs()
	}
	begin("pairs: all ordered pairs over the pair alphabet, in one layer and split over two layers")
	for _, e1 := range eq {
		for _, e2 := range eq {
			for _, ec := range pairEPs {
				emit(imgCase{EP: ec.EP, Cfg: ec.Cfg, Layers: [][]entry{{e1, e2}}})
				if ec.EP != "raw" { // the raw tarball has no layers
					emit(imgCase{EP: ec.EP, Cfg: ec.Cfg, Layers: [][]entry{{e1}, {e2}}})
				}
			}
		}
	}
	end()

	if thorough {
		begin("triples: ordered pair + a write-through of one of its links, inserted at every position, every 1-2 layer split")
		et := entriesOver(namesT, targetsT)
		for _, e1 := range et {
			for _, e2 := range et {
				if !e1.isLink() && !e2.isLink() {
					continue
				}
				var thirds []entry
				for _, l := range []entry{e1, e2} {
					if !l.isLink() || (l == e2 && e1 == e2) {
						continue
					}
					n := l.Name + "/a"
					thirds = append(thirds, entry{Name: n, Kind: "f"}, entry{Name: n, Kind: "d"},
						entry{Name: n, Kind: "s", Target: ".."}, entry{Name: n, Kind: "h", Target: "a"}, entry{Name: n + "/a", Kind: "f"})
				}
				for _, e3 := range thirds {
					for pos := 2; pos >= 0; pos-- {
						seq := []entry{e1, e2}
						seq = append(seq[:pos:pos], append([]entry{e3}, seq[pos:]...)...)
						for _, ec := range tripleEPs {
							emit(imgCase{EP: ec.EP, Cfg: ec.Cfg, Layers: [][]entry{seq}})
							if ec.EP != "raw" {
								emit(imgCase{EP: ec.EP, Cfg: ec.Cfg, Layers: [][]entry{seq[:1], seq[1:]}})
								emit(imgCase{EP: ec.EP, Cfg: ec.Cfg, Layers: [][]entry{seq[:2], seq[2:]}})
							}
						}
					}
				}
			}
		}
		end()
	}
	return blocks
}

// scankitPerms returns all permutations of 0..n-1 in lexicographic order.
func scankitPerms(n int) [][]int {
	var out [][]int
	var rec func(cur []int, used []bool)
	rec = func(cur []int, used []bool) {
		if len(cur) == n {
			out = append(out, append([]int(nil), cur...))
			return
		}
		for i := 0; i < n; i++ {
			if !used[i] {
				used[i] = true
				rec(append(cur, i), used)
				used[i] = false
			}
		}
	}
	rec(nil, make([]bool, n))
	return out
}

// ---------------------------------------------------------------- worker protocol
//
// The parent re-executes itself with C06_WORKER=k/n. The worker enumerates the same canonical list
// and handles the items with index%n == k. It reports on fd 3, one line per message:
//   S <idx>            about to start item idx
//   V <json>           a violation {key, what, replay}
//   N <json>           a violation that did not reproduce identically when re-run (harness nondeterminism)
//   E <json>           a sample case
//   X <json>           distinct keys (scan phase)
//   D <json>           final summary

type summary struct {
	Evals   int64 `json:"evals"`
	Wrote   int64 `json:"wrote"`
	Skipped int64 `json:"skipped"`
	Errs    int64 `json:"errs"`
	Cut     bool  `json:"cut"`
	CutAt   int   `json:"cut_at"`
}

type vmsg struct {
	Idx    int    `json:"idx"`
	Key    string `json:"key"`
	What   string `json:"what"`
	Replay any    `json:"replay"`
}

func keysOf(vs []viol) string {
	var ks []string
	for _, v := range vs {
		ks = append(ks, v.Key)
	}
	sort.Strings(ks)
	return strings.Join(ks, ",")
}

func worker() {
	if pf := os.Getenv("C06_PROF"); pf != "" {
		f, _ := os.Create(pf)
		_ = pprof.StartCPUProfile(f)
		defer pprof.StopCPUProfile()
	}
	scankit.Quiet()
	syscall.Umask(0o022)
	parts := strings.Split(os.Getenv("C06_WORKER"), "/")
	k, _ := strconv.Atoi(parts[0])
	n, _ := strconv.Atoi(parts[1])
	phase := os.Getenv("C06_PHASE")
	thorough := os.Getenv("VERIF_TIER") == "thorough"
	skipUntil, _ := strconv.Atoi(os.Getenv("C06_SKIP_UNTIL"))
	dl, _ := strconv.ParseInt(os.Getenv("C06_DEADLINE"), 10, 64)
	deadline := time.Unix(0, dl)
	out := os.NewFile(3, "results")
	send := func(tag string, v any) {
		b, _ := json.Marshal(v)
		_, _ = out.Write(append(append([]byte(tag+" "), b...), '\n'))
	}
	sb := newSandbox(os.Getenv("C06_ROOT"))
	var sum summary
	samples := 0
	switch phase {
	case "image":
		forEachImageCase(thorough, func(idx int, c imgCase) bool {
			if idx%n != k || idx < skipUntil {
				return true
			}
			if time.Now().After(deadline) {
				sum.Cut, sum.CutAt = true, idx
				return false
			}
			_, _ = out.Write([]byte("S " + strconv.Itoa(idx) + "\n"))
			res := runImageCase(sb, c)
			if res.Skipped {
				sum.Skipped++
				return true
			}
			sum.Evals++
			if res.Err != "" {
				sum.Errs++
			}
			if res.Wrote {
				sum.Wrote++
				if samples < 1 && idx > 2000*(k+1) {
					samples++
					send("E", map[string]any{"case": c.String(), "error": res.Err, "verdict": "only the designated directory changed"})
				}
			}
			if len(res.Viols) > 0 {
				again := runImageCase(sb, c)
				sum.Evals++
				// the real root is shared by all workers: a probe path seen there is attributed to this
				// case only if it appears again when the case is re-run
				split := func(vs []viol) (own, host []viol) {
					for _, v := range vs {
						if v.Host {
							host = append(host, v)
						} else {
							own = append(own, v)
						}
					}
					return
				}
				own, host := split(res.Viols)
				ownAgain, hostAgain := split(again.Viols)
				tag := "V"
				if keysOf(ownAgain) != keysOf(own) {
					tag = "N"
				}
				for _, v := range own {
					send(tag, vmsg{Idx: idx, Key: v.Key, What: v.What, Replay: map[string]any{"phase": "image", "case": c}})
				}
				for _, v := range host {
					if len(hostAgain) > 0 {
						send("V", vmsg{Idx: idx, Key: v.Key, What: v.What, Replay: map[string]any{"phase": "image", "case": c}})
					} else {
						send("V", vmsg{Idx: idx, Key: "host-root-written:unattributed", What: "noticed while running " + v.What + " (may stem from a case of another worker)", Replay: map[string]any{"phase": "image", "case": c}})
					}
				}
			}
			return true
		})
	case "scan":
		infos := discover(maxPathsFor(thorough))
		jobs := scanJobs(infos, thorough)
		for idx, j := range jobs {
			if idx%n != k || idx < skipUntil {
				continue
			}
			if time.Now().After(deadline) {
				sum.Cut, sum.CutAt = true, idx
				break
			}
			_, _ = out.Write([]byte("S " + strconv.Itoa(idx) + "\n"))
			ensureCalibrated(sb, infos, j)
			res, vs := runScanJob(sb, infos, j)
			sum.Evals++
			var dk []string
			for _, name := range res.Ran {
				dk = append(dk, fmt.Sprintf("scan|%s|%s|%s|%s", name, j.Ex, j.Variant, j.Root))
			}
			send("X", dk)
			if len(res.Ran) > 0 {
				sum.Wrote++
			}
			if samples < 1 && len(res.Ran) > 0 && j.Ex != "*" {
				samples++
				send("E", map[string]any{"case": j.String(), "files_in_tree": res.Files, "plugins_that_extracted": res.Ran, "packages": res.Pkgs, "changes": len(res.Changes)})
			}
			if len(vs) > 0 {
				_, again := runScanJob(sb, infos, j)
				sum.Evals++
				// What a snapshot shows is a fact even if a second run does not show it again (a racing
				// goroutine of a dependency): such a violation is reported, marked as intermittent.
				note := ""
				if keysOf(again) != keysOf(vs) {
					note = " [not seen identically in a second run of the same scan]"
					have := map[string]bool{}
					for _, v := range vs {
						have[v.Key] = true
					}
					for _, v := range again {
						if !have[v.Key] {
							vs = append(vs, v)
						}
					}
				}
				for _, v := range vs {
					rj := j
					rj.Only = v.Only
					send("V", vmsg{Idx: idx, Key: v.Key, What: v.What + note, Replay: map[string]any{"phase": "scan", "job": rj}})
				}
			}
		}
	}
	send("D", sum)
	_ = os.Chdir("/")
	_ = os.RemoveAll(sb.R)
}

func maxPathsFor(thorough bool) int {
	if thorough {
		return 24
	}
	return 8
}

// ---------------------------------------------------------------- parent

type phaseTotals struct {
	summary
	Crashes  int
	Hangs    int
	Distinct int
	Wall     float64
}

type vagg struct {
	first vmsg
	count int
}

func runPhase(r *ev.Run, rootDir, phase string, deadline time.Time) phaseTotals {
	n := ev.Workers()
	var tot phaseTotals
	var mu sync.Mutex
	t0 := time.Now()
	viols := map[string]*vagg{}
	dkeys := map[string]bool{}
	nsamples := 0
	var wg sync.WaitGroup
	self, err := os.Executable()
	must(err)
	for k := 0; k < n; k++ {
		wg.Add(1)
		go func(k int) {
			defer wg.Done()
			skip := 0
			for attempt := 0; attempt < 20; attempt++ {
				pr, pw, err := os.Pipe()
				must(err)
				cmd := exec.Command(self)
				cmd.Env = append(os.Environ(),
					fmt.Sprintf("C06_WORKER=%d/%d", (k+r.Seed)%n, n), "C06_PHASE="+phase,
					"C06_ROOT="+filepath.Join(rootDir, fmt.Sprintf("%s-w%d", phase, k)),
					fmt.Sprintf("C06_DEADLINE=%d", deadline.UnixNano()), fmt.Sprintf("C06_SKIP_UNTIL=%d", skip))
				cmd.ExtraFiles = []*os.File{pw}
				cmd.Stdout, cmd.Stderr = nil, nil
				cmd.Dir = "/"
				must(cmd.Start())
				_ = pw.Close()
				last := -1
				done := false
				var lastMu sync.Mutex
				progress := time.Now()
				stopWatch := make(chan struct{})
				hung := false
				go func() { // hang watchdog: 180 s without any message from the worker
					t := time.NewTicker(5 * time.Second)
					defer t.Stop()
					for {
						select {
						case <-stopWatch:
							return
						case <-t.C:
							lastMu.Lock()
							idle := time.Since(progress)
							lastMu.Unlock()
							if idle > 180*time.Second {
								hung = true
								_ = cmd.Process.Kill()
								return
							}
						}
					}
				}()
				sc := bufio.NewScanner(pr)
				sc.Buffer(make([]byte, 1<<20), 64<<20)
				for sc.Scan() {
					line := sc.Text()
					lastMu.Lock()
					progress = time.Now()
					lastMu.Unlock()
					if len(line) < 2 {
						continue
					}
					tag, body := line[0], line[2:]
					switch tag {
					case 'S':
						last, _ = strconv.Atoi(body)
					case 'V', 'N':
						var v vmsg
						if json.Unmarshal([]byte(body), &v) == nil {
							if tag == 'N' {
								mu.Lock()
								nondet = append(nondet, v.Key+": "+v.What)
								mu.Unlock()
							} else {
								// keep the smallest-index example per cause key so that what is reported does not depend on worker timing
								mu.Lock()
								a := viols[v.Key]
								if a == nil {
									a = &vagg{first: v}
									viols[v.Key] = a
								} else if v.Idx < a.first.Idx {
									a.first = v
								}
								a.count++
								mu.Unlock()
							}
						}
					case 'E':
						var v any
						if json.Unmarshal([]byte(body), &v) == nil {
							mu.Lock()
							nsamples++
							ok := nsamples <= 3
							mu.Unlock()
							if ok {
								r.Sample(v)
							}
						}
					case 'X':
						var ks []string
						if json.Unmarshal([]byte(body), &ks) == nil {
							mu.Lock()
							for _, s := range ks {
								dkeys[s] = true
							}
							mu.Unlock()
						}
					case 'D':
						var s summary
						if json.Unmarshal([]byte(body), &s) == nil {
							mu.Lock()
							tot.Evals += s.Evals
							tot.Wrote += s.Wrote
							tot.Skipped += s.Skipped
							tot.Errs += s.Errs
							if s.Cut {
								if !tot.Cut || s.CutAt < tot.CutAt {
									tot.CutAt = s.CutAt
								}
								tot.Cut = true
							}
							mu.Unlock()
							done = true
						}
					}
				}
				close(stopWatch)
				_ = cmd.Wait()
				_ = pr.Close()
				if done {
					return
				}
				// the worker died (fatal error in the code under test) or hung: note it, skip that item, go on
				mu.Lock()
				if hung {
					tot.Hangs++
				} else {
					tot.Crashes++
				}
				mu.Unlock()
				r.Cap("%s worker %d died or hung at item %d (item skipped)", phase, k, last)
				skip = last + 1
			}
		}(k)
	}
	wg.Wait()
	var keys []string
	for k := range viols {
		keys = append(keys, k)
	}
	sort.Slice(keys, func(i, j int) bool {
		a, b := viols[keys[i]], viols[keys[j]]
		if a.first.Idx != b.first.Idx {
			return a.first.Idx < b.first.Idx
		}
		return keys[i] < keys[j]
	})
	for _, k := range keys {
		a := viols[k]
		for i := 0; i < a.count; i++ {
			r.Violation(a.first.Key, a.first.What, a.first.Replay)
		}
	}
	// safety net: nothing but the workers' own (by now removed) roots may exist next to them
	if des, err := os.ReadDir(rootDir); err == nil {
		for _, de := range des {
			if !strings.HasPrefix(de.Name(), phase+"-w") {
				r.Violation("sandbox-escape:above-snapshot-root", fmt.Sprintf("%s phase left %q above every worker's snapshot root", phase, de.Name()), nil)
			}
			_ = os.RemoveAll(filepath.Join(rootDir, de.Name()))
		}
	}
	tot.Distinct = len(dkeys)
	tot.Wall = time.Since(t0).Seconds()
	return tot
}

var nondet []string

func main() {
	if os.Getenv("C06_WORKER") != "" {
		worker()
		return
	}
	if f := os.Getenv("VERIF_REPLAY"); f != "" {
		replay(f)
		return
	}
	if os.Getenv("C06_LIST") != "" {
		list()
		return
	}
	r := ev.Start("C06", "exploration", 5*time.Minute, 45*time.Minute)
	start := time.Now()
	budget := ev.Pick(r, 5*time.Minute, 45*time.Minute)
	if s, err := strconv.Atoi(os.Getenv("VERIF_BUDGET_S")); err == nil && s > 0 {
		budget = time.Duration(s) * time.Second
	}
	rootDir := os.Getenv("VERIF_TMP")
	if rootDir == "" {
		rootDir = "/dev/shm"
	}
	rootDir = filepath.Join(rootDir, fmt.Sprintf("verif-c06-%d", os.Getpid()))
	must(os.MkdirAll(rootDir, 0o755))
	defer os.RemoveAll(rootDir)

	// phase (a): scans — given up to 40% of the budget
	infos := discover(maxPathsFor(r.Thorough()))
	jobs := scanJobs(infos, r.Thorough())
	nPaths, nNoPath := 0, []string{}
	for _, in := range infos {
		nPaths += len(in.Paths)
		if len(in.Paths) == 0 {
			nNoPath = append(nNoPath, in.Name)
		}
	}
	scanTot := runPhase(r, rootDir, "scan", start.Add(budget*4/10))
	r.Evals.Add(scanTot.Evals)
	r.Nontrivial.Add(int64(scanTot.Distinct))
	if scanTot.Cut {
		r.Cap("deadline: scan phase stopped at job %d of %d", scanTot.CutAt, len(jobs))
	}
	r.Set("scan", map[string]any{"plugins": len(infos), "production_paths": nPaths, "plugins_without_discovered_path": nNoPath,
		"scan_jobs": len(jobs), "scans_run": scanTot.Evals, "scans_in_which_a_plugin_extracted": scanTot.Wrote,
		"distinct_plugin_tree_variant_root_with_extract_called": scanTot.Distinct, "wall_s": scanTot.Wall, "worker_crashes": scanTot.Crashes, "worker_hangs": scanTot.Hangs})

	// phase (b): images
	blocks := forEachImageCase(r.Thorough(), func(int, imgCase) bool { return true })
	total := 0
	for _, b := range blocks {
		total += b.N
	}
	imgTot := runPhase(r, rootDir, "image", start.Add(budget))
	r.Evals.Add(imgTot.Evals)
	r.Nontrivial.Add(imgTot.Wrote)
	if imgTot.Cut {
		done := ""
		for _, b := range blocks {
			if imgTot.CutAt >= b.First+b.N {
				done = b.Name
			}
		}
		r.Cap("deadline: image phase stopped near case %d of %d; last block fully completed: %q", imgTot.CutAt, total, done)
	}
	r.Set("image", map[string]any{"blocks": blocks, "cases": total, "runs": imgTot.Evals, "runs_that_wrote_to_the_designated_dir": imgTot.Wrote,
		"cases_not_encodable_as_tar": imgTot.Skipped, "runs_returning_error": imgTot.Errs, "wall_s": imgTot.Wall, "worker_crashes": imgTot.Crashes, "worker_hangs": imgTot.Hangs,
		"names": len(namesFull), "targets": len(targetsFull), "pair_names": len(namesQ), "pair_targets": len(targetsQ), "triple_names": len(namesT), "triple_targets": len(targetsT)})
	_ = os.RemoveAll(rootDir)
	if len(nondet) > 0 {
		sort.Strings(nondet)
		fmt.Fprintf(os.Stderr, "harness nondeterminism: %d violations did not reproduce identically, e.g. %s\n", len(nondet), nondet[0])
		os.Exit(3)
	}
	r.Assume("the process runs with enough privilege that permission bits do not stop the code under test (root in this sandbox); snapshots ignore timestamps")
	r.Assume("production paths are those string literals of a plugin's own package that its FileRequired accepts; valid content is the best-matching non-empty file of its testdata directory (several large fixtures are 0-byte stubs in this checkout)")
	r.Finish("before/after recursive snapshot of a sandbox. scans: every offline built-in plugin x its production paths x {valid, empty, half, bit-flip} (+ everything at once, + whole testdata dirs) x {real root, virtual root}: nothing in tree/cwd/tmp/elsewhere may differ after Scan. images: all single entries of the full alphabet x 4 entry points x all configurations; all ordered pairs (1 and 2 layers) over the pair alphabet; thorough: triples with a write-through of an earlier link at every position: only the designated dir may differ, tmp restored after CleanUp/return, no symlink in the designated dir resolves outside. distinct = scans in which a given plugin's Extract ran per (plugin, tree, variant, root) + image runs that wrote into the designated directory", true)
}

// ---------------------------------------------------------------- replay / list

func replay(file string) {
	scankit.Quiet()
	syscall.Umask(0o022)
	b, err := os.ReadFile(file)
	must(err)
	var rec struct {
		Key    string `json:"key"`
		Replay struct {
			Phase string   `json:"phase"`
			Case  imgCase  `json:"case"`
			Job   *scanJob `json:"job"`
		} `json:"replay"`
	}
	must(json.Unmarshal(b, &rec))
	root := filepath.Join("/dev/shm", fmt.Sprintf("verif-c06-replay-%d", os.Getpid()))
	sb := newSandbox(root)
	defer func() { _ = os.Chdir("/"); _ = os.RemoveAll(root) }()
	var vs []viol
	switch rec.Replay.Phase {
	case "image":
		fmt.Println("replaying", rec.Replay.Case.String())
		res := runImageCase(sb, rec.Replay.Case)
		fmt.Printf("skipped=%v wrote-to-designated-dir=%v error=%q\n", res.Skipped, res.Wrote, res.Err)
		vs = res.Viols
	case "scan":
		fmt.Println("replaying", rec.Replay.Job.String())
		infos := discover(maxPathsFor(os.Getenv("VERIF_TIER") == "thorough"))
		ensureCalibrated(sb, infos, *rec.Replay.Job)
		res, v := runScanJob(sb, infos, *rec.Replay.Job)
		fmt.Printf("files=%d extracted-by=%v packages=%d\n", res.Files, res.Ran, res.Pkgs)
		for _, ch := range res.Changes {
			fmt.Println("  change:", ch.String())
		}
		vs = v
	default:
		fmt.Println("unknown replay phase")
		os.Exit(3)
	}
	_ = os.Chdir("/")
	_ = os.RemoveAll(root)
	hit := false
	for _, v := range vs {
		fmt.Printf("observed violation key=%s: %s\n", v.Key, v.What)
		if v.Key == rec.Key {
			hit = true
		}
	}
	if len(vs) == 0 {
		fmt.Println("no side effect outside the designated directory observed")
		os.Exit(0)
	}
	if !hit {
		fmt.Println("(recorded key", rec.Key, "not among the observed keys)")
	}
	os.Exit(1)
}

// list prints what discovery found (debugging aid: C06_LIST=1).
func list() {
	infos := discover(maxPathsFor(os.Getenv("VERIF_TIER") == "thorough"))
	scankit.Quiet()
	root := filepath.Join("/dev/shm", fmt.Sprintf("verif-c06-list-%d", os.Getpid()))
	sb := newSandbox(root)
	ensureCalibrated(sb, infos, scanJob{Ex: "*"})
	_ = os.Chdir("/")
	_ = os.RemoveAll(root)
	for _, in := range infos {
		fmt.Printf("%s  (os=%d directfs=%v running=%v) testdata=%d\n", in.Name, in.Req.OS, in.Req.DirectFS, in.Req.RunningSystem, len(in.Testdata))
		for _, p := range in.Paths {
			fx := strings.TrimPrefix(p.Fixture, in.PkgDir+"/testdata/")
			fmt.Printf("    %-90s %04o  <- %s\n", p.Path, p.Mode, fx)
		}
		for _, p := range in.Aux {
			fx := strings.TrimPrefix(p.Fixture, in.PkgDir+"/testdata/")
			fmt.Printf("    aux %-86s %04o  <- %s\n", p.Path, p.Mode, fx)
		}
	}
	blocks := forEachImageCase(os.Getenv("VERIF_TIER") == "thorough", func(int, imgCase) bool { return true })
	for _, b := range blocks {
		fmt.Printf("block %q: %d cases\n", b.Name, b.N)
	}
	fmt.Println("scan jobs:", len(scanJobs(infos, os.Getenv("VERIF_TIER") == "thorough")))
}
