package main

import (
	"context"
	"database/sql"
	"fmt"
	"go/ast"
	"go/parser"
	"go/token"
	"io/fs"
	"os"
	"path"
	"path/filepath"
	"reflect"
	"regexp"
	"sort"
	"strconv"
	"strings"
	"sync"
	"time"

	scalibr "github.com/google/osv-scalibr"
	"github.com/google/osv-scalibr/extractor/filesystem"
	el "github.com/google/osv-scalibr/extractor/filesystem/list"
	scalibrfs "github.com/google/osv-scalibr/fs"
	"github.com/google/osv-scalibr/plugin"
	"github.com/google/osv-scalibr/stats"
	"verif/ev"

	_ "github.com/mattn/go-sqlite3" // the driver the os/rpm plugin links in; used to build rpmdb.sqlite variants
)

const modulePath = "github.com/google/osv-scalibr"
const maxFixture = 3 << 20

// ---------------------------------------------------------------- discovery

type pathSpec struct {
	Path    string      // production path, relative to the scan root
	Mode    fs.FileMode // 0644 unless the plugin only accepts executables
	Fixture string      // absolute path of the testdata file used as the valid content ("" = none)
	Cands   []string    // fixture candidates, best first (calibrate picks among them)
}

type exInfo struct {
	Name     string
	Req      plugin.Capabilities
	PkgDir   string
	Paths    []pathSpec
	Testdata []string // regular files below PkgDir/testdata, relative to it
	// Aux: further production paths the plugin's own (non-test) code names but does not "require":
	// files it opens next to the required one (e.g. containerd's snapshotter metadata.db).
	Aux []pathSpec
}

type fakeInfo struct {
	name string
	size int64
	mode fs.FileMode
}

func (f fakeInfo) Name() string       { return f.name }
func (f fakeInfo) Size() int64        { return f.size }
func (f fakeInfo) Mode() fs.FileMode  { return f.mode }
func (f fakeInfo) ModTime() time.Time { return time.Unix(1_600_000_000, 0) }
func (f fakeInfo) IsDir() bool        { return false }
func (f fakeInfo) Sys() any           { return nil }

type fakeAPI struct {
	p    string
	mode fs.FileMode
}

func (a fakeAPI) Path() string { return a.p }
func (a fakeAPI) Stat() (fs.FileInfo, error) {
	return fakeInfo{name: path.Base(a.p), size: 4096, mode: a.mode}, nil
}

var pathLike = regexp.MustCompile(`^[A-Za-z0-9._@+\-/ ()\\:,~#=\[\]]+$`)

// literals returns every string literal of the .go files directly in dir.
func literals(dir string) []string { return literalsOf(dir, true) }

// literalsOf: withTests=false leaves *_test.go out.
func literalsOf(dir string, withTests bool) []string {
	fset := token.NewFileSet()
	des, err := os.ReadDir(dir)
	if err != nil {
		return nil
	}
	var out []string
	for _, de := range des {
		if de.IsDir() || !strings.HasSuffix(de.Name(), ".go") || (!withTests && strings.HasSuffix(de.Name(), "_test.go")) {
			continue
		}
		f, err := parser.ParseFile(fset, filepath.Join(dir, de.Name()), nil, parser.SkipObjectResolution)
		if err != nil {
			continue
		}
		ast.Inspect(f, func(n ast.Node) bool {
			if _, isImport := n.(*ast.ImportSpec); isImport {
				return false
			}
			if bl, ok := n.(*ast.BasicLit); ok && bl.Kind == token.STRING {
				if s, err := strconv.Unquote(bl.Value); err == nil {
					out = append(out, s)
				}
			}
			return true
		})
	}
	return out
}

func required(e filesystem.Extractor, p string, mode fs.FileMode) (ok bool) {
	defer func() {
		if recover() != nil {
			ok = false
		}
	}()
	return e.FileRequired(fakeAPI{p: p, mode: mode})
}

var negWords = []string{"invalid", "bad", "empty", "corrupt", "wrong", "not", "broken", "malformed", "missing", "error", "big", "nopackage", "noname", "noversion", "no_", "without", "dummy"}

// rankFixtures orders the testdata file that serves as valid content for production path p:
// non-empty and not oversized; same base name > same extension > anything; names that announce
// broken content last; then lexical order.
func rankFixtures(pkgDir string, files []string, p string) []string {
	type cand struct {
		rel   string
		score int
	}
	var cs []cand
	base := path.Base(p)
	ext := path.Ext(p)
	for _, f := range files {
		fi, err := os.Stat(filepath.Join(pkgDir, "testdata", f))
		if err != nil || fi.Size() == 0 || fi.Size() > maxFixture {
			continue
		}
		s := 0
		fb := path.Base(f)
		switch {
		case fb == base:
			s += 100
		case strings.HasSuffix(p, "/"+f) || strings.HasSuffix(f, "/"+base):
			s += 90
		case ext != "" && path.Ext(f) == ext:
			s += 50
		case ext == "" && strings.HasPrefix(fb, base):
			s += 40
		}
		if stem := strings.TrimSuffix(base, ext); ext != "" && len(stem) > 2 && strings.HasPrefix(fb, stem) && fb != base {
			s += 5
		}
		lf := strings.ToLower(f)
		if strings.Contains(lf, "valid") && !strings.Contains(lf, "invalid") {
			s += 30
		}
		for _, w := range negWords {
			if strings.Contains(lf, w) {
				s -= 20
				break
			}
		}
		cs = append(cs, cand{f, s})
	}
	sort.SliceStable(cs, func(i, j int) bool {
		if cs[i].score != cs[j].score {
			return cs[i].score > cs[j].score
		}
		return cs[i].rel < cs[j].rel
	})
	var out []string
	for _, c := range cs {
		out = append(out, filepath.Join(pkgDir, "testdata", c.rel))
	}
	return out
}

// calibrate picks, for every production path of in, the first candidate fixture (at most 12 tried)
// from which the plugin extracts at least one package without error when the file sits at that
// path; failing that the first that gives no error; failing that the best-ranked one. It runs the
// plugin, so it must be called inside a sandbox; scratch is an empty directory it may use.
func calibrate(in *exInfo, scratch string) {
	var e filesystem.Extractor
	for _, init := range el.All[in.Name] {
		e = init()
	}
	for i := range in.Paths {
		ps := &in.Paths[i]
		if len(ps.Cands) == 0 {
			continue
		}
		ps.Fixture = ps.Cands[0]
		if e == nil {
			continue
		}
		noErr := ""
		for n, c := range ps.Cands {
			if n >= 12 {
				break
			}
			b, err := os.ReadFile(c)
			if err != nil {
				continue
			}
			_ = os.RemoveAll(scratch)
			full := filepath.Join(scratch, filepath.FromSlash(ps.Path))
			if os.MkdirAll(filepath.Dir(full), 0o755) != nil || os.WriteFile(full, b, ps.Mode) != nil {
				continue
			}
			_ = os.Chmod(full, ps.Mode)
			f, err := os.Open(full)
			if err != nil {
				continue
			}
			fi, _ := f.Stat()
			pkgs := 0
			var xerr error
			pn, _ := ev.Recover(func() {
				inv, err := e.Extract(context.Background(), &filesystem.ScanInput{FS: scalibrfs.DirFS(scratch), Path: ps.Path, Root: scratch, Info: fi, Reader: f})
				pkgs, xerr = len(inv.Packages), err
			})
			_ = f.Close()
			if pn != nil {
				continue
			}
			if xerr == nil && pkgs > 0 {
				ps.Fixture = c
				noErr = ""
				break
			}
			if xerr == nil && noErr == "" {
				noErr = c
			}
		}
		if noErr != "" {
			ps.Fixture = noErr
		}
	}
	_ = os.RemoveAll(scratch)
}

// discover instantiates every offline built-in filesystem extractor and derives, from the string
// literals of its own package (FileRequired tests and path constants), the production paths it
// accepts.
func discover(maxPaths int) []exInfo {
	var namesSorted []string
	for k := range el.All {
		namesSorted = append(namesSorted, k)
	}
	sort.Strings(namesSorted)
	var out []exInfo
	for _, k := range namesSorted {
		for _, init := range el.All[k] {
			e := init()
			req := *e.Requirements()
			if req.Network == plugin.NetworkOnline {
				continue // java/pomxmlnet: needs the network
			}
			t := reflect.TypeOf(e)
			for t.Kind() == reflect.Ptr {
				t = t.Elem()
			}
			pkgDir := filepath.Join(ev.RepoDir(), strings.TrimPrefix(t.PkgPath(), modulePath))
			info := exInfo{Name: e.Name(), Req: req, PkgDir: pkgDir}
			_ = filepath.WalkDir(filepath.Join(pkgDir, "testdata"), func(p string, d fs.DirEntry, err error) error {
				if err == nil && d.Type().IsRegular() {
					rel, _ := filepath.Rel(filepath.Join(pkgDir, "testdata"), p)
					info.Testdata = append(info.Testdata, filepath.ToSlash(rel))
				}
				return nil
			})
			sort.Strings(info.Testdata)
			seen := map[string]bool{}
			var cands []pathSpec
			tdBase := map[string]bool{}
			lits := literals(pkgDir)
			for _, f := range info.Testdata {
				tdBase[path.Base(f)] = true
				lits = append(lits, f)
			}
			for _, s := range lits {
				s = strings.TrimPrefix(filepath.ToSlash(s), "/")
				if len(s) == 0 || len(s) > 160 || !pathLike.MatchString(s) || path.Clean(s) != s || strings.HasPrefix(s, "../") || s == ".." || s == "." ||
					strings.HasPrefix(s, "testdata/") || strings.HasPrefix(s, "td/") || seen[s] {
					continue
				}
				long := false
				for _, seg := range strings.Split(s, "/") {
					if len(seg) > 100 {
						long = true
					}
				}
				if long {
					continue
				}
				seen[s] = true
				switch {
				case required(e, s, 0o644):
					cands = append(cands, pathSpec{Path: s, Mode: 0o644})
				case required(e, s, 0o755):
					cands = append(cands, pathSpec{Path: s, Mode: 0o755})
				}
			}
			// round-robin over base names so that every accepted file name is represented
			// paths whose base name is the name of a fixture come first, then lexical order
			sort.Slice(cands, func(i, j int) bool {
				bi, bj := tdBase[path.Base(cands[i].Path)], tdBase[path.Base(cands[j].Path)]
				if bi != bj {
					return bi
				}
				return cands[i].Path < cands[j].Path
			})
			byBase := map[string][]pathSpec{}
			var bases []string
			for _, c := range cands {
				b := path.Base(c.Path)
				if _, ok := byBase[b]; !ok {
					bases = append(bases, b)
				}
				byBase[b] = append(byBase[b], c)
			}
			sort.SliceStable(bases, func(i, j int) bool {
				if tdBase[bases[i]] != tdBase[bases[j]] {
					return tdBase[bases[i]]
				}
				return bases[i] < bases[j]
			})
			for round := 0; len(info.Paths) < maxPaths; round++ {
				added := false
				for _, b := range bases {
					if round < len(byBase[b]) && len(info.Paths) < maxPaths {
						info.Paths = append(info.Paths, byBase[b][round])
						added = true
					}
				}
				if !added {
					break
				}
			}
			isPath := map[string]bool{}
			for _, c := range cands {
				isPath[c.Path] = true
			}
			seenAux := map[string]bool{}
			for _, lit := range literalsOf(pkgDir, false) {
				a := strings.TrimPrefix(filepath.ToSlash(lit), "/")
				if len(a) == 0 || len(a) > 160 || strings.Count(a, "/") < 2 || !pathLike.MatchString(a) || strings.ContainsAny(a, " \\:,#=[]()~") || path.Clean(a) != a ||
					strings.HasPrefix(a, "../") || strings.HasPrefix(a, "testdata/") || strings.HasPrefix(a, "td/") || strings.Contains(a, "github.com") || isPath[a] || seenAux[a] || a == info.Name || len(info.Aux) >= 6 {
					continue
				}
				seenAux[a] = true
				ap := pathSpec{Path: a, Mode: 0o644, Cands: rankFixtures(pkgDir, info.Testdata, a)}
				if len(ap.Cands) > 0 {
					ap.Fixture = ap.Cands[0]
				}
				info.Aux = append(info.Aux, ap)
			}
			for i := range info.Paths {
				info.Paths[i].Cands = rankFixtures(pkgDir, info.Testdata, info.Paths[i].Path)
				if len(info.Paths[i].Cands) > 0 {
					info.Paths[i].Fixture = info.Paths[i].Cands[0]
				}
			}
			out = append(out, info)
		}
	}
	return out
}

// ---------------------------------------------------------------- jobs

var variantsQuick = []string{"valid", "empty", "half", "flip"}

// the thorough tier adds more truncation points and more flipped bits
var variantsThorough = []string{"valid", "empty", "half", "flip", "quarter", "threequarters", "flipfirst", "fliplast"}

func variantsFor(thorough bool) []string {
	if thorough {
		return variantsThorough
	}
	return variantsQuick
}

type scanJob struct {
	Ex      string `json:"ex"`      // extractor whose files make up the tree, or "*" for all at once
	Variant string `json:"variant"` // valid | empty | half | flip
	Root    string `json:"root"`    // real | virtual
	Group   string `json:"group"`   // linux | mac | windows: the capability tuple declared
	Only    string `json:"only,omitempty"`
}

func (j scanJob) String() string {
	s := fmt.Sprintf("scan tree=%s/%s root=%s caps=%s", j.Ex, j.Variant, j.Root, j.Group)
	if j.Only != "" {
		s += " only=" + j.Only
	}
	return s
}

func groupOf(req plugin.Capabilities) string {
	switch req.OS {
	case plugin.OSWindows:
		return "windows"
	case plugin.OSMac:
		return "mac"
	}
	return "linux"
}

func groupCaps(group, root string) *plugin.Capabilities {
	// DirectFS is declared for the virtual root as well: the declaration is what enables the plugins
	// that want host paths (containerd, and whatever uses GetRealPath), and the property quantifies
	// over every offline plugin on both kinds of root. With Root == "" they copy the file to TMPDIR
	// or build paths relative to the working directory; reading there is fine, only what is left
	// created/modified/deleted counts.
	_ = root
	c := &plugin.Capabilities{Network: plugin.NetworkOffline, DirectFS: true, RunningSystem: true}
	switch group {
	case "windows":
		c.OS = plugin.OSWindows
	case "mac":
		c.OS = plugin.OSMac
	default:
		c.OS = plugin.OSLinux
	}
	return c
}

// rootKinds: real = ScanRoot{FS: DirFS(tree), Path: tree}; virtual = Path "";
// elsewhere-empty / elsewhere-missing = the FS serves the tree but Path names another directory
// (an existing empty one, resp. one that does not exist) - the shape of an overlay / in-memory FS
// with a nominal mount point, where host paths built from Path do not lead to the files.
var rootKinds = []string{"real", "virtual", "elsewhere-empty", "elsewhere-missing"}

func scanJobs(infos []exInfo, thorough bool) []scanJob {
	variants := variantsFor(thorough)
	var out []scanJob
	for _, root := range rootKinds {
		for _, v := range variants {
			for _, in := range infos {
				if len(in.Paths) == 0 {
					continue
				}
				out = append(out, scanJob{Ex: in.Name, Variant: v, Root: root, Group: groupOf(in.Req)})
			}
		}
	}
	// aux-* variants: required files valid, the auxiliary files empty / cut in half / bit-flipped
	for _, root := range rootKinds {
		for _, v := range auxVariants {
			for _, in := range infos {
				if len(in.Aux) > 0 && len(in.Paths) > 0 {
					out = append(out, scanJob{Ex: in.Name, Variant: v, Root: root, Group: groupOf(in.Req)})
				}
			}
		}
	}
	for _, root := range rootKinds {
		for _, v := range sqliteVariants {
			out = append(out, scanJob{Ex: "os/rpm", Variant: v, Root: root, Group: "linux"})
		}
	}
	for _, root := range rootKinds {
		for _, v := range variants {
			for _, g := range []string{"linux", "mac", "windows"} {
				out = append(out, scanJob{Ex: "*", Variant: v, Root: root, Group: g})
			}
		}
	}
	return out
}

// sqliteVariants: rpm databases in SQLite format built by the harness (the checkout's own sqlite
// fixtures are 0-byte stubs): schema Packages(hnum, blob), WAL or rollback journal mode, rows
// holding a zeroed 16-byte "header" that go-rpmdb cannot import.
var sqliteVariants = []string{"sqlite-wal-3corrupt", "sqlite-wal-1corrupt", "sqlite-wal-norows", "sqlite-rollback-3corrupt"}

var sqliteCache = map[string][]byte{}

var auxVariants = []string{"aux-empty", "aux-half", "aux-flip"}

// sqliteRPMDB builds the database in scratch (a directory the caller removes) and returns its bytes.
func sqliteRPMDB(variant, scratch string) []byte {
	if b, ok := sqliteCache[variant]; ok {
		return b
	}
	journal, rows := "WAL", 3
	switch variant {
	case "sqlite-wal-1corrupt":
		rows = 1
	case "sqlite-wal-norows":
		rows = 0
	case "sqlite-rollback-3corrupt":
		journal = "DELETE"
	}
	must(os.MkdirAll(scratch, 0o755))
	p := filepath.Join(scratch, "rpmdb.sqlite")
	_ = os.Remove(p)
	db, err := sql.Open("sqlite3", p)
	must(err)
	db.SetMaxOpenConns(1)
	for _, stmt := range []string{"PRAGMA journal_mode=" + journal, "CREATE TABLE Packages (hnum INTEGER PRIMARY KEY AUTOINCREMENT, blob BLOB NOT NULL)"} {
		_, err := db.Exec(stmt)
		must(err)
	}
	for i := 0; i < rows; i++ {
		_, err := db.Exec("INSERT INTO Packages (blob) VALUES (?)", make([]byte, 16))
		must(err)
	}
	must(db.Close()) // checkpoints the WAL and removes -wal/-shm; the file keeps its WAL marker
	b, err := os.ReadFile(p)
	must(err)
	sqliteCache[variant] = b
	return b
}

// ---------------------------------------------------------------- trees

func variantBytes(b []byte, v string) []byte {
	switch v {
	case "empty":
		return nil
	case "half":
		return b[:len(b)/2]
	case "quarter":
		return b[:len(b)/4]
	case "threequarters":
		return b[:len(b)*3/4]
	case "flipfirst", "fliplast":
		c := append([]byte(nil), b...)
		if len(c) > 0 {
			i := 0
			if v == "fliplast" {
				i = len(c) - 1
			}
			c[i] ^= 0x10
		}
		return c
	case "flip":
		c := append([]byte(nil), b...)
		if len(c) > 0 {
			c[len(c)/2] ^= 0x10
		}
		return c
	}
	return b
}

func sanitizeName(s string) string { return strings.NewReplacer("/", "_", " ", "_").Replace(s) }

// buildTree fills dir with the files of the job's tree. It returns the number of files placed.
func buildTree(dir string, infos []exInfo, j scanJob) int {
	n := 0
	place := func(rel string, data []byte, mode fs.FileMode) {
		p := filepath.Join(dir, filepath.FromSlash(rel))
		// a path that collides with an existing file/dir of the tree is skipped (first wins)
		if _, err := os.Lstat(p); err == nil {
			return
		}
		if err := os.MkdirAll(filepath.Dir(p), 0o755); err != nil {
			return
		}
		if err := os.WriteFile(p, data, mode); err != nil {
			return
		}
		_ = os.Chmod(p, mode)
		n++
	}
	for _, in := range infos {
		if j.Ex != "*" && in.Name != j.Ex {
			continue
		}
		for _, ps := range in.Paths {
			var b []byte
			if strings.HasPrefix(j.Variant, "sqlite-") {
				scratch := filepath.Join(filepath.Dir(dir), "in", "gen")
				b = sqliteRPMDB(j.Variant, scratch)
				_ = os.RemoveAll(scratch)
				place(ps.Path, b, ps.Mode)
				continue
			}
			if ps.Fixture != "" {
				b, _ = os.ReadFile(ps.Fixture)
			}
			v := j.Variant
			if strings.HasPrefix(v, "aux-") {
				v = "valid"
			}
			place(ps.Path, variantBytes(b, v), ps.Mode)
		}
		if !strings.HasPrefix(j.Variant, "sqlite-") {
			for _, ps := range in.Aux {
				var b []byte
				if ps.Fixture != "" {
					b, _ = os.ReadFile(ps.Fixture)
				}
				place(ps.Path, variantBytes(b, strings.TrimPrefix(j.Variant, "aux-")), ps.Mode)
			}
		}
		if j.Variant == "valid" {
			// the plugin's whole testdata directory as well: most plugins match by base name or
			// extension anywhere in the tree, so all their fixtures (good and bad) get parsed too
			for _, f := range in.Testdata {
				src := filepath.Join(in.PkgDir, "testdata", filepath.FromSlash(f))
				fi, err := os.Stat(src)
				if err != nil || fi.Size() > maxFixture {
					continue
				}
				b, err := os.ReadFile(src)
				if err != nil {
					continue
				}
				place("td/"+sanitizeName(in.Name)+"/"+f, b, fi.Mode().Perm())
			}
		}
	}
	return n
}

// ---------------------------------------------------------------- running one scan

type runCounter struct {
	stats.NoopCollector
	mu   sync.Mutex
	runs map[string]int
}

func (c *runCounter) AfterExtractorRun(name string, _ time.Duration, _ error) {
	c.mu.Lock()
	c.runs[name]++
	c.mu.Unlock()
}

type scanResult struct {
	Files   int
	Ran     []string // extractors whose Extract was called, sorted
	Pkgs    int
	Status  string
	Changes []change
}

func extractorsFor(j scanJob) []filesystem.Extractor {
	caps := groupCaps(j.Group, j.Root)
	var names []string
	for k := range el.All {
		names = append(names, k)
	}
	sort.Strings(names)
	var exs []filesystem.Extractor
	for _, k := range names {
		for _, init := range el.All[k] {
			e := init()
			if e.Requirements().Network == plugin.NetworkOnline {
				continue
			}
			if j.Only != "" && e.Name() != j.Only {
				continue
			}
			if plugin.ValidateRequirements(e, caps) == nil {
				exs = append(exs, e)
			}
		}
	}
	return exs
}

// runScan builds the tree, scans it, and returns what changed anywhere in the sandbox.
// The sandbox is rebuilt afterwards.
func runScan(sb *sandbox, infos []exInfo, j scanJob) scanResult {
	var res scanResult
	tree := sb.dir("tree")
	res.Files = buildTree(tree, infos, j)
	before := snapshot(sb.R)
	cnt := &runCounter{runs: map[string]int{}}
	root := &scalibrfs.ScanRoot{FS: scalibrfs.DirFS(tree), Path: tree}
	switch j.Root {
	case "virtual":
		root.Path = ""
	case "elsewhere-empty":
		root.Path = sb.dir("in/emptyroot")
	case "elsewhere-missing":
		root.Path = sb.dir("in/missingroot")
	}
	cfg := &scalibr.ScanConfig{
		FilesystemExtractors: extractorsFor(j),
		Capabilities:         groupCaps(j.Group, j.Root),
		ScanRoots:            []*scalibrfs.ScanRoot{root},
		Stats:                cnt,
	}
	var sr *scalibr.ScanResult
	p, stack := ev.Recover(func() { sr = scalibr.New().Scan(context.Background(), cfg) })
	if p != nil {
		res.Status = "panic: " + fmt.Sprint(p) + " at " + ev.PanicSite(stack)
	} else if sr != nil {
		res.Pkgs = len(sr.Inventory.Packages)
		if sr.Status != nil {
			res.Status = sr.Status.String()
		}
	}
	after := snapshot(sb.R)
	res.Changes = diff(before, after)
	// Settling: a dependency may still be closing a handle in a goroutine of its own when Scan
	// returns (go-rpmdb's SQLite reader: the side files disappear a moment later). Only what is
	// still different after up to 2 s counts; waiting can only remove an alarm, never add one.
	for i := 0; i < 20 && len(res.Changes) > 0; i++ {
		time.Sleep(100 * time.Millisecond)
		res.Changes = diff(before, snapshot(sb.R))
	}
	for k := range cnt.runs {
		res.Ran = append(res.Ran, k)
	}
	sort.Strings(res.Ran)
	sb.rebuild()
	return res
}

// scanClasses summarises changes as sorted "<area>-<what>" classes.
func scanClasses(chs []change) (classes []string, what string) {
	set := map[string]bool{}
	var ws []string
	for _, ch := range chs {
		area, _ := relS(ch.Path)
		k := ch.Kind
		if area == "tmp" && k == "created" {
			k = "left"
		}
		if area == "S" || area == "above" || area == "in" || area == "out" || area == "outer" || area == "out2" || area == "out-evil" || area == "out.bak" || area == "OUT" || area == "Out" {
			area = "elsewhere"
		}
		set[area+"-"+k] = true
		if len(ws) < 4 {
			ws = append(ws, strings.ReplaceAll(ch.String(), chain+"/", ""))
		}
	}
	for k := range set {
		classes = append(classes, k)
	}
	sort.Strings(classes)
	if len(chs) > 4 {
		ws = append(ws, fmt.Sprintf("… %d more", len(chs)-4))
	}
	return classes, strings.Join(ws, "; ")
}

// runScanJob runs the job, and on a violation attributes it to single plugins by re-running the
// same tree with each plugin that ran alone.
func runScanJob(sb *sandbox, infos []exInfo, j scanJob) (scanResult, []viol) {
	res := runScan(sb, infos, j)
	if len(res.Changes) == 0 {
		return res, nil
	}
	var vs []viol
	if j.Only == "" {
		for _, name := range res.Ran {
			j1 := j
			j1.Only = name
			r1 := runScan(sb, infos, j1)
			if len(r1.Changes) > 0 {
				cl, what := scanClasses(r1.Changes)
				vs = append(vs, viol{Key: "scan:" + name + ":" + strings.Join(cl, "+"), What: j1.String() + ": " + what, Only: name})
			}
		}
	}
	if len(vs) == 0 {
		// no single plugin reproduces it alone (or it is intermittent): a one-plugin tree is
		// attributed to its plugin, the everything-at-once tree to "combined"
		who := "combined"
		if j.Only != "" {
			who = j.Only
		} else if j.Ex != "*" {
			who = j.Ex
		}
		cl, what := scanClasses(res.Changes)
		vs = append(vs, viol{Key: "scan:" + who + ":" + strings.Join(cl, "+"), What: j.String() + ": " + what, Only: j.Only})
	}
	return res, vs
}

// ensureCalibrated calibrates the fixtures of the plugins job j needs (once per process).
var calibrated = map[string]bool{}

func ensureCalibrated(sb *sandbox, infos []exInfo, j scanJob) {
	did := false
	for i := range infos {
		if (j.Ex == "*" || infos[i].Name == j.Ex) && !calibrated[infos[i].Name] {
			calibrated[infos[i].Name] = true
			calibrate(&infos[i], sb.dir("tree"))
			did = true
		}
	}
	if did {
		sb.rebuild()
	}
}
