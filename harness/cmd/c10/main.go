// C10 — resource limits and cancellation are hard bounds.
//
// Engine F with the environment answer = the limit value and the cancellation instant:
//
//	(A) every tree (<= N nodes) x MaxInodes in {0,1,n-1,n,n+1} x 1..2 roots;
//	(B) every tree x MaxFileSize in {0,1,s-1,s,s+1} for every file size s in the tree;
//	(C) every tree x plugin set x EVERY cancellation point of the uncancelled event log:
//	    before Scan, inside the k-th AfterInodeVisited, inside the k-th Extract, inside the
//	    k-th AfterExtractorRun (= between files), inside the j-th standalone extractor,
//	    inside the j-th detector;
//	(D') container scans of 2-3 layers holding a package list with sizes L-1, L, L+1, 3L per layer: no extraction the scan causes (incl. layer attribution) receives a file over MaxFileSize; (D) images: one file of size L-1, L, L+1 for MaxFileBytes L in {1,2,5,4096}, in layer 0
//	    or 1, with or without an older smaller version underneath.
//
// Oracle: #AfterInodeVisited <= MaxInodes and FAILED iff the roots hold more inodes; no
// Extract receives Info.Size() > MaxFileSize; after the cancellation instant no Extract
// starts on a further file and no further plugin runs, and if any Extract / plugin run of the
// uncancelled run is missing the status is FAILED; no view lists or stats a file of size >= L
// and no more than L bytes of it are on disk.
// Don't care: status when cancellation lands after all work was done; inode visits after
// cancellation; other extractors on the file being processed when cancellation hits.
package main

import (
	"context"
	"fmt"
	"io/fs"
	"math"
	"os"
	"path/filepath"
	"strings"
	"sync"
	"sync/atomic"
	"time"

	scalibr "github.com/google/osv-scalibr"
	"github.com/google/osv-scalibr/artifact/image/layerscanning/image"
	"github.com/google/osv-scalibr/detector"
	"github.com/google/osv-scalibr/extractor/filesystem"
	"github.com/google/osv-scalibr/extractor/standalone"
	scalibrfs "github.com/google/osv-scalibr/fs"
	"github.com/google/osv-scalibr/inventory"
	"github.com/google/osv-scalibr/packageindex"
	"github.com/google/osv-scalibr/plugin"
	"verif/ev"
	"verif/imgkit"
	"verif/memfs"
	"verif/scankit"
)

type label struct {
	name string
	dir  bool
	data string
}

var labels = []label{
	{"a", true, ""},
	{"b", true, ""},
	{"p1.txt", false, "1"},
	{"p2.txt", false, "22222"},
	{"junk", false, "jj"},
}

func genTrees(n int) []*memfs.Node {
	type key struct{ k, from int }
	memo := map[key][][]*memfs.Node{}
	var forests func(k, from int) [][]*memfs.Node
	forests = func(k, from int) [][]*memfs.Node {
		if k == 0 {
			return [][]*memfs.Node{nil}
		}
		if v, ok := memo[key{k, from}]; ok {
			return v
		}
		var out [][]*memfs.Node
		for i := from; i < len(labels); i++ {
			l := labels[i]
			maxSub := 0
			if l.dir {
				maxSub = k - 1
			}
			for sub := 0; sub <= maxSub; sub++ {
				for _, ch := range forests(sub, 0) {
					for _, rest := range forests(k-1-sub, i+1) {
						nd := &memfs.Node{Name: l.name, Data: l.data, Kind: memfs.File}
						if l.dir {
							nd.Kind = memfs.Dir
						}
						nd.Children = ch
						out = append(out, append([]*memfs.Node{nd}, rest...))
					}
				}
			}
		}
		memo[key{k, from}] = out
		return out
	}
	var trees []*memfs.Node
	for _, f := range forests(n, 0) {
		trees = append(trees, (&memfs.Node{Kind: memfs.Dir, Children: f}).Clone())
	}
	return trees
}

// event log of one scan
type event struct {
	kind string // inode, extract, after-extract, standalone, detector
	who  string
	path string
	size int64
}

type scanCfg struct {
	roots     []*memfs.Node
	maxInodes int
	maxSize   int
	twoEx     bool
	nStand    int
	nDet      int
	paths     []string // PathsToExtract (explicit-path mode of the walker)
	symlinks  bool     // ReadSymlinks
	deadline  bool     // the context ends with DeadlineExceeded instead of Canceled
	git       bool     // UseGitignore (the walker keeps a per-directory stack that every exit path must leave balanced)
	// cancelAt: index into the event log at which the context is cancelled (-1 never, -2 before Scan)
	cancelAt int
}

type scanOut struct {
	events   []event
	status   plugin.ScanStatusEnum
	statusS  string
	panicked string
}

// expiredCtx is a context that ends the way a deadline does: when fired, Done is closed and Err
// reports context.DeadlineExceeded (a plain cancel() reports context.Canceled).
type expiredCtx struct {
	context.Context
	done  chan struct{}
	fired atomic.Bool
}

func (c *expiredCtx) Done() <-chan struct{} { return c.done }
func (c *expiredCtx) Err() error {
	if c.fired.Load() {
		return context.DeadlineExceeded
	}
	return nil
}
func (c *expiredCtx) fire() {
	if c.fired.CompareAndSwap(false, true) {
		close(c.done)
	}
}

func runScan(c scanCfg) scanOut {
	var out scanOut
	ctx, cancel := context.WithCancel(context.Background())
	defer cancel()
	if c.deadline {
		ec := &expiredCtx{Context: context.Background(), done: make(chan struct{})}
		ctx, cancel = ec, ec.fire
	}
	rec := func(e event) {
		out.events = append(out.events, e)
		if c.cancelAt >= 0 && len(out.events)-1 == c.cancelAt {
			cancel()
		}
	}
	mkEx := func(name string, req func(filesystem.FileAPI) bool) filesystem.Extractor {
		return &scankit.Ex{N: name, Req: req, Hook: func(in *filesystem.ScanInput) {
			var sz int64 = -1
			if in.Info != nil {
				sz = in.Info.Size()
			}
			rec(event{"extract", name, in.Path, sz})
		}}
	}
	exs := []filesystem.Extractor{mkEx("ex1", scankit.ReqBase("p1.txt", "p2.txt", "lnk.txt"))}
	if c.twoEx {
		exs = append(exs, mkEx("ex2", scankit.ReqBase("p2.txt")))
	}
	var sts []standalone.Extractor
	for j := 0; j < c.nStand; j++ {
		name := fmt.Sprintf("st%d", j)
		sts = append(sts, &scankit.StEx{N: name, Fn: func(context.Context, *standalone.ScanInput) (inventory.Inventory, error) {
			rec(event{kind: "standalone", who: name})
			return inventory.Inventory{}, nil
		}})
	}
	var dets []detector.Detector
	for j := 0; j < c.nDet; j++ {
		name := fmt.Sprintf("det%d", j)
		dets = append(dets, &scankit.Det{N: name, Fn: func(context.Context, *scalibrfs.ScanRoot, *packageindex.PackageIndex) ([]*detector.Finding, error) {
			rec(event{kind: "detector", who: name})
			return nil, nil
		}})
	}
	col := &collector{rec: rec}
	var roots []*scalibrfs.ScanRoot
	for _, r := range c.roots {
		roots = append(roots, &scalibrfs.ScanRoot{FS: memfs.New(r), Path: ""})
	}
	cfg := &scalibr.ScanConfig{FilesystemExtractors: exs, StandaloneExtractors: sts, Detectors: dets, Capabilities: &plugin.Capabilities{},
		ScanRoots: roots, MaxInodes: c.maxInodes, MaxFileSize: c.maxSize, Stats: col, PathsToExtract: c.paths, ReadSymlinks: c.symlinks, UseGitignore: c.git}
	if c.cancelAt == -2 {
		cancel()
	}
	var res *scalibr.ScanResult
	p, stack := ev.Recover(func() { res = scalibr.New().Scan(ctx, cfg) })
	if p != nil {
		out.panicked = fmt.Sprintf("%v at %s", p, ev.PanicSite(stack))
		return out
	}
	out.status = res.Status.Status
	out.statusS = res.Status.String()
	return out
}

type collector struct {
	scankit.Collector
	rec func(event)
}

func (c *collector) AfterInodeVisited(p string) { c.rec(event{kind: "inode", path: p}) }
func (c *collector) AfterExtractorRun(name string, _ time.Duration, _ error) {
	c.rec(event{kind: "after-extract", who: name})
}

func countInodes(root *memfs.Node) int {
	n := 1
	memfs.Walk(root, func(string, *memfs.Node) { n++ })
	return n
}

func work(evs []event) []string {
	var w []string
	for _, e := range evs {
		switch e.kind {
		case "extract":
			w = append(w, "extract:"+e.who+":"+e.path)
		case "standalone", "detector":
			w = append(w, e.kind+":"+e.who)
		}
	}
	return w
}

func main() {
	scankit.Quiet()
	r := ev.Start("C10", "fault_enumeration", 3*time.Minute, 30*time.Minute)
	maxNodes := ev.Pick(r, 5, 6)
	complete := true
	for n := 1; n <= maxNodes && !r.Expired(); n++ {
		trees := genTrees(n)
		done := r.ParallelFor(len(trees), func(i int) {
			root := trees[i]
			ts := root.String()
			ni := countInodes(root)
			// (A) inode limit, 1 root and the same tree twice as 2 roots (the counter is shared)
			for _, nroots := range []int{1, 2} {
				total := ni * nroots
				var roots []*memfs.Node
				for k := 0; k < nroots; k++ {
					roots = append(roots, root)
				}
				var lims []int
				for l := 0; l <= total+1; l++ {
					lims = append(lims, l) // every limit: the inode that exceeds it is in turn every inode of the walk
				}
				for li := 0; li < 2*len(lims); li++ {
					lim, git := lims[li%len(lims)], li >= len(lims)
					o := runScan(scanCfg{roots: roots, maxInodes: lim, cancelAt: -1, twoEx: true, git: git})
					r.Evals.Add(1)
					inodes := 0
					for _, e := range o.events {
						if e.kind == "inode" {
							inodes++
						}
					}
					rp := map[string]any{"tree": ts, "roots": nroots, "max_inodes": lim, "use_gitignore": git}
					switch {
					case o.panicked != "":
						r.Violation("panic:"+o.panicked, o.panicked, rp)
					case lim > 0 && inodes > lim:
						r.Violation("inode-limit-exceeded", fmt.Sprintf("tree %s x%d MaxInodes=%d: %d inodes processed", ts, nroots, lim, inodes), rp)
					case lim > 0 && total > lim && o.status != plugin.ScanStatusFailed:
						r.Violation("inode-limit-hit-but-not-failed", fmt.Sprintf("tree %s x%d holds %d inodes, MaxInodes=%d, status %s", ts, nroots, total, lim, o.statusS), rp)
					case (lim == 0 || total <= lim) && o.status != plugin.ScanStatusSucceeded:
						r.Violation("inode-limit-not-hit-but-failed", fmt.Sprintf("tree %s x%d holds %d inodes, MaxInodes=%d, status %s", ts, nroots, total, lim, o.statusS), rp)
					case (lim == 0 || total <= lim) && inodes != total:
						r.Violation("inode-count", fmt.Sprintf("tree %s x%d: %d inode callbacks for %d inodes", ts, nroots, inodes, total), rp)
					}
					if lim > 0 && total > lim {
						r.Nontrivial.Add(1)
					}
				}
			}
			// (A') explicitly requested paths that do not exist are visits too: they count against the limit
			for _, lim := range []int{1, 2, 3} {
				o := runScan(scanCfg{roots: []*memfs.Node{root}, maxInodes: lim, cancelAt: -1, twoEx: true, paths: []string{"nope-1", "nope-2", "nope-3", "nope-4"}})
				r.Evals.Add(1)
				r.Nontrivial.Add(1)
				inodes := 0
				for _, e := range o.events {
					if e.kind == "inode" {
						inodes++
					}
				}
				rp := map[string]any{"tree": ts, "max_inodes": lim, "paths_to_extract": "four paths that do not exist"}
				switch {
				case o.panicked != "":
					r.Violation("panic:"+o.panicked, o.panicked, rp)
				case inodes > lim:
					r.Violation("inode-limit-exceeded", fmt.Sprintf("tree %s MaxInodes=%d, four requested paths that do not exist: %d inode visits", ts, lim, inodes), rp)
				case o.status != plugin.ScanStatusFailed:
					r.Violation("inode-limit-hit-but-not-failed", fmt.Sprintf("tree %s MaxInodes=%d, four requested paths that do not exist: status %s", ts, lim, o.statusS), rp)
				}
			}
			// (B) size limit around every file size present
			sizes := map[int]bool{}
			memfs.Walk(root, func(_ string, nd *memfs.Node) {
				if nd.Kind == memfs.File {
					sizes[len(nd.Data)] = true
				}
			})
			ref := runScan(scanCfg{roots: []*memfs.Node{root}, cancelAt: -1, twoEx: true})
			for s := range sizes {
				for _, lim := range []int{0, 1, s - 1, s, s + 1} {
					if lim < 0 {
						continue
					}
					o := runScan(scanCfg{roots: []*memfs.Node{root}, maxSize: lim, cancelAt: -1, twoEx: true})
					r.Evals.Add(1)
					rp := map[string]any{"tree": ts, "max_file_size": lim}
					skipped := 0
					got := map[string]bool{}
					for _, e := range o.events {
						if e.kind == "extract" {
							got[e.who+":"+e.path] = true
							if lim > 0 && e.size > int64(lim) {
								r.Violation("file-over-size-limit-extracted", fmt.Sprintf("tree %s MaxFileSize=%d: %s extracted %s of size %d", ts, lim, e.who, e.path, e.size), rp)
							}
						}
					}
					for _, e := range ref.events {
						if e.kind != "extract" {
							continue
						}
						if lim > 0 && e.size > int64(lim) {
							skipped++
							continue
						}
						if !got[e.who+":"+e.path] {
							r.Violation("file-within-size-limit-not-extracted", fmt.Sprintf("tree %s MaxFileSize=%d: %s on %s (size %d) missing", ts, lim, e.who, e.path, e.size), rp)
						}
					}
					if o.status != plugin.ScanStatusSucceeded {
						r.Violation("size-limit-fails-scan", fmt.Sprintf("tree %s MaxFileSize=%d: %s", ts, lim, o.statusS), rp)
					}
					if skipped > 0 {
						r.Nontrivial.Add(1)
					}
				}
			}
			// (B') the size limit applies to what the extractor is handed, also through a symlink: a
			// short link to a file over the limit must not reach any extractor
			p2 := ""
			memfs.Walk(root, func(p string, nd *memfs.Node) {
				if nd.Kind == memfs.File && nd.Name == "p2.txt" && p2 == "" {
					p2 = p
				}
			})
			if p2 != "" {
				withLink := root.Clone()
				withLink.Children = append(withLink.Children, memfs.L("lnk.txt", "/"+p2))
				for _, lim := range []int{0, 1, 4, 5, 6} {
					o := runScan(scanCfg{roots: []*memfs.Node{withLink}, maxSize: lim, cancelAt: -1, twoEx: true, symlinks: true})
					r.Evals.Add(1)
					viaLink := false
					for _, e := range o.events {
						if e.kind != "extract" {
							continue
						}
						if e.path == "lnk.txt" {
							viaLink = true
						}
						if lim > 0 && e.size > int64(lim) {
							r.Violation("file-over-size-limit-extracted", fmt.Sprintf("tree %s + lnk.txt->/%s, ReadSymlinks, MaxFileSize=%d: %s extracted %s of size %d", ts, p2, lim, e.who, e.path, e.size), map[string]any{"tree": ts, "symlink_to": p2, "max_file_size": lim})
						}
					}
					if (lim == 0 || lim >= 5) && !viaLink {
						r.Violation("file-within-size-limit-not-extracted", fmt.Sprintf("tree %s + lnk.txt->/%s, ReadSymlinks, MaxFileSize=%d: the link was not extracted", ts, p2, lim), map[string]any{"tree": ts, "symlink_to": p2, "max_file_size": lim})
					}
					if lim > 0 && lim < 5 {
						r.Nontrivial.Add(1)
					}
				}
			}
			// (C) every cancellation point
			// explicit-path mode: the first directory plus the first required file of the tree
			var reqPaths []string
			memfs.Walk(root, func(p string, nd *memfs.Node) {
				if len(reqPaths) == 0 && nd.Kind == memfs.Dir {
					reqPaths = append(reqPaths, p)
				}
			})
			memfs.Walk(root, func(p string, nd *memfs.Node) {
				if len(reqPaths) == 1 && nd.Kind == memfs.File && nd.Name != "junk" {
					reqPaths = append(reqPaths, p)
				}
			})
			for _, pl := range []struct {
				st, det int
				paths   bool
				git     bool
				dl      bool
			}{{0, 0, false, false, false}, {1, 1, false, false, false}, {2, 2, false, false, false}, {1, 1, true, false, false}, {0, 0, false, true, false}, {1, 1, true, true, false}, {2, 0, false, false, false}, {0, 2, false, false, false},
				// the same with a context that expires (DeadlineExceeded) instead of being cancelled
				{2, 2, false, false, true}, {1, 1, true, true, true}} {
				if pl.paths && len(reqPaths) == 0 {
					continue
				}
				base := scanCfg{roots: []*memfs.Node{root}, cancelAt: -1, twoEx: true, nStand: pl.st, nDet: pl.det, git: pl.git, deadline: pl.dl}
				if pl.paths {
					base.paths = reqPaths
				}
				full := runScan(base)
				fullWork := work(full.events)
				for at := -2; at < len(full.events); at++ {
					if at == -1 {
						continue
					}
					c := base
					c.cancelAt = at
					o := runScan(c)
					r.Evals.Add(1)
					rp := map[string]any{"tree": ts, "standalone": pl.st, "detectors": pl.det, "cancel_at_event": at, "paths_to_extract": base.paths, "use_gitignore": pl.git, "deadline_expiry": pl.dl}
					if o.panicked != "" {
						r.Violation("panic:"+o.panicked, o.panicked, rp)
						continue
					}
					// prefix determinism
					pre := at + 1
					if at == -2 {
						pre = 0
					}
					if len(o.events) < pre {
						r.Violation("cancelled-run-shorter-than-prefix", fmt.Sprintf("tree %s cancel@%d: only %d events", ts, at, len(o.events)), rp)
						continue
					}
					for k := 0; k < pre; k++ {
						if o.events[k] != full.events[k] {
							r.Violation("harness-nondeterminism", fmt.Sprintf("event %d differs", k), rp)
						}
					}
					// the file being processed at the cancellation instant
					curFile := ""
					if at >= 0 {
						switch full.events[at].kind {
						case "inode", "extract":
							curFile = full.events[at].path
						case "after-extract":
							for k := at; k >= 0; k-- {
								if full.events[k].kind == "extract" {
									curFile = full.events[k].path
									break
								}
							}
						}
					}
					for _, e := range o.events[pre:] {
						switch e.kind {
						case "extract":
							if e.path != curFile {
								r.Violation("extraction-started-after-cancellation", fmt.Sprintf("tree %s plugins st=%d det=%d cancel@event %d (%v): Extract(%s, %s) started afterwards", ts, pl.st, pl.det, at, evAt(full.events, at), e.who, e.path), rp)
							}
						case "standalone", "detector":
							r.Violation("plugin-run-after-cancellation", fmt.Sprintf("tree %s cancel@event %d (%v): %s %s ran afterwards", ts, at, evAt(full.events, at), e.kind, e.who), rp)
						}
					}
					// the traversal itself stops too: after the cancellation instant at most one further
					// inode is visited (the one at which the walk notices), and a tree that was not walked
					// to its end is a failed scan even if nothing that remained was required by anyone
					inodesAfter, inodesGot, inodesFull := 0, 0, 0
					for _, e := range o.events[pre:] {
						if e.kind == "inode" {
							inodesAfter++
						}
					}
					for _, e := range o.events {
						if e.kind == "inode" {
							inodesGot++
						}
					}
					for _, e := range full.events {
						if e.kind == "inode" {
							inodesFull++
						}
					}
					if inodesAfter > 1 {
						r.Violation("walk-continues-after-cancellation", fmt.Sprintf("tree %s cancel@event %d (%v): %d further inodes visited", ts, at, evAt(full.events, at), inodesAfter), rp)
					}
					if inodesGot < inodesFull && o.status != plugin.ScanStatusFailed {
						r.Violation("cancelled-with-work-remaining-but-not-failed", fmt.Sprintf("tree %s cancel@event %d (%v): %d of %d inodes visited, status %s", ts, at, evAt(full.events, at), inodesGot, inodesFull, o.statusS), rp)
					}
					gotWork := map[string]bool{}
					for _, w := range work(o.events) {
						gotWork[w] = true
					}
					missing := 0
					for _, w := range fullWork {
						if !gotWork[w] {
							missing++
						}
					}
					if missing > 0 && o.status != plugin.ScanStatusFailed {
						r.Violation("cancelled-with-work-remaining-but-not-failed", fmt.Sprintf("tree %s plugins st=%d det=%d cancel@event %d (%v): %d extractions/plugin runs missing, status %s", ts, pl.st, pl.det, at, evAt(full.events, at), missing, o.statusS), rp)
					}
					if missing > 0 {
						r.Nontrivial.Add(1)
						if r.SampleN() < 3 && len(full.events) > 8 {
							r.Sample(map[string]any{"tree": ts, "standalone": pl.st, "detectors": pl.det, "cancel_at_event": at, "event": fmt.Sprint(evAt(full.events, at)), "events_in_uncancelled_run": len(full.events)})
						}
					}
				}
			}
		})
		if done < len(trees) {
			complete = false
		}
		r.Set(fmt.Sprintf("trees_with_%d_nodes", n), len(trees))
	}
	imagePart(r)
	containerLimits(r)
	hugeSizes(r)
	r.Finish(fmt.Sprintf("every tree with <=%d nodes (dirs a,b; p1.txt size 1, p2.txt size 5 required by two extractors, junk): (A) every MaxInodes in 0..n+1 with 1 and 2 roots, gitignore handling off and on, and with four requested paths that do not exist; (B) MaxFileSize in {0,1,s-1,s,s+1} for every file size s, and through a symlink to the 5-byte file with ReadSymlinks on; (B'') Stat sizes 2^31-1..2^63-1 x limits around the same boundaries; (C) cancellation at every event of the uncancelled run (inode visit, Extract, AfterExtractorRun, standalone extractor, detector; and before Scan) for 0/1/2 standalone extractors and detectors (also two standalone extractors without detectors and two detectors without standalone extractors), whole-tree walk and explicit-path mode (first directory + first required file requested), gitignore handling off and on, context cancelled or expired (DeadlineExceeded); (D') container scans of 2-3 layers holding a package list with sizes L-1, L, L+1, 3L per layer: no extraction the scan causes (incl. layer attribution) receives a file over MaxFileSize; (D) images: file size L-1,L,L+1 x MaxFileBytes L in {1,2,5,4096} x layer position x older version underneath. non-trivial = limit actually hit / work actually cut", maxNodes), complete)
}

// hugeSizes: (B”) file sizes around the 32-bit and 63-bit boundaries (reported by Stat; the
// content is not materialised) against limits around the same boundaries. A file is handed to an
// extractor iff the limit is 0 or size <= limit — for every pair, also when either number does
// not fit a narrower integer type.
func hugeSizes(r *ev.Run) {
	sizes := []int64{1, 5, 1<<31 - 1, 1 << 31, 1<<31 + 1, 1<<32 - 1, 1 << 32, 1<<32 + 1, 1<<32 + 5, 1<<33 + 1, 1 << 62, math.MaxInt64}
	limits := []int{0, 1, 5, 6, 1<<31 - 1, 1 << 31, 1<<32 - 1, 1 << 32, 1<<32 + 1, 1 << 62, math.MaxInt64}
	for _, sz := range sizes {
		for _, lim := range limits {
			for _, nested := range []bool{false, true} {
				f := &memfs.Node{Name: "p1.txt", Kind: memfs.File, Data: "1", FakeSize: sz}
				root := memfs.D("", f, memfs.F("p2.txt", "22222"))
				if nested {
					root = memfs.D("", memfs.D("a", f), memfs.F("p2.txt", "22222"))
				}
				o := runScan(scanCfg{roots: []*memfs.Node{root}, maxSize: lim, cancelAt: -1, twoEx: true})
				r.Evals.Add(1)
				rp := map[string]any{"reported_size": sz, "max_file_size": lim, "nested": nested}
				extracted := false
				for _, e := range o.events {
					if e.kind == "extract" && strings.HasSuffix(e.path, "p1.txt") {
						extracted = true
					}
				}
				want := lim == 0 || sz <= int64(lim)
				if !want {
					r.Nontrivial.Add(1)
				}
				switch {
				case extracted && !want:
					r.Violation("file-over-size-limit-extracted", fmt.Sprintf("a file whose Stat size is %d was extracted with MaxFileSize=%d", sz, lim), rp)
				case !extracted && want:
					r.Violation("file-within-size-limit-not-extracted", fmt.Sprintf("a file whose Stat size is %d was not extracted with MaxFileSize=%d", sz, lim), rp)
				case o.status != plugin.ScanStatusSucceeded:
					r.Violation("size-limit-fails-scan", fmt.Sprintf("size %d MaxFileSize=%d: %s", sz, lim, o.statusS), rp)
				}
			}
		}
	}
}

func evAt(evs []event, at int) any {
	if at < 0 {
		return "before Scan"
	}
	return evs[at]
}

// (D) image byte limit
// containerLimits: (D') the size limit of a container scan binds every extraction the scan causes,
// including the re-extraction of older layers' versions of a file for layer attribution. A package
// list p.list exists in 2..3 layers with sizes around the limit; whatever ScanContainer does, no
// Extract call may receive a file larger than MaxFileSize, and the inode limit stays a bound too.
func containerLimits(r *ev.Run) {
	base, err := os.MkdirTemp("/dev/shm", "c10c-")
	if err != nil {
		base, _ = os.MkdirTemp("", "c10c-")
	}
	os.Setenv("TMPDIR", base)
	defer os.RemoveAll(base)
	const L = 20
	pad := func(n int) string { return "A 1\n" + strings.Repeat("#", n-4) }
	sizes := []int{L - 1, L, L + 1, 3 * L}
	var histories [][]int
	for _, a := range sizes {
		for _, b := range sizes {
			histories = append(histories, []int{a, b})
			for _, c := range sizes {
				histories = append(histories, []int{a, b, c})
			}
		}
	}
	for _, h := range histories {
		var tars [][]byte
		for i, sz := range h {
			es := []imgkit.Entry{imgkit.File("etc/p.list", pad(sz))}
			if i == 0 {
				es = append([]imgkit.Entry{imgkit.Dir("etc")}, es...)
			}
			tars = append(tars, imgkit.TarBytes(es))
		}
		img, err := image.FromV1Image(imgkit.NewImage(tars, nil), image.DefaultConfig())
		if err != nil {
			r.Violation("image-load-error", err.Error(), map[string]any{"sizes": h})
			continue
		}
		var mu sync.Mutex
		var over []string
		calls := 0
		ex := &scankit.Ex{N: "list-ex", Req: func(api filesystem.FileAPI) bool { return strings.HasSuffix(api.Path(), ".list") }, Hook: func(in *filesystem.ScanInput) {
			mu.Lock()
			defer mu.Unlock()
			calls++
			if in.Info != nil && in.Info.Size() > L {
				over = append(over, fmt.Sprintf("%s (%d bytes)", in.Path, in.Info.Size()))
			}
		}}
		cfg := &scalibr.ScanConfig{FilesystemExtractors: []filesystem.Extractor{ex}, Capabilities: &plugin.Capabilities{}, MaxFileSize: L}
		_, serr := scalibr.New().ScanContainer(context.Background(), img, cfg)
		img.CleanUp()
		r.Evals.Add(1)
		rp := map[string]any{"file_sizes_per_layer": h, "max_file_size": L}
		big := false
		for _, sz := range h {
			big = big || sz > L
		}
		if big {
			r.Nontrivial.Add(1)
		}
		if serr != nil {
			r.Violation("scan-container-error", serr.Error(), rp)
		}
		if len(over) > 0 {
			r.Violation("file-over-size-limit-extracted", fmt.Sprintf("container scan, p.list has sizes %v in layers 0.., MaxFileSize=%d: Extract received %v", h, L, over), rp)
		}
	}
}

func imagePart(r *ev.Run) {
	base, err := os.MkdirTemp("/dev/shm", "c10-")
	if err != nil {
		base, _ = os.MkdirTemp("", "c10-")
	}
	os.Setenv("TMPDIR", base)
	defer os.RemoveAll(base)
	for _, L := range []int64{1, 2, 5, 4096} {
		for _, size := range []int64{L - 1, L, L + 1} {
			for _, pos := range []int{0, 1} {
				for _, older := range []bool{false, true} {
					if older && pos == 0 {
						continue
					}
					big := imgkit.File("d/big", strings.Repeat("x", int(size)))
					var layers [][]imgkit.Entry
					l0 := []imgkit.Entry{imgkit.File("d/other", "o")}
					if older {
						l0 = append(l0, imgkit.File("d/big", "")) // an older, smaller version underneath
					}
					if pos == 0 {
						layers = [][]imgkit.Entry{append(l0, big), {imgkit.File("later", "l")}}
					} else {
						layers = [][]imgkit.Entry{l0, {big}}
					}
					var tars [][]byte
					for _, l := range layers {
						tars = append(tars, imgkit.TarBytes(l))
					}
					cfg := image.DefaultConfig()
					cfg.MaxFileBytes = L
					img, err := image.FromV1Image(imgkit.NewImage(tars, nil), cfg)
					r.Evals.Add(1)
					rp := map[string]any{"max_file_bytes": L, "size": size, "layer": pos, "older_version": older}
					if err != nil {
						r.Violation("image-load-error", err.Error(), rp)
						continue
					}
					if size >= L {
						r.Nontrivial.Add(1)
					}
					cls, _ := img.ChainLayers()
					for vi, cl := range cls {
						_ = fs.WalkDir(cl.FS(), ".", func(p string, d fs.DirEntry, err error) error {
							if err != nil || d.IsDir() {
								return nil
							}
							fi, err := d.Info()
							if err == nil && fi.Size() >= L {
								r.Violation("view-exposes-file-at-or-above-byte-limit", fmt.Sprintf("MaxFileBytes=%d: view %d lists %s with size %d", L, vi, p, fi.Size()), rp)
							}
							return nil
						})
						if fi, err := cl.FS().Stat("d/big"); err == nil && fi.Size() >= L {
							r.Violation("view-exposes-file-at-or-above-byte-limit", fmt.Sprintf("MaxFileBytes=%d: view %d stats d/big with size %d", L, vi, fi.Size()), rp)
						} else if err != nil && size < L && vi >= pos {
							r.Violation("file-below-byte-limit-missing", fmt.Sprintf("MaxFileBytes=%d size=%d: view %d has no d/big: %v", L, size, vi, err), rp)
						}
					}
					_ = filepath.Walk(img.ExtractDir, func(p string, fi os.FileInfo, err error) error {
						if err == nil && fi.Mode().IsRegular() && strings.HasSuffix(p, "/big") && fi.Size() > L {
							r.Violation("more-than-limit-bytes-on-disk", fmt.Sprintf("MaxFileBytes=%d size=%d: %d bytes written to %s", L, size, fi.Size(), p), rp)
						}
						return nil
					})
					img.CleanUp()
					if r.SampleN() < 5 && size == L {
						r.Sample(rp)
					}
				}
			}
		}
	}
}
