package main

import (
	"encoding/binary"
	"fmt"
)

// Structure-aware mutation of binary container formats (the same idea as the zip container-aware
// mutation): the header tables of ELF, PE and Mach-O seeds are located and every size / offset / count
// field in them is set to each boundary value of fieldValues. The byte-level operators cannot produce
// these: a 64-bit sh_size of 2^48 is eight coordinated bytes away from the fixture.

type structField struct {
	off, width int
	big        bool
	label      string
}

const maxStructFields = 700

func (f structField) get(b []byte) uint64 {
	var o binary.ByteOrder = binary.LittleEndian
	if f.big {
		o = binary.BigEndian
	}
	switch f.width {
	case 2:
		return uint64(o.Uint16(b[f.off:]))
	case 4:
		return uint64(o.Uint32(b[f.off:]))
	}
	return o.Uint64(b[f.off:])
}

func (f structField) put(b []byte, v uint64) {
	var o binary.ByteOrder = binary.LittleEndian
	if f.big {
		o = binary.BigEndian
	}
	switch f.width {
	case 2:
		o.PutUint16(b[f.off:], uint16(v))
	case 4:
		o.PutUint32(b[f.off:], uint32(v))
	default:
		o.PutUint64(b[f.off:], v)
	}
}

// fieldValues: the boundary values a size/offset/count field is set to (truncated to the field width).
func fieldValues(cur uint64, fileLen int, width int) []uint64 {
	cand := []uint64{0, 1, cur - 1, cur + 1, uint64(fileLen), 1<<31 - 1, 1 << 31, 1<<32 - 1, 1 << 32, 1 << 48, 1<<63 - 1, 1<<64 - 1}
	mask := uint64(1<<64 - 1)
	if width < 8 {
		mask = 1<<(8*uint(width)) - 1
	}
	seen := map[uint64]bool{cur & mask: true}
	var out []uint64
	for _, c := range cand {
		c &= mask
		if !seen[c] {
			seen[c] = true
			out = append(out, c)
		}
	}
	return out
}

// structFields lists the header fields of an ELF, PE or Mach-O seed (nil for anything else).
func structFields(b []byte) []structField {
	var out []structField
	switch {
	case len(b) >= 0x34 && string(b[:4]) == "\x7fELF":
		out = elfFields(b)
	case len(b) >= 0x40 && b[0] == 'M' && b[1] == 'Z':
		out = peFields(b)
	case len(b) >= 32:
		out = machoFields(b)
	}
	if len(out) > maxStructFields {
		out = out[:maxStructFields]
	}
	return out
}

func elfFields(b []byte) []structField {
	is64 := b[4] == 2
	big := b[5] == 2
	var out []structField
	add := func(off, width int, label string) {
		if off >= 0 && off+width <= len(b) {
			out = append(out, structField{off, width, big, label})
		}
	}
	rd := func(off, width int) uint64 {
		if off+width > len(b) {
			return 0
		}
		return structField{off, width, big, ""}.get(b)
	}
	var phoff, shoff uint64
	var phentsize, phnum, shentsize, shnum int
	if is64 {
		if len(b) < 0x40 {
			return nil
		}
		add(0x20, 8, "e_phoff")
		add(0x28, 8, "e_shoff")
		phoff, shoff = rd(0x20, 8), rd(0x28, 8)
		for _, f := range []struct {
			off  int
			name string
		}{{0x34, "e_ehsize"}, {0x36, "e_phentsize"}, {0x38, "e_phnum"}, {0x3a, "e_shentsize"}, {0x3c, "e_shnum"}, {0x3e, "e_shstrndx"}} {
			add(f.off, 2, f.name)
		}
		phentsize, phnum, shentsize, shnum = int(rd(0x36, 2)), int(rd(0x38, 2)), int(rd(0x3a, 2)), int(rd(0x3c, 2))
	} else {
		add(0x1c, 4, "e_phoff")
		add(0x20, 4, "e_shoff")
		phoff, shoff = rd(0x1c, 4), rd(0x20, 4)
		for _, f := range []struct {
			off  int
			name string
		}{{0x28, "e_ehsize"}, {0x2a, "e_phentsize"}, {0x2c, "e_phnum"}, {0x2e, "e_shentsize"}, {0x30, "e_shnum"}, {0x32, "e_shstrndx"}} {
			add(f.off, 2, f.name)
		}
		phentsize, phnum, shentsize, shnum = int(rd(0x2a, 2)), int(rd(0x2c, 2)), int(rd(0x2e, 2)), int(rd(0x30, 2))
	}
	if shnum > 64 {
		shnum = 64
	}
	if phnum > 32 {
		phnum = 32
	}
	// section headers first: extractors look at sections (.modinfo, .go.buildinfo, .dep-v0, ...)
	for i := 0; i < shnum && shentsize >= 40 && shoff < uint64(len(b)); i++ {
		base := int(shoff) + i*shentsize
		if is64 {
			add(base+0, 4, fmt.Sprintf("section %d sh_name", i))
			add(base+4, 4, fmt.Sprintf("section %d sh_type", i))
			add(base+24, 8, fmt.Sprintf("section %d sh_offset", i))
			add(base+32, 8, fmt.Sprintf("section %d sh_size", i))
			add(base+40, 4, fmt.Sprintf("section %d sh_link", i))
			add(base+44, 4, fmt.Sprintf("section %d sh_info", i))
			add(base+56, 8, fmt.Sprintf("section %d sh_entsize", i))
		} else {
			add(base+0, 4, fmt.Sprintf("section %d sh_name", i))
			add(base+4, 4, fmt.Sprintf("section %d sh_type", i))
			add(base+16, 4, fmt.Sprintf("section %d sh_offset", i))
			add(base+20, 4, fmt.Sprintf("section %d sh_size", i))
			add(base+24, 4, fmt.Sprintf("section %d sh_link", i))
			add(base+28, 4, fmt.Sprintf("section %d sh_info", i))
			add(base+36, 4, fmt.Sprintf("section %d sh_entsize", i))
		}
	}
	for i := 0; i < phnum && phentsize >= 32 && phoff < uint64(len(b)); i++ {
		base := int(phoff) + i*phentsize
		if is64 {
			add(base+8, 8, fmt.Sprintf("segment %d p_offset", i))
			add(base+32, 8, fmt.Sprintf("segment %d p_filesz", i))
			add(base+40, 8, fmt.Sprintf("segment %d p_memsz", i))
		} else {
			add(base+4, 4, fmt.Sprintf("segment %d p_offset", i))
			add(base+16, 4, fmt.Sprintf("segment %d p_filesz", i))
			add(base+20, 4, fmt.Sprintf("segment %d p_memsz", i))
		}
	}
	return out
}

func peFields(b []byte) []structField {
	var out []structField
	add := func(off, width int, label string) {
		if off >= 0 && off+width <= len(b) {
			out = append(out, structField{off, width, false, label})
		}
	}
	add(0x3c, 4, "e_lfanew")
	lfanew := int(binary.LittleEndian.Uint32(b[0x3c:]))
	if lfanew <= 0 || lfanew+24 > len(b) || string(b[lfanew:lfanew+4]) != "PE\x00\x00" {
		return out
	}
	add(lfanew+6, 2, "NumberOfSections")
	add(lfanew+12, 4, "PointerToSymbolTable")
	add(lfanew+16, 4, "NumberOfSymbols")
	add(lfanew+20, 2, "SizeOfOptionalHeader")
	nsec := int(binary.LittleEndian.Uint16(b[lfanew+6:]))
	optSize := int(binary.LittleEndian.Uint16(b[lfanew+20:]))
	opt := lfanew + 24
	if opt+2 <= len(b) {
		magic := binary.LittleEndian.Uint16(b[opt:])
		dirs := opt + 96 // PE32
		if magic == 0x20b {
			dirs = opt + 112 // PE32+
		}
		add(dirs-4, 4, "NumberOfRvaAndSizes")
		add(opt+56, 4, "SizeOfImage")
		add(opt+60, 4, "SizeOfHeaders")
		for i := 0; i < 16 && dirs+8*i+8 <= opt+optSize; i++ {
			add(dirs+8*i, 4, fmt.Sprintf("data directory %d rva", i))
			add(dirs+8*i+4, 4, fmt.Sprintf("data directory %d size", i))
		}
	}
	if nsec > 32 {
		nsec = 32
	}
	for i := 0; i < nsec; i++ {
		base := opt + optSize + 40*i
		add(base+8, 4, fmt.Sprintf("section %d VirtualSize", i))
		add(base+12, 4, fmt.Sprintf("section %d VirtualAddress", i))
		add(base+16, 4, fmt.Sprintf("section %d SizeOfRawData", i))
		add(base+20, 4, fmt.Sprintf("section %d PointerToRawData", i))
	}
	return out
}

func machoFields(b []byte) []structField {
	magic := binary.LittleEndian.Uint32(b)
	var is64, big bool
	switch magic {
	case 0xfeedface:
	case 0xfeedfacf:
		is64 = true
	case 0xcefaedfe:
		big = true
	case 0xcffaedfe:
		is64, big = true, true
	default:
		return nil
	}
	var out []structField
	add := func(off, width int, label string) {
		if off >= 0 && off+width <= len(b) {
			out = append(out, structField{off, width, big, label})
		}
	}
	rd := func(off int) uint32 {
		if off+4 > len(b) {
			return 0
		}
		return uint32(structField{off, 4, big, ""}.get(b))
	}
	add(16, 4, "ncmds")
	add(20, 4, "sizeofcmds")
	ncmds := int(rd(16))
	off := 28
	if is64 {
		off = 32
	}
	if ncmds > 64 {
		ncmds = 64
	}
	for i := 0; i < ncmds && off+8 <= len(b); i++ {
		cmd, size := rd(off), int(rd(off+4))
		add(off+4, 4, fmt.Sprintf("load command %d cmdsize", i))
		switch cmd {
		case 0x19: // LC_SEGMENT_64
			add(off+40, 8, fmt.Sprintf("segment %d fileoff", i))
			add(off+48, 8, fmt.Sprintf("segment %d filesize", i))
			add(off+64, 4, fmt.Sprintf("segment %d nsects", i))
			ns := int(rd(off + 64))
			for j := 0; j < ns && j < 16; j++ {
				sb := off + 72 + 80*j
				add(sb+40, 8, fmt.Sprintf("segment %d section %d size", i, j))
				add(sb+48, 4, fmt.Sprintf("segment %d section %d offset", i, j))
			}
		case 0x1: // LC_SEGMENT
			add(off+32, 4, fmt.Sprintf("segment %d fileoff", i))
			add(off+36, 4, fmt.Sprintf("segment %d filesize", i))
			add(off+48, 4, fmt.Sprintf("segment %d nsects", i))
			ns := int(rd(off + 48))
			for j := 0; j < ns && j < 16; j++ {
				sb := off + 56 + 68*j
				add(sb+36, 4, fmt.Sprintf("segment %d section %d size", i, j))
				add(sb+40, 4, fmt.Sprintf("segment %d section %d offset", i, j))
			}
		case 0x2: // LC_SYMTAB
			add(off+8, 4, "symtab symoff")
			add(off+12, 4, "symtab nsyms")
			add(off+16, 4, "symtab stroff")
			add(off+20, 4, "symtab strsize")
		}
		if size < 8 {
			break
		}
		off += size
	}
	return out
}
