package main

import (
	"io/fs"
	"path"
	"strings"
)

// cand is one production placement of a mutant for an extractor.
type cand struct {
	// Path is handed to Extract (slash path relative to the scan root). FileRequired must accept it.
	Path string
	// MutPath is where the mutant bytes are placed; "" means Path. When it differs from Path the file
	// at Path is the healthy fixture Comp[Path] and the mutant is a second file the extractor reads.
	MutPath string
	Perm    fs.FileMode
	// Comp are companion files: tree path -> fixture path relative to the extractor's package directory,
	// or "i:<name>" for an inline document of the inline table below.
	Comp map[string]string
	// Primary is the healthy content of the file at Path when the mutant lives elsewhere (MutPath != Path):
	// "i:<name>" inline document, or a fixture path relative to the extractor's package directory.
	Primary string
	// Seeds names the seed set of this placement: "" = the extractor's own testdata + minimal documents;
	// otherwise a set of secondarySets (files the extractor reads through input.FS besides the one it is
	// invoked on).
	Seeds string
	// Variant selects a non-default instance of the extractor (see newExtractorVariant): "tight-budget" is
	// java/archive with MaxOpenedBytes turned down to tightBudget so that its recursive size cap can be
	// exceeded — and observed — with kilobyte inputs.
	Variant string
	// NoOSRelease leaves etc/os-release out of the scene (to reach the usr/lib/os-release fallback).
	NoOSRelease bool
}

func (c cand) mutPath() string {
	if c.MutPath != "" {
		return c.MutPath
	}
	return c.Path
}

// spec says how one extractor is driven.
type spec struct {
	// RealDir: the extractor resolves input.Root/input.Path on the host (GetRealPath, bolt.Open, pe.New), so the
	// tree is materialised under /dev/shm and scanned through scalibrfs.DirFS with Root set.
	RealDir bool
	Cands   []cand
	// WatchdogS overrides the default hang watchdog (seconds) when larger (os/rpm carries its own 5 min timeout).
	WatchdogS int
	// Early: schedule this extractor's units first (work order only). os/macapps has an open finding whose
	// mutant needs ~90-120 s to run into the memory limits; started last it would be the tail of the run.
	Early bool
	// ExtraSeeds are inline minimal valid documents ("i:<name>") added to the extractor's own seeds.
	ExtraSeeds []string
}

const (
	ctrdMeta   = "var/lib/containerd/io.containerd.metadata.v1.bolt/meta.db"
	ctrdSnap   = "var/lib/containerd/io.containerd.snapshotter.v1.overlayfs/metadata.db"
	ctrdStatus = "var/lib/containerd/io.containerd.grpc.v1.cri/containers/b47fb93b51d091e16ae145b8b1438e5c011fd68cd65305fcd42fd83a13da7a8c/status"
	ctrdShim   = "ProgramData/containerd/state/io.containerd.runtime.v2.task/default/test_pod/shim.pid"
	chromeExt  = "home/u/.config/google-chrome/Default/Extensions/ghbmnnjooekpmoecnnnilnnbdlolhkhi/1.7_0/manifest.json"
	chromeMsg  = "home/u/.config/google-chrome/Default/Extensions/ghbmnnjooekpmoecnnnilnnbdlolhkhi/1.7_0/_locales/en/message.json"
)

// osFamily builds the placements of an OS extractor: the primary file itself, and etc/os-release mutated
// next to a healthy primary file.
func osFamily(primaryPath, healthy string, realDir bool, perm fs.FileMode) spec {
	return spec{RealDir: realDir, Cands: []cand{
		{Path: primaryPath, Perm: perm},
		{Path: primaryPath, Perm: perm, MutPath: "etc/os-release", Primary: healthy, Seeds: "osrelease"},
	}}
}

func one(p string) spec { return spec{Cands: []cand{{Path: p}}} }
func many(ps ...string) spec {
	s := spec{}
	for _, p := range ps {
		s.Cands = append(s.Cands, cand{Path: p})
	}
	return s
}

// specs: production paths per built-in extractor, read off each FileRequired and its test table. Every
// path is re-validated against FileRequired at run time; an extractor missing here falls back to
// guessPaths (paths derived from fixture names) and, if nothing is accepted, is reported as a cap.
var specs = map[string]spec{
	"containers/containerd": {RealDir: true, Cands: []cand{
		{Path: ctrdMeta, Comp: map[string]string{ctrdSnap: "testdata/metadata_linux_test.db", ctrdStatus: "testdata/status"}},
		{Path: ctrdMeta, MutPath: ctrdSnap, Comp: map[string]string{ctrdMeta: "testdata/meta_linux_test_single.db", ctrdStatus: "testdata/status"}},
		{Path: ctrdMeta, MutPath: ctrdStatus, Comp: map[string]string{ctrdMeta: "testdata/meta_linux_test_single.db", ctrdSnap: "testdata/metadata_linux_test.db"}},
		// runhcs containers (the Windows fixture) take their pid from shim.pid
		{Path: ctrdMeta, MutPath: ctrdShim, Comp: map[string]string{ctrdMeta: "testdata/meta_windows.db", ctrdSnap: "testdata/metadata_linux_test.db"}, Seeds: "containerd-shim"},
	}},
	"cpp/conanlock":           one("conan.lock"),
	"dart/pubspec":            one("pubspec.lock"),
	"dotnet/depsjson":         one("app/app.deps.json"),
	"dotnet/pe":               {RealDir: true, Cands: []cand{{Path: "app/App.dll"}, {Path: "app/App.exe"}}},
	"dotnet/packagesconfig":   one("app/packages.config"),
	"dotnet/packageslockjson": one("app/packages.lock.json"),
	"elixir/mixlock":          one("mix.lock"),
	"erlang/mixlock":          one("mix.lock"),
	"go/binary":               {Cands: []cand{{Path: "usr/bin/app", Perm: 0o755}}},
	"go/gomod": {Cands: []cand{
		{Path: "src/go.mod"},
		// go.sum is consulted for go < 1.17
		{Path: "src/go.mod", MutPath: "src/go.sum", Primary: "i:gomod-116", Seeds: "gosum"},
	}},
	"haskell/cabal":     one("cabal.project.freeze"),
	"haskell/stacklock": one("stack.yaml.lock"),
	"java/archive": {ExtraSeeds: jarShapeSeeds, Cands: []cand{
		{Path: "opt/app/lib/app.jar"},
		{Path: "opt/app/lib/app.jar", Variant: "tight-budget", Seeds: "jar-shapes"},
	}},
	"java/gradlelockfile":                many("gradle.lockfile", "buildscript-gradle.lockfile"),
	"java/gradleverificationmetadataxml": one("gradle/verification-metadata.xml"),
	"java/pomxml": {Cands: []cand{
		{Path: "pom.xml"},
		// the local parent (default relativePath ../pom.xml) mutated next to a child that names it
		{Path: "proj/child/pom.xml", MutPath: "proj/pom.xml", Primary: "i:pom-child", Seeds: "pom-parent"},
	}},
	"javascript/bunlock":         one("bun.lock"),
	"javascript/packagejson":     one("usr/lib/node_modules/p/package.json"),
	"javascript/packagelockjson": one("package-lock.json"),
	"javascript/pnpmlock":        one("pnpm-lock.yaml"),
	"javascript/yarnlock":        one("yarn.lock"),
	"php/composerlock":           one("composer.lock"),
	"python/condameta":           one("opt/conda/envs/e/conda-meta/pkg-1.0-0.json"),
	"python/pdmlock":             one("pdm.lock"),
	"python/pipfilelock":         one("Pipfile.lock"),
	"python/poetrylock":          one("poetry.lock"),
	"python/requirements": {Cands: []cand{
		{Path: "requirements.txt"},
		// a file pulled in with -r
		{Path: "requirements.txt", MutPath: "other/req-inc.txt", Primary: "i:req-including", Seeds: "req-include"},
	}},
	"python/setup":  one("setup.py"),
	"python/uvlock": one("uv.lock"),
	"python/wheelegg": many("usr/lib/python3/site-packages/p-1.0.dist-info/METADATA", "usr/lib/python3/site-packages/p-1.0.egg-info/PKG-INFO",
		"usr/lib/python3/site-packages/p-1.0.egg-info", "usr/lib/python3/site-packages/p-1.0.egg"),
	"r/renvlock":            one("renv.lock"),
	"ruby/gemfilelock":      one("Gemfile.lock"),
	"ruby/gemspec":          one("usr/lib/ruby/gems/3.0.0/specifications/p-1.0.gemspec"),
	"rust/cargoauditable":   {Cands: []cand{{Path: "usr/bin/app", Perm: 0o755}}},
	"rust/cargolock":        one("Cargo.lock"),
	"rust/cargotoml":        one("Cargo.toml"),
	"swift/packageresolved": one("Package.resolved"),
	"swift/podfilelock":     one("Podfile.lock"),
	"chrome/extensions": {Cands: []cand{
		{Path: chromeExt},
		// a minimal manifest whose name/description are locale placeholders, with its message.json in place
		{Path: chromeExt, Seeds: "chrome-manifest-min", Comp: map[string]string{chromeMsg: "i:chrome-messages-min"}},
		// the locale file mutated next to that manifest
		{Path: chromeExt, MutPath: chromeMsg, Primary: "i:chrome-manifest-min", Seeds: "chrome-messages"},
	}},
	"vscode/extensions": one("home/u/.vscode/extensions/extensions.json"),
	"wordpress/plugins": one("var/www/html/wp-content/plugins/p/p.php"),
	"os/apk":            osFamily("lib/apk/db/installed", "testdata/single", false, 0),
	"os/cos":            osFamily("etc/cos-package-info.json", "testdata/single.json", false, 0),
	"os/dpkg": {ExtraSeeds: []string{"dpkg-status", "dpkg-status-min"}, Cands: []cand{
		{Path: "var/lib/dpkg/status"}, {Path: "var/lib/dpkg/status.d/pkg"}, {Path: "usr/lib/opkg/status"},
		{Path: "var/lib/dpkg/status", MutPath: "etc/os-release", Primary: "i:dpkg-status", Seeds: "osrelease"},
		{Path: "var/lib/dpkg/status", MutPath: "usr/lib/os-release", Primary: "i:dpkg-status", Seeds: "osrelease", NoOSRelease: true},
	}},
	"os/flatpak":        osFamily("var/lib/flatpak/app/org.x.App/current/active/export/share/metainfo/org.x.App.metainfo.xml", "testdata/valid.xml", false, 0),
	"os/homebrew":       many("usr/local/Cellar/app/1.0/INSTALL_RECEIPT.json", "usr/local/Caskroom/app/1.0/app.wrapper.sh"),
	"os/kernel/module":  osFamily("lib/modules/6.1.0/kernel/drivers/x/x.ko", "testdata/valid", false, 0),
	"os/kernel/vmlinuz": osFamily("boot/vmlinuz-6.1.0", "testdata/invalid", false, 0),
	"os/macapps":        {Early: true, Cands: []cand{{Path: "Applications/X.app/Contents/Info.plist"}}},
	"os/nix":            osFamily("nix/store/1ddf3x30m0z6kknmrmapsc7liz8npi1w-perl-5.38.2/bin/ptar", "i:one-byte", false, 0),
	"os/pacman":         osFamily("var/lib/pacman/local/pkg-1.0-1/desc", "testdata/valid", false, 0),
	"os/portage":        osFamily("var/db/pkg/cat/pkg-1.0/PF", "testdata/valid", false, 0),
	// go-rpmdb sniffs the database format from the content, not from the name.
	"os/rpm":    osFamily("var/lib/rpm/Packages", "testdata/Packages_epoch", true, 0),
	"os/snap":   osFamily("snap/core/1/meta/snap.yaml", "testdata/single-arch.yaml", false, 0),
	"sbom/cdx":  many("sbom/a.cdx.json", "sbom/a.cdx.xml"),
	"sbom/spdx": many("sbom/a.spdx.json", "sbom/a.spdx", "sbom/a.spdx.yml", "sbom/a.spdx.rdf"),
}

// guessPaths proposes placements for an extractor that has no entry in specs: the fixture's own
// relative path below testdata/, its base name, and a few conventional prefixes.
func guessPaths(seedRels []string) []string {
	var out []string
	seen := map[string]bool{}
	add := func(p string) {
		p = strings.TrimPrefix(path.Clean(p), "/")
		if p != "" && p != "." && !seen[p] {
			seen[p] = true
			out = append(out, p)
		}
	}
	for _, r := range seedRels {
		add(r)
		add(path.Base(r))
		add("usr/lib/" + path.Base(r))
	}
	return out
}

// inline documents (healthy primary files and seeds of secondary inputs)
var inline = map[string]string{
	"one-byte":    "x",
	"dpkg-status": healthyDpkg,
	// the same record with every variable-length field at its minimal length
	"dpkg-status-min": "Package: a\nStatus: install ok installed\nSource: b (1)\nVersion: 2\nArchitecture: c\n\n",
	// os-release(5): a typical file, and one whose values are all empty quoted strings
	"osrelease-valid":        osRelease,
	"osrelease-empty-values": "NAME=\"\"\nID=\"\"\nVERSION_ID=\"\"\n",
	// chrome: minimal manifest v3 whose name/description are __MSG_key__ placeholders (one-character and
	// empty key) resolved through _locales/<default_locale>/message.json
	"chrome-manifest-min": `{"manifest_version":3,"name":"__MSG_a__","description":"__MSG___","version":"1.0","default_locale":"en"}`,
	"chrome-messages-min": `{"a":{"message":"An extension"},"":{"message":"x"}}`,
	"gomod-116":           "module example.com/m\n\ngo 1.16\n\nrequire github.com/BurntSushi/toml v1.0.0\n",
	"gosum-min":           "github.com/BurntSushi/toml v1.0.0 h1:dtDWrepsVPfW9H/4y7dDgFc2MBUSeJhlaDtK13CxFlU=\ngithub.com/BurntSushi/toml v1.0.0/go.mod h1:CxXYINrC8qIiEnFrOxCa7Jy5BFHlXnUU2pbicEuybxQ=\n",
	"req-including":       "-r other/req-inc.txt\nflask==3.0.0\n",
	"req-included":        "requests==2.31.0\n",
	"pom-child":           `<project><modelVersion>4.0.0</modelVersion><parent><groupId>org.example</groupId><artifactId>parent</artifactId><version>1.0</version></parent><artifactId>child</artifactId><dependencies><dependency><groupId>junit</groupId><artifactId>junit</artifactId></dependency></dependencies></project>`,
	"pom-parent":          `<project><modelVersion>4.0.0</modelVersion><groupId>org.example</groupId><artifactId>parent</artifactId><version>1.0</version><packaging>pom</packaging><properties><junit.version>4.12</junit.version></properties><dependencyManagement><dependencies><dependency><groupId>junit</groupId><artifactId>junit</artifactId><version>${junit.version}</version></dependency></dependencies></dependencyManagement></project>`,
}

// secondarySet describes the seeds of one kind of secondary input.
type secondarySet struct {
	Inline []string // names in inline
	// FixtureDir (relative to the repository) and Match select fixture files; Match is a suffix list, empty = all.
	FixtureDir string
	Match      []string
	NoMinimal  bool     // do not add the minimal documents
	Full       []string // complete seed ids ("b:<built archive>", ...)
	MaxSize    int      // fixtures larger than this are left out (0 = no limit)
}

// jarShapeSeeds are the built nested-archive shapes (container.go) as seed ids.
var jarShapeSeeds = []string{"b:jar-min", "b:jar-broken-inner-2", "b:jar-broken-inner-8", "b:jar-broken-inner-400", "b:jar-healthy-inner-8", "b:jar-mixed-inner-16", "b:jar-nested-3-broken-leaves"}

var secondarySets = map[string]secondarySet{
	"jar-shapes":          {Full: jarShapeSeeds, FixtureDir: "extractor/filesystem/language/java/archive/testdata", Match: []string{".jar"}, MaxSize: 64 << 10, NoMinimal: true},
	"osrelease":           {Inline: []string{"osrelease-valid", "osrelease-empty-values"}},
	"chrome-manifest-min": {Inline: []string{"chrome-manifest-min"}, NoMinimal: true},
	"chrome-messages":     {Inline: []string{"chrome-messages-min"}, FixtureDir: "extractor/filesystem/misc/chrome/extensions/testdata", Match: []string{"/message.json", "/messages.json"}},
	"gosum":               {Inline: []string{"gosum-min"}, FixtureDir: "extractor/filesystem/language/golang/gomod/testdata", Match: []string{".sum"}},
	"req-include":         {Inline: []string{"req-included"}, FixtureDir: "extractor/filesystem/language/python/requirements/testdata"},
	"containerd-shim":     {FixtureDir: "extractor/filesystem/containers/containerd/testdata", Match: []string{"/shim.pid", "/state.json"}},
	"pom-parent":          {Inline: []string{"pom-parent"}, FixtureDir: "extractor/filesystem/language/java/pomxml/testdata"},
}
