package main

import (
	"io/fs"
	"path"
	"strings"
)

// cand is one production placement of a mutant for an extractor.
type cand struct {
	// Path is handed to Extract (slash path relative to the scan root). FileRequired must accept it.
	Path string
	// MutPath is where the mutant bytes are placed; "" means Path. When it differs from Path the file
	// at Path is the healthy fixture Comp[Path] and the mutant is a second file the extractor reads.
	MutPath string
	Perm    fs.FileMode
	// Comp are companion files: tree path -> fixture path relative to the extractor's package directory.
	Comp map[string]string
}

func (c cand) mutPath() string {
	if c.MutPath != "" {
		return c.MutPath
	}
	return c.Path
}

// spec says how one extractor is driven.
type spec struct {
	// RealDir: the extractor resolves input.Root/input.Path on the host (GetRealPath, bolt.Open, pe.New), so the
	// tree is materialised under /dev/shm and scanned through scalibrfs.DirFS with Root set.
	RealDir bool
	Cands   []cand
	// WatchdogS overrides the default hang watchdog (seconds) when larger (os/rpm carries its own 5 min timeout).
	WatchdogS int
}

const (
	ctrdMeta   = "var/lib/containerd/io.containerd.metadata.v1.bolt/meta.db"
	ctrdSnap   = "var/lib/containerd/io.containerd.snapshotter.v1.overlayfs/metadata.db"
	ctrdStatus = "var/lib/containerd/io.containerd.grpc.v1.cri/containers/b47fb93b51d091e16ae145b8b1438e5c011fd68cd65305fcd42fd83a13da7a8c/status"
	chromeExt  = "home/u/.config/google-chrome/Default/Extensions/ghbmnnjooekpmoecnnnilnnbdlolhkhi/1.7_0/manifest.json"
)

func one(p string) spec { return spec{Cands: []cand{{Path: p}}} }
func many(ps ...string) spec {
	s := spec{}
	for _, p := range ps {
		s.Cands = append(s.Cands, cand{Path: p})
	}
	return s
}

// specs: production paths per built-in extractor, read off each FileRequired and its test table. Every
// path is re-validated against FileRequired at run time; an extractor missing here falls back to
// guessPaths (paths derived from fixture names) and, if nothing is accepted, is reported as a cap.
var specs = map[string]spec{
	"containers/containerd": {RealDir: true, Cands: []cand{
		{Path: ctrdMeta, Comp: map[string]string{ctrdSnap: "testdata/metadata_linux_test.db", ctrdStatus: "testdata/status"}},
		{Path: ctrdMeta, MutPath: ctrdSnap, Comp: map[string]string{ctrdMeta: "testdata/meta_linux_test_single.db", ctrdStatus: "testdata/status"}},
		{Path: ctrdMeta, MutPath: ctrdStatus, Comp: map[string]string{ctrdMeta: "testdata/meta_linux_test_single.db", ctrdSnap: "testdata/metadata_linux_test.db"}},
	}},
	"cpp/conanlock":                      one("conan.lock"),
	"dart/pubspec":                       one("pubspec.lock"),
	"dotnet/depsjson":                    one("app/app.deps.json"),
	"dotnet/pe":                          {RealDir: true, Cands: []cand{{Path: "app/App.dll"}, {Path: "app/App.exe"}}},
	"dotnet/packagesconfig":              one("app/packages.config"),
	"dotnet/packageslockjson":            one("app/packages.lock.json"),
	"elixir/mixlock":                     one("mix.lock"),
	"erlang/mixlock":                     one("mix.lock"),
	"go/binary":                          {Cands: []cand{{Path: "usr/bin/app", Perm: 0o755}}},
	"go/gomod":                           one("src/go.mod"),
	"haskell/cabal":                      one("cabal.project.freeze"),
	"haskell/stacklock":                  one("stack.yaml.lock"),
	"java/archive":                       one("opt/app/lib/app.jar"),
	"java/gradlelockfile":                many("gradle.lockfile", "buildscript-gradle.lockfile"),
	"java/gradleverificationmetadataxml": one("gradle/verification-metadata.xml"),
	"java/pomxml":                        one("pom.xml"),
	"javascript/bunlock":                 one("bun.lock"),
	"javascript/packagejson":             one("usr/lib/node_modules/p/package.json"),
	"javascript/packagelockjson":         one("package-lock.json"),
	"javascript/pnpmlock":                one("pnpm-lock.yaml"),
	"javascript/yarnlock":                one("yarn.lock"),
	"php/composerlock":                   one("composer.lock"),
	"python/condameta":                   one("opt/conda/envs/e/conda-meta/pkg-1.0-0.json"),
	"python/pdmlock":                     one("pdm.lock"),
	"python/pipfilelock":                 one("Pipfile.lock"),
	"python/poetrylock":                  one("poetry.lock"),
	"python/requirements":                one("requirements.txt"),
	"python/setup":                       one("setup.py"),
	"python/uvlock":                      one("uv.lock"),
	"python/wheelegg": many("usr/lib/python3/site-packages/p-1.0.dist-info/METADATA", "usr/lib/python3/site-packages/p-1.0.egg-info/PKG-INFO",
		"usr/lib/python3/site-packages/p-1.0.egg-info", "usr/lib/python3/site-packages/p-1.0.egg"),
	"r/renvlock":            one("renv.lock"),
	"ruby/gemfilelock":      one("Gemfile.lock"),
	"ruby/gemspec":          one("usr/lib/ruby/gems/3.0.0/specifications/p-1.0.gemspec"),
	"rust/cargoauditable":   {Cands: []cand{{Path: "usr/bin/app", Perm: 0o755}}},
	"rust/cargolock":        one("Cargo.lock"),
	"rust/cargotoml":        one("Cargo.toml"),
	"swift/packageresolved": one("Package.resolved"),
	"swift/podfilelock":     one("Podfile.lock"),
	"chrome/extensions":     one(chromeExt),
	"vscode/extensions":     one("home/u/.vscode/extensions/extensions.json"),
	"wordpress/plugins":     one("var/www/html/wp-content/plugins/p/p.php"),
	"os/apk":                one("lib/apk/db/installed"),
	"os/cos":                one("etc/cos-package-info.json"),
	"os/dpkg":               many("var/lib/dpkg/status", "var/lib/dpkg/status.d/pkg", "usr/lib/opkg/status"),
	"os/flatpak":            one("var/lib/flatpak/app/org.x.App/current/active/export/share/metainfo/org.x.App.metainfo.xml"),
	"os/homebrew":           many("usr/local/Cellar/app/1.0/INSTALL_RECEIPT.json", "usr/local/Caskroom/app/1.0/app.wrapper.sh"),
	"os/kernel/module":      one("lib/modules/6.1.0/kernel/drivers/x/x.ko"),
	"os/kernel/vmlinuz":     one("boot/vmlinuz-6.1.0"),
	"os/macapps":            one("Applications/X.app/Contents/Info.plist"),
	"os/nix":                one("nix/store/1ddf3x30m0z6kknmrmapsc7liz8npi1w-perl-5.38.2/bin/ptar"),
	"os/pacman":             one("var/lib/pacman/local/pkg-1.0-1/desc"),
	"os/portage":            one("var/db/pkg/cat/pkg-1.0/PF"),
	// go-rpmdb sniffs the database format from the content, not from the name.
	"os/rpm":    {RealDir: true, Cands: []cand{{Path: "var/lib/rpm/Packages"}}},
	"os/snap":   one("snap/core/1/meta/snap.yaml"),
	"sbom/cdx":  many("sbom/a.cdx.json", "sbom/a.cdx.xml"),
	"sbom/spdx": many("sbom/a.spdx.json", "sbom/a.spdx", "sbom/a.spdx.yml", "sbom/a.spdx.rdf"),
}

// guessPaths proposes placements for an extractor that has no entry in specs: the fixture's own
// relative path below testdata/, its base name, and a few conventional prefixes.
func guessPaths(seedRels []string) []string {
	var out []string
	seen := map[string]bool{}
	add := func(p string) {
		p = strings.TrimPrefix(path.Clean(p), "/")
		if p != "" && p != "." && !seen[p] {
			seen[p] = true
			out = append(out, p)
		}
	}
	for _, r := range seedRels {
		add(r)
		add(path.Base(r))
		add("usr/lib/" + path.Base(r))
	}
	return out
}
