package main

import (
	"context"
	"errors"
	"fmt"
	"io"
	"io/fs"
	"os"
	"path"
	"sort"

	scalibr "github.com/google/osv-scalibr"
	"github.com/google/osv-scalibr/extractor"
	"github.com/google/osv-scalibr/extractor/filesystem"
	scalibrfs "github.com/google/osv-scalibr/fs"
	"github.com/google/osv-scalibr/inventory"
	"github.com/google/osv-scalibr/plugin"
	"verif/memfs"
	"verif/scankit"
)

// Confinement of every KIND of extractor failure, independent of which real extractor can produce it today:
// a harmless extractor that fails on its file with each error class an extractor may return (its own
// timeout or cancellation — wrapped or bare context errors while the scan's context is alive —, I/O errors,
// permission errors, the memory-limit sentinel, a custom error, joined errors, an error together with
// packages, and plain success) is scanned with scalibr.Scanner.Scan next to a recording extractor with a
// healthy file. Every combination of error class x position of the bad file relative to the good one in
// the walk x order of the two extractors in the plugin list is run. Demanded: Scan returns, the recording
// extractor's package is reported and its status is SUCCEEDED, and the failing extractor has a status:
// FAILED / PARTIALLY_SUCCEEDED when it returned an error, SUCCEEDED otherwise.

type errClassCase struct {
	name     string
	err      error
	withPkgs bool
}

var errCustom = errors.New("c02: custom extractor failure")

func engineCases() []errClassCase {
	perm := &fs.PathError{Op: "open", Path: "bad.dat", Err: fs.ErrPermission}
	return []errClassCase{
		{name: "nil-no-packages"},
		{name: "nil-with-packages", withPkgs: true},
		{name: "custom-error", err: errCustom},
		{name: "custom-error-with-packages", err: errCustom, withPkgs: true},
		{name: "wrapped-context.DeadlineExceeded", err: fmt.Errorf("parse timed out: %w", context.DeadlineExceeded)},
		{name: "wrapped-context.Canceled", err: fmt.Errorf("parse cancelled: %w", context.Canceled)},
		{name: "bare-context.DeadlineExceeded", err: context.DeadlineExceeded},
		{name: "bare-context.Canceled", err: context.Canceled},
		{name: "wrapped-context.DeadlineExceeded-with-packages", err: fmt.Errorf("halted: %w", context.DeadlineExceeded), withPkgs: true},
		{name: "os.ErrDeadlineExceeded", err: fmt.Errorf("read: %w", os.ErrDeadlineExceeded)},
		{name: "io.ErrUnexpectedEOF", err: fmt.Errorf("decode: %w", io.ErrUnexpectedEOF)},
		{name: "io.EOF", err: io.EOF},
		{name: "fs.ErrPermission", err: perm},
		{name: "fs.ErrNotExist", err: fmt.Errorf("open sibling: %w", fs.ErrNotExist)},
		{name: "fs.SkipDir", err: fs.SkipDir},
		{name: "fs.SkipAll", err: fs.SkipAll},
		{name: "memory-limit-sentinel", err: fmt.Errorf("%w: too large", filesystem.ErrExtractorMemoryLimitExceeded)},
		{name: "joined-errors", err: errors.Join(errCustom, fmt.Errorf("and: %w", context.Canceled))},
	}
}

type engineCombo struct {
	c          errClassCase
	badDirs    []string // directories holding a bad file, relative to the good file's directory "m"
	badFirstEx bool     // failing extractor listed before the recording one
}

func engineCombos() []engineCombo {
	var out []engineCombo
	for _, c := range engineCases() {
		for _, dirs := range [][]string{{"a"}, {"z"}, {"a", "z"}} {
			for _, first := range []bool{true, false} {
				out = append(out, engineCombo{c: c, badDirs: dirs, badFirstEx: first})
			}
		}
	}
	return out
}

func (k engineCombo) String() string {
	return fmt.Sprintf("failing extractor returns %s; bad file(s) in %v, good file in m/; failing extractor listed first=%v", k.c.name, k.badDirs, k.badFirstEx)
}

// runEngineCombo returns "" when the demands hold, otherwise (key suffix, description).
func runEngineCombo(k engineCombo) (keySuffix, what, stack string) {
	// b/ and y/ hold healthy files of the FAILING extractor: whatever it returned for bad.dat, it must still
	// be run on its other files, before and after the bad one (confinement is per file)
	root := memfs.D("", memfs.D("m", memfs.F("good.txt", "good")), memfs.D("b", memfs.F("ok.dat", "ok")), memfs.D("y", memfs.F("ok.dat", "ok")))
	for _, d := range k.badDirs {
		root.Children = append(root.Children, memfs.D(d, memfs.F("bad.dat", "bad")))
	}
	sort.Slice(root.Children, func(a, b int) bool { return root.Children[a].Name < root.Children[b].Name })
	failing := &scankit.Ex{N: "c02/failing", Req: scankit.ReqBase("bad.dat", "ok.dat"),
		Out: func(e *scankit.Ex, in *filesystem.ScanInput, _ []byte, _ error) (inventory.Inventory, error) {
			inv := inventory.Inventory{}
			if path.Base(in.Path) == "ok.dat" {
				inv.Packages = []*extractor.Package{{Name: "ok|" + in.Path, Version: "1", Locations: []string{in.Path}}}
				return inv, nil
			}
			if k.c.withPkgs {
				inv.Packages = []*extractor.Package{{Name: "partial|" + in.Path, Version: "1", Locations: []string{in.Path}}}
			}
			return inv, k.c.err
		}}
	// the recording extractor also requires the bad file itself: what another extractor returned for a file
	// must not keep the remaining extractors from being run on that same file
	recording := &scankit.Ex{N: "c02/recording", Req: scankit.ReqBase("good.txt", "bad.dat")}
	exs := []filesystem.Extractor{recording, failing}
	if k.badFirstEx {
		exs = []filesystem.Extractor{failing, recording}
	}
	var sr *scalibr.ScanResult
	p, st := recoverBig(func() {
		sr = scalibr.New().Scan(context.Background(), &scalibr.ScanConfig{
			FilesystemExtractors: exs,
			Capabilities:         &plugin.Capabilities{OS: plugin.OSLinux, Network: plugin.NetworkOffline},
			ScanRoots:            []*scalibrfs.ScanRoot{{FS: safeFS{memfs.New(root)}, Path: ""}},
		})
	})
	if p != nil {
		return "scan-panic", fmt.Sprintf("Scan panicked: %v", p), trimStack(st)
	}
	if sr == nil || sr.Status == nil {
		return "scan-aborted", "Scan returned no result", ""
	}
	goodPkg := false
	okPkgs := map[string]bool{}
	sameFile := 0
	for _, pk := range sr.Inventory.Packages {
		for _, d := range k.badDirs {
			if pk.Name == "c02/recording|"+d+"/bad.dat" {
				sameFile++
			}
		}
		if pk.Name == "c02/recording|m/good.txt" {
			goodPkg = true
		}
		if pk.Name == "ok|b/ok.dat" || pk.Name == "ok|y/ok.dat" {
			okPkgs[pk.Name] = true
		}
	}
	status := map[string]*plugin.ScanStatus{}
	for _, s := range sr.PluginStatus {
		status[s.Name] = s.Status
	}
	obs := fmt.Sprintf("overall=%s, packages=%d, recording status=%s, failing status=%s", sr.Status, len(sr.Inventory.Packages), stStr(status["c02/recording"]), stStr(status["c02/failing"]))
	switch {
	case !goodPkg || status["c02/recording"] == nil || status["c02/recording"].Status != plugin.ScanStatusSucceeded || status["c02/failing"] == nil:
		return "scan-aborted", "the failure of one extractor on one file was not confined (the scan's context was alive): " + obs, ""
	case sameFile != len(k.badDirs):
		return "other-extractors-skipped-for-the-same-file", fmt.Sprintf("the recording extractor also requires bad.dat but reported %d of %d packages for it: what one extractor returns for a file must not stop the remaining extractors from seeing that file: %s", sameFile, len(k.badDirs), obs), ""
	case len(okPkgs) != 2:
		return "other-files-of-failing-extractor-skipped", fmt.Sprintf("the failing extractor's healthy files b/ok.dat and y/ok.dat were not both extracted (got %v): a failure on one file must not stop the extractor from being run on its other files: %s", keysOf(okPkgs), obs), ""
	case k.c.err != nil && status["c02/failing"].Status != plugin.ScanStatusFailed && status["c02/failing"].Status != plugin.ScanStatusPartiallySucceeded:
		return "failure-not-in-status", "the failing extractor is not reported FAILED / PARTIALLY_SUCCEEDED: " + obs, ""
	case k.c.err == nil && status["c02/failing"].Status != plugin.ScanStatusSucceeded:
		return "success-not-in-status", "an extractor that returned no error is not reported SUCCEEDED: " + obs, ""
	}
	return "", obs, ""
}

func keysOf(m map[string]bool) []string {
	out := []string{}
	for k := range m {
		out = append(out, k)
	}
	sort.Strings(out)
	return out
}

func stStr(s *plugin.ScanStatus) string {
	if s == nil {
		return "ABSENT"
	}
	return s.String()
}

// Real-extractor variant of the per-file demand: java/archive with MaxOpenedBytes turned down (tight-budget
// instance), an over-budget jar (8 inner "jars" of a quarter budget each) and two healthy jars, one visited
// before and one after it.
var realJarOrders = [][]string{{"a"}, {"z"}, {"a", "z"}}

func runRealJarCombo(overDirs []string) (keySuffix, what, stack string) {
	healthy := string(packArchive(builtArchives["jar-min"]))
	over := string(packArchive(builtArchives["jar-broken-inner-8"]))
	root := memfs.D("", memfs.D("m", memfs.F("good.txt", "good")), memfs.D("b", memfs.F("h1.jar", healthy)), memfs.D("y", memfs.F("h2.jar", healthy)))
	for _, d := range overDirs {
		root.Children = append(root.Children, memfs.D(d, memfs.F("over.jar", over)))
	}
	sort.Slice(root.Children, func(a, b int) bool { return root.Children[a].Name < root.Children[b].Name })
	jar := newExtractorVariant("java/archive", "tight-budget")
	recording := &scankit.Ex{N: "c02/recording", Req: scankit.ReqBase("good.txt")}
	var sr *scalibr.ScanResult
	p, st := recoverBig(func() {
		sr = scalibr.New().Scan(context.Background(), &scalibr.ScanConfig{
			FilesystemExtractors: []filesystem.Extractor{jar, recording},
			Capabilities:         &plugin.Capabilities{OS: plugin.OSLinux, Network: plugin.NetworkOffline},
			ScanRoots:            []*scalibrfs.ScanRoot{{FS: safeFS{memfs.New(root)}, Path: ""}},
		})
	})
	if p != nil {
		return "scan-panic", fmt.Sprintf("Scan panicked: %v", p), trimStack(st)
	}
	if sr == nil || sr.Status == nil {
		return "scan-aborted", "Scan returned no result", ""
	}
	from := map[string]bool{}
	for _, pk := range sr.Inventory.Packages {
		if len(pk.Locations) > 0 {
			from[pk.Locations[0]] = true
		}
	}
	status := map[string]*plugin.ScanStatus{}
	for _, s := range sr.PluginStatus {
		status[s.Name] = s.Status
	}
	obs := fmt.Sprintf("overall=%s, packages from %v, java/archive status=%s, recording status=%s", sr.Status, keysOf(from), stStr(status["java/archive"]), stStr(status["c02/recording"]))
	switch {
	case status["java/archive"] == nil || status["c02/recording"] == nil || !from["m/good.txt"]:
		return "scan-aborted", "an over-budget jar was not confined: " + obs, ""
	case !from["b/h1.jar"] || !from["y/h2.jar"]:
		return "other-files-of-failing-extractor-skipped", "java/archive (MaxOpenedBytes=256 KiB) did not report the healthy jars b/h1.jar and y/h2.jar scanned next to an over-budget jar: " + obs, ""
	case status["java/archive"].Status != plugin.ScanStatusFailed && status["java/archive"].Status != plugin.ScanStatusPartiallySucceeded:
		// only judged when the over-budget jar really made Extract fail, which the direct call decides
		if directJarFails(jar, over) {
			return "failure-not-in-status", "java/archive failed on the over-budget jar but is not reported FAILED / PARTIALLY_SUCCEEDED: " + obs, ""
		}
	}
	return "", obs, ""
}

func directJarFails(jar filesystem.Extractor, data string) bool {
	m := safeFS{memfs.New(memfs.D("", memfs.F("x.jar", data)))}
	f, err := m.Open("x.jar")
	if err != nil {
		return false
	}
	defer f.Close()
	fi, _ := f.Stat()
	var xerr error
	recoverBig(func() {
		_, xerr = newExtractorVariant("java/archive", "tight-budget").Extract(context.Background(), &filesystem.ScanInput{FS: m, Path: "x.jar", Info: fi, Reader: f})
	})
	return xerr != nil
}

// runEngineUnit runs every combination (or only u.Seq for a replay).
func runEngineUnit(u unit) error {
	combos := engineCombos()
	var evals int64
	for i, k := range combos {
		if u.Data != nil && i != u.Seq {
			continue
		}
		announce(i)
		evals++
		if suffix, what, stack := runEngineCombo(k); suffix != "" {
			send(msg{T: "viol", Key: "engine:contain:" + suffix, Seq: i, Stack: stack, What: fmt.Sprintf("%s [%s]", what, k)})
		}
	}
	for j, dirs := range realJarOrders {
		i := len(combos) + j
		if u.Data != nil && i != u.Seq {
			continue
		}
		announce(i)
		evals++
		if suffix, what, stack := runRealJarCombo(dirs); suffix != "" {
			send(msg{T: "viol", Key: "engine:contain:" + suffix, Seq: i, Stack: stack, What: fmt.Sprintf("%s [real java/archive, over-budget jar in %v, healthy jars in b/ and y/]", what, dirs)})
		}
	}
	send(msg{T: "done", Evals: evals, Exerc: evals})
	return nil
}
