// C02 — no file content can crash or hang a built-in extractor.
//
// Bounded form decided here (deviation-bounded exhaustive exploration, NOT fuzzing — there is no
// randomness anywhere): for every offline built-in filesystem extractor (el.All minus java/pomxmlnet),
// every seed (every regular file below the extractor package's testdata/ plus 14 minimal documents) and
// every production placement of the table in paths.go, EVERY mutant at edit distance <= 1 under operator
// set v1 (mutate.go) is handed to Extract through a complete ScanInput; a panic, a hang or a memory abort
// is a violation. SECONDARY inputs are part of the space: files an extractor opens through input.FS besides the
// one it is invoked on (etc/os-release and usr/lib/os-release for the OS family, chrome
// _locales/<locale>/message.json, go.sum, requirements -r includes, the local parent pom.xml, containerd's
// snapshotter metadata.db and CRI status file) are mutated with the same operators while the primary file is
// kept healthy (placements with MutPath in paths.go). Second half (containment): one representative mutant per (extractor, error class) is
// scanned with scalibr.Scanner.Scan next to a healthy file of another extractor.
//
// Third part (engine.go): the same confinement demand for every error CLASS an extractor can return, produced
// by a harmless fake extractor next to a recording one, so that it does not depend on which real extractor
// happens to return, say, a wrapped context.DeadlineExceeded of its own per-file timeout today.
//
// Process architecture: the parent enumerates units (extractor x seed x placement, smallest seed first)
// and feeds them to 16 worker subprocesses (this binary re-executed with -worker). A worker announces the
// sequence number of each mutant on a pipe BEFORE calling Extract, runs Extract under recover(), and
// reports results. The parent kills a worker that is silent for the watchdog period (default 120 s; the
// normal cost of a mutant is < 10 ms), books `<extractor>:hang` on the announced mutant and restarts the
// worker after it. A watchdog expiry is only a SUSPICION: the mutant is re-run alone in a fresh worker with 4x
// the watchdog (>= 120 s) and `<extractor>:hang` is booked only if that attempt is silent too; otherwise it
// is counted as slow_under_load_confirmed_not_hanging (a verdict must not depend on machine load). Workers run with GOMEMLIMIT=2GiB and RLIMIT_AS=8GiB; a worker that dies is booked on
// the mutant it announced (`<extractor>:oom` or `<extractor>:fatal:<site>`).
//
// Don't-care cells (the property text is silent; every behaviour is accepted):
//   - WHAT Extract returns: any (inventory, error) combination is fine, including an empty inventory with
//     a nil error for garbage, and packages together with an error.
//   - how long a call takes below the watchdog. os/rpm bounds go-rpmdb's BerkeleyDB loop with its own
//     Timeout knob (default 5 min); one-line mutants of testdata/Packages_epoch do spin until it fires
//     (allocating ~0.7 GB/s of garbage meanwhile). That is the extractor's designed bound, so it is accepted;
//     to fit the budgets the harness instantiates os/rpm with Timeout 8 s (quick) / 30 s (thorough) — same
//     code path, far below the 120 s watchdog. Every other extractor is the el.All default instance.
//   - memory below the abort limits: only an RLIMIT_AS (8 GiB) abort, a goroutine stack overflow, or a
//     worker that is silent for the whole watchdog period while holding > 2 GiB resident (GOMEMLIMIT; the
//     collector is merely delaying the abort) is booked as `<extractor>:oom` / `:stack-overflow`. Bytes
//     allocated per call are reported as telemetry only. Per-call leaks that never abort a call (dotnet/pe
//     does not unmap the file, java/archive leaves a goroutine behind) are not judged: workers restart
//     themselves when their address space passes 4 GiB.
//   - files the extractor would not be given: each placement is validated once against FileRequired with
//     the unmutated seed; in the containment half the failing extractor's status is only judged when
//     FileRequired accepts the mutant too.
//   - in the containment half only the healthy extractor's packages+status, the completion of the scan and
//     "failing extractor is Failed or PartiallySucceeded" are judged; the overall ScanStatus, the failure
//     text and the failing extractor's own packages are not.
//   - resource caps other than java/archive's MaxOpenedBytes (the one the property text names) are not judged;
//     that one is judged on a second instance with the knob at 256 KiB through bytes allocated per call,
//     with a limit 2.5x above what honouring the cap can allocate (worker.go).
//   - temp files / side effects of an extractor (bolt.Open initialising an empty meta.db) belong to C06.
//   - after a recovered panic the worker process is restarted (locks and mappings leaked by the panicking
//     call must not influence the next mutant).
//
// Harness fidelity notes: in-memory files come from verif/memfs behind safeFS (worker.go), which gives them
// *os.File offset semantics (negative Seek/ReadAt -> EINVAL instead of a memfs panic). Extractors that
// resolve real paths (containerd, rpm, dotnet/pe, anything with DirectFS) get a /dev/shm directory and
// scalibrfs.DirFS with Root set. Every scene also holds /etc/os-release and the fixture's own neighbours
// (go.sum, _locales/, -r files) so that sibling lookups behave as in a real tree.
package main

import (
	"bufio"
	"encoding/base64"
	"encoding/hex"
	"encoding/json"
	"fmt"
	"io"
	"io/fs"
	"os"
	"os/exec"
	"path/filepath"
	"sort"
	"strconv"
	"strings"
	"sync"
	"sync/atomic"
	"syscall"
	"time"

	"verif/ev"
)

// a unit is abandoned (and reported as a cap) after this many hangs/slow deaths or fast deaths
const maxSlowIncidentsPerUnit = 3
const maxFastIncidentsPerUnit = 60
const maxClassesPerExtractor = 32

// ring keeps the first and the last 96 KiB of a worker's stderr (the crashing goroutine is printed first).
type ring struct {
	mu   sync.Mutex
	head []byte
	tail []byte
}

func (r *ring) Write(p []byte) (int, error) {
	r.mu.Lock()
	rest := p
	if room := 96<<10 - len(r.head); room > 0 {
		n := len(rest)
		if n > room {
			n = room
		}
		r.head = append(r.head, rest[:n]...)
		rest = rest[n:]
	}
	if len(rest) > 0 {
		r.tail = append(r.tail, rest...)
		if len(r.tail) > 192<<10 {
			r.tail = append([]byte{}, r.tail[len(r.tail)-96<<10:]...)
		}
	}
	r.mu.Unlock()
	return len(p), nil
}
func (r *ring) String() string {
	r.mu.Lock()
	defer r.mu.Unlock()
	if len(r.tail) == 0 {
		return string(r.head)
	}
	return string(r.head) + "\n[...]\n" + string(r.tail)
}

type proc struct {
	cmd    *exec.Cmd
	stdin  io.WriteCloser
	ctl    *bufio.Reader
	ctlF   *os.File
	stderr *ring
}

func startProc(id int, scratch string) (*proc, error) {
	self, err := os.Executable()
	if err != nil {
		return nil, err
	}
	pr, pw, err := os.Pipe()
	if err != nil {
		return nil, err
	}
	cmd := exec.Command(self, "-worker", strconv.Itoa(id))
	tmp := filepath.Join(scratch, fmt.Sprintf("tmp%d", id))
	_ = os.MkdirAll(tmp, 0o755)
	cmd.Env = append(os.Environ(), "GOMEMLIMIT=2GiB", "GOMAXPROCS=2", "TMPDIR="+tmp, "VERIF_C02_SCRATCH="+scratch)
	cmd.ExtraFiles = []*os.File{pw}
	cmd.Stdout = nil
	rg := &ring{}
	cmd.Stderr = rg
	stdin, err := cmd.StdinPipe()
	if err != nil {
		return nil, err
	}
	if err := cmd.Start(); err != nil {
		return nil, err
	}
	pw.Close()
	return &proc{cmd: cmd, stdin: stdin, ctl: bufio.NewReaderSize(pr, 1<<20), ctlF: pr, stderr: rg}, nil
}

func (p *proc) stop() {
	if p == nil {
		return
	}
	p.stdin.Close()
	done := make(chan struct{})
	go func() { _ = p.cmd.Wait(); close(done) }()
	select {
	case <-done:
	case <-time.After(5 * time.Second):
		_ = p.cmd.Process.Kill()
		<-done
	}
	p.ctlF.Close()
}

// seedInfo is one seed of one extractor.
type seedInfo struct {
	ID   string // "f:<repo-relative path>" | "m:<name>"
	Size int
}

type workUnit struct {
	unit
	size int
}

type classRep struct {
	unitIdx, seq int
	u            unit
}

// coordinator state shared by the managers
type coord struct {
	r        *ev.Run
	tier     string
	scratch  string
	watchdog time.Duration
	wdForced bool
	deadline time.Time

	mu             sync.Mutex
	distinct       map[uint64]struct{}
	classes        map[string]map[string]classRep // extractor -> class -> first representative
	perEx          map[string]*exStat
	samples        int
	harness        []string
	slow           []string
	unitTimes      []unitTime
	slowNotHanging int
	slowExamples   []string
	budgetPct      int
}

type exStat struct {
	Seeds, Units int
	Evals, Exerc int64
	MaxAlloc     uint64
	SlowMs       int64
}

func (c *coord) wdFor(ex string) time.Duration {
	if c.wdForced {
		return c.watchdog
	}
	if s := specs[ex].WatchdogS; time.Duration(s)*time.Second > c.watchdog {
		return time.Duration(s) * time.Second
	}
	return c.watchdog
}

// outcome of one unit as seen by the parent
type unitOutcome struct {
	evals, exerc int64
	incidents    int
	slowInc      int
	abandoned    bool
	partial      bool
	hung         bool // confirmation runs only: the watchdog fired again
	obs          []string
}

// manager drives one worker slot.
type manager struct {
	id  int
	c   *coord
	p   *proc                // owned by the manager goroutine
	cur atomic.Pointer[proc] // the same, for the watchdog goroutine
	// progress tracking for the watchdog
	inUnit    atomic.Bool
	last      atomic.Int64
	curSeq    atomic.Int64
	killedBy  atomic.Int32 // 1 = watchdog, 2 = run deadline
	wd        atomic.Int64
	rssAtKill atomic.Int64
	hardDL    atomic.Int64 // unix nanos after which a still-running unit is cut (not a violation)
	// confirming: this manager re-runs ONE mutant whose first attempt ran into the watchdog, in a fresh worker
	// with 4x the watchdog (>= 120 s); it reports out.hung instead of booking anything itself.
	confirming bool
}

func (m *manager) ensure() error {
	if m.p != nil {
		return nil
	}
	p, err := startProc(m.id, m.c.scratch)
	if err != nil {
		return err
	}
	m.p = p
	m.cur.Store(p)
	return nil
}

func (m *manager) watch(stop <-chan struct{}) {
	t := time.NewTicker(500 * time.Millisecond)
	defer t.Stop()
	for {
		select {
		case <-stop:
			return
		case <-t.C:
			if !m.inUnit.Load() {
				continue
			}
			if time.Since(time.Unix(0, m.last.Load())) > time.Duration(m.wd.Load()) {
				if p := m.cur.Load(); p != nil && m.killedBy.CompareAndSwap(0, 1) {
					m.rssAtKill.Store(int64(rssBytes(p.cmd.Process.Pid)))
					_ = p.cmd.Process.Kill()
				}
			} else if dl := m.hardDL.Load(); dl > 0 && time.Now().UnixNano() > dl {
				if p := m.cur.Load(); p != nil && m.killedBy.CompareAndSwap(0, 2) {
					_ = p.cmd.Process.Kill()
				}
			}
		}
	}
}

// firstGoroutine returns the stack of the goroutine that died (printed first by the runtime).
func firstGoroutine(stderr string) string {
	i := strings.Index(stderr, "\ngoroutine ")
	if i < 0 {
		return ""
	}
	g := stderr[i+1:]
	if j := strings.Index(g, "\n\n"); j >= 0 {
		g = g[:j]
	}
	return g
}

// classifyDeath names the cause of a dead worker from its stderr: the key part and a short excerpt.
func classifyDeath(stderr string, ws syscall.WaitStatus) (kind, detail string) {
	first := ""
	for _, l := range strings.Split(stderr, "\n") {
		if strings.HasPrefix(l, "fatal error:") || strings.HasPrefix(l, "panic:") || strings.HasPrefix(l, "runtime:") || strings.HasPrefix(l, "SIG") || strings.HasPrefix(l, "unexpected fault") {
			first = l
			break
		}
	}
	g := firstGoroutine(stderr)
	lines := strings.Split(g, "\n")
	if len(lines) > 40 {
		lines = lines[:40]
	}
	detail = first + "\n" + strings.Join(lines, "\n")
	low := strings.ToLower(stderr)
	switch {
	case strings.Contains(low, "goroutine stack exceeds") || strings.Contains(low, "stack overflow"):
		return "stack-overflow", detail
	case strings.Contains(low, "out of memory") || strings.Contains(low, "cannot allocate memory") || (ws.Signaled() && ws.Signal() == syscall.SIGKILL):
		return "oom", detail
	}
	site := ev.PanicSite(g)
	if site == "unknown-site" {
		// the fault happened in a goroutine started by a dependency: name its top frame instead
		for _, l := range lines[1:] {
			if l != "" && !strings.HasPrefix(l, "\t") && !strings.HasPrefix(l, "runtime.") && !strings.HasPrefix(l, "panic(") {
				// keep the package only: one key per dependency, whichever of its functions tripped
				if k := strings.LastIndex(l, "/"); k >= 0 {
					if d := strings.Index(l[k:], "."); d >= 0 {
						l = l[:k+d]
					}
				} else if d := strings.Index(l, "."); d >= 0 {
					l = l[:d]
				}
				site = "dep:" + l
				break
			}
		}
	}
	return "fatal:" + strings.TrimPrefix(site, "extractor/filesystem/"), detail
}

// run executes one unit to completion, restarting the worker after hangs and crashes.
func (m *manager) run(u unit) (out unitOutcome, err error) {
	c := m.c
	m.wd.Store(int64(c.wdFor(u.Ex)))
	if m.confirming {
		w := 4 * c.wdFor(u.Ex)
		if w < 120*time.Second {
			w = 120 * time.Second
		}
		m.wd.Store(int64(w))
	}
	m.hardDL.Store(0)
	if u.Deadline > 0 {
		m.hardDL.Store(time.Unix(u.Deadline, 0).Add(10 * time.Second).UnixNano())
	}
	for {
		if err := m.ensure(); err != nil {
			return out, err
		}
		b, _ := json.Marshal(u)
		m.curSeq.Store(-1)
		m.killedBy.Store(0)
		m.last.Store(time.Now().UnixNano())
		m.inUnit.Store(true)
		if _, werr := m.p.stdin.Write(append(b, '\n')); werr != nil {
			m.inUnit.Store(false)
			m.p.stop()
			m.p = nil
			m.cur.Store(nil)
			return out, fmt.Errorf("worker %d: cannot send unit: %v", m.id, werr)
		}
		finished, recycleAt := false, -1
		for !finished {
			line, rerr := m.p.ctl.ReadSlice('\n')
			if rerr == bufio.ErrBufferFull {
				// very long line (hash block): read the rest
				full := append([]byte{}, line...)
				for rerr == bufio.ErrBufferFull {
					line, rerr = m.p.ctl.ReadSlice('\n')
					full = append(full, line...)
				}
				line = full
			}
			if rerr != nil {
				break
			}
			m.last.Store(time.Now().UnixNano())
			if len(line) < 2 {
				continue
			}
			switch line[0] {
			case 'M':
				n, _ := strconv.Atoi(strings.TrimSpace(string(line[2:])))
				m.curSeq.Store(int64(n))
			case 'H':
				raw, herr := hex.DecodeString(strings.TrimSpace(string(line[2:])))
				if herr == nil {
					c.mu.Lock()
					for i := 0; i+8 <= len(raw); i += 8 {
						var h uint64
						for k := 0; k < 8; k++ {
							h |= uint64(raw[i+k]) << (8 * k)
						}
						c.distinct[h] = struct{}{}
					}
					c.mu.Unlock()
				}
			case 'J':
				var g msg
				if jerr := json.Unmarshal(line[2:], &g); jerr != nil {
					continue
				}
				switch g.T {
				case "viol":
					c.violation(u, g.Key, g.What, g.Seq, g.Stack)
				case "anchors":
					u.Anchors = g.Anch
				case "slow":
					c.mu.Lock()
					if len(c.slow) < 40 {
						c.slow = append(c.slow, fmt.Sprintf("%s %s cand %d seq %d %s: %d ms, %d bytes allocated", u.Ex, u.Seed, u.Cand, g.Seq, g.What, g.SlowMs, g.Alloc))
					}
					c.mu.Unlock()
				case "class":
					c.noteClass(u, g.Class, g.Seq)
				case "contain":
					out.obs = append(out.obs, g.Obs)
					finished = true
				case "harness":
					c.mu.Lock()
					c.harness = append(c.harness, fmt.Sprintf("%s %s cand %d: %s", u.Ex, u.Seed, u.Cand, g.What))
					c.mu.Unlock()
					finished = true
				case "recycle":
					out.evals += g.Evals
					out.exerc += g.Exerc
					c.noteStats(u.Ex, g)
					recycleAt = g.Seq
					finished = true
				case "done":
					out.evals += g.Evals
					out.exerc += g.Exerc
					out.partial = out.partial || g.Part
					c.noteStats(u.Ex, g)
					finished = true
				}
			}
		}
		m.inUnit.Store(false)
		if finished && recycleAt < 0 {
			return out, nil
		}
		// the worker is gone (killed by the watchdog, died, or recycled itself)
		p := m.p
		m.p = nil
		m.cur.Store(nil)
		p.stdin.Close()
		_ = p.cmd.Wait()
		p.ctlF.Close()
		if recycleAt >= 0 {
			u.Resume = recycleAt
			continue
		}
		seq := int(m.curSeq.Load())
		if m.killedBy.Load() == 2 { // the run's deadline passed while a slow (not hung) call was in flight
			out.partial = true
			return out, nil
		}
		if seq < 0 {
			return out, fmt.Errorf("worker %d died before announcing a mutant of %s %s: %s", m.id, u.Ex, u.Seed, tail(p.stderr.String(), 2000))
		}
		ws, _ := p.cmd.ProcessState.Sys().(syscall.WaitStatus)
		if m.killedBy.Load() == 1 && m.rssAtKill.Load() > 2<<30 {
			// silent for the whole watchdog period while sitting above GOMEMLIMIT: a memory runaway that the
			// garbage collector is slowing down, i.e. the same root cause as an RLIMIT_AS abort a little later
			c.violation(u, u.Ex+":oom", fmt.Sprintf("%s made no progress for %v and holds %d MiB resident (GOMEMLIMIT 2 GiB)", u.Ex, time.Duration(m.wd.Load()), m.rssAtKill.Load()>>20), seq)
		} else if m.killedBy.Load() == 1 && m.confirming {
			out.hung = true
			return out, nil
		} else if m.killedBy.Load() == 1 {
			// A hang verdict must not depend on wall-clock luck (a loaded machine): the mutant is run once more,
			// alone, in a fresh worker with at least 4x the watchdog; only a second silence is booked.
			if hung, cw := c.confirmHang(m.id, u, seq); hung {
				c.violation(u, u.Ex+":hang", fmt.Sprintf("%s made no progress for %v, and again for %v when re-run alone in a fresh worker", u.Ex, time.Duration(m.wd.Load()), cw), seq)
			} else {
				c.mu.Lock()
				c.slowNotHanging++
				if len(c.slowExamples) < 10 {
					c.slowExamples = append(c.slowExamples, fmt.Sprintf("%s %s%s cand %d mutant %d: silent for %v under load, returned when re-run alone", u.Ex, arcLabel(u), u.Seed, u.Cand, seq, time.Duration(m.wd.Load())))
				}
				c.mu.Unlock()
			}
		} else {
			kind, detail := classifyDeath(p.stderr.String(), ws)
			owner := u.Ex
			if strings.HasPrefix(kind, "fatal:") && !strings.HasPrefix(kind, "fatal:dep:") {
				// same attribution rule as for recovered panics (shared helper packages own their sites)
				k := causeKey(u.Ex, "fatal:", firstGoroutine(p.stderr.String()))
				owner, kind = k[:strings.Index(k, ":")], k[strings.Index(k, ":")+1:]
			}
			c.violation(u, owner+":"+kind, fmt.Sprintf("worker process died (%s) %s", p.cmd.ProcessState, strings.SplitN(detail, "\n", 2)[0]), seq, detail)
		}
		out.incidents++
		if time.Since(time.Unix(0, m.last.Load())) > 10*time.Second {
			out.slowInc++
		}
		// the mutants before seq ran but their counters died with the worker: count them as executed
		// (lower bound: only the killing one is certain)
		out.evals++
		if u.Kind != "extract" || u.Data != nil {
			return out, nil
		}
		if out.slowInc >= maxSlowIncidentsPerUnit || out.incidents >= maxFastIncidentsPerUnit || time.Now().After(c.deadline) {
			out.abandoned = true
			return out, nil
		}
		u.Resume = seq + 1
	}
}

func arcLabel(u unit) string {
	if u.Arc == "" {
		return ""
	}
	return fmt.Sprintf("%s entry %d <- ", u.Arc, u.Entry)
}

func rssBytes(pid int) uint64 {
	b, err := os.ReadFile(fmt.Sprintf("/proc/%d/statm", pid))
	if err != nil {
		return 0
	}
	f := strings.Fields(string(b))
	if len(f) < 2 {
		return 0
	}
	n, _ := strconv.ParseUint(f[1], 10, 64)
	return n * uint64(os.Getpagesize())
}

func tail(s string, n int) string {
	if len(s) > n {
		return s[len(s)-n:]
	}
	return s
}

type unitTime struct {
	what       string
	dur, start time.Duration
}

func (c *coord) noteUnitTime(u unit, d, start time.Duration) {
	c.mu.Lock()
	c.unitTimes = append(c.unitTimes, unitTime{fmt.Sprintf("%s %s cand %d arc %s entry %d", u.Ex, u.Seed, u.Cand, u.Arc, u.Entry), d, start})
	c.mu.Unlock()
}

// confirmHang re-runs mutant seq of u alone; it returns whether the watchdog fired again and the watchdog used.
func (c *coord) confirmHang(id int, u unit, seq int) (bool, time.Duration) {
	cu := u
	cu.Resume, cu.Deadline = 0, 0
	switch u.Kind {
	case "extract":
		if u.Data == nil {
			src, err := openSource(u)
			if err != nil {
				return true, 0
			}
			_, b, ok := src.regenerate(u.Tier, seq)
			if !ok {
				return true, 0
			}
			d := base64.StdEncoding.EncodeToString(b)
			cu.Data = &d
			if u.Arc != "" {
				cu.Seed, cu.Arc, cu.Entry = u.Arc, "", 0
			}
		}
	case "engine":
		d := ""
		cu.Data, cu.Seq = &d, seq
	}
	cm := &manager{id: id + 100, c: c, confirming: true}
	stop := make(chan struct{})
	go cm.watch(stop)
	o, err := cm.run(cu)
	close(stop)
	cm.p.stop()
	w := time.Duration(cm.wd.Load())
	if err != nil {
		return true, w
	}
	return o.hung, w
}

func (c *coord) noteStats(ex string, g msg) {
	c.mu.Lock()
	st := c.perEx[ex]
	if st == nil {
		st = &exStat{}
		c.perEx[ex] = st
	}
	st.Evals += g.Evals
	st.Exerc += g.Exerc
	if g.Alloc > st.MaxAlloc {
		st.MaxAlloc = g.Alloc
	}
	if g.SlowMs > st.SlowMs {
		st.SlowMs = g.SlowMs
	}
	if g.Pct > c.budgetPct {
		c.budgetPct = g.Pct
	}
	c.mu.Unlock()
}

func (c *coord) noteClass(u unit, class string, seq int) {
	if u.Kind != "extract" || u.Data != nil {
		return
	}
	c.mu.Lock()
	defer c.mu.Unlock()
	mm := c.classes[u.Ex]
	if mm == nil {
		mm = map[string]classRep{}
		c.classes[u.Ex] = mm
	}
	cur, ok := mm[class]
	if !ok || u.ID < cur.unitIdx || (u.ID == cur.unitIdx && seq < cur.seq) {
		mm[class] = classRep{unitIdx: u.ID, seq: seq, u: u}
	}
}

// violation regenerates the mutant in the parent so that the replay file is self-contained.
func (c *coord) violation(u unit, key, what string, seq int, stack ...string) {
	if replaySink != nil {
		replaySink.mu.Lock()
		if len(stack) > 0 && stack[0] != "" {
			what += "\n" + stack[0]
		}
		replaySink.viol = append(replaySink.viol, key+": "+what)
		replaySink.mu.Unlock()
		return
	}
	if u.Kind == "engine" {
		rd := replayData{Kind: "engine", Extractor: "c02/failing", Combo: seq, Mutation: what}
		if len(stack) > 0 {
			rd.Stack = stack[0]
		}
		c.r.Violation(key, what, rd)
		return
	}
	var data []byte
	desc := "replay"
	if u.Data != nil {
		data, _ = base64.StdEncoding.DecodeString(*u.Data)
	} else if src, err := openSource(u); err == nil {
		if d, b, ok := src.regenerate(u.Tier, seq); ok {
			data, desc = b, d.String()
		}
	}
	cd := cand{}
	if sp, ok := specs[u.Ex]; ok && u.Cand < len(sp.Cands) {
		cd = sp.Cands[u.Cand]
	}
	kind := u.Kind
	if !strings.Contains(what, "[") {
		seedName := u.Seed
		if u.Arc != "" {
			seedName = fmt.Sprintf("%s entry %d <- %s", u.Arc, u.Entry, u.Seed)
		}
		what = fmt.Sprintf("%s [%s at %s, seed %s, %s, content %s]", what, u.Ex, cd.mutPath(), seedName, desc, preview(data))
	}
	rd := mkReplay(kind, u, cd, desc, data)
	if len(stack) > 0 {
		rd.Stack = stack[0]
	}
	c.r.Violation(key, what, rd)
}

// seedsFor lists the seeds of one extractor (deduplicated by content), minimal documents first.
func seedsFor(exName string) ([]seedInfo, []string) {
	inst := newExtractor(exName)
	dir := filepath.Join(ev.RepoDir(), pkgDir(inst), "testdata")
	var out []seedInfo
	seen := map[uint64]bool{}
	for _, d := range minimalDocs {
		h := fnv64([]byte(d.Data))
		if !seen[h] {
			seen[h] = true
			out = append(out, seedInfo{ID: "m:" + d.Name, Size: len(d.Data)})
		}
	}
	var files, rels []string
	_ = filepath.WalkDir(dir, func(p string, d fs.DirEntry, err error) error {
		if err == nil && d.Type().IsRegular() {
			files = append(files, p)
		}
		return nil
	})
	sort.Strings(files)
	for _, f := range files {
		b, err := os.ReadFile(f)
		if err != nil {
			continue
		}
		rel, _ := filepath.Rel(ev.RepoDir(), f)
		r2, _ := filepath.Rel(dir, f)
		rels = append(rels, filepath.ToSlash(r2))
		h := fnv64(b)
		if seen[h] {
			continue
		}
		seen[h] = true
		out = append(out, seedInfo{ID: "f:" + filepath.ToSlash(rel), Size: len(b)})
	}
	return out, rels
}

// secondarySeeds lists the seeds of a secondary-input set: inline documents, matching fixtures, minimal documents.
func secondarySeeds(set string) []seedInfo {
	def := secondarySets[set]
	var out []seedInfo
	seen := map[uint64]bool{}
	add := func(id string, data []byte) {
		h := fnv64(data)
		if !seen[h] {
			seen[h] = true
			out = append(out, seedInfo{ID: id, Size: len(data)})
		}
	}
	for _, n := range def.Inline {
		add("i:"+n, []byte(inline[n]))
	}
	for _, id := range def.Full {
		if b, _, err := loadSeed(id); err == nil {
			add(id, b)
		}
	}
	if !def.NoMinimal {
		for _, d := range minimalDocs {
			add("m:"+d.Name, []byte(d.Data))
		}
	}
	if def.FixtureDir != "" {
		var files []string
		_ = filepath.WalkDir(filepath.Join(ev.RepoDir(), def.FixtureDir), func(p string, d fs.DirEntry, err error) error {
			if err == nil && d.Type().IsRegular() {
				files = append(files, p)
			}
			return nil
		})
		sort.Strings(files)
		for _, f := range files {
			ok := len(def.Match) == 0
			for _, m := range def.Match {
				ok = ok || strings.HasSuffix(filepath.ToSlash(f), m)
			}
			if !ok {
				continue
			}
			b, err := os.ReadFile(f)
			if err != nil || (def.MaxSize > 0 && len(b) > def.MaxSize) {
				continue
			}
			rel, _ := filepath.Rel(ev.RepoDir(), f)
			add("f:"+filepath.ToSlash(rel), b)
		}
	}
	return out
}

func main() {
	if len(os.Args) >= 3 && os.Args[1] == "-worker" {
		workerMain(os.Args[2])
		return
	}
	r := ev.Start("C02", "exploration", 5*time.Minute, 45*time.Minute)
	tier := r.Tier
	scratch := fmt.Sprintf("/dev/shm/verif-c02-%d", os.Getpid())
	_ = os.RemoveAll(scratch)
	if err := os.MkdirAll(scratch, 0o755); err != nil {
		fmt.Fprintln(os.Stderr, "scratch:", err)
		os.Exit(3)
	}
	cleanup := func() { _ = os.RemoveAll(scratch) }
	c := &coord{r: r, tier: tier, scratch: scratch, watchdog: 120 * time.Second,
		distinct: map[uint64]struct{}{}, classes: map[string]map[string]classRep{}, perEx: map[string]*exStat{}}
	if s, err := strconv.Atoi(os.Getenv("VERIF_C02_WATCHDOG_S")); err == nil && s > 0 {
		// demonstration knob only (mutant demos of the hang path); the default stays 120 s
		c.watchdog, c.wdForced = time.Duration(s)*time.Second, true
	}
	r.Set("watchdog_s", c.watchdog.Seconds())

	if rp := os.Getenv("VERIF_REPLAY"); rp != "" {
		code := replay(c, rp)
		cleanup()
		os.Exit(code)
	}

	// ---- enumerate units -------------------------------------------------------------------------
	names := extractorNames()
	if f := os.Getenv("VERIF_C02_ONLY"); f != "" { // debugging aid: comma-separated extractor names
		keep := map[string]bool{}
		for _, n := range strings.Split(f, ",") {
			keep[n] = true
		}
		var nn []string
		for _, n := range names {
			if keep[n] {
				nn = append(nn, n)
			}
		}
		names = nn
		r.Cap("VERIF_C02_ONLY restricts the run to %v", names)
	}
	var units []workUnit
	nSeeds, nContainer := 0, 0
	secondary := map[string][]string{} // extractor -> secondary input paths explored
	for _, n := range names {
		seeds, rels := seedsFor(n)
		sp, ok := specs[n]
		if !ok {
			// extractor added after this table was written: try placements derived from fixture names
			inst := newExtractor(n)
			tmp := newMemEnv()
			for _, gp := range guessPaths(rels) {
				if tmp.put(gp, []byte("x"), 0o755) != nil {
					continue
				}
				recoverBig(func() {
					if inst.FileRequired(fileAPI{tmp.fsys(), gp}) {
						sp.Cands = append(sp.Cands, cand{Path: gp, Perm: 0o755})
					}
				})
				if len(sp.Cands) > 0 {
					break
				}
			}
			if len(sp.Cands) == 0 {
				r.Cap("no production path known for extractor %s: not explored", n)
				continue
			}
			specs[n] = sp
		}
		c.perEx[n] = &exStat{}
		for _, x := range sp.ExtraSeeds {
			if !strings.Contains(x, ":") {
				x = "i:" + x
			}
			if b, _, err := loadSeed(x); err == nil {
				seeds = append(seeds, seedInfo{ID: x, Size: len(b)})
			}
		}
		for ci, cd := range sp.Cands {
			ss := seeds
			if cd.Seeds != "" {
				ss = secondarySeeds(cd.Seeds)
			}
			if cd.mutPath() != cd.Path {
				secondary[n] = append(secondary[n], cd.mutPath())
			}
			c.perEx[n].Seeds += len(ss)
			nSeeds += len(ss)
			for _, s := range ss {
				units = append(units, workUnit{unit: unit{Kind: "extract", Ex: n, Seed: s.ID, Cand: ci, Tier: tier}, size: s.Size})
				c.perEx[n].Units++
			}
		}
		if zc, ok := zipPlacements[n]; ok && zc < len(sp.Cands) {
			cu := containerUnits(n, zc, seeds, tier)
			units = append(units, cu...)
			c.perEx[n].Units += len(cu)
			nContainer += len(cu)
		}
	}
	sort.SliceStable(units, func(i, j int) bool {
		a, b := units[i], units[j]
		if a.size != b.size {
			return a.size < b.size
		}
		if a.Ex != b.Ex {
			return a.Ex < b.Ex
		}
		if a.Seed != b.Seed {
			return a.Seed < b.Seed
		}
		if a.Arc != b.Arc {
			return a.Arc < b.Arc
		}
		if a.Entry != b.Entry {
			return a.Entry < b.Entry
		}
		return a.Cand < b.Cand
	})
	// extractors with a known slow (memory-runaway) mutant are started first: pure work order
	sort.SliceStable(units, func(i, j int) bool { return specs[units[i].Ex].Early && !specs[units[j].Ex].Early })
	for i := range units {
		units[i].ID = i
	}
	r.Set("extractors", len(names))
	r.Set("seeds", nSeeds)
	r.Set("units", len(units))
	r.Set("secondary_inputs", secondary)
	r.Set("container_aware_units", nContainer)

	// ---- phase 1: every mutant through Extract -----------------------------------------------------
	budget := ev.Pick(r, 5*time.Minute, 45*time.Minute)
	if s, err := strconv.Atoi(os.Getenv("VERIF_BUDGET_S")); err == nil && s > 0 {
		budget = time.Duration(s) * time.Second
	}
	c.deadline = time.Now().Add(budget - r.Elapsed())
	nw := ev.Workers()
	mgrs := make([]*manager, nw)
	stopWatch := make(chan struct{})
	for i := range mgrs {
		mgrs[i] = &manager{id: i, c: c}
		go mgrs[i].watch(stopWatch)
	}
	var fatal atomic.Value
	runStart := time.Now()
	runAll := func(list []unit, deadline time.Time, each func(u unit, o unitOutcome)) (scheduled int) {
		// Work order only (the set of units is fixed): most managers take units from the front (smallest seed
		// first), a quarter of them from the back, so that the few multi-megabyte units do not all start last.
		var mu sync.Mutex
		head, tail, taken := 0, len(list)-1, 0
		take := func(fromBack bool) (unit, bool) {
			mu.Lock()
			defer mu.Unlock()
			if head > tail {
				return unit{}, false
			}
			taken++
			if fromBack {
				tail--
				return list[tail+1], true
			}
			head++
			return list[head-1], true
		}
		var wg sync.WaitGroup
		for k, m := range mgrs {
			wg.Add(1)
			go func(m *manager, fromBack bool) {
				defer wg.Done()
				for fatal.Load() == nil {
					if time.Now().After(deadline) {
						return
					}
					u, ok := take(fromBack)
					if !ok {
						return
					}
					u.Deadline = deadline.Unix()
					t0 := time.Now()
					o, err := m.run(u)
					c.noteUnitTime(u, time.Since(t0), t0.Sub(runStart))
					if err != nil {
						fatal.CompareAndSwap(nil, err.Error())
						return
					}
					each(u, o)
				}
			}(m, k%4 == 3 && len(list) > 64)
		}
		wg.Wait()
		return taken
	}
	list := make([]unit, len(units))
	for i := range units {
		list[i] = units[i].unit
	}
	var partials, abandoned atomic.Int64
	var sampleMu sync.Mutex
	sched := runAll(list, c.deadline, func(u unit, o unitOutcome) {
		r.Evals.Add(o.evals)
		if o.partial {
			partials.Add(1)
		}
		if o.abandoned {
			abandoned.Add(1)
			r.Cap("unit %s %s%s cand %d abandoned after %d hang/crash incidents (the rest of its mutants was not run)", u.Ex, arcLabel(u), u.Seed, u.Cand, o.incidents)
		}
		sampleMu.Lock()
		if c.samples < 3 && o.exerc > 0 && strings.HasPrefix(u.Seed, "f:") {
			c.samples++
			r.Sample(map[string]any{"extractor": u.Ex, "seed": u.Seed, "path": specs[u.Ex].Cands[u.Cand].mutPath(), "mutants_extracted": o.evals, "exercised": o.exerc})
		}
		sampleMu.Unlock()
	})
	if f := fatal.Load(); f != nil {
		fmt.Fprintln(os.Stderr, "harness error:", f)
		close(stopWatch)
		for _, m := range mgrs {
			m.p.stop()
		}
		cleanup()
		os.Exit(3)
	}
	if sched < len(list) || partials.Load() > 0 {
		r.Cap("deadline: %d of %d units started, %d cut short (units are ordered smallest seed first)", sched, len(list), partials.Load())
	}

	// ---- phase 2: containment ------------------------------------------------------------------------
	var cunits []unit
	exs := make([]string, 0, len(c.classes))
	for e := range c.classes {
		exs = append(exs, e)
	}
	sort.Strings(exs)
	nClasses := 0
	for _, e := range exs {
		var reps []classRep
		for _, rp := range c.classes[e] {
			reps = append(reps, rp)
		}
		sort.Slice(reps, func(i, j int) bool {
			if reps[i].unitIdx != reps[j].unitIdx {
				return reps[i].unitIdx < reps[j].unitIdx
			}
			return reps[i].seq < reps[j].seq
		})
		nClasses += len(reps)
		if len(reps) > maxClassesPerExtractor {
			reps = reps[:maxClassesPerExtractor]
		}
		for _, rp := range reps {
			u := rp.u
			u.Kind, u.Seq, u.Resume, u.ID = "contain", rp.seq, 0, len(cunits)
			cunits = append(cunits, u)
		}
	}
	cunits = append(cunits, unit{Kind: "engine", Ex: "python/requirements", ID: len(cunits), Tier: tier})
	r.Set("error_classes", nClasses)
	var contained, engineScans atomic.Int64
	cdl := time.Now().Add(ev.Pick(r, 50*time.Second, 5*time.Minute))
	csched := runAll(cunits, cdl, func(u unit, o unitOutcome) {
		if u.Kind == "engine" {
			r.Evals.Add(o.evals)
			engineScans.Add(o.evals)
			return
		}
		if len(o.obs) > 0 {
			contained.Add(1)
			r.Evals.Add(1)
			sampleMu.Lock()
			if c.samples < 6 {
				c.samples++
				r.Sample(map[string]any{"containment": u.Ex, "seed": u.Seed, "mutant_seq": u.Seq, "observed": o.obs[0]})
			}
			sampleMu.Unlock()
		}
	})
	close(stopWatch)
	for _, m := range mgrs {
		m.p.stop()
	}
	cleanup()
	if f := fatal.Load(); f != nil {
		fmt.Fprintln(os.Stderr, "harness error:", f)
		os.Exit(3)
	}
	if csched < len(cunits) {
		r.Cap("deadline: %d of %d containment scans run", csched, len(cunits))
	}
	r.Set("containment_scans", contained.Load())
	r.Set("engine_confinement_scans", engineScans.Load())
	sort.Strings(c.slow)
	r.Set("calls_slower_than_5s", c.slow)
	sort.Slice(c.unitTimes, func(i, j int) bool { return c.unitTimes[i].dur > c.unitTimes[j].dur })
	var su []string
	for i, ut := range c.unitTimes {
		if i >= 8 {
			break
		}
		su = append(su, fmt.Sprintf("%s: %.1fs (started at %.1fs)", ut.what, ut.dur.Seconds(), ut.start.Seconds()))
	}
	r.Set("slowest_units", su)
	r.Set("slow_under_load_confirmed_not_hanging", map[string]any{"count": c.slowNotHanging, "examples": c.slowExamples})
	r.Set("tight_budget_max_alloc_percent_of_limit", c.budgetPct)
	sort.Strings(c.harness)
	for i, h := range c.harness {
		if i < 8 {
			r.Cap("harness: %s", h)
		}
	}
	if len(c.harness) > 8 {
		r.Cap("harness: %d further placement problems", len(c.harness)-8)
	}
	r.Nontrivial.Store(int64(len(c.distinct)))
	per := map[string]any{}
	for n, st := range c.perEx {
		per[n] = map[string]any{"seeds": st.Seeds, "units": st.Units, "extracted": st.Evals, "exercised": st.Exerc, "max_alloc_bytes_one_call": st.MaxAlloc, "slowest_call_ms": st.SlowMs}
	}
	r.Set("per_extractor", per)
	r.Set("operator_set", "v1: identity; truncate; delete/duplicate/swap-adjacent line; replace byte by one of 16 structural tokens; delete/duplicate byte; replace value token / bracket group by null; output-guided edits around occurrences of the names/versions extracted from the unmutated seed (seeds too large for per-offset operators); truncate line at every column / drop line prefix; zip-aware: inner-entry mutation + drop/duplicate/empty entry; (thorough, binary seeds) set byte of first 1 KiB to 00/ff")
	r.Assume("os/rpm is instantiated with Config.Timeout = 8 s (quick) / 30 s (thorough) instead of its 5 min default: corrupt BerkeleyDB mutants run into that timeout by design; all other extractors are el.All defaults")
	r.Assume("java/pomxmlnet is excluded (needs a registry); arbitrary byte strings are NOT covered: only edit distance <= 1 from a fixture or minimal document under operator set v1")
	b := boundsFor(tier)
	rule := fmt.Sprintf("for each of %d offline built-in extractors x each placement (paths.go, validated against FileRequired; a placement is either the file handed to Extract or a SECONDARY file the extractor opens through input.FS — os-release, chrome message.json, go.sum, -r includes, local parent pom.xml, containerd metadata.db/status — next to a healthy primary file) x each seed of that placement (every testdata fixture of the extractor resp. of the secondary format, inline minimal valid documents, %d minimal documents incl. empty/whitespace/null/lone quote/lone key; identical contents merged): "+
		"every mutant of operator set v1 — identity; truncate at every offset (seeds <= %d B; larger: every 512-byte boundary); delete / duplicate / swap-adjacent line i (seeds <= %d B); "+
		"replace byte i by each of 16 structural tokens at every offset (seeds <= %d B) or at line starts (seeds <= %d B); delete / duplicate byte i (seeds <= %d B); replace each value token or balanced bracket group by null (text seeds <= %d B); truncate line i at every column with the rest of the file kept, and drop the first k bytes of line i (text seeds <= %d B, lines <= 200 B); insert each of 4 case-length-changing sequences (invalid byte, U+023A, U+212A, U+0250) at file start, line starts, around ':' '=' and at word boundaries (text seeds <= %d B) and replace line i by such a sequence + its first k bytes (text seeds <= %d B); set each byte of the first 1 KiB to 00/ff (binary seeds, thorough=%v); every string value := empty / one blank / one character, every {...} := {}, [...] := [], every number := 0 / -1, on the quoted-string level so that JSONC/YAML/TOML are covered (text seeds <= %d B); Unicode spaces U+00A0 U+2003 U+3000 U+0085 U+2028 inserted at value starts/ends, before '(' and in place of blank runs (text seeds <= %d B); long line: the last token of each of the first 4 and last 2 lines padded until the line is 4095/4096/4097/65535/65536/65537/1048576 bytes long, with the rest of the file kept and with the file ending there without a newline (text seeds <= %d B); structure-aware: every size/offset/count field of the ELF, PE and Mach-O header tables (file header, <= 64 section headers, <= 32 program headers / load commands, PE data directories) set to each of {0, 1, v-1, v+1, file length, 2^31-1, 2^31, 2^32-1, 2^32, 2^48, 2^63-1, 2^64-1}; for seeds above the every-offset bound, output-guided edits: around each of <= 64 occurrences of the names/versions Extract reported for the unmutated seed, set the bytes at the edges of the occurrence, of its printable run and before that run to 00/01/space/ff and delete the occurrence — "+
		"is placed and Extract is called with a complete ScanInput. CONTAINER-AWARE: for the zip-reading extractors (java/archive, python/wheelegg .egg) every zip fixture (<= 64 KiB quick / 256 KiB thorough) and two archives built from scratch (jar: MANIFEST.MF + pom.properties; egg: PKG-INFO) are unpacked, the same operators are applied to each inner text entry (first 16; for the first 4 also to every minimal document and to every loose fixture of the same base name put in its place) and the archive is re-packed with the same entry order and methods; plus archive-level operators drop / duplicate / empty entry i. "+
		"RESOURCE CAP: java/archive is additionally run as a second instance with Config.MaxOpenedBytes = 256 KiB over the small jar fixtures and 7 built nested-archive shapes (2/8/400 inner *.jar entries that are not archives, healthy inner jars, a mix, three levels of nesting); one Extract may allocate at most 32 x that budget + 64 x file size + 8 MiB (honouring the cap allocates <= 12.5 x budget), else `java/archive:opened-bytes-budget`. "+
		"Oracle: Extract must return (no panic, no process death, no stack overflow, no RLIMIT_AS 8 GiB abort, answer within the %v watchdog, which covers the parsing of secondary files too; os/rpm runs with its own Timeout knob set to 8 s quick / 30 s thorough). "+
		"evaluations = Extract calls + containment scans; distinct_nontrivial = distinct (extractor, placement, mutant bytes) whose Extract returned an error or >= 1 package (empty error-free results are not counted). "+
		"Containment: for each extractor and each error class (first 48 chars of the error text, paths/quoted text/digits removed; first %d classes per extractor in enumeration order) the first mutant of that class is scanned by scalibr.Scanner.Scan next to a healthy requirements.txt (dpkg status for python/requirements): "+
		"the scan completes, the healthy extractor's packages and status equal those of the scan without the bad file, and the failing extractor's status is Failed or PartiallySucceeded. "+
		"Engine confinement, independent of what real extractors return today: a harmless extractor returning each of 18 error classes (nil, custom, wrapped/bare context.DeadlineExceeded and context.Canceled while the scan's context is alive, os.ErrDeadlineExceeded, io.EOF/ErrUnexpectedEOF, fs.ErrPermission/ErrNotExist/SkipDir/SkipAll, the memory-limit sentinel, joined errors, errors together with packages) x bad file before/after/on both sides of a good file in the walk x both plugin-list orders is scanned next to a recording extractor and two healthy files of the failing extractor itself (one visited before, one after the bad file), the recording extractor requiring the bad file too: Scan returns, the recording extractor's package for the bad file itself is present, the recording extractor's package and SUCCEEDED status are present, the failing extractor's packages for its two healthy files are present (confinement is per FILE) and it has a status (FAILED/PARTIALLY_SUCCEEDED iff it returned an error); the same with the real java/archive (MaxOpenedBytes 256 KiB), an over-budget jar and two healthy jars.",
		len(names), len(minimalDocs), b.truncAll, b.lineOps, b.sigmaAll, b.sigmaLine, b.byteOps, b.nullify, b.lineCut, b.caseIns, b.caseLine, b.binFF, b.emptify, b.uniSpace, b.longLine, c.watchdog, maxClassesPerExtractor)
	r.Finish(rule, true)
}

// replay re-executes one recorded case in a worker subprocess under the same watchdog.
func replay(c *coord, file string) int {
	b, err := os.ReadFile(file)
	if err != nil {
		fmt.Fprintln(os.Stderr, err)
		return 3
	}
	var rec struct {
		Key    string     `json:"key"`
		What   string     `json:"what"`
		Replay replayData `json:"replay"`
	}
	if err := json.Unmarshal(b, &rec); err != nil {
		fmt.Fprintln(os.Stderr, err)
		return 3
	}
	rd := rec.Replay
	kind := rd.Kind
	if kind == "" {
		kind = "extract"
	}
	u := unit{Kind: kind, Ex: rd.Extractor, Seed: rd.Seed, Cand: rd.Cand, Tier: c.tier, Data: &rd.DataB64}
	if kind == "engine" {
		u.Ex, u.Seq = "python/requirements", rd.Combo
	}
	var got []string
	rr := &replayRun{}
	c.r = nil
	m := &manager{id: 0, c: c}
	stop := make(chan struct{})
	go m.watch(stop)
	c.deadline = time.Now().Add(time.Hour)
	replaySink = rr
	o, err := m.run(u)
	close(stop)
	m.p.stop()
	if err != nil {
		fmt.Fprintln(os.Stderr, "replay:", err)
		return 3
	}
	got = rr.viol
	fmt.Printf("replay %s: extractor=%s path=%s mutation=%s\n", rec.Key, rd.Extractor, rd.MutPath, rd.Mutation)
	for _, h := range c.harness {
		fmt.Println("harness:", h)
	}
	for _, ob := range o.obs {
		fmt.Println("observed:", ob)
	}
	if len(got) == 0 {
		fmt.Println("observed: Extract returned normally (no panic, hang or abort)")
		return 0
	}
	for _, g := range got {
		fmt.Println("observed VIOLATION:", g)
	}
	return 1
}

type replayRun struct {
	mu   sync.Mutex
	viol []string
}

var replaySink *replayRun
