package main

import (
	"bytes"
	"fmt"
	"strings"
	"unicode/utf8"
)

// Operator set v1. Everything below is a pure function of (seed bytes, tier): the same seed yields the
// same numbered sequence of mutants in every process, which is what lets the parent name, regenerate and
// resume after a mutant by its sequence number alone.

// sigma is the structural alphabet used by the replace-byte operator.
// caseRunes are inserted (never substituted) by the case-rune operators: byte sequences whose length
// changes under strings.ToLower / strings.ToUpper, so that offsets computed on a case-folded copy do not
// fit the original: an invalid UTF-8 byte (becomes U+FFFD, +2 bytes), U+023A (lower case is 1 byte longer),
// the Kelvin sign U+212A (lower case 2 bytes shorter), U+0250 (upper case is 1 byte longer).
var caseRunes = []string{"\xff", "\u023a", "\u212a", "\u0250"}

// uniSpaces are white space for unicode.IsSpace / strings.TrimSpace but not for ASCII-only trimmers
// (textproto, bytes.TrimLeft(" \t")): NBSP, EM SPACE, IDEOGRAPHIC SPACE, NEL, LINE SEPARATOR.
var uniSpaces = []string{"\u00a0", "\u2003", "\u3000", "\u0085", "\u2028"}

// longLineLengths: around the 4 KiB buffers of bufio.Reader / textproto and the 64 KiB token limit of
// bufio.Scanner, plus 1 MiB.
var longLineLengths = []int{4095, 4096, 4097, 65535, 65536, 65537, 1 << 20}

var emptyForms = []string{`""`, `" "`, `"x"`, `{}`, `[]`, `0`, `-1`}

var sigma = []byte{'{', '}', '[', ']', '"', ':', ',', '\n', ' ', '0', '-', '<', '=', '@', 0x00, 0xff}

// minimal documents of each syntax class (distance-0 seeds no fixture looks like).
var minimalDocs = []struct{ Name, Data string }{
	{"empty", ""},
	{"whitespace", " \n"},
	{"null", "null"},
	{"null-nl", "null\n"},
	{"object", "{}"},
	{"array", "[]"},
	{"zero", "0"},
	{"string", `""`},
	{"xml", "<a/>"},
	{"toml-table", "[a]\n"},
	{"toml-array-table", "[[package]]\n"},
	{"lone-key", "key\n"},
	{"yaml-null-value", "a:\n"},
	{"tilde", "~\n"},
	{"lone-double-quote", "\""},
	{"lone-single-quote", "'"},
	{"key-equals", "a=\n"},
	{"key-equals-quote", "a=\"\n"},
}

type bounds struct {
	truncAll  int // seeds up to this size: truncate at every offset; larger: every 512-byte boundary
	lineOps   int // seeds up to this size: delete/duplicate/swap lines
	sigmaAll  int // seeds up to this size: sigma-replace at every offset
	sigmaLine int // seeds up to this size (and above sigmaAll): sigma-replace at line starts
	byteOps   int // seeds up to this size: delete byte i, duplicate byte i
	nullify   int // text seeds up to this size: replace each value token / bracket group by null
	caseIns   int // text seeds up to this size: insert each case rune at file start, line starts, around ':' '=' and at word boundaries
	caseLine  int // text seeds up to this size: line i := case rune + first k bytes of line i, every k (lines <= 200 B)
	emptify   int // text seeds up to this size: each string value := "" / " " / "x", each {...} := {}, [...] := [], each number := 0 / -1
	uniSpace  int // text seeds up to this size: Unicode spaces at value starts/ends, before '(' and instead of blank runs (<= 256 places)
	longLine  int // text seeds up to this size: grow the last token of a line to 4095 ... 1 MiB bytes (first 4 and last 2 lines)
	lineCut   int // text seeds up to this size: truncate line i at every column / drop its first k bytes (lines <= 200 B)
	binFF     bool
}

func boundsFor(tier string) bounds {
	if tier == "thorough" {
		return bounds{truncAll: 64 << 10, lineOps: 64 << 10, sigmaAll: 32 << 10, sigmaLine: 64 << 10, byteOps: 16 << 10, nullify: 64 << 10, lineCut: 32 << 10, caseIns: 32 << 10, caseLine: 8 << 10, longLine: 16 << 10, emptify: 64 << 10, uniSpace: 32 << 10, binFF: true}
	}
	return bounds{truncAll: 2 << 10, lineOps: 64 << 10, sigmaAll: 256, sigmaLine: 2 << 10, byteOps: 256, nullify: 2 << 10, lineCut: 8 << 10, caseIns: 2 << 10, caseLine: 2 << 10, longLine: 2 << 10, emptify: 2 << 10, uniSpace: 2 << 10, binFF: false}
}

func isBinary(seed []byte) bool {
	h := seed
	if len(h) > 1024 {
		h = h[:1024]
	}
	return bytes.IndexByte(h, 0) >= 0 || !utf8.Valid(trimPartialRune(h))
}

// trimPartialRune drops a rune cut in half by the 1 KiB window.
func trimPartialRune(b []byte) []byte {
	for i := 0; i < 3 && len(b) > 0; i++ {
		if r, _ := utf8.DecodeLastRune(b); r != utf8.RuneError {
			return b
		}
		b = b[:len(b)-1]
	}
	return b
}

// lineStarts returns the offset of every line start plus len(seed) as the final sentinel.
func lineStarts(seed []byte) []int {
	st := []int{0}
	for i, c := range seed {
		if c == '\n' && i+1 < len(seed) {
			st = append(st, i+1)
		}
	}
	return append(st, len(seed))
}

// mutDesc names a mutant.
type mutDesc struct {
	Op      string
	A, B, C int
}

func (d mutDesc) String() string {
	switch d.Op {
	case "identity":
		return "identity"
	case "truncate":
		return fmt.Sprintf("truncate@%d", d.A)
	case "sigma":
		return fmt.Sprintf("replace[%d]=%q", d.A, string(rune(sigma[d.B])))
	case "setbyte":
		return fmt.Sprintf("set[%d]=%#02x", d.A, d.B)
	case "nullify":
		return fmt.Sprintf("null<-[%d:%d]", d.A, d.B)
	case "cut-line-tail":
		return fmt.Sprintf("line %d truncated at column %d (rest of the file kept)", d.A, d.B)
	case "cut-line-head":
		return fmt.Sprintf("line %d loses its first %d bytes", d.A, d.B)
	case "case-insert":
		return fmt.Sprintf("insert %+q at offset %d", caseRunes[d.B], d.A)
	case "case-line":
		return fmt.Sprintf("line %d := %+q + its first %d bytes", d.A, caseRunes[d.C], d.B)
	case "emptify":
		return fmt.Sprintf("value [%d:%d] := %s", d.A, d.B, emptyForms[d.C])
	case "unispace-insert":
		return fmt.Sprintf("insert %+q at offset %d", uniSpaces[d.B], d.A)
	case "unispace-replace":
		return fmt.Sprintf("blank run [%d:%d] := %+q", d.A, d.B, uniSpaces[d.C])
	case "long-line":
		v := "rest of the file kept"
		if d.C == 1 {
			v = "file ends there, no final newline"
		}
		return fmt.Sprintf("line %d grown to %d bytes (%s)", d.A, longLineLengths[d.B], v)
	case "struct-field":
		return fmt.Sprintf("header field #%d at offset %d := boundary value #%d (structure-aware)", d.A, d.C, d.B)
	case "guided-set":
		return fmt.Sprintf("set[%d]=%#02x (next to an occurrence of an extracted name/version)", d.A, d.B)
	case "guided-delete":
		return fmt.Sprintf("delete [%d:%d] (an occurrence of an extracted name/version)", d.A, d.B)
	case "repack":
		return "re-packed unchanged"
	case "drop-entry", "duplicate-entry", "empty-entry":
		return fmt.Sprintf("%s %d", d.Op, d.A)
	case "replay":
		return "replay"
	case "delbyte":
		return fmt.Sprintf("delete-byte[%d]", d.A)
	case "dupbyte":
		return fmt.Sprintf("duplicate-byte[%d]", d.A)
	}
	return fmt.Sprintf("%s-line(%d)", d.Op, d.A)
}

// enumerate calls fn for every mutant of seed in canonical order (simplest operator first). data is
// only valid during the call. Returning false stops the enumeration. It returns the number of mutants visited.
func enumerate(seed []byte, tier string, from int, anchors func() []string, fn func(seq int, d mutDesc, data []byte) bool) int {
	b := boundsFor(tier)
	n := len(seed)
	seq := 0
	buf := make([]byte, 0, 2*n+16)
	// emit numbers the mutant and, unless it lies before `from`, builds and delivers it
	emit := func(d mutDesc, build func() []byte) bool {
		ok := true
		if seq >= from {
			ok = fn(seq, d, build())
		}
		seq++
		return ok
	}
	if !emit(mutDesc{Op: "identity"}, func() []byte { return seed }) {
		return seq
	}
	// truncation
	step := 1
	if n > b.truncAll {
		step = 512
	}
	for k := 0; k < n; k += step {
		if !emit(mutDesc{Op: "truncate", A: k}, func() []byte { return seed[:k] }) {
			return seq
		}
	}
	st := lineStarts(seed)
	nl := len(st) - 1
	if n > 0 && n <= b.lineOps {
		for i := 0; i < nl; i++ { // delete line i
			if !emit(mutDesc{Op: "delete", A: i}, func() []byte {
				buf = append(append(buf[:0], seed[:st[i]]...), seed[st[i+1]:]...)
				return buf
			}) {
				return seq
			}
		}
		for i := 0; i < nl; i++ { // duplicate line i
			if !emit(mutDesc{Op: "duplicate", A: i}, func() []byte {
				buf = append(buf[:0], seed[:st[i+1]]...)
				line := seed[st[i]:st[i+1]]
				if len(line) > 0 && line[len(line)-1] != '\n' {
					buf = append(buf, '\n')
				}
				buf = append(append(buf, line...), seed[st[i+1]:]...)
				return buf
			}) {
				return seq
			}
		}
		for i := 0; i+1 < nl; i++ { // swap lines i, i+1
			if !emit(mutDesc{Op: "swap", A: i}, func() []byte {
				buf = append(buf[:0], seed[:st[i]]...)
				second := seed[st[i+1]:st[i+2]]
				buf = append(buf, second...)
				if len(second) > 0 && second[len(second)-1] != '\n' {
					buf = append(buf, '\n')
				}
				buf = append(append(buf, seed[st[i]:st[i+1]]...), seed[st[i+2]:]...)
				return buf
			}) {
				return seq
			}
		}
	}
	// sigma replacement
	var pos []int
	switch {
	case n <= b.sigmaAll:
		pos = make([]int, n)
		for i := range pos {
			pos[i] = i
		}
	case n <= b.sigmaLine:
		pos = st[:nl]
	}
	for _, i := range pos {
		if i >= n {
			continue
		}
		for t, c := range sigma {
			if seed[i] == c {
				continue
			}
			if !emit(mutDesc{Op: "sigma", A: i, B: t}, func() []byte {
				buf = append(buf[:0], seed...)
				buf[i] = c
				return buf
			}) {
				return seq
			}
		}
	}
	if n <= b.byteOps {
		for i := 0; i < n; i++ {
			if !emit(mutDesc{Op: "delbyte", A: i}, func() []byte {
				buf = append(append(buf[:0], seed[:i]...), seed[i+1:]...)
				return buf
			}) {
				return seq
			}
		}
		for i := 0; i < n; i++ {
			if !emit(mutDesc{Op: "dupbyte", A: i}, func() []byte {
				buf = append(append(buf[:0], seed[:i+1]...), seed[i:]...)
				return buf
			}) {
				return seq
			}
		}
	}
	if n <= b.lineCut && !isBinary(seed) {
		for i := 0; i < nl; i++ {
			// line body without its terminator
			from, to := st[i], st[i+1]
			if to > from && seed[to-1] == '\n' {
				to--
			}
			if to > from && seed[to-1] == '\r' {
				to--
			}
			if to-from > 200 {
				continue
			}
			for k := from; k < to; k++ { // truncate line i at column k-from, keep the rest of the file
				if !emit(mutDesc{Op: "cut-line-tail", A: i, B: k - from}, func() []byte {
					buf = append(append(buf[:0], seed[:k]...), seed[to:]...)
					return buf
				}) {
					return seq
				}
			}
			for k := from + 1; k < to; k++ { // drop the first k-from bytes of line i
				if !emit(mutDesc{Op: "cut-line-head", A: i, B: k - from}, func() []byte {
					buf = append(append(buf[:0], seed[:from]...), seed[k:]...)
					return buf
				}) {
					return seq
				}
			}
		}
	}
	if n > 0 && n <= b.caseIns && !isBinary(seed) {
		for _, k := range insertPositions(seed, st[:nl]) {
			for ri, r := range caseRunes {
				if !emit(mutDesc{Op: "case-insert", A: k, B: ri}, func() []byte {
					buf = append(append(append(buf[:0], seed[:k]...), r...), seed[k:]...)
					return buf
				}) {
					return seq
				}
			}
		}
	}
	if n > 0 && n <= b.caseLine && !isBinary(seed) {
		for i := 0; i < nl; i++ {
			from, to := st[i], st[i+1]
			if to > from && seed[to-1] == '\n' {
				to--
			}
			if to > from && seed[to-1] == '\r' {
				to--
			}
			if to-from > 200 || to == from {
				continue
			}
			for k := from; k < to; k++ { // k == to is the plain insertion at the line start, done above
				for ri, r := range caseRunes {
					if !emit(mutDesc{Op: "case-line", A: i, B: k - from, C: ri}, func() []byte {
						buf = append(append(append(append(buf[:0], seed[:from]...), r...), seed[from:k]...), seed[to:]...)
						return buf
					}) {
						return seq
					}
				}
			}
		}
	}
	if n <= b.nullify && !isBinary(seed) {
		for _, sp := range valueSpans(seed) {
			if !emit(mutDesc{Op: "nullify", A: sp[0], B: sp[1]}, func() []byte {
				buf = append(append(append(buf[:0], seed[:sp[0]]...), "null"...), seed[sp[1]:]...)
				return buf
			}) {
				return seq
			}
		}
	}
	if b.binFF && isBinary(seed) {
		lim := n
		if lim > 1024 {
			lim = 1024
		}
		for i := 0; i < lim; i++ {
			for _, c := range []byte{0x00, 0xff} {
				if seed[i] == c {
					continue
				}
				if !emit(mutDesc{Op: "setbyte", A: i, B: int(c)}, func() []byte {
					buf = append(buf[:0], seed...)
					buf[i] = c
					return buf
				}) {
					return seq
				}
			}
		}
	}
	// structure-aware (quoted-string level, so JSONC/YAML/TOML work too): every string value := "" / " " / "x"
	// (keeping its quote character), every {...} := {}, every [...] := [], every bare number := 0 / -1
	if n > 0 && n <= b.emptify && !isBinary(seed) {
		for _, sp := range valueSpans(seed) {
			var forms []int
			switch c := seed[sp[0]]; {
			case c == '"' || c == '\'':
				forms = []int{0, 1, 2}
			case c == '{':
				forms = []int{3}
			case c == '[':
				forms = []int{4}
			case c >= '0' && c <= '9' || c == '-' || c == '+':
				forms = []int{5, 6}
			}
			for _, fi := range forms {
				if !emit(mutDesc{Op: "emptify", A: sp[0], B: sp[1], C: fi}, func() []byte {
					rep := []byte(emptyForms[fi])
					if fi <= 2 && seed[sp[0]] == '\'' {
						rep = bytes.ReplaceAll(rep, []byte{'"'}, []byte{'\''})
					}
					buf = append(append(append(buf[:0], seed[:sp[0]]...), rep...), seed[sp[1]:]...)
					return buf
				}) {
					return seq
				}
			}
		}
	}
	// Unicode spaces: at the start and end of each field value (after ':' / '=' + blanks, at end of line),
	// before each '(' and instead of each ASCII blank run
	if n > 0 && n <= b.uniSpace && !isBinary(seed) {
		ins, runs := uniSpacePlaces(seed)
		for _, k := range ins {
			for ri, r := range uniSpaces {
				if !emit(mutDesc{Op: "unispace-insert", A: k, B: ri}, func() []byte {
					buf = append(append(append(buf[:0], seed[:k]...), r...), seed[k:]...)
					return buf
				}) {
					return seq
				}
			}
		}
		for _, sp := range runs {
			for ri, r := range uniSpaces {
				if !emit(mutDesc{Op: "unispace-replace", A: sp[0], B: sp[1], C: ri}, func() []byte {
					buf = append(append(append(buf[:0], seed[:sp[0]]...), r...), seed[sp[1]:]...)
					return buf
				}) {
					return seq
				}
			}
		}
	}
	// long line / long token: the last token of line i (what precedes its trailing quote/bracket/comma) is
	// padded with 'A' until the line has the target length; the key prefix stays, so the parser still reaches it
	if n > 0 && n <= b.longLine && !isBinary(seed) {
		var lines []int
		for i := 0; i < nl; i++ {
			if i < 4 || i >= nl-2 {
				lines = append(lines, i)
			}
		}
		for _, i := range lines {
			from, to := st[i], st[i+1]
			if to > from && seed[to-1] == '\n' {
				to--
			}
			if to > from && seed[to-1] == '\r' {
				to--
			}
			ins := to // insertion point: before the trailing closers of the line
			for ins > from && strings.IndexByte("\",;)]}'> \t", seed[ins-1]) >= 0 {
				ins--
			}
			if ins == from {
				ins = to
			}
			for li, L := range longLineLengths {
				pad := L - (to - from)
				if pad <= 0 {
					continue
				}
				for variant := 0; variant < 2; variant++ {
					if !emit(mutDesc{Op: "long-line", A: i, B: li, C: variant}, func() []byte {
						out := make([]byte, 0, n+pad)
						out = append(out, seed[:ins]...)
						for k := 0; k < pad; k++ {
							out = append(out, 'A')
						}
						out = append(out, seed[ins:to]...)
						if variant == 0 {
							out = append(out, seed[to:]...)
						}
						return out
					}) {
						return seq
					}
				}
			}
		}
	}
	// structure-aware: every size/offset/count field of the ELF / PE / Mach-O header tables := each boundary value
	if n >= 32 {
		for fi, f := range structFields(seed) {
			for vi, v := range fieldValues(f.get(seed), n, f.width) {
				if !emit(mutDesc{Op: "struct-field", A: fi, B: vi, C: f.off}, func() []byte {
					buf = append(buf[:0], seed...)
					f.put(buf, v)
					return buf
				}) {
					return seq
				}
			}
		}
	}
	// Output-guided stage (last, so that the numbering above never depends on it): for seeds too large for
	// per-offset operators, the names and versions the extractor reported for the UNMUTATED seed say where
	// the bytes it cares about live (the module list inside a 2 MB Go binary, ...). Around each occurrence of
	// such a string: overwrite the bytes at its edges, at the edges of the printable run that holds it and
	// the byte before that run (a length prefix or terminator in binary formats) with 00 / 01 / space / ff,
	// and delete the occurrence.
	if n > b.sigmaAll && anchors != nil {
		for _, sp := range guidedSpans(seed, anchors()) {
			for _, p := range sp.pos {
				for _, c := range []byte{0x00, 0x01, ' ', 0xff} {
					if seed[p] == c {
						continue
					}
					if !emit(mutDesc{Op: "guided-set", A: p, B: int(c)}, func() []byte {
						buf = append(buf[:0], seed...)
						buf[p] = c
						return buf
					}) {
						return seq
					}
				}
			}
			if !emit(mutDesc{Op: "guided-delete", A: sp.from, B: sp.to}, func() []byte {
				buf = append(append(buf[:0], seed[:sp.from]...), seed[sp.to:]...)
				return buf
			}) {
				return seq
			}
		}
	}
	return seq
}

type guidedSpan struct {
	from, to int
	pos      []int
}

// guidedSpans: at most 4 occurrences of each anchor (64 in total), in anchor order then offset order.
func guidedSpans(seed []byte, anchors []string) []guidedSpan {
	var out []guidedSpan
	n := len(seed)
	printable := func(c byte) bool { return c >= 0x20 && c <= 0x7e }
	for _, a := range anchors {
		if len(a) < 3 {
			continue
		}
		off, cnt := 0, 0
		for cnt < 4 && len(out) < 64 {
			i := bytes.Index(seed[off:], []byte(a))
			if i < 0 {
				break
			}
			s, e := off+i, off+i+len(a)
			off = e
			cnt++
			rs, re := s, e
			for rs > 0 && printable(seed[rs-1]) && s-rs < 256 {
				rs--
			}
			for re < n && printable(seed[re]) && re-e < 256 {
				re++
			}
			seen := map[int]bool{}
			var pos []int
			for _, p := range []int{rs - 1, rs, s - 2, s - 1, s, e - 1, e, re - 1, re} {
				if p >= 0 && p < n && !seen[p] {
					seen[p] = true
					pos = append(pos, p)
				}
			}
			out = append(out, guidedSpan{from: s, to: e, pos: pos})
		}
	}
	return out
}

// uniSpacePlaces: insertion offsets (value starts after ':'/'=' and blanks, line ends, before '(') and the
// ASCII blank runs inside lines; at most 256 of each.
func uniSpacePlaces(seed []byte) (ins []int, runs [][2]int) {
	n := len(seed)
	mark := map[int]bool{}
	add := func(p int) {
		if !mark[p] && len(ins) < 256 {
			mark[p] = true
			ins = append(ins, p)
		}
	}
	for i := 0; i < n; i++ {
		switch c := seed[i]; {
		case c == ':' || c == '=':
			j := i + 1
			for j < n && (seed[j] == ' ' || seed[j] == '\t') {
				j++
			}
			add(i + 1)
			add(j)
		case c == '\n':
			k := i
			if k > 0 && seed[k-1] == '\r' {
				k--
			}
			add(k)
		case c == '(':
			add(i)
		case c == ' ' || c == '\t':
			j := i
			for j < n && (seed[j] == ' ' || seed[j] == '\t') {
				j++
			}
			if i > 0 && seed[i-1] != '\n' && len(runs) < 256 { // not the indentation
				runs = append(runs, [2]int{i, j})
			}
			i = j - 1
		}
	}
	add(n)
	return ins, runs
}

// insertPositions: offset 0, every line start, before and after every ':' and '=', and every boundary
// between a run of letters/digits and anything else.
func insertPositions(seed []byte, lineStarts []int) []int {
	n := len(seed)
	mark := make([]bool, n+1)
	mark[0] = true
	for _, p := range lineStarts {
		mark[p] = true
	}
	word := func(c byte) bool {
		return c >= '0' && c <= '9' || c >= 'a' && c <= 'z' || c >= 'A' && c <= 'Z' || c >= 0x80
	}
	for i := 0; i < n; i++ {
		if seed[i] == ':' || seed[i] == '=' {
			mark[i], mark[i+1] = true, true
		}
		if i > 0 && word(seed[i]) != word(seed[i-1]) {
			mark[i] = true
		}
	}
	var out []int
	for i, m := range mark {
		if m {
			out = append(out, i)
		}
	}
	return out
}

// valueSpans finds the value positions of a JSON/YAML/TOML-like text: quoted strings that are not keys,
// bare scalars that follow ':' ',' '[' or '=', and balanced {...} / [...] groups. Each span [from,to) is
// replaced by `null` by the nullify operator (the structure-aware edit "this value is null").
func valueSpans(seed []byte) [][2]int {
	var out [][2]int
	n := len(seed)
	prevSig := byte(0) // last non-space byte before position i
	var stack []int
	isBare := func(c byte) bool {
		return c >= '0' && c <= '9' || c >= 'a' && c <= 'z' || c >= 'A' && c <= 'Z' || c == '.' || c == '-' || c == '+' || c == '_'
	}
	nextSig := func(i int) byte {
		for ; i < n; i++ {
			if seed[i] != ' ' && seed[i] != '\t' {
				return seed[i]
			}
		}
		return 0
	}
	for i := 0; i < n; {
		c := seed[i]
		switch {
		case c == '"' || c == '\'':
			j := i + 1
			for j < n && seed[j] != c && seed[j] != '\n' {
				if seed[j] == '\\' && c == '"' {
					j++
				}
				j++
			}
			if j < n && seed[j] == c {
				if nx := nextSig(j + 1); nx != ':' && nx != '=' {
					out = append(out, [2]int{i, j + 1})
				}
				i = j + 1
				prevSig = c
				continue
			}
			prevSig = c
			i++
		case c == '{' || c == '[':
			stack = append(stack, i)
			prevSig = c
			i++
		case c == '}' || c == ']':
			if len(stack) > 0 {
				o := stack[len(stack)-1]
				stack = stack[:len(stack)-1]
				if (seed[o] == '{') == (c == '}') {
					out = append(out, [2]int{o, i + 1})
				}
			}
			prevSig = c
			i++
		case isBare(c):
			j := i
			for j < n && isBare(seed[j]) {
				j++
			}
			if (prevSig == ':' || prevSig == ',' || prevSig == '[' || prevSig == '=') && nextSig(j) != ':' && nextSig(j) != '=' {
				out = append(out, [2]int{i, j})
			}
			prevSig = seed[j-1]
			i = j
		case c == ' ' || c == '\t' || c == '\r':
			i++
		case c == '\n':
			if prevSig != ':' && prevSig != ',' && prevSig != '[' && prevSig != '=' {
				prevSig = '\n'
			}
			i++
		default:
			prevSig = c
			i++
		}
	}
	return out
}

// regenerate returns mutant number seq of seed.
func regenerate(seed []byte, tier string, want int) (mutDesc, []byte, bool) {
	var d mutDesc
	var out []byte
	found := false
	enumerate(seed, tier, want, nil, func(seq int, md mutDesc, data []byte) bool {
		if seq == want {
			d, out, found = md, append([]byte{}, data...), true
			return false
		}
		return true
	})
	return d, out, found
}

func fnv64(parts ...[]byte) uint64 {
	h := uint64(14695981039346656037)
	for _, p := range parts {
		for _, c := range p {
			h ^= uint64(c)
			h *= 1099511628211
		}
		h ^= 0xff
		h *= 1099511628211
	}
	return h
}
