package main

import (
	"bufio"
	"context"
	"encoding/base64"
	"encoding/hex"
	"encoding/json"
	"errors"
	"fmt"
	"io"
	"io/fs"
	"os"
	"path"
	"path/filepath"
	"reflect"
	"runtime"
	"runtime/debug"
	"runtime/metrics"
	"sort"
	"strconv"
	"strings"
	"syscall"
	"time"

	scalibr "github.com/google/osv-scalibr"
	"github.com/google/osv-scalibr/extractor/filesystem"
	javaarchive "github.com/google/osv-scalibr/extractor/filesystem/language/java/archive"
	el "github.com/google/osv-scalibr/extractor/filesystem/list"
	"github.com/google/osv-scalibr/extractor/filesystem/os/rpm"
	scalibrfs "github.com/google/osv-scalibr/fs"
	"github.com/google/osv-scalibr/inventory"
	"github.com/google/osv-scalibr/plugin"
	"verif/ev"
	"verif/memfs"
	"verif/scankit"
)

// unit is one work item sent from the parent to a worker (one JSON line on stdin).
type unit struct {
	ID   int    `json:"id"`
	Kind string `json:"kind"` // "extract" | "contain" | "engine"
	Ex   string `json:"ex"`
	Seed string `json:"seed"` // "f:<path relative to the repository>" or "m:<minimal document name>"
	Cand int    `json:"cand"`
	Tier string `json:"tier"`
	// Resume is the first sequence number to execute (earlier ones are regenerated for de-duplication only).
	Resume int `json:"resume"`
	// Arc, when set, makes this a container-aware unit: Arc is the archive seed ("f:" fixture or "b:" built
	// from scratch), Entry the inner entry that is mutated (-1: archive-level operators) and Seed the content
	// the entry starts from ("e:" = its own).
	Arc   string `json:"arc,omitempty"`
	Entry int    `json:"entry,omitempty"`
	// Anchors are the names/versions extracted from the unmutated seed (sent back by the worker after mutant 0
	// and handed in again on a restart) that drive the output-guided stage of the enumeration.
	Anchors []string `json:"anchors,omitempty"`
	// Seq selects the single mutant of a contain unit.
	Seq int `json:"seq"`
	// Data, when set, is the only mutant to run (replay).
	Data     *string `json:"data,omitempty"`
	Deadline int64   `json:"deadline"` // unix seconds; 0 = none
}

// msg is every non-hot message from worker to parent (one JSON line prefixed "J ").
type msg struct {
	T      string   `json:"t"` // "viol" | "class" | "done" | "recycle" | "harness" | "contain"
	Key    string   `json:"key,omitempty"`
	What   string   `json:"what,omitempty"`
	Seq    int      `json:"seq,omitempty"`
	Class  string   `json:"class,omitempty"`
	Evals  int64    `json:"evals,omitempty"`
	Exerc  int64    `json:"exerc,omitempty"`
	Total  int      `json:"total,omitempty"`
	Part   bool     `json:"part,omitempty"`
	Alloc  uint64   `json:"alloc,omitempty"`
	SlowMs int64    `json:"slow_ms,omitempty"`
	Obs    string   `json:"obs,omitempty"`
	Stack  string   `json:"stack,omitempty"`
	Anch   []string `json:"anch,omitempty"`
	Pct    int      `json:"pct,omitempty"` // tight-budget units: largest allocation as a percentage of the oracle's limit
}

const osRelease = "NAME=\"Debian GNU/Linux\"\nID=debian\nVERSION_ID=\"12\"\nVERSION_CODENAME=bookworm\n"

const healthyReq = "requests==2.31.0\nflask==3.0.0\n"
const healthyDpkg = "Package: zlib1g\nStatus: install ok installed\nSource: zlib (1:1.2.13.dfsg-1)\nVersion: 1:1.2.13.dfsg-1+b1\nArchitecture: amd64\nMaintainer: Mark Brown <broonie@debian.org>\n\n"

var ctl *os.File
var ctlBuf = make([]byte, 0, 64)

func announce(seq int) {
	ctlBuf = append(ctlBuf[:0], 'M', ' ')
	ctlBuf = strconv.AppendInt(ctlBuf, int64(seq), 10)
	ctlBuf = append(ctlBuf, '\n')
	if _, err := ctl.Write(ctlBuf); err != nil {
		os.Exit(0) // parent is gone
	}
}

func send(m msg) {
	b, _ := json.Marshal(m)
	b = append(append([]byte("J "), b...), '\n')
	if _, err := ctl.Write(b); err != nil {
		os.Exit(0)
	}
}

func sendHashes(hs []uint64) {
	if len(hs) == 0 {
		return
	}
	raw := make([]byte, 8*len(hs))
	for i, h := range hs {
		for k := 0; k < 8; k++ {
			raw[8*i+k] = byte(h >> (8 * k))
		}
	}
	b := append([]byte("H "), hex.EncodeToString(raw)...)
	b = append(b, '\n')
	if _, err := ctl.Write(b); err != nil {
		os.Exit(0)
	}
}

func setLimits() {
	as := uint64(8 << 30)
	_ = syscall.Setrlimit(syscall.RLIMIT_AS, &syscall.Rlimit{Cur: as, Max: as})
	var nf syscall.Rlimit
	if syscall.Getrlimit(syscall.RLIMIT_NOFILE, &nf) == nil {
		nf.Cur = nf.Max
		_ = syscall.Setrlimit(syscall.RLIMIT_NOFILE, &nf)
	}
	_ = syscall.Setrlimit(syscall.RLIMIT_CORE, &syscall.Rlimit{})
	debug.SetTraceback("single")
}

func vmSizeBytes() uint64 {
	b, err := os.ReadFile("/proc/self/statm")
	if err != nil {
		return 0
	}
	f := strings.Fields(string(b))
	if len(f) == 0 {
		return 0
	}
	n, _ := strconv.ParseUint(f[0], 10, 64)
	return n * uint64(os.Getpagesize())
}

var allocSample = []metrics.Sample{{Name: "/gc/heap/allocs:bytes"}}

func allocBytes() uint64 {
	metrics.Read(allocSample)
	if allocSample[0].Value.Kind() == metrics.KindUint64 {
		return allocSample[0].Value.Uint64()
	}
	return 0
}

// extractor lookup --------------------------------------------------------------------------------

func extractorNames() []string {
	var out []string
	for n := range el.All {
		if n == "java/pomxmlnet" { // needs a registry: not an offline extractor
			continue
		}
		out = append(out, n)
	}
	sort.Strings(out)
	return out
}

// rpmTimeout is the value given to os/rpm's own Timeout knob (the bound it puts on go-rpmdb looping over a
// corrupt BerkeleyDB file; default 5 min). One-line mutants of testdata/Packages_epoch do run into it, and at
// 5 min apiece neither tier would fit its budget, so the harness turns the knob down; the code path is the
// same and the hang watchdog (120 s) stays far above it.
func rpmTimeout() time.Duration {
	if os.Getenv("VERIF_TIER") == "thorough" {
		return 30 * time.Second
	}
	return 8 * time.Second
}

// tightBudget is MaxOpenedBytes of the "tight-budget" java/archive variant.
const tightBudget = 256 << 10

// newExtractorVariant returns the instance a placement asks for.
func newExtractorVariant(name, variant string) filesystem.Extractor {
	if name == javaarchive.Name && variant == "tight-budget" {
		cfg := javaarchive.DefaultConfig()
		cfg.MaxOpenedBytes = tightBudget
		return javaarchive.New(cfg)
	}
	return newExtractor(name)
}

func newExtractor(name string) filesystem.Extractor {
	if name == rpm.Name {
		cfg := rpm.DefaultConfig()
		cfg.Timeout = rpmTimeout()
		return rpm.New(cfg)
	}
	fns := el.All[name]
	if len(fns) == 0 {
		return nil
	}
	return fns[0]()
}

// pkgDir is the source directory of the extractor's package below the repository.
func pkgDir(e filesystem.Extractor) string {
	t := reflect.TypeOf(e)
	for t.Kind() == reflect.Ptr {
		t = t.Elem()
	}
	pp := strings.TrimPrefix(t.PkgPath(), "github.com/google/osv-scalibr/")
	return pp
}

// environment -------------------------------------------------------------------------------------

type env interface {
	put(p string, data []byte, perm fs.FileMode) error
	remove(p string) error
	fsys() scalibrfs.FS
	root() string // "" for a virtual file system
	reset()
	close()
}

type memEnv struct {
	rootN *memfs.Node
	m     *memfs.FS
	nodes map[string]*memfs.Node
}

func newMemEnv() *memEnv {
	r := memfs.D("")
	return &memEnv{rootN: r, m: memfs.New(r), nodes: map[string]*memfs.Node{}}
}
func (e *memEnv) put(p string, data []byte, perm fs.FileMode) error {
	if n, ok := e.nodes[p]; ok {
		n.Data = string(data)
		n.Perm = perm
		return nil
	}
	cur := e.rootN
	parts := strings.Split(p, "/")
	for i, part := range parts {
		var next *memfs.Node
		for _, c := range cur.Children {
			if c.Name == part {
				next = c
				break
			}
		}
		last := i == len(parts)-1
		if next == nil {
			if last {
				next = memfs.F(part, string(data))
				next.Perm = perm
			} else {
				next = memfs.D(part)
			}
			cur.Children = append(cur.Children, next)
			sort.Slice(cur.Children, func(a, b int) bool { return cur.Children[a].Name < cur.Children[b].Name })
		} else if last != (next.Kind == memfs.File) {
			return fmt.Errorf("memEnv: %s: file/directory conflict", p)
		} else if last {
			next.Data = string(data)
			next.Perm = perm
		}
		cur = next
	}
	e.nodes[p] = cur
	return nil
}
func (e *memEnv) remove(p string) error {
	dir, base := path.Split(p)
	cur := e.rootN
	if dir != "" {
		for _, part := range strings.Split(strings.TrimSuffix(dir, "/"), "/") {
			var next *memfs.Node
			for _, c := range cur.Children {
				if c.Name == part {
					next = c
				}
			}
			if next == nil {
				return fs.ErrNotExist
			}
			cur = next
		}
	}
	for i, c := range cur.Children {
		if c.Name == base {
			cur.Children = append(cur.Children[:i:i], cur.Children[i+1:]...)
			delete(e.nodes, p)
			return nil
		}
	}
	return fs.ErrNotExist
}
func (e *memEnv) fsys() scalibrfs.FS { return safeFS{e.m} }
func (e *memEnv) root() string       { return "" }
func (e *memEnv) reset()             { e.m.Reset() }
func (e *memEnv) close()             {}

// safeFS gives the regular files of verif/memfs the offset semantics of *os.File: memfs accepts a negative
// Seek result / ReadAt offset and then panics slicing its data, which the real file system never does
// (it returns EINVAL). Without this layer such a harness panic would be booked on the extractor.
type safeFS struct{ *memfs.FS }

func (s safeFS) Open(name string) (fs.File, error) {
	f, err := s.FS.Open(name)
	if err != nil {
		return nil, err
	}
	fi, err := f.Stat()
	if err != nil || fi.IsDir() {
		return f, nil
	}
	ra, ok := f.(io.ReaderAt)
	if !ok {
		return f, nil
	}
	return &safeFile{File: f, ra: ra, size: fi.Size(), name: name}, nil
}

type safeFile struct {
	fs.File
	ra   io.ReaderAt
	size int64
	off  int64
	name string
}

func (f *safeFile) Read(b []byte) (int, error) {
	if len(b) == 0 {
		return 0, nil
	}
	if f.off >= f.size {
		return 0, io.EOF
	}
	n, err := f.ra.ReadAt(b, f.off)
	f.off += int64(n)
	if n > 0 {
		return n, nil
	}
	return n, err
}
func (f *safeFile) ReadAt(b []byte, off int64) (int, error) {
	if off < 0 {
		return 0, &fs.PathError{Op: "readat", Path: f.name, Err: errors.New("negative offset")}
	}
	if off >= f.size {
		return 0, io.EOF
	}
	return f.ra.ReadAt(b, off)
}
func (f *safeFile) Seek(off int64, whence int) (int64, error) {
	var n int64
	switch whence {
	case io.SeekStart:
		n = off
	case io.SeekCurrent:
		n = f.off + off
	case io.SeekEnd:
		n = f.size + off
	default:
		return 0, &fs.PathError{Op: "seek", Path: f.name, Err: syscall.EINVAL}
	}
	if n < 0 {
		return 0, &fs.PathError{Op: "seek", Path: f.name, Err: syscall.EINVAL}
	}
	f.off = n
	return n, nil
}

type dirEnv struct{ dir string }

func newDirEnv(dir string) (*dirEnv, error) {
	_ = os.RemoveAll(dir)
	if err := os.MkdirAll(dir, 0o755); err != nil {
		return nil, err
	}
	return &dirEnv{dir: dir}, nil
}
func (e *dirEnv) put(p string, data []byte, perm fs.FileMode) error {
	if perm == 0 {
		perm = 0o644
	}
	full := filepath.Join(e.dir, filepath.FromSlash(p))
	_ = os.Remove(full) // fresh inode every time: locks leaked by an earlier call must not follow the path
	f, err := os.OpenFile(full, os.O_WRONLY|os.O_CREATE|os.O_TRUNC, perm)
	if err != nil {
		if err2 := os.MkdirAll(filepath.Dir(full), 0o755); err2 != nil {
			return err2
		}
		if f, err = os.OpenFile(full, os.O_WRONLY|os.O_CREATE|os.O_TRUNC, perm); err != nil {
			return err
		}
	}
	_, err = f.Write(data)
	if cerr := f.Close(); err == nil {
		err = cerr
	}
	return err
}
func (e *dirEnv) remove(p string) error {
	return os.Remove(filepath.Join(e.dir, filepath.FromSlash(p)))
}
func (e *dirEnv) fsys() scalibrfs.FS { return scalibrfs.DirFS(e.dir) }
func (e *dirEnv) root() string       { return e.dir }
func (e *dirEnv) reset()             {}
func (e *dirEnv) close()             { _ = os.RemoveAll(e.dir) }

func conflicts(a, b string) bool {
	return a == b || strings.HasPrefix(a, b+"/") || strings.HasPrefix(b, a+"/")
}

// loadSeed returns the seed bytes and, for fixture seeds, the absolute fixture path.
func loadSeed(s string) ([]byte, string, error) {
	if strings.HasPrefix(s, "m:") {
		for _, d := range minimalDocs {
			if d.Name == s[2:] {
				return []byte(d.Data), "", nil
			}
		}
		return nil, "", fmt.Errorf("unknown minimal document %q", s)
	}
	if strings.HasPrefix(s, "b:") {
		es, ok := builtArchives[s[2:]]
		if !ok {
			return nil, "", fmt.Errorf("unknown built archive %q", s)
		}
		return packArchive(es), "", nil
	}
	if strings.HasPrefix(s, "i:") {
		d, ok := inline[s[2:]]
		if !ok {
			return nil, "", fmt.Errorf("unknown inline document %q", s)
		}
		return []byte(d), "", nil
	}
	abs := filepath.Join(ev.RepoDir(), filepath.FromSlash(strings.TrimPrefix(s, "f:")))
	b, err := os.ReadFile(abs)
	return b, abs, err
}

// fixtureOrInline reads "i:<name>" from the inline table, anything else from the extractor's package directory.
func fixtureOrInline(inst filesystem.Extractor, ref string) ([]byte, error) {
	if strings.HasPrefix(ref, "i:") {
		d, ok := inline[ref[2:]]
		if !ok {
			return nil, fmt.Errorf("unknown inline document %q", ref)
		}
		return []byte(d), nil
	}
	return os.ReadFile(filepath.Join(ev.RepoDir(), pkgDir(inst), filepath.FromSlash(ref)))
}

// harnessErr marks problems of the harness or its tables (never a violation).
type harnessErr struct{ s string }

func (h harnessErr) Error() string { return h.s }

// scene is the prepared environment of one (extractor, seed, placement).
type scene struct {
	ex    string
	sp    spec
	c     cand
	e     env
	extra map[string]bool // paths occupied
	// rewrite is the healthy file at c.Path when the mutant lives elsewhere (bolt may touch it).
	rewrite []byte
}

var workDir string // per worker scratch directory on /dev/shm

func buildScene(exName string, candIdx int, seedAbs string) (*scene, error) {
	sp, ok := specs[exName]
	if !ok {
		return nil, harnessErr{"no spec for " + exName}
	}
	if candIdx >= len(sp.Cands) {
		return nil, harnessErr{"bad candidate index"}
	}
	c := sp.Cands[candIdx]
	inst := newExtractor(exName)
	if inst == nil {
		return nil, harnessErr{"unknown extractor " + exName}
	}
	if inst.Requirements().DirectFS {
		sp.RealDir = true
	}
	var e env
	if sp.RealDir {
		d, err := newDirEnv(filepath.Join(workDir, "scene"))
		if err != nil {
			return nil, harnessErr{err.Error()}
		}
		e = d
	} else {
		e = newMemEnv()
	}
	sc := &scene{ex: exName, sp: sp, c: c, e: e, extra: map[string]bool{}}
	required := []string{c.Path, c.mutPath()}
	for p := range c.Comp {
		required = append(required, p)
	}
	free := func(p string) bool {
		for _, r := range required {
			if conflicts(p, r) {
				return false
			}
		}
		for r := range sc.extra {
			if conflicts(p, r) {
				return false
			}
		}
		return true
	}
	// companions named by the table
	comps := make([]string, 0, len(c.Comp))
	for p := range c.Comp {
		comps = append(comps, p)
	}
	sort.Strings(comps)
	for _, p := range comps {
		b, err := fixtureOrInline(inst, c.Comp[p])
		if err != nil {
			return nil, harnessErr{err.Error()}
		}
		if err := e.put(p, b, 0); err != nil {
			return nil, harnessErr{err.Error()}
		}
		if p == c.Path && c.mutPath() != c.Path {
			sc.rewrite = b
		}
	}
	if c.Primary != "" && c.mutPath() != c.Path {
		b, err := fixtureOrInline(inst, c.Primary)
		if err != nil {
			return nil, harnessErr{err.Error()}
		}
		if err := e.put(c.Path, b, c.Perm); err != nil {
			return nil, harnessErr{err.Error()}
		}
		if sp.RealDir {
			sc.rewrite = b
		}
	}
	// the fixture's own neighbours (go.sum next to go.mod, _locales next to manifest.json, -r files ...)
	if seedAbs != "" {
		base := filepath.Dir(seedAbs)
		var rels []string
		_ = filepath.WalkDir(base, func(p string, d fs.DirEntry, err error) error {
			if err != nil || !d.Type().IsRegular() || p == seedAbs {
				return nil
			}
			r, _ := filepath.Rel(base, p)
			rels = append(rels, filepath.ToSlash(r))
			return nil
		})
		sort.Strings(rels)
		total, count := 0, 0
		mdir := path.Dir(c.mutPath())
		for _, r := range rels {
			if count >= 64 {
				break
			}
			fi, err := os.Stat(filepath.Join(base, filepath.FromSlash(r)))
			if err != nil || fi.Size() > 64<<10 || total+int(fi.Size()) > 256<<10 {
				continue
			}
			tp := path.Join(mdir, r)
			if !free(tp) {
				continue
			}
			b, err := os.ReadFile(filepath.Join(base, filepath.FromSlash(r)))
			if err != nil {
				continue
			}
			if e.put(tp, b, fi.Mode().Perm()) == nil {
				sc.extra[tp] = true
				total += len(b)
				count++
			}
		}
	}
	if !c.NoOSRelease && free("etc/os-release") {
		if e.put("etc/os-release", []byte(osRelease), 0) == nil {
			sc.extra["etc/os-release"] = true
		}
	}
	return sc, nil
}

func (sc *scene) place(data []byte) error {
	sc.e.reset()
	if sc.rewrite != nil {
		if err := sc.e.put(sc.c.Path, sc.rewrite, sc.c.Perm); err != nil {
			return err
		}
	}
	return sc.e.put(sc.c.mutPath(), data, sc.c.Perm)
}

type fileAPI struct {
	f scalibrfs.FS
	p string
}

func (a fileAPI) Path() string               { return a.p }
func (a fileAPI) Stat() (fs.FileInfo, error) { return fs.Stat(a.f, a.p) }

type result struct {
	panicked bool
	pval     string
	stack    string
	err      error
	npkg     int
	anchors  []string
	dt       time.Duration
	alloc    uint64
}

func recoverBig(fn func()) (p any, stack string) {
	defer func() {
		if x := recover(); x != nil {
			p = x
			buf := make([]byte, 256<<10)
			stack = string(buf[:runtime.Stack(buf, false)])
		}
	}()
	fn()
	return nil, ""
}

// extractOnce hands the file currently placed in the scene to Extract exactly like runExtractor does.
func (sc *scene) extractOnce(ex filesystem.Extractor) (result, error) {
	fsys := sc.e.fsys()
	f, err := fsys.Open(sc.c.Path)
	if err != nil {
		return result{}, harnessErr{"open: " + err.Error()}
	}
	defer f.Close()
	info, err := f.Stat()
	if err != nil {
		return result{}, harnessErr{"stat: " + err.Error()}
	}
	in := &filesystem.ScanInput{FS: fsys, Path: sc.c.Path, Root: sc.e.root(), Info: info, Reader: f}
	var res result
	var inv inventory.Inventory
	a0 := allocBytes()
	t0 := time.Now()
	p, stack := recoverBig(func() { inv, res.err = ex.Extract(context.Background(), in) })
	res.dt = time.Since(t0)
	res.alloc = allocBytes() - a0
	if p != nil {
		res.panicked, res.pval, res.stack = true, fmt.Sprint(p), stack
		res.err = nil
	}
	res.npkg = len(inv.Packages)
	if res.npkg > 0 {
		set := map[string]bool{}
		for _, p := range inv.Packages {
			if p == nil {
				continue
			}
			for _, v := range []string{p.Name, p.Version} {
				if len(v) >= 3 && len(v) <= 64 {
					set[v] = true
				}
			}
		}
		for v := range set {
			res.anchors = append(res.anchors, v)
		}
		sort.Strings(res.anchors)
		if len(res.anchors) > 16 {
			res.anchors = res.anchors[:16]
		}
	}
	return res, nil
}

// trimStack keeps the frames between the panic and the harness.
func trimStack(stack string) string {
	lines := strings.Split(stack, "\n")
	var out []string
	started := false
	for i := 0; i < len(lines); i++ {
		if !started {
			started = strings.HasPrefix(lines[i], "panic(")
			continue
		}
		if strings.HasPrefix(lines[i], "main.") {
			break
		}
		out = append(out, lines[i])
	}
	if len(out) > 60 {
		out = out[:60]
	}
	return strings.Join(out, "\n")
}

func shortSite(stack string) string {
	return strings.TrimPrefix(ev.PanicSite(stack), "extractor/filesystem/")
}

// causeKey is `<extractor>:<panic site>`; when the site lies in a package shared by several extractors
// (os/osrelease, internal/mavenutil, ...) the key is `<shared package>:<site>` so that one root cause
// reached through many extractors stays one key.
func causeKey(exName, infix, stack string) string {
	site := ev.PanicSite(stack)
	short := strings.TrimPrefix(site, "extractor/filesystem/")
	owner := exName
	if inst := newExtractor(exName); inst != nil && site != "unknown-site" && !strings.HasPrefix(site, "dep:") {
		sitePkg := site
		if k := strings.LastIndex(site, "/"); k >= 0 {
			if d := strings.Index(site[k:], "."); d >= 0 {
				sitePkg = site[:k+d]
			}
		} else if d := strings.Index(site, "."); d >= 0 {
			sitePkg = site[:d]
		}
		if sitePkg != pkgDir(inst) {
			owner = path.Base(sitePkg)
		}
	}
	return owner + ":" + infix + short
}

// errClass is the first 48 characters of the error text with paths, quoted text and digits removed.
func errClass(err error, sc *scene) string {
	s := err.Error()
	if r := sc.e.root(); r != "" {
		s = strings.ReplaceAll(s, r, "R")
	}
	for _, p := range []string{sc.c.mutPath(), sc.c.Path} {
		s = strings.ReplaceAll(s, p, "P")
	}
	var b strings.Builder
	rs := []rune(s)
	for i := 0; i < len(rs) && b.Len() < 48; i++ {
		c := rs[i]
		switch {
		case c == '"' || c == '\'' || c == '`':
			end := -1
			for j := i + 1; j < len(rs) && j < i+120; j++ {
				if rs[j] == c {
					end = j
					break
				}
			}
			if end > 0 {
				b.WriteByte('Q')
				i = end
			}
		case c >= '0' && c <= '9':
		case c < 0x20 || c > 0x7e:
			b.WriteByte('.')
		default:
			b.WriteRune(c)
		}
	}
	return b.String()
}

type replayData struct {
	Kind      string `json:"kind"`
	Extractor string `json:"extractor"`
	Cand      int    `json:"cand"`
	Path      string `json:"path"`
	MutPath   string `json:"mutant_path"`
	Seed      string `json:"seed"`
	Mutation  string `json:"mutation"`
	DataB64   string `json:"mutant_b64"`
	Stack     string `json:"stack,omitempty"`
	Combo     int    `json:"combo,omitempty"` // kind "engine": index into engineCombos()
}

func mkReplay(kind string, u unit, c cand, d string, data []byte) replayData {
	seed := u.Seed
	if u.Arc != "" {
		// the replay carries the re-packed archive; the archive seed is kept only for the scene's neighbours
		seed = u.Arc
		d = fmt.Sprintf("entry %d (content from %s): %s", u.Entry, u.Seed, d)
	}
	return replayData{Kind: kind, Extractor: u.Ex, Cand: u.Cand, Path: c.Path, MutPath: c.mutPath(), Seed: seed, Mutation: d,
		DataB64: base64.StdEncoding.EncodeToString(data)}
}

func preview(b []byte) string {
	if len(b) > 60 {
		return fmt.Sprintf("%q...(%d bytes)", b[:60], len(b))
	}
	return fmt.Sprintf("%q", b)
}

// runExtractUnit enumerates every mutant of (extractor, seed, placement).
func runExtractUnit(u unit) error {
	src, err := openSource(u)
	if err != nil {
		return harnessErr{err.Error()}
	}
	sc, err := buildScene(u.Ex, u.Cand, src.seedAbs)
	if err != nil {
		return err
	}
	defer sc.e.close()
	if err := sc.place(src.first()); err != nil {
		return harnessErr{err.Error()}
	}
	// the placement must be one the extractor accepts (fresh instance: os/nix remembers what it saw)
	var accepted bool
	if p, stack := recoverBig(func() {
		accepted = newExtractorVariant(u.Ex, sc.c.Variant).FileRequired(fileAPI{sc.e.fsys(), sc.c.Path})
	}); p != nil {
		send(msg{T: "viol", Key: causeKey(u.Ex, "", stack), What: fmt.Sprintf("%s FileRequired(%s) panicked: %v", u.Ex, sc.c.Path, p), Seq: 0})
		send(msg{T: "done"})
		return nil
	}
	if !accepted {
		return harnessErr{fmt.Sprintf("%s: FileRequired rejects %s", u.Ex, sc.c.Path)}
	}
	ex := newExtractorVariant(u.Ex, sc.c.Variant)
	seen := map[uint64]struct{}{}
	classes := map[string]bool{}
	var hashes []uint64
	var evals, exerc int64
	var maxAlloc uint64
	var slow time.Duration
	budgetPct := 0
	partial := false
	recycleAt := -1
	var herr error
	pathB := []byte(fmt.Sprintf("%s|%d|%s|%d", u.Ex, u.Cand, u.Arc, u.Entry))
	label := src.label(u)
	one := func(seq int, d mutDesc, data []byte) bool {
		if u.Deadline > 0 && seq&15 == 0 && time.Now().Unix() > u.Deadline {
			partial = true
			return false
		}
		if seq < u.Resume {
			// already run before the worker was restarted; not re-hashed (a restart must stay cheap for
			// megabyte seeds), so a later duplicate of one of these may be executed once more
			return true
		}
		h := fnv64(pathB, data)
		if _, dup := seen[h]; dup {
			return true
		}
		seen[h] = struct{}{}
		if err := sc.place(src.wrap(data)); err != nil {
			herr = harnessErr{err.Error()}
			return false
		}
		announce(seq)
		res, err := sc.extractOnce(ex)
		if err != nil {
			herr = err
			return false
		}
		evals++
		if seq == 0 && u.Data == nil && u.Arc == "" && u.Anchors == nil && !res.panicked && len(res.anchors) > 0 {
			src.anch = res.anchors
			send(msg{T: "anchors", Anch: res.anchors})
		}
		if res.alloc > maxAlloc {
			maxAlloc = res.alloc
		}
		if res.dt > slow {
			slow = res.dt
		}
		switch {
		case res.panicked:
			first := strings.SplitN(res.stack, "\n", 2)[0]
			_ = first
			send(msg{T: "viol", Key: causeKey(u.Ex, "", res.stack), Seq: seq, Stack: trimStack(res.stack),
				What: fmt.Sprintf("%s Extract(%s) panicked: %s [seed %s, %s, content %s]", u.Ex, sc.c.Path, res.pval, label, d, preview(data))})
			exerc++
			hashes = append(hashes, h)
			// do not trust the process after a panic (bolt.Open leaks its flock and mapping, ...): start afresh
			recycleAt = seq + 1
		case res.err != nil:
			exerc++
			hashes = append(hashes, h)
			if cl := errClass(res.err, sc); !classes[cl] {
				classes[cl] = true
				send(msg{T: "class", Class: cl, Seq: seq})
			}
		case res.npkg > 0:
			exerc++
			hashes = append(hashes, h)
		}
		if sc.c.Variant == "tight-budget" {
			// The extractor's own contract (Config.MaxOpenedBytes: "maximum number of bytes recursively read from an
			// archive file; if this limit is reached, extraction is halted"). Bytes read cannot be seen from outside,
			// bytes allocated can, and every inner archive is io.ReadAll'ed: reading n bytes allocates <= ~6.25 n
			// (append growth 1.25x). Honouring the cap reads <= 2 x budget (the check precedes the read of the last
			// entry), i.e. allocates <= 12.5 x budget plus bookkeeping that grows with the file (zip directory, flate
			// state per entry). The limit below is 2.5 x that plus 64 bytes per file byte plus 8 MiB (HEAD stays below a third of it).
			final := int64(len(src.wrap(data)))
			limit := uint64(32*tightBudget + 64*final + 8<<20)
			if p := int(res.alloc * 100 / limit); p > budgetPct {
				budgetPct = p
			}
			if res.alloc > limit {
				send(msg{T: "viol", Key: u.Ex + ":opened-bytes-budget", Seq: seq,
					What: fmt.Sprintf("%s (MaxOpenedBytes=%d) allocated %d bytes during one Extract of a %d-byte archive, more than %d: its size cap did not halt the extraction [seed %s, %s]", u.Ex, tightBudget, res.alloc, final, limit, label, d)})
			}
		}
		if res.dt > 5*time.Second {
			send(msg{T: "slow", Seq: seq, SlowMs: res.dt.Milliseconds(), Alloc: res.alloc, What: d.String()})
		}
		if len(hashes) >= 2048 {
			sendHashes(hashes)
			hashes = hashes[:0]
		}
		// a call that took this long may have left goroutines spinning (os/rpm's timeout): start afresh
		if res.dt > 10*time.Second || (evals&63 == 0 && vmSizeBytes() > 4<<30) {
			recycleAt = seq + 1
		}
		return recycleAt < 0
	}
	total := 0
	if u.Data != nil {
		data, err := base64.StdEncoding.DecodeString(*u.Data)
		if err != nil {
			return harnessErr{err.Error()}
		}
		one(0, mutDesc{Op: "replay"}, data)
		total = 1
	} else {
		total = src.enumerate(u.Tier, u.Resume, one)
	}
	sendHashes(hashes)
	if herr != nil {
		return herr
	}
	if recycleAt >= 0 {
		send(msg{T: "recycle", Seq: recycleAt, Evals: evals, Exerc: exerc, Alloc: maxAlloc, SlowMs: slow.Milliseconds(), Pct: budgetPct})
		os.Exit(0)
	}
	send(msg{T: "done", Evals: evals, Exerc: exerc, Total: total, Part: partial, Alloc: maxAlloc, SlowMs: slow.Milliseconds(), Pct: budgetPct})
	return nil
}

// containment ---------------------------------------------------------------------------------------

type scanView struct {
	completed bool
	healthy   string // packages and status of the healthy extractor
	badStatus plugin.ScanStatusEnum
	badSeen   bool
	overall   string
}

func (sc *scene) scan(bad, healthy filesystem.Extractor) (v scanView, pval any, stack string) {
	capab := &plugin.Capabilities{OS: plugin.OSLinux, Network: plugin.NetworkOffline, DirectFS: sc.e.root() != ""}
	rq := bad.Requirements()
	if rq.OS != plugin.OSAny && rq.OS != plugin.OSUnix {
		capab.OS = rq.OS
	}
	if rq.Network == plugin.NetworkOnline {
		capab.Network = plugin.NetworkOnline
	}
	capab.RunningSystem = rq.RunningSystem
	capab.DirectFS = capab.DirectFS || rq.DirectFS
	cfg := &scalibr.ScanConfig{
		FilesystemExtractors: []filesystem.Extractor{bad, healthy},
		Capabilities:         capab,
		ScanRoots:            []*scalibrfs.ScanRoot{{FS: sc.e.fsys(), Path: sc.e.root()}},
	}
	pval, stack = recoverBig(func() {
		sr := scalibr.New().Scan(context.Background(), cfg)
		if sr == nil || sr.Status == nil {
			return
		}
		v.completed = true
		v.overall = sr.Status.String()
		var pk []string
		for _, p := range sr.Inventory.Packages {
			if p.Extractor != nil && p.Extractor.Name() == healthy.Name() {
				pk = append(pk, fmt.Sprintf("%s@%s@%v", p.Name, p.Version, p.Locations))
			}
		}
		sort.Strings(pk)
		hs := "absent"
		for _, st := range sr.PluginStatus {
			if st.Name == healthy.Name() {
				hs = st.Status.String()
			}
			if st.Name == bad.Name() {
				v.badSeen, v.badStatus = true, st.Status.Status
			}
		}
		v.healthy = fmt.Sprintf("status=%s packages=%v", hs, pk)
	})
	return v, pval, stack
}

func runContainUnit(u unit) error {
	src, err := openSource(u)
	if err != nil {
		return harnessErr{err.Error()}
	}
	seedAbs := src.seedAbs
	var data []byte
	desc := "replay"
	if u.Data != nil {
		if data, err = base64.StdEncoding.DecodeString(*u.Data); err != nil {
			return harnessErr{err.Error()}
		}
	} else {
		d, b, ok := src.regenerate(u.Tier, u.Seq)
		if !ok {
			return harnessErr{"contain: mutant not found"}
		}
		data, desc = b, d.String()
	}
	sc, err := buildScene(u.Ex, u.Cand, seedAbs)
	if err != nil {
		return err
	}
	defer sc.e.close()
	hName, hPath, hData := "python/requirements", "requirements.txt", healthyReq
	if u.Ex == hName {
		hName, hPath, hData = "os/dpkg", "var/lib/dpkg/status", healthyDpkg
	}
	for _, p := range append([]string{sc.c.Path, sc.c.mutPath()}, keys(sc.extra)...) {
		if conflicts(p, hPath) {
			if err := sc.e.remove(p); err != nil && (p == sc.c.Path || p == sc.c.mutPath()) {
				return harnessErr{"contain: healthy path collides with placement"}
			}
		}
	}
	if err := sc.place(data); err != nil {
		return harnessErr{err.Error()}
	}
	if err := sc.e.put(hPath, []byte(hData), 0); err != nil {
		return harnessErr{err.Error()}
	}
	var required bool
	if p, _ := recoverBig(func() {
		required = newExtractorVariant(u.Ex, sc.c.Variant).FileRequired(fileAPI{sc.e.fsys(), sc.c.Path})
	}); p != nil {
		required = false
	}
	announce(u.Seq)
	with, pval, stack := sc.scan(newExtractorVariant(u.Ex, sc.c.Variant), newExtractor(hName))
	rp := func() string {
		return fmt.Sprintf("[%s at %s, seed %s, %s, content %s]", u.Ex, sc.c.mutPath(), u.Seed, desc, preview(data))
	}
	if pval != nil {
		send(msg{T: "viol", Key: causeKey(u.Ex, "scan-panic:", stack), Seq: u.Seq, Stack: trimStack(stack), What: fmt.Sprintf("Scan panicked: %v %s", pval, rp())})
		send(msg{T: "contain", Obs: "scan panicked"})
		return nil
	}
	if err := sc.e.remove(sc.c.mutPath()); err != nil {
		return harnessErr{err.Error()}
	}
	sc.e.reset()
	without, pval2, _ := sc.scan(newExtractorVariant(u.Ex, sc.c.Variant), newExtractor(hName))
	if pval2 != nil || !without.completed || without.overall != "SUCCEEDED" || !strings.HasPrefix(without.healthy, "status=SUCCEEDED packages=[") || strings.HasSuffix(without.healthy, "packages=[]") {
		return harnessErr{fmt.Sprintf("contain: reference scan without the bad file is not healthy: overall=%s %s", without.overall, without.healthy)}
	}
	obs := fmt.Sprintf("with bad file: completed=%v overall=%s healthy{%s} bad-status=%s; without: healthy{%s}", with.completed, with.overall, with.healthy, statusName(with.badSeen, with.badStatus), without.healthy)
	switch {
	case !with.completed:
		send(msg{T: "viol", Key: u.Ex + ":contain:scan-incomplete", Seq: u.Seq, What: "Scan returned no result " + rp()})
	case with.healthy != without.healthy:
		send(msg{T: "viol", Key: u.Ex + ":contain:healthy-extractor-affected", Seq: u.Seq,
			What: fmt.Sprintf("results of %s changed: with the bad file %s, without %s %s", hName, with.healthy, without.healthy, rp())})
	case required && (!with.badSeen || (with.badStatus != plugin.ScanStatusFailed && with.badStatus != plugin.ScanStatusPartiallySucceeded)):
		send(msg{T: "viol", Key: u.Ex + ":contain:failure-not-in-status", Seq: u.Seq,
			What: fmt.Sprintf("Extract returned an error for this file but the scan reports status %s for %s %s", statusName(with.badSeen, with.badStatus), u.Ex, rp())})
	}
	send(msg{T: "contain", Obs: obs})
	return nil
}

func statusName(seen bool, st plugin.ScanStatusEnum) string {
	if !seen {
		return "ABSENT"
	}
	return (&plugin.ScanStatus{Status: st}).String()
}

func keys(m map[string]bool) []string {
	out := make([]string, 0, len(m))
	for k := range m {
		out = append(out, k)
	}
	sort.Strings(out)
	return out
}

// workerMain is the loop of a worker subprocess: read units from stdin, report on fd 3.
func workerMain(id string) {
	setLimits()
	scankit.Quiet()
	ctl = os.NewFile(3, "ctl")
	workDir = filepath.Join(os.Getenv("VERIF_C02_SCRATCH"), "w"+id)
	_ = os.MkdirAll(workDir, 0o755)
	in := bufio.NewReaderSize(os.Stdin, 1<<20)
	for {
		line, err := in.ReadBytes('\n')
		if len(line) > 1 {
			var u unit
			if jerr := json.Unmarshal(line, &u); jerr != nil {
				send(msg{T: "harness", What: "bad unit: " + jerr.Error()})
				continue
			}
			var uerr error
			switch u.Kind {
			case "extract":
				uerr = runExtractUnit(u)
			case "contain":
				uerr = runContainUnit(u)
			case "engine":
				uerr = runEngineUnit(u)
			default:
				uerr = harnessErr{"unknown unit kind"}
			}
			if uerr != nil {
				var he harnessErr
				if errors.As(uerr, &he) {
					send(msg{T: "harness", What: he.s})
				} else {
					send(msg{T: "harness", What: uerr.Error()})
				}
			}
		}
		if err != nil {
			if err != io.EOF {
				os.Exit(4)
			}
			return
		}
	}
}
