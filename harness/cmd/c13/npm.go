package main

import (
	"bytes"
	"encoding/json"
	"fmt"
	"os"
	"path/filepath"
	"sort"
	"strings"

	"deps.dev/util/resolve"
	"deps.dev/util/resolve/dep"
	scalibrfs "github.com/google/osv-scalibr/fs"
	"github.com/google/osv-scalibr/guidedremediation"
	"github.com/google/osv-scalibr/guidedremediation/result"
	"verif/ev"
)

// ---------------------------------------------------------------------------
// package.json generator
// ---------------------------------------------------------------------------

type jEntry struct{ Key, Val string }

type jMember struct {
	Key     string
	Str     string   // scalar string member (when Entries == nil && Raw == "")
	Entries []jEntry // section object
	Raw     string   // pre-rendered JSON value (decoys)
	IsObj   bool
}

type npmDoc struct {
	Members []jMember
	Style   int // 0: 2 spaces, 1: tab, 2: minified, 3: 2 spaces + CRLF
	Family  string
}

func jstr(s string) string {
	var b bytes.Buffer
	enc := json.NewEncoder(&b)
	enc.SetEscapeHTML(false)
	_ = enc.Encode(s)
	return strings.TrimSuffix(b.String(), "\n")
}

func (d *npmDoc) render() string {
	var nl, ind, colon string
	switch d.Style {
	case 0:
		nl, ind, colon = "\n", "  ", ": "
	case 1:
		nl, ind, colon = "\n", "\t", ": "
	case 2:
		nl, ind, colon = "", "", ":"
	case 3:
		nl, ind, colon = "\r\n", "  ", ": "
	}
	var b strings.Builder
	b.WriteString("{" + nl)
	for i, m := range d.Members {
		b.WriteString(ind + jstr(m.Key) + colon)
		switch {
		case m.IsObj:
			if len(m.Entries) == 0 {
				b.WriteString("{}")
			} else {
				b.WriteString("{" + nl)
				for j, e := range m.Entries {
					b.WriteString(ind + ind + jstr(e.Key) + colon + jstr(e.Val))
					if j+1 < len(m.Entries) {
						b.WriteString(",")
					}
					b.WriteString(nl)
				}
				b.WriteString(ind + "}")
			}
		case m.Raw != "":
			b.WriteString(m.Raw)
		default:
			b.WriteString(jstr(m.Str))
		}
		if i+1 < len(d.Members) {
			b.WriteString(",")
		}
		b.WriteString(nl)
	}
	b.WriteString("}")
	if d.Style != 2 {
		b.WriteString(nl)
	}
	return b.String()
}

var npmNames = []string{"left", "lodash.merge", "@s/p", "a*b", "axb", "a?b", "x#y", "p|q", "@mod", `back\slash`, "sp ace"}

// entry alphabet for a section: plain names plus two alias entries
func npmEntryAlphabet() []jEntry {
	var es []jEntry
	for _, n := range npmNames {
		es = append(es, jEntry{n, "^1.0.0"})
	}
	es = append(es, jEntry{"ali", "npm:left@^1.0.0"}, jEntry{"al.ias", "npm:@s/p@^1.0.0"})
	return es
}

func realPkg(e jEntry) string {
	if r, ok := strings.CutPrefix(e.Val, "npm:"); ok {
		if i := strings.LastIndex(r, "@"); i > 0 {
			return r[:i]
		}
		return r
	}
	return e.Key
}

const (
	secDeps = "dependencies"
	secDev  = "devDependencies"
	secOpt  = "optionalDependencies"
	secPeer = "peerDependencies"
)

var allSections = []string{secDeps, secDev, secOpt, secPeer}

func head() []jMember {
	return []jMember{{Key: "name", Str: "root-pkg"}, {Key: "version", Str: "1.0.0"}}
}

func sec(name string, es ...jEntry) jMember { return jMember{Key: name, Entries: es, IsObj: true} }

var npmDecoys = []jMember{
	{Key: "dependencies.left", Str: "0.0.1"},
	{Key: "config", Raw: `{"dependencies":{"left":"0.0.1","lodash.merge":"0.0.1"},"dependencies.left":"0.0.2","devDependencies":{"left":"0.0.3"}}`},
	{Key: "devDependencies.left", Raw: `{"x":"1"}`},
	{Key: "overrides", Raw: `{"left":"^9.0.0","lodash":{"merge":"^9.0.0"}}`},
	{Key: "nested", Raw: `{"a":{"dependencies":{"left":"0.0.4"}},"lodash":{"merge":"0.0.5"}}`},
	{Key: "lodash", Raw: `{"merge":"0.0.6"}`},
}

func genNpmDocs(thorough bool) []*npmDoc {
	var docs []*npmDoc
	add := func(fam string, style int, ms ...jMember) {
		docs = append(docs, &npmDoc{Members: ms, Style: style, Family: fam})
	}
	styles := []int{0, 1, 2, 3}
	readable := []string{secDeps, secDev, secOpt}
	alpha := npmEntryAlphabet()
	filler := jEntry{"zed", "~2.1.0"}
	gitdep := jEntry{"gitdep", "github:user/repo"}

	// F1: one entry (+ filler before/after, + non-registry neighbour) in one section
	for _, s := range readable {
		for _, e := range alpha {
			for _, st := range styles {
				add("single", st, append(head(), sec(s, e))...)
				add("single", st, append(head(), sec(s, filler, e))...)
				add("single", st, append(head(), sec(s, e, gitdep, filler))...)
			}
		}
	}
	// F1b: the requirement-value alphabet: empty string, whitespace only, "*", a dist-tag, a range with spaces
	for _, s := range readable {
		for _, v := range []string{"", " ", "*", "latest", ">=1.0.0 <2.0.0"} {
			for _, st := range []int{0, 2} {
				add("value-forms", st, append(head(), sec(s, jEntry{"left-pad", v}))...)
				add("value-forms", st, append(head(), sec(s, filler, jEntry{"left-pad", v}, jEntry{"lodash.merge", v}))...)
			}
		}
	}
	// F2: ordered pairs of entries in one section (wildcard collisions, alias + real name)
	f2secs := []string{secDeps}
	f2styles := []int{0}
	if thorough {
		f2secs, f2styles = readable, styles
	}
	for _, s := range f2secs {
		for i, e1 := range alpha {
			for j, e2 := range alpha {
				if i == j {
					continue
				}
				if s != secDeps && realPkg(e1) == realPkg(e2) {
					// Read replaces "the" requirement of a package key while ranging over a Go map: with two keys
					// of one real package in dev/optional its result depends on map order. Not a writer matter.
					continue
				}
				e2v := e2
				e2v.Val = strings.Replace(e2.Val, "^1.0.0", "^1.5.0", 1) // different version than e1
				for _, st := range f2styles {
					add("pair", st, append(head(), sec(s, e1, e2))...)
					add("pair", st, append(head(), sec(s, e1, e2v))...)
				}
			}
		}
	}
	// F3: the same key in 2..4 sections, equal / different / mixed versions, section order permuted
	f3names := []jEntry{{"left", "^1.0.0"}, {"lodash.merge", "^1.0.0"}, {"a*b", "^1.0.0"}, {"ali", "npm:left@^1.0.0"}}
	for mask := 1; mask < 16; mask++ {
		var ss []string
		for b := 0; b < 4; b++ {
			if mask&(1<<b) != 0 {
				ss = append(ss, allSections[b])
			}
		}
		if len(ss) < 2 {
			continue
		}
		perms := permutations(len(ss))
		if !thorough {
			perms = [][]int{perms[0], perms[len(perms)-1]}
		}
		for _, e := range f3names {
			for vp := 0; vp < 3; vp++ { // 0 all equal, 1 all different, 2 first two equal rest different
				for _, pm := range perms {
					for _, st := range []int{0, 2} {
						ms := head()
						for _, pi := range pm {
							ev := e
							switch {
							case vp == 1 && pi > 0, vp == 2 && pi > 1:
								ev.Val = strings.Replace(e.Val, "^1.0.0", fmt.Sprintf("^1.%d.0", pi), 1)
							}
							ms = append(ms, sec(ss[pi], filler, ev))
						}
						add("multi-section", st, ms...)
					}
				}
			}
		}
	}
	// F4: every subset of sections with distinct content, every order of top-level keys
	content := map[string][]jEntry{
		secDeps: {{"left", "^1.0.0"}, {"lodash.merge", "1.2.3"}},
		secDev:  {{"@s/p", "~1.1.0"}, {"axb", "*"}},
		secOpt:  {{"x#y", "^1.0.0"}},
		secPeer: {{"left", "^0.9.0"}, {"pq", ">=1"}},
	}
	for mask := 1; mask < 16; mask++ {
		var ms []jMember
		for b := 0; b < 4; b++ {
			if mask&(1<<b) != 0 {
				ms = append(ms, sec(allSections[b], content[allSections[b]]...))
			}
		}
		ms = append(ms, jMember{Key: "name", Str: "root-pkg"})
		perms := permutations(len(ms))
		for pi, pm := range perms {
			if !thorough && len(perms) > 24 && pi%5 != 0 { // quick: every 5th order of the 120
				continue
			}
			for _, st := range styles {
				if !thorough && st != 0 && pi%4 != st {
					continue
				}
				var out []jMember
				for _, k := range pm {
					out = append(out, ms[k])
				}
				out = append(out, jMember{Key: "version", Str: "1.0.0"})
				add("section-subsets", st, out...)
			}
		}
	}
	// F5: look-alike keys elsewhere in the document, before and after the real section
	for _, e := range []jEntry{{"left", "^1.0.0"}, {"lodash.merge", "^1.0.0"}} {
		for _, s := range readable {
			for di := range npmDecoys {
				for _, st := range styles {
					add("decoy", st, append(append(head(), npmDecoys[di]), sec(s, e))...)
					add("decoy", st, append(append(head(), sec(s, e)), npmDecoys[di])...)
				}
			}
			for _, st := range styles {
				all := append(append(append([]jMember{}, npmDecoys[:3]...), sec(s, e, filler)), npmDecoys[3:]...)
				add("decoy", st, append(head(), all...)...)
			}
		}
	}
	// empty sections / no sections
	for _, st := range styles {
		add("empty", st, head()...)
		add("empty", st, append(head(), sec(secDeps), sec(secDev, jEntry{"left", "^1.0.0"}))...)
	}
	return docs
}

var npmTargets = []string{"^2.0.0", "*", ">=1.0.0 <3.0.0"}

func exploreNpmDoc(r *ev.Run, d *npmDoc) {
	content := d.render()
	files := map[string]string{"package.json": content}
	reqs, err := npmReadReqs(files)
	if err != nil {
		r.Violation("npm:generated-document-unreadable", err.Error(), &caseSpec{Kind: "npm", Files: files, Main: "package.json"})
		return
	}
	execute(r, &caseSpec{Kind: "npm", Files: files, Main: "package.json", Family: d.Family}, nil)
	exploreNpmMixed(r, d, files, reqs)
	shifts := ev.Pick(r, []int{0}, []int{0, 1, 2})
	for _, sub := range subsets(len(reqs), 3) {
		for _, sh := range shifts {
			var us []updSpec
			for j, idx := range sub {
				q := reqs[idx]
				ka, _ := q.Type.GetAttr(dep.KnownAs)
				us = append(us, updSpec{Name: q.Name, KnownAs: ka, To: npmTargets[(j+sh+idx)%len(npmTargets)]})
			}
			execute(r, &caseSpec{Kind: "npm", Files: files, Main: "package.json", Updates: us, Family: d.Family}, nil)
		}
	}
}

// exploreNpmMixed: update LISTS of length 2-3, in every order, mixing valid updates, stale updates
// (VersionFrom differs from the file) and the update of a package that is not in the file. The pool is
// built from the first two requirements of the document; every list contains at least one stale or
// absent element (all-valid lists are the ordinary subsets above).
func exploreNpmMixed(r *ev.Run, d *npmDoc, files map[string]string, reqs []resolve.RequirementVersion) {
	if d.Style == 1 || d.Style == 3 { // formatting is irrelevant here: 2-space and minified only
		return
	}
	type slot []updSpec // alternatives for one package
	var slots []slot
	for i, q := range reqs {
		if i >= 2 {
			break
		}
		ka, _ := q.Type.GetAttr(dep.KnownAs)
		slots = append(slots, slot{
			{Name: q.Name, KnownAs: ka, To: npmTargets[0]},
			{Name: q.Name, KnownAs: ka, To: npmTargets[0], From: "^0.0.7"},
		})
	}
	slots = append(slots, slot{{Name: "not-in-the-file", To: npmTargets[0], Absent: true}})
	special := func(u updSpec) bool { return u.Absent || u.From != "" }
	for _, sub := range subsets(len(slots), 3) {
		if len(sub) < 2 {
			continue
		}
		// every choice of alternative per chosen slot
		choice := make([]int, len(sub))
		for {
			var us []updSpec
			anySpecial := false
			for j, si := range sub {
				u := slots[si][choice[j]]
				us = append(us, u)
				anySpecial = anySpecial || special(u)
			}
			if anySpecial {
				for pi, pm := range permutations(len(us)) {
					var ord []updSpec
					for _, k := range pm {
						ord = append(ord, us[k])
					}
					execute(r, &caseSpec{Kind: "npm", Files: files, Main: "package.json", Updates: ord, Family: d.Family + "+mixed-list", OrderCheck: pi == 0}, nil)
				}
			}
			j := 0
			for ; j < len(sub); j++ {
				choice[j]++
				if choice[j] < len(slots[sub[j]]) {
					break
				}
				choice[j] = 0
			}
			if j == len(sub) {
				break
			}
		}
	}
}

func npmReadReqs(files map[string]string) ([]resolve.RequirementVersion, error) {
	dir := newCaseDir()
	defer os.RemoveAll(dir)
	if err := writeFiles(dir, files); err != nil {
		return nil, err
	}
	rw, err := guidedremediation.VerifNpmReadWriter("")
	if err != nil {
		return nil, err
	}
	m, err := rw.Read("package.json", scalibrfs.DirFS(dir))
	if err != nil {
		return nil, err
	}
	return m.Requirements(), nil
}

// ---------------------------------------------------------------------------
// independent JSON span scanner
// ---------------------------------------------------------------------------

type jSpan struct {
	Sec      string
	Key      string
	KeyStart int
	KeyEnd   int
	Start    int // value literal [Start,End)
	End      int
	Val      string
	IsString bool
}

type jscan struct {
	b   []byte
	pos int
}

func (s *jscan) ws() {
	for s.pos < len(s.b) && (s.b[s.pos] == ' ' || s.b[s.pos] == '\t' || s.b[s.pos] == '\n' || s.b[s.pos] == '\r') {
		s.pos++
	}
}

// str scans a string literal at pos; returns decoded value and the literal's span.
func (s *jscan) str() (string, int, int, error) {
	if s.pos >= len(s.b) || s.b[s.pos] != '"' {
		return "", 0, 0, fmt.Errorf("expected string at %d", s.pos)
	}
	start := s.pos
	i := s.pos + 1
	for i < len(s.b) {
		if s.b[i] == '\\' {
			i += 2
			continue
		}
		if s.b[i] == '"' {
			break
		}
		i++
	}
	if i >= len(s.b) {
		return "", 0, 0, fmt.Errorf("unterminated string at %d", start)
	}
	end := i + 1
	var v string
	if err := json.Unmarshal(s.b[start:end], &v); err != nil {
		return "", 0, 0, fmt.Errorf("bad string literal at %d: %v", start, err)
	}
	s.pos = end
	return v, start, end, nil
}

// skip skips any JSON value.
func (s *jscan) skip() error {
	s.ws()
	if s.pos >= len(s.b) {
		return fmt.Errorf("eof")
	}
	switch c := s.b[s.pos]; {
	case c == '"':
		_, _, _, err := s.str()
		return err
	case c == '{' || c == '[':
		closer := byte('}')
		if c == '[' {
			closer = ']'
		}
		s.pos++
		for {
			s.ws()
			if s.pos >= len(s.b) {
				return fmt.Errorf("eof in container")
			}
			if s.b[s.pos] == closer {
				s.pos++
				return nil
			}
			if s.b[s.pos] == ',' || s.b[s.pos] == ':' {
				s.pos++
				continue
			}
			if err := s.skip(); err != nil {
				return err
			}
		}
	default:
		for s.pos < len(s.b) && !strings.ContainsRune(",}] \t\r\n", rune(s.b[s.pos])) {
			s.pos++
		}
		return nil
	}
}

// object calls f(key, keyStart, keyEnd) positioned at the member value; f must consume the value.
func (s *jscan) object(f func(key string, ks, ke int) error) error {
	s.ws()
	if s.pos >= len(s.b) || s.b[s.pos] != '{' {
		return fmt.Errorf("expected object at %d", s.pos)
	}
	s.pos++
	for {
		s.ws()
		if s.pos >= len(s.b) {
			return fmt.Errorf("eof in object")
		}
		if s.b[s.pos] == '}' {
			s.pos++
			return nil
		}
		if s.b[s.pos] == ',' {
			s.pos++
			continue
		}
		k, ks, ke, err := s.str()
		if err != nil {
			return err
		}
		s.ws()
		if s.pos >= len(s.b) || s.b[s.pos] != ':' {
			return fmt.Errorf("expected ':' at %d", s.pos)
		}
		s.pos++
		s.ws()
		if err := f(k, ks, ke); err != nil {
			return err
		}
	}
}

// scanSections returns the entries of the four dependency sections at top level.
func scanSections(b []byte) ([]jSpan, error) {
	var spans []jSpan
	s := &jscan{b: b}
	err := s.object(func(key string, _, _ int) error {
		isSec := key == secDeps || key == secDev || key == secOpt || key == secPeer
		if !isSec || s.b[s.pos] != '{' {
			return s.skip()
		}
		return s.object(func(k string, ks, ke int) error {
			if s.b[s.pos] == '"' {
				v, st, en, err := s.str()
				if err != nil {
					return err
				}
				spans = append(spans, jSpan{Sec: key, Key: k, KeyStart: ks, KeyEnd: ke, Start: st, End: en, Val: v, IsString: true})
				return nil
			}
			return s.skip()
		})
	})
	return spans, err
}

// ---------------------------------------------------------------------------
// npm case execution + oracle
// ---------------------------------------------------------------------------

func reqString(q resolve.RequirementVersion) string {
	return q.Name + " | " + q.Type.String() + " | " + q.Version
}

func runNpm(cs *caseSpec, dir string) outcome {
	o := runNpmOnce(cs, dir)
	if cs.OrderCheck && len(cs.Updates) >= 2 && len(cs.Updates) <= 4 {
		// the outcome class (error vs. success) must not depend on the order of the update list
		for _, pm := range permutations(len(cs.Updates))[1:] {
			alt := *cs
			alt.Updates = nil
			for _, k := range pm {
				alt.Updates = append(alt.Updates, cs.Updates[k])
			}
			d2 := newCaseDir()
			o2 := runNpmOnce(&alt, d2)
			os.RemoveAll(d2)
			if (o2.writeErr == "") != (o.writeErr == "") && !hasPanic(o) && !hasPanic(o2) {
				o.discs = append(o.discs, disc{"npm:outcome-depends-on-update-order", fmt.Sprintf("updates %s: Write error %q, but in the order %s: Write error %q", fmtUpdates(cs.Updates), o.writeErr, fmtUpdates(alt.Updates), o2.writeErr)})
				break
			}
		}
	}
	if len(o.discs) == 0 {
		return o
	}
	// Attribution: if the failure disappears when every key containing a character that is special in a
	// gjson/sjson path is consistently renamed to a plain identifier, the root cause is the key spelling.
	if ren, ok := renameSpecialKeys(cs); ok {
		dir2 := newCaseDir()
		defer os.RemoveAll(dir2)
		o2 := runNpmOnce(ren, dir2)
		if len(o2.discs) == 0 && o2.writeErr == "" {
			for i := range o.discs {
				if !strings.HasPrefix(o.discs[i].Key, "harness:") {
					o.discs[i].What = o.discs[i].Key + ": " + o.discs[i].What + " (holds after renaming keys to plain identifiers)"
					o.discs[i].Key = "npm:unescaped-key-path"
				}
			}
		}
	}
	return o
}

func hasPanic(o outcome) bool {
	for _, d := range o.discs {
		if strings.Contains(d.Key, "panic") || strings.HasPrefix(d.Key, "harness:") {
			return true
		}
	}
	return false
}

func isPlainKey(k string) bool {
	for _, c := range k {
		if !(c >= 'a' && c <= 'z' || c >= 'A' && c <= 'Z' || c >= '0' && c <= '9' || c == '_' || c == '-') {
			return false
		}
	}
	return true
}

func renameSpecialKeys(cs *caseSpec) (*caseSpec, bool) {
	in := []byte(cs.Files[cs.Main])
	spans, err := scanSections(in)
	if err != nil {
		return nil, false
	}
	ren := map[string]string{}
	used := map[string]bool{}
	for _, sp := range spans {
		used[sp.Key] = true
	}
	n := 0
	for _, sp := range spans {
		if !isPlainKey(sp.Key) && ren[sp.Key] == "" {
			for {
				cand := fmt.Sprintf("plain%d", n)
				n++
				if !used[cand] {
					ren[sp.Key] = cand
					used[cand] = true
					break
				}
			}
		}
	}
	if len(ren) == 0 {
		return nil, false
	}
	sort.Slice(spans, func(i, j int) bool { return spans[i].KeyStart < spans[j].KeyStart })
	var b bytes.Buffer
	pos := 0
	for _, sp := range spans {
		if nk, ok := ren[sp.Key]; ok {
			b.Write(in[pos:sp.KeyStart])
			b.WriteString(jstr(nk))
			pos = sp.KeyEnd
		}
	}
	b.Write(in[pos:])
	out := &caseSpec{Kind: "npm", Main: cs.Main, Files: map[string]string{cs.Main: b.String()}}
	for _, u := range cs.Updates {
		nu := u
		if u.KnownAs != "" {
			if nk, ok := ren[u.KnownAs]; ok {
				nu.KnownAs = nk
			}
		} else if nk, ok := ren[u.Name]; ok {
			nu.Name = nk
		}
		out.Updates = append(out.Updates, nu)
	}
	return out, true
}

func runNpmOnce(cs *caseSpec, dir string) (o outcome) {
	bad := func(k, f string, a ...any) { o.discs = append(o.discs, disc{k, fmt.Sprintf(f, a...)}) }
	inDir, outPath := filepath.Join(dir, "in"), filepath.Join(dir, "out", "package.json")
	if err := writeFiles(inDir, cs.Files); err != nil {
		bad("harness:io", "%v", err)
		return
	}
	in := []byte(cs.Files[cs.Main])
	fsys := scalibrfs.DirFS(inDir)
	rw, err := guidedremediation.VerifNpmReadWriter("")
	if err != nil {
		bad("harness:readwriter", "%v", err)
		return
	}
	m, err := rw.Read(cs.Main, fsys)
	if err != nil {
		bad("npm:generated-document-unreadable", "%v", err)
		return
	}
	reqs := m.Requirements()
	before := make([]string, len(reqs))
	for i, q := range reqs {
		before[i] = reqString(q)
	}
	spans, err := scanSections(in)
	if err != nil {
		bad("harness:npm-span-scan", "%v", err)
		return
	}

	// build the patch list; split into two result.Patch values when there are >= 2 updates so that the
	// outer loop is exercised too.
	type tgt struct {
		key, newVal string
		idx         int
	}
	var tgts []tgt
	var pus []result.PackageUpdate
	expected := append([]string{}, before...)
	for _, u := range cs.Updates {
		if u.Absent {
			// not a requirement of the file: nothing is demanded for it, nothing else may change
			pus = append(pus, result.PackageUpdate{Name: u.Name, VersionFrom: "^1.0.0", VersionTo: u.To})
			continue
		}
		found := -1
		for i, q := range reqs {
			ka, _ := q.Type.GetAttr(dep.KnownAs)
			if q.Name == u.Name && ka == u.KnownAs {
				found = i
				break
			}
		}
		if found < 0 {
			bad("harness:update-addresses-unknown-requirement", "%s/%s not among %v", u.Name, u.KnownAs, before)
			return
		}
		q := reqs[found]
		from := q.Version
		if u.From != "" {
			if u.From == q.Version {
				bad("harness:stale-update-is-not-stale", "%s from %s", u.Name, u.From)
				return
			}
			from = u.From // stale: if Write succeeds nevertheless, the update has to be applied
		}
		pus = append(pus, result.PackageUpdate{Name: q.Name, VersionFrom: from, VersionTo: u.To, Type: q.Type.Clone()})
		nq := q
		nq.Version = u.To
		expected[found] = reqString(nq)
		if q.Version != u.To {
			o.changed = true
		}
		key, newVal := u.Name, u.To
		if u.KnownAs != "" {
			key, newVal = u.KnownAs, "npm:"+u.Name+"@"+u.To
		}
		tgts = append(tgts, tgt{key: key, newVal: newVal, idx: found})
	}
	var patches []result.Patch
	switch {
	case len(pus) == 1:
		patches = []result.Patch{{PackageUpdates: pus}}
	case len(pus) > 1:
		patches = []result.Patch{{PackageUpdates: pus[:1]}, {PackageUpdates: pus[1:]}}
	}

	var werr error
	p, stack := ev.Recover(func() { werr = rw.Write(m, fsys, patches, outPath) })
	if p != nil {
		bad("npm:panic:"+ev.PanicSite(stack), "Write panicked: %v", p)
		return
	}
	if werr != nil {
		o.writeErr = werr.Error()
		excused := false
		for _, u := range cs.Updates {
			if u.From != "" || u.Absent {
				excused = true // a stale update must be rejected; an update of an absent package may be
			}
		}
		if !excused {
			// every update carries the VersionFrom Read reported for a requirement of this file
			bad("npm:valid-update-rejected", "every update is addressed to a requirement Read reported (VersionFrom = its version), but Write failed: %v", werr)
		}
		return
	}
	out, err := os.ReadFile(outPath)
	if err != nil {
		bad("npm:no-output-file", "Write returned nil but the output cannot be read: %v", err)
		return
	}
	if len(cs.Updates) == 0 {
		if !bytes.Equal(in, out) {
			bad("npm:noop-not-identical", "no updates but output differs from input at byte %d", firstDiff(in, out))
		}
		return
	}

	// expected bytes: must[] spans carry the new value, may[] spans may carry it, the rest is identical
	must := map[int]string{}
	may := map[int]string{}
	for _, t := range tgts {
		eff := -1
		for _, sname := range []string{secDev, secOpt, secDeps} {
			for i, sp := range spans {
				if sp.Sec == sname && sp.Key == t.key {
					if eff < 0 {
						eff = i
						must[i] = t.newVal
					} else {
						may[i] = t.newVal
					}
				}
			}
		}
		if eff < 0 {
			bad("harness:npm-model", "no entry for key %q in dev/optional/prod sections", t.key)
			return
		}
	}
	order := make([]int, len(spans))
	for i := range order {
		order[i] = i
	}
	sort.Slice(order, func(a, b int) bool { return spans[order[a]].Start < spans[order[b]].Start })
	pi, po := 0, 0
	okBytes := true
	for _, i := range order {
		sp := spans[i]
		seg := in[pi:sp.Start]
		if po+len(seg) > len(out) || !bytes.Equal(out[po:po+len(seg)], seg) {
			bad("npm:bytes-outside-targets-changed", "output differs from input outside the targeted values near input byte %d: in=%q out=%q", pi+firstDiff(seg, out[min(po, len(out)):]), clip(in, pi+firstDiff(seg, out[min(po, len(out)):])), clip(out, po+firstDiff(seg, out[min(po, len(out)):])))
			okBytes = false
			break
		}
		po += len(seg)
		sc := &jscan{b: out, pos: po}
		v, _, en, err := sc.str()
		if err != nil {
			bad("npm:bytes-outside-targets-changed", "value of %s.%q is no longer a string literal: %v", sp.Sec, sp.Key, err)
			okBytes = false
			break
		}
		lit := out[po:en]
		if want, ok := must[i]; ok {
			if v != want {
				if v == sp.Val {
					bad("npm:silent-non-application", "Write returned nil but %s.%q is still %q (wanted %q)", sp.Sec, sp.Key, v, want)
				} else {
					bad("npm:wrong-value-written", "%s.%q = %q, wanted %q", sp.Sec, sp.Key, v, want)
				}
			}
		} else if alt, ok := may[i]; ok {
			if v != alt && !bytes.Equal(lit, in[sp.Start:sp.End]) {
				bad("npm:wrong-value-written", "shadowed %s.%q = %q, wanted %q or unchanged", sp.Sec, sp.Key, v, alt)
			}
		} else if !bytes.Equal(lit, in[sp.Start:sp.End]) {
			bad("npm:untargeted-entry-changed", "%s.%q changed from %s to %s although not targeted", sp.Sec, sp.Key, in[sp.Start:sp.End], lit)
		}
		pi, po = sp.End, en
	}
	if okBytes {
		if !bytes.Equal(in[pi:], out[po:]) {
			bad("npm:bytes-outside-targets-changed", "output tail differs from input tail: in=%q out=%q", clip(in, pi+firstDiff(in[pi:], out[po:])), clip(out, po+firstDiff(in[pi:], out[po:])))
		}
	}

	// re-read
	outDir := filepath.Dir(outPath)
	var m2 guidedremediation.VerifManifest
	if p, stack := ev.Recover(func() { m2, err = rw.Read("package.json", scalibrfs.DirFS(outDir)) }); p != nil {
		bad("npm:panic:"+ev.PanicSite(stack), "Read(output) panicked: %v", p)
		return
	}
	if err != nil {
		bad("npm:output-unreadable", "Read(output): %v", err)
		return
	}
	var after []string
	for _, q := range m2.Requirements() {
		after = append(after, reqString(q))
	}
	es := append([]string{}, expected...)
	sort.Strings(es)
	sort.Strings(after)
	if strings.Join(es, "\n") != strings.Join(after, "\n") {
		if len(o.discs) == 0 {
			bad("npm:reread-mismatch", "Read(output) = %v, want %v", after, es)
		} else {
			o.discs[0].What += fmt.Sprintf(" ; Read(output)=%v want %v", after, es)
		}
	}
	return
}

func firstDiff(a, b []byte) int {
	n := min(len(a), len(b))
	for i := 0; i < n; i++ {
		if a[i] != b[i] {
			return i
		}
	}
	return n
}

func clip(b []byte, at int) string {
	lo, hi := max(0, at-20), min(len(b), at+30)
	if lo > hi {
		lo = hi
	}
	return string(b[lo:hi])
}
