package main

import (
	"bytes"
	"encoding/xml"
	"fmt"
	"io"
	"strings"
)

// xnode is one raw XML token with its children. Names and attribute names are kept RAW
// (prefix:local, no namespace resolution) so that an invented xmlns attribute or a lost
// prefix is visible.
type xnode struct {
	K     byte // 'E' element, 'T' character data, 'C' comment, 'D' directive, 'P' processing instruction
	Name  string
	Attrs []xattr
	Text  string
	Kids  []*xnode
}

type xattr struct{ Name, Val string }

func rawName(n xml.Name) string {
	if n.Space != "" {
		return n.Space + ":" + n.Local
	}
	return n.Local
}

// parseXML returns the top-level node list (prolog items, root element, trailing items).
// Adjacent character data (text and CDATA) is merged.
func parseXML(b []byte) ([]*xnode, error) {
	dec := xml.NewDecoder(bytes.NewReader(b))
	root := &xnode{K: 'E', Name: "#doc"}
	stack := []*xnode{root}
	addText := func(p *xnode, s string) {
		if n := len(p.Kids); n > 0 && p.Kids[n-1].K == 'T' {
			p.Kids[n-1].Text += s
			return
		}
		p.Kids = append(p.Kids, &xnode{K: 'T', Text: s})
	}
	for {
		t, err := dec.RawToken()
		if err == io.EOF {
			break
		}
		if err != nil {
			return nil, err
		}
		top := stack[len(stack)-1]
		switch v := t.(type) {
		case xml.StartElement:
			n := &xnode{K: 'E', Name: rawName(v.Name)}
			for _, a := range v.Attr {
				n.Attrs = append(n.Attrs, xattr{rawName(a.Name), a.Value})
			}
			top.Kids = append(top.Kids, n)
			stack = append(stack, n)
		case xml.EndElement:
			if len(stack) == 1 || top.Name != rawName(v.Name) {
				return nil, fmt.Errorf("mismatched end element </%s> (open: %s)", rawName(v.Name), top.Name)
			}
			stack = stack[:len(stack)-1]
		case xml.CharData:
			addText(top, string(v))
		case xml.Comment:
			top.Kids = append(top.Kids, &xnode{K: 'C', Text: string(v)})
		case xml.Directive:
			top.Kids = append(top.Kids, &xnode{K: 'D', Text: string(v)})
		case xml.ProcInst:
			top.Kids = append(top.Kids, &xnode{K: 'P', Name: v.Target, Text: string(v.Inst)})
		}
	}
	if len(stack) != 1 {
		return nil, fmt.Errorf("unclosed element <%s>", stack[len(stack)-1].Name)
	}
	return root.Kids, nil
}

func (n *xnode) kid(name string) *xnode {
	for _, k := range n.Kids {
		if k.K == 'E' && k.Name == name {
			return k
		}
	}
	return nil
}

func (n *xnode) kidsNamed(name string) []*xnode {
	var out []*xnode
	for _, k := range n.Kids {
		if k.K == 'E' && k.Name == name {
			out = append(out, k)
		}
	}
	return out
}

// text is the concatenated character data directly inside n (comments ignored), trimmed.
func (n *xnode) text() string {
	if n == nil {
		return ""
	}
	var b strings.Builder
	for _, k := range n.Kids {
		if k.K == 'T' {
			b.WriteString(k.Text)
		}
	}
	return strings.TrimSpace(b.String())
}

func (n *xnode) describe() string {
	switch n.K {
	case 'E':
		var as []string
		for _, a := range n.Attrs {
			as = append(as, fmt.Sprintf("%s=%q", a.Name, a.Val))
		}
		if len(as) > 0 {
			return "<" + n.Name + " " + strings.Join(as, " ") + ">"
		}
		return "<" + n.Name + ">"
	case 'T':
		return fmt.Sprintf("text %q", n.Text)
	case 'C':
		return fmt.Sprintf("comment %q", n.Text)
	case 'D':
		return fmt.Sprintf("directive %q", n.Text)
	case 'P':
		return fmt.Sprintf("procinst %s %q", n.Name, n.Text)
	}
	return "?"
}

// xdiff is one difference found by compareTrees.
type xdiff struct {
	Path string
	Kind string // "attrs", "content", "structure", "slot"
	In   *xnode // node of the input (may be nil)
	Out  *xnode
	What string
}

// compareTrees compares two sibling lists. Elements of the input contained in `free` may have any
// content in the output (name and attributes are still compared). `slot` elements (version/property
// elements that are NOT free) are compared as a unit so that a rewritten element is reported once.
func compareTrees(in, out []*xnode, path string, free, slots map[*xnode]bool, diffs *[]xdiff) {
	n := min(len(in), len(out))
	for i := 0; i < n; i++ {
		a, b := in[i], out[i]
		if a.K != b.K || (a.K == 'E' && a.Name != b.Name) || (a.K == 'P' && a.Name != b.Name) {
			*diffs = append(*diffs, xdiff{Path: path, Kind: "structure", In: a, Out: b,
				What: fmt.Sprintf("at %s child %d: input has %s, output has %s", path, i, a.describe(), b.describe())})
			return
		}
		switch a.K {
		case 'E':
			p := path + "/" + a.Name
			if !sameAttrs(a.Attrs, b.Attrs) {
				*diffs = append(*diffs, xdiff{Path: p, Kind: "attrs", In: a, Out: b,
					What: fmt.Sprintf("attributes of %s changed: input %s, output %s", p, a.describe(), b.describe())})
			}
			if free[a] {
				continue
			}
			if slots[a] {
				var sub []xdiff
				compareTrees(a.Kids, b.Kids, p, free, nil, &sub)
				if len(sub) > 0 {
					*diffs = append(*diffs, xdiff{Path: p, Kind: "slot", In: a, Out: b,
						What: fmt.Sprintf("content of untargeted %s changed: %s", p, sub[0].What)})
				}
				continue
			}
			compareTrees(a.Kids, b.Kids, p, free, slots, diffs)
		default:
			if a.Text != b.Text {
				*diffs = append(*diffs, xdiff{Path: path, Kind: "content", In: a, Out: b,
					What: fmt.Sprintf("at %s: input %s, output %s", path, a.describe(), b.describe())})
			}
		}
	}
	if len(in) != len(out) {
		var a, b *xnode
		desc := "nothing"
		if len(in) > n {
			a = in[n]
			desc = "input has extra " + a.describe()
		} else {
			b = out[n]
			desc = "output has extra " + b.describe()
		}
		*diffs = append(*diffs, xdiff{Path: path, Kind: "structure", In: a, Out: b,
			What: fmt.Sprintf("at %s: child count %d -> %d; %s", path, len(in), len(out), desc)})
	}
}

func sameAttrs(a, b []xattr) bool {
	if len(a) != len(b) {
		return false
	}
	for i := range a {
		if a[i] != b[i] {
			return false
		}
	}
	return true
}

// onlyInventedXmlns reports whether out = in + attributes xmlns:P="P" for prefixes P used by attributes
// or the name of the element (the signature of re-decoding inner XML without its namespace context).
func onlyInventedXmlns(in, out *xnode) bool {
	if in == nil || out == nil || len(out.Attrs) <= len(in.Attrs) {
		return false
	}
	used := map[string]bool{}
	if i := strings.Index(in.Name, ":"); i > 0 {
		used[in.Name[:i]] = true
	}
	for _, a := range in.Attrs {
		if i := strings.Index(a.Name, ":"); i > 0 && !strings.HasPrefix(a.Name, "xmlns:") {
			used[a.Name[:i]] = true
		}
	}
	var rest []xattr
	extra := 0
	for _, a := range out.Attrs {
		if strings.HasPrefix(a.Name, "xmlns:") && a.Val == a.Name[6:] && used[a.Val] && !hasAttr(in.Attrs, a.Name) {
			extra++
			continue
		}
		rest = append(rest, a)
	}
	return extra > 0 && sameAttrs(in.Attrs, rest)
}

func hasAttr(as []xattr, name string) bool {
	for _, a := range as {
		if a.Name == name {
			return true
		}
	}
	return false
}
