package main

import (
	"fmt"
	"os"
	"path/filepath"
	"reflect"
	"regexp"
	"sort"
	"strings"

	"deps.dev/util/resolve"
	"deps.dev/util/resolve/dep"
	scalibrfs "github.com/google/osv-scalibr/fs"
	"github.com/google/osv-scalibr/guidedremediation"
	"github.com/google/osv-scalibr/guidedremediation/result"
	"verif/ev"
)

// ---------------------------------------------------------------------------
// pom.xml generator
// ---------------------------------------------------------------------------

// pomOpt are the toggles of the generated pom family.
type pomOpt struct {
	Deps       bool // <dependencies> with literal versions
	Mgmt       bool // <dependencyManagement> with a literal version
	PropKind   int  // 0 none, 1 ${p}, 2 1.${p}, 3 ${p}-jre, 4 ${p}.${q}, 5 1.${p}.1, 6 1${p}1 (literal on both sides)
	PropInMgmt bool // the property-versioned dependency lives in dependencyManagement instead of dependencies
	Shared     bool // a second dependency uses the same property expression
	Profile    int  // 0 none, 1 profile with own deps/properties/depMgmt, 2 = 1 + the profile shadows property p and uses it, 3 = 1 + shadows p without using it
	Plugin     bool // build/pluginManagement/plugins/plugin/dependencies
	Parent     int  // 0 none, 1 local parent, 2 local parent + grandparent
	ParentProp bool // a child (and parent) dependency uses a property defined one level up
	// RelPath: how <parent> names its local parent: 0 no <relativePath> (default ../pom.xml), 1 explicit
	// ../pom.xml, 2 the directory (..)
	RelPath int
	// AtRoot: the child pom.xml sits at the ROOT of the file system the reader sees; its local parent is in
	// the sub-directory parent/ (explicit <relativePath>parent/pom.xml</relativePath>), the grandparent in parent/gp/
	AtRoot bool
	// Inherit: which of its own coordinates the local parent (which itself has a <parent>) leaves out and
	// inherits from the grandparent (org.gpar:gpar:7): 0 none, 1 <version>, 2 <groupId>, 3 both
	Inherit int
	// NoVer: org.nv:nv is declared in <dependencies> WITHOUT <version> and managed in
	// <dependencyManagement> with 1 a literal version / 2 a property of its own
	NoVer int
	// Dup: org.dup:dup is declared twice: in <dependencies> with a literal version (the entry updates address)
	// and, with the property expression of org.pr:pr, in 1 dependencyManagement / 2 the profile / 3 the plugin
	Dup int
	// cosmetics
	Comments   bool
	CDATA      bool
	PI         bool // XML declaration, a processing instruction and a DOCTYPE directive before the root
	NS         bool
	NestedAttr bool // <foo xsi:nil="true"/> under a plugin <configuration>
	VerDecor   bool // comment inside / whitespace around the text of <version> elements
}

type pomDoc struct {
	Opt    pomOpt
	Family string
	Sub    int // max update-set size
	Rot    int // number of rotated target assignments (0..4)
}

func (o pomOpt) valid() bool {
	if o.PropKind == 0 && (o.PropInMgmt || o.Shared || o.Profile >= 2) {
		return false
	}
	if o.Parent == 0 && o.ParentProp {
		return false
	}
	if o.NestedAttr && !o.Plugin {
		return false
	}
	if o.RelPath > 0 && o.Parent == 0 {
		return false
	}
	if o.Inherit > 0 && o.Parent < 2 {
		return false
	}
	if o.AtRoot && (o.Parent == 0 || o.RelPath > 0) {
		return false
	}
	if o.Dup > 0 && (o.PropKind == 0 || o.PropInMgmt || (o.Dup == 2 && o.Profile == 0) || (o.Dup == 3 && !o.Plugin)) {
		return false
	}
	return true
}

func propTemplate(kind int, p, q string) (tmpl string, props [][2]string) {
	switch kind {
	case 1:
		return "${" + p + "}", [][2]string{{p, "1.0"}}
	case 2:
		return "1.${" + p + "}", [][2]string{{p, "0"}}
	case 3:
		return "${" + p + "}-jre", [][2]string{{p, "1.0"}}
	case 4:
		return "${" + p + "}.${" + q + "}", [][2]string{{p, "1"}, {q, "0"}}
	case 5:
		return "1.${" + p + "}.1", [][2]string{{p, "0"}}
	case 6:
		return "1${" + p + "}1", [][2]string{{p, "0"}}
	}
	return "", nil
}

type xw struct {
	b   strings.Builder
	ind int
}

func (w *xw) line(s string)          { w.b.WriteString(strings.Repeat("  ", w.ind) + s + "\n") }
func (w *xw) open(s string)          { w.line("<" + s + ">"); w.ind++ }
func (w *xw) close(s string)         { w.ind--; w.line("</" + s + ">") }
func (w *xw) leaf(name, text string) { w.line("<" + name + ">" + text + "</" + name + ">") }

type gdep struct {
	g, a, ver, typ, cls, scope string
	verRaw                     string // raw inner XML of <version> when decorated
}

func (w *xw) dep(d gdep, comments bool) {
	w.open("dependency")
	w.leaf("groupId", d.g)
	if comments {
		w.line("<!-- about " + d.a + " -->")
	}
	w.leaf("artifactId", d.a)
	if d.verRaw != "" {
		w.line("<version>" + d.verRaw + "</version>")
	} else if d.ver != "" {
		w.leaf("version", d.ver)
	}
	if d.typ != "" {
		w.leaf("type", d.typ)
	}
	if d.cls != "" {
		w.leaf("classifier", d.cls)
	}
	if d.scope != "" {
		w.leaf("scope", d.scope)
	}
	w.close("dependency")
}

func (w *xw) deps(ds []gdep, comments bool) {
	w.open("dependencies")
	if comments {
		w.line("<!-- the dependencies -->")
	}
	for _, d := range ds {
		w.dep(d, comments)
	}
	w.close("dependencies")
}

func (w *xw) props(ps [][2]string, comments, cdata bool) {
	w.open("properties")
	if comments {
		w.line("<!-- version properties -->")
	}
	w.leaf("unrelated", "1.0")
	for _, p := range ps {
		w.leaf(p[0], p[1])
	}
	if cdata {
		w.line("<note><![CDATA[1.0 <&> ${p}]]></note>")
	}
	w.close("properties")
}

// parentCoords are the effective groupId and version of the local parent: what it declares itself,
// else what it inherits from the grandparent (org.gpar, 7).
func (o pomOpt) parentCoords() (g, v string) {
	g, v = "org.par", "1"
	if o.Inherit&2 != 0 {
		g = "org.gpar"
	}
	if o.Inherit&1 != 0 {
		v = "7"
	}
	return
}

func relPath(w *xw, kind int) {
	switch kind {
	case 1:
		w.leaf("relativePath", "../pom.xml")
	case 2:
		w.leaf("relativePath", "..")
	}
}

const (
	childPath  = "gp/p/c/pom.xml"
	parentPath = "gp/p/pom.xml"
	grandPath  = "gp/pom.xml"
)

func (w *xw) prolog(o pomOpt) {
	if o.PI {
		w.line(`<?xml version="1.0" encoding="UTF-8"?>`)
		w.line(`<?build-hint keep="yes" <version>1.0</version> ?>`)
		w.line(`<!DOCTYPE project>`)
	}
	if o.Comments {
		w.line("<!-- generated pom, <version>1.0</version> is mentioned here on purpose -->")
	}
}

func projectTag(o pomOpt) string {
	if o.NS {
		return `project xmlns="http://maven.apache.org/POM/4.0.0" xmlns:xsi="http://www.w3.org/2001/XMLSchema-instance" xsi:schemaLocation="http://maven.apache.org/POM/4.0.0 http://maven.apache.org/xsd/maven-4.0.0.xsd" child.project.url.inherit.append.path="false"`
	}
	return "project"
}

// render returns the files of the family member and the parent chain (child first).
func (o pomOpt) render() (map[string]string, []string) {
	files := map[string]string{}
	chain := []string{childPath}

	// ---- child
	w := &xw{}
	w.prolog(o)
	w.open(projectTag(o))
	w.leaf("modelVersion", "4.0.0")
	if o.Parent >= 1 {
		pg, pv := o.parentCoords()
		w.open("parent")
		w.leaf("groupId", pg)
		w.leaf("artifactId", "par")
		w.leaf("version", pv)
		if o.AtRoot {
			w.leaf("relativePath", "parent/pom.xml")
		}
		relPath(w, o.RelPath)
		w.close("parent")
	}
	w.leaf("groupId", "org.child")
	w.leaf("artifactId", "child")
	w.leaf("version", "1.0")
	if o.CDATA {
		w.line("<description>about <![CDATA[a <b> & ${p} 1.0]]> tail</description>")
	}
	tmpl, pprops := propTemplate(o.PropKind, "p", "q")
	var props [][2]string
	props = append(props, pprops...)
	if o.Plugin {
		props = append(props, [2]string{"plv", "1.0"})
	}
	if o.NoVer == 2 {
		props = append(props, [2]string{"nvp", "1.0"})
	}
	if o.Profile == 3 {
		// a project-level property with the name of a property that only the profile's
		// dependencyManagement uses; no project-level dependency references it
		props = append(props, [2]string{"fmp", "1.0"})
	}
	needProps := len(props) > 0 || o.CDATA || o.Comments
	if needProps {
		w.props(props, o.Comments, o.CDATA)
	}
	var dl, ml []gdep
	if o.Deps {
		lit := gdep{g: "org.lit", a: "lit", ver: "1.0"}
		if o.VerDecor {
			lit.verRaw = "<!-- pinned -->1.0"
		}
		dl = append(dl, lit, gdep{g: "org.lit", a: "lit", ver: "1.5", typ: "test-jar", cls: "tests", scope: "test"})
	}
	if o.Mgmt {
		mg := gdep{g: "org.mg", a: "mg", ver: "1.0"}
		if o.VerDecor {
			mg.verRaw = " 1.0 "
		}
		ml = append(ml, mg)
	}
	if o.PropKind > 0 {
		pl := []gdep{{g: "org.pr", a: "pr", ver: tmpl}}
		if o.Shared {
			pl = append(pl, gdep{g: "org.pr", a: "pr2", ver: tmpl})
		}
		if o.PropInMgmt {
			ml = append(ml, pl...)
		} else {
			dl = append(dl, pl...)
		}
	}
	if o.ParentProp {
		dl = append(dl, gdep{g: "org.cp", a: "cp", ver: "${cp}"})
	}
	if o.Dup > 0 {
		dl = append(dl, gdep{g: "org.dup", a: "dup", ver: "1.5"})
	}
	if o.Dup == 1 {
		ml = append(ml, gdep{g: "org.dup", a: "dup", ver: tmpl})
	}
	if o.NoVer > 0 {
		dl = append(dl, gdep{g: "org.nv", a: "nv"})
		if o.NoVer == 1 {
			ml = append(ml, gdep{g: "org.nv", a: "nv", ver: "1.0"})
		} else {
			ml = append(ml, gdep{g: "org.nv", a: "nv", ver: "${nvp}"})
		}
	}
	if len(dl) > 0 {
		w.deps(dl, o.Comments)
	}
	if o.Comments {
		w.line("<!-- between sections -->")
	}
	if len(ml) > 0 {
		w.open("dependencyManagement")
		w.deps(ml, o.Comments)
		w.close("dependencyManagement")
	}
	if o.Profile > 0 {
		w.open("profiles")
		w.open("profile")
		w.leaf("id", "prof")
		fp := [][2]string{{"fp", "1.0"}}
		fd := []gdep{{g: "org.pf", a: "lit", ver: "1.0"}, {g: "org.pf", a: "own", ver: "${fp}"}}
		if o.Profile >= 2 {
			_, sp := propTemplate(o.PropKind, "p", "q")
			fp = append(fp, sp...)
		}
		if o.Profile == 2 {
			fd = append(fd, gdep{g: "org.pf", a: "shadow", ver: tmpl})
		}
		if o.Dup == 2 {
			fd = append(fd, gdep{g: "org.dup", a: "dup", ver: tmpl})
		}
		fp = append(fp, [2]string{"fmp", "1.0"})
		w.props(fp, o.Comments, false)
		w.deps(fd, o.Comments)
		w.open("dependencyManagement")
		w.deps([]gdep{{g: "org.pf", a: "mg", ver: "1.0"}, {g: "org.pf", a: "mgp", ver: "${fmp}"}}, false)
		w.close("dependencyManagement")
		w.close("profile")
		w.close("profiles")
	}
	if o.Plugin {
		w.open("build")
		w.open("pluginManagement")
		w.open("plugins")
		w.open("plugin")
		w.leaf("groupId", "org.plug")
		w.leaf("artifactId", "plug")
		w.leaf("version", "1.0")
		if o.NestedAttr {
			w.open("configuration")
			w.line(`<foo xsi:nil="true"/>`)
			w.close("configuration")
		}
		pd := []gdep{{g: "org.pl", a: "pl", ver: "1.0"}, {g: "org.pl", a: "plp", ver: "${plv}"}}
		if o.Dup == 3 {
			pd = append(pd, gdep{g: "org.dup", a: "dup", ver: tmpl})
		}
		w.deps(pd, o.Comments)
		w.close("plugin")
		// a plugin declared without <groupId> (Maven defaults it to org.apache.maven.plugins)
		w.open("plugin")
		w.leaf("artifactId", "maven-nogroup-plugin")
		w.leaf("version", "1.0")
		w.deps([]gdep{{g: "org.pl2", a: "pl2", ver: "1.0"}}, false)
		w.close("plugin")
		w.close("plugins")
		w.close("pluginManagement")
		w.close("build")
	}
	w.close("project")
	if o.Comments {
		w.line("<!-- trailing comment -->")
	}
	files[childPath] = w.b.String()

	// ---- parent
	if o.Parent >= 1 {
		chain = append(chain, parentPath)
		w := &xw{}
		w.prolog(o)
		w.open(projectTag(o))
		w.leaf("modelVersion", "4.0.0")
		if o.Parent >= 2 {
			w.open("parent")
			w.leaf("groupId", "org.gpar")
			w.leaf("artifactId", "gpar")
			w.leaf("version", "7")
			if o.AtRoot {
				w.leaf("relativePath", "gp/pom.xml")
			}
			relPath(w, o.RelPath)
			w.close("parent")
		}
		if o.Inherit&2 == 0 {
			w.leaf("groupId", "org.par")
		}
		w.leaf("artifactId", "par")
		if o.Inherit&1 == 0 {
			w.leaf("version", "1")
		}
		w.leaf("packaging", "pom")
		pp := [][2]string{{"pp", "1.0"}}
		if o.ParentProp {
			pp = append(pp, [2]string{"cp", "1.0"})
		}
		w.props(pp, o.Comments, false)
		w.deps([]gdep{{g: "org.pd", a: "pd", ver: "1.0"}}, o.Comments)
		pm := []gdep{{g: "org.pm", a: "pm", ver: "${pp}"}, {g: "org.pm", a: "lit", ver: "1.0"}}
		if o.ParentProp && o.Parent >= 2 {
			pm = append(pm, gdep{g: "org.pm", a: "gpv", ver: "${gcp}"})
		}
		w.open("dependencyManagement")
		w.deps(pm, false)
		w.close("dependencyManagement")
		w.open("profiles")
		w.open("profile")
		w.leaf("id", "pprof")
		w.props([][2]string{{"ppf", "1.0"}}, false, false)
		w.deps([]gdep{{g: "org.ppf", a: "lit", ver: "1.0"}, {g: "org.ppf", a: "own", ver: "${ppf}"}}, false)
		w.open("dependencyManagement")
		w.deps([]gdep{{g: "org.ppf", a: "mg", ver: "1.0"}}, false)
		w.close("dependencyManagement")
		w.close("profile")
		w.close("profiles")
		w.close("project")
		files[parentPath] = w.b.String()
	}
	// ---- grandparent
	if o.Parent >= 2 {
		chain = append(chain, grandPath)
		w := &xw{}
		w.prolog(o)
		w.open(projectTag(o))
		w.leaf("modelVersion", "4.0.0")
		w.leaf("groupId", "org.gpar")
		w.leaf("artifactId", "gpar")
		w.leaf("version", "7")
		w.leaf("packaging", "pom")
		gp := [][2]string{{"gp", "1.0"}}
		if o.ParentProp {
			gp = append(gp, [2]string{"gcp", "1.0"})
		}
		w.props(gp, false, false)
		w.open("dependencyManagement")
		w.deps([]gdep{{g: "org.gm", a: "gm", ver: "${gp}"}, {g: "org.gm", a: "lit", ver: "1.0"}}, false)
		w.close("dependencyManagement")
		w.close("project")
		files[grandPath] = w.b.String()
	}
	if o.AtRoot {
		ren := map[string]string{childPath: "pom.xml", parentPath: "parent/pom.xml", grandPath: "parent/gp/pom.xml"}
		nf := map[string]string{}
		for k, v := range files {
			nf[ren[k]] = v
		}
		for i := range chain {
			chain[i] = ren[chain[i]]
		}
		files = nf
	}
	return files, chain
}

func genPomDocs(thorough bool) []*pomDoc {
	var docs []*pomDoc
	seen := map[pomOpt]bool{}
	add := func(fam string, o pomOpt, sub, rot int) {
		if !o.valid() || seen[o] {
			return
		}
		seen[o] = true
		docs = append(docs, &pomDoc{Opt: o, Family: fam, Sub: sub, Rot: rot})
	}
	bools := []bool{false, true}
	// Family A: child only, every structural combination
	subA, rotA, maxKind := 2, 1, 5
	if thorough {
		subA, rotA, maxKind = 3, 4, 6
	}
	for _, d := range bools {
		for _, m := range bools {
			for pk := 0; pk <= maxKind; pk++ {
				for _, pim := range bools {
					for _, sh := range bools {
						for pf := 0; pf <= 3; pf++ {
							for _, pl := range bools {
								if !thorough && pk >= 3 && (pim || sh) {
									continue // quick: the placement/sharing variants only for the ${p} and 1.${p} forms
								}
								add("child", pomOpt{Deps: d, Mgmt: m, PropKind: pk, PropInMgmt: pim, Shared: sh, Profile: pf, Plugin: pl}, subA, rotA)
							}
						}
					}
				}
			}
		}
	}
	// Family D: one groupId:artifactId under two origins (literal in <dependencies>, property expression elsewhere)
	dupKinds := []int{1, 2}
	if thorough {
		dupKinds = []int{1, 2, 3, 4, 5, 6}
	}
	for dup := 1; dup <= 3; dup++ {
		for _, pk := range dupKinds {
			for _, m := range bools {
				for _, sh := range bools {
					if sh && !thorough {
						continue
					}
					for pf := 0; pf <= 2; pf++ {
						add("two-origins", pomOpt{Deps: true, Mgmt: m, PropKind: pk, Shared: sh, Profile: pf, Plugin: dup == 3, Dup: dup}, subA, rotA)
					}
				}
			}
		}
	}
	// Family M: a dependency without <version> whose version comes from dependencyManagement
	for nv := 1; nv <= 2; nv++ {
		for _, d := range bools {
			for _, pk := range []int{0, 1} {
				for pf := 0; pf <= 1; pf++ {
					add("managed-version", pomOpt{Deps: d, PropKind: pk, Profile: pf, NoVer: nv}, subA, rotA)
				}
			}
		}
	}
	// Family R: the ways a <parent> can name its local parent
	for par := 1; par <= 2; par++ {
		for rp := 1; rp <= 2; rp++ {
			add("relative-path", pomOpt{Parent: par, Deps: true, RelPath: rp}, 2, 1)
			if thorough {
				add("relative-path", pomOpt{Parent: par, Deps: true, PropKind: 1, Profile: 1, ParentProp: true, RelPath: rp}, 2, 1)
			}
		}
	}
	// Family I: the local parent leaves out its own groupId and/or version and inherits them from ITS parent
	for inh := 1; inh <= 3; inh++ {
		for _, pp := range bools {
			add("inherited-coordinates", pomOpt{Parent: 2, Deps: true, ParentProp: pp, Inherit: inh}, 2, 1)
			if thorough {
				add("inherited-coordinates", pomOpt{Parent: 2, Deps: true, Mgmt: true, PropKind: 1, Profile: 1, ParentProp: pp, Inherit: inh, RelPath: 2}, 2, 1)
			}
		}
	}
	// Family P: placement: the manifest at the root of the file system, local parents below it
	for par := 1; par <= 2; par++ {
		for _, pp := range bools {
			add("at-root", pomOpt{Parent: par, Deps: true, ParentProp: pp, AtRoot: true}, 2, 1)
			if thorough {
				add("at-root", pomOpt{Parent: par, Deps: true, Mgmt: true, PropKind: 1, Profile: 1, ParentProp: pp, AtRoot: true}, 2, 1)
			}
		}
	}
	// Family B: local parent / grandparent x reduced child (quick) or full child (thorough)
	pks := []int{0, 1, 2}
	pfs := []int{0, 1}
	subB, rotB := 2, 1
	if thorough {
		pks, pfs = []int{0, 1, 2, 3, 4, 5, 6}, []int{0, 1, 2, 3}
		subB, rotB = 3, 1
	}
	for par := 1; par <= 2; par++ {
		for _, pp := range bools {
			for _, d := range bools {
				for _, pk := range pks {
					for _, pf := range pfs {
						add("parents", pomOpt{Parent: par, ParentProp: pp, Deps: d, PropKind: pk, Profile: pf}, subB, rotB)
						if thorough {
							// the feature-rich child has ~20 requirements with its parents: update sets of size <= 2
							add("parents", pomOpt{Parent: par, ParentProp: pp, Deps: d, Mgmt: true, PropKind: pk, PropInMgmt: pk > 0, Shared: pk > 0, Profile: pf, Plugin: true}, 2, rotB)
						}
					}
				}
			}
		}
	}
	// Family C: every subset of the cosmetic toggles x structural bases
	bases := []pomOpt{
		{Deps: true},
		{Deps: true, Mgmt: true, PropKind: 1, Shared: true, Profile: 2, Plugin: true},
		{Deps: true, PropKind: 4, Profile: 1, Plugin: true, Parent: 2},
	}
	if thorough {
		bases = nil
		for _, d := range docs {
			if (d.Family == "child" && !d.Opt.PropInMgmt && !d.Opt.Shared) || (d.Opt.Parent == 2 && !d.Opt.ParentProp && d.Opt.Profile <= 1 && !d.Opt.Plugin) {
				bases = append(bases, d.Opt)
			}
		}
	}
	for mask := 1; mask < 64; mask++ {
		for _, b := range bases {
			o := b
			o.Comments, o.CDATA, o.PI, o.NS, o.NestedAttr, o.VerDecor = mask&1 != 0, mask&2 != 0, mask&4 != 0, mask&8 != 0, mask&16 != 0, mask&32 != 0
			if o.NestedAttr && !o.Plugin {
				continue
			}
			if o.VerDecor && !(o.Deps || o.Mgmt) {
				continue
			}
			add("cosmetics", o, 1, 0)
		}
	}
	// simplest first: by number of files, then by number of features
	sort.SliceStable(docs, func(i, j int) bool { return docs[i].Opt.weight() < docs[j].Opt.weight() })
	return docs
}

func (o pomOpt) weight() int {
	w := o.Parent * 10
	for _, b := range []bool{o.Deps, o.Mgmt, o.PropKind > 0, o.PropInMgmt, o.Shared, o.Profile > 0, o.Profile > 1, o.Plugin, o.ParentProp, o.Dup > 0, o.RelPath > 0, o.AtRoot, o.Inherit > 0, o.NoVer > 0, o.Comments, o.CDATA, o.PI, o.NS, o.NestedAttr, o.VerDecor} {
		if b {
			w++
		}
	}
	return w
}

// 1.1 and 1 are shorter than prefix+suffix of the 1.${p}.1 / 1${p}1 forms (prefix and suffix overlap in the target)
var pomTargets = []string{"2.0", "1", "3.0.0-jre", "10.1", "1.1"}

func explorePomDoc(r *ev.Run, d *pomDoc) {
	files, chain := d.Opt.render()
	base := caseSpec{Kind: "pom", Files: files, Main: chain[0], Chain: chain, Family: d.Family}
	docDir := newCaseDir()
	defer os.RemoveAll(docDir)
	in, discs := preparePom(&base, docDir)
	if len(discs) > 0 {
		for _, dd := range discs {
			r.Violation(dd.Key, dd.What, &base)
		}
		return
	}
	seq := 0
	run := func(cs *caseSpec) {
		seq++
		out := filepath.Join(docDir, fmt.Sprintf("out%d", seq))
		execute(r, cs, func() outcome { return runPomWith(in, cs, out) })
		os.RemoveAll(out)
	}
	noop := base
	run(&noop)
	// updates address the first declaration of each groupId:artifactId:type:classifier only
	var addr []*pdep
	for _, dd := range in.mIn.deps {
		if !dd.Secondary {
			addr = append(addr, dd)
		}
	}
	n := len(addr)
	// a requirement that is not in the file and has to be added to the project's dependencyManagement
	// (override of a transitive dependency): alone, and together with every single existing requirement
	addUpd := func(to string) updSpec { return updSpec{Name: "org.new:added", To: to, Add: true} }
	for _, to := range []string{"2.0", "3.0.0-jre"} {
		cs := base
		cs.Updates = []updSpec{addUpd(to)}
		run(&cs)
	}
	{
		cs := base
		cs.Updates = []updSpec{{Name: "org.new:added", ArtifactType: "test-jar", Classifier: "tests", To: "2.0", Add: true}}
		run(&cs)
		cs2 := base
		cs2.Updates = []updSpec{{Name: "org.new:added", Classifier: "sources", To: "2.0", Add: true}}
		run(&cs2)
	}
	for idx := 0; idx < n; idx++ {
		cs := base
		cs.Updates = []updSpec{addr[idx].upd("2.0"), addUpd("10.1")}
		run(&cs)
		if r.Thorough() {
			cs := base
			cs.Updates = []updSpec{addUpd("2.0"), addr[idx].upd("2.0")}
			run(&cs)
		}
	}
	for _, sub := range subsets(n, d.Sub) {
		if r.Expired() {
			r.Cap("deadline inside a pom document (update sets of size <= %d)", d.Sub)
			return
		}
		for t := range pomTargets {
			if len(sub) >= 2 && !r.Thorough() && t != 0 && t != 4 {
				continue // quick: sets of >= 2 updates get the uniform targets 2.0 and 1.1 plus the rotated assignment
			}
			cs := base
			for _, idx := range sub {
				cs.Updates = append(cs.Updates, addr[idx].upd(pomTargets[t]))
			}
			run(&cs)
		}
		if len(sub) >= 2 {
			for t := 0; t < d.Rot; t++ {
				cs := base
				for j, idx := range sub {
					cs.Updates = append(cs.Updates, addr[idx].upd(pomTargets[(t+j)%len(pomTargets)]))
				}
				run(&cs)
			}
		}
	}
}

// ---------------------------------------------------------------------------
// independent model of a pom family, extracted from the raw token trees
// ---------------------------------------------------------------------------

type pdep struct {
	File       int
	Origin     string // "", "management", "profile@id", "profile@id@management", "plugin@g:a"
	ProfileID  string
	G, A       string
	Type, Cls  string
	VerNode    *xnode
	Ver        string // raw template
	Dependency *xnode
	ManagedBy  *pdep  // for a dependency without <version>: the dependencyManagement entry that supplies it
	UID        string // id() for the first declaration of an id (the one updates address), id()#file:origin for later ones
	Secondary  bool
}

func (d *pdep) name() string { return d.G + ":" + d.A }

// depID identifies a requirement the way Maven does: groupId:artifactId plus type and classifier
// when they are not the defaults.
func depID(name, typ, cls string) string {
	if typ == "jar" {
		typ = ""
	}
	if typ == "" && cls == "" {
		return name
	}
	return name + "|" + typ + "|" + cls
}

func (d *pdep) id() string { return depID(d.name(), d.Type, d.Cls) }

func (d *pdep) upd(to string) updSpec {
	return updSpec{Name: d.name(), ArtifactType: d.Type, Classifier: d.Cls, To: to}
}

func (u updSpec) id() string { return depID(u.Name, u.ArtifactType, u.Classifier) }

func reqID(q resolve.RequirementVersion) string {
	t, _ := q.Type.GetAttr(dep.MavenArtifactType)
	c, _ := q.Type.GetAttr(dep.MavenClassifier)
	return depID(q.Name, t, c)
}

type pprop struct {
	File      int
	ProfileID string
	Name      string
	Node      *xnode
	Val       string
}

type pomModel struct {
	trees [][]*xnode // per chain file
	roots []*xnode
	deps  []*pdep
	props []*pprop
	slots map[*xnode]bool // every <version> of a dependency/parent and every property element
}

func buildPomModel(files map[string]string, chain []string) (*pomModel, error) {
	var trees [][]*xnode
	for _, p := range chain {
		tree, err := parseXML([]byte(files[p]))
		if err != nil {
			return nil, fmt.Errorf("%s: %v", p, err)
		}
		trees = append(trees, tree)
	}
	return modelFromTrees(trees, chain)
}

func modelFromTrees(trees [][]*xnode, chain []string) (*pomModel, error) {
	m := &pomModel{slots: map[*xnode]bool{}}
	for fi, p := range chain {
		tree := trees[fi]
		m.trees = append(m.trees, tree)
		var root *xnode
		for _, n := range tree {
			if n.K == 'E' {
				root = n
			}
		}
		if root == nil || root.Name != "project" {
			return nil, fmt.Errorf("%s: no <project> root", p)
		}
		m.roots = append(m.roots, root)
		m.extract(fi, root)
	}
	for _, d := range m.deps {
		if d.VerNode != nil || d.Origin != "" {
			continue
		}
		for _, md := range m.deps { // child first, then its parents
			if md.Origin == "management" && md.VerNode != nil && md.id() == d.id() {
				d.ManagedBy = md
				break
			}
		}
	}
	// extraction order = order in which the writer looks requirements up (dependencies, dependencyManagement,
	// profiles, plugins, then the parents): the first declaration of an id is the addressable one
	first := map[string]bool{}
	for _, d := range m.deps {
		if !first[d.id()] {
			first[d.id()] = true
			d.UID = d.id()
			continue
		}
		d.UID, d.Secondary = fmt.Sprintf("%s#%d:%s", d.id(), d.File, d.Origin), true
	}
	return m, nil
}

func (m *pomModel) extractDeps(fi int, holder *xnode, origin, profile string) {
	if holder == nil {
		return
	}
	for _, dn := range holder.kidsNamed("dependency") {
		d := &pdep{File: fi, Origin: origin, ProfileID: profile, Dependency: dn,
			G: dn.kid("groupId").text(), A: dn.kid("artifactId").text(),
			Type: dn.kid("type").text(), Cls: dn.kid("classifier").text()}
		if v := dn.kid("version"); v != nil {
			d.VerNode, d.Ver = v, v.text()
			m.slots[v] = true
		}
		m.deps = append(m.deps, d)
	}
}

func (m *pomModel) extractProps(fi int, holder *xnode, profile string) {
	if holder == nil {
		return
	}
	for _, pn := range holder.Kids {
		if pn.K == 'E' {
			m.props = append(m.props, &pprop{File: fi, ProfileID: profile, Name: pn.Name, Node: pn, Val: pn.text()})
			m.slots[pn] = true
		}
	}
}

func join(parts ...string) string {
	var out []string
	for _, p := range parts {
		if p != "" {
			out = append(out, p)
		}
	}
	return strings.Join(out, "@")
}

func (m *pomModel) extract(fi int, root *xnode) {
	if p := root.kid("parent"); p != nil {
		if v := p.kid("version"); v != nil {
			m.slots[v] = true
		}
	}
	m.extractProps(fi, root.kid("properties"), "")
	m.extractDeps(fi, root.kid("dependencies"), "", "")
	if dm := root.kid("dependencyManagement"); dm != nil {
		m.extractDeps(fi, dm.kid("dependencies"), "management", "")
	}
	if ps := root.kid("profiles"); ps != nil {
		for _, pr := range ps.kidsNamed("profile") {
			id := pr.kid("id").text()
			m.extractProps(fi, pr.kid("properties"), id)
			m.extractDeps(fi, pr.kid("dependencies"), join("profile", id), id)
			if dm := pr.kid("dependencyManagement"); dm != nil {
				m.extractDeps(fi, dm.kid("dependencies"), join("profile", id, "management"), id)
			}
		}
	}
	if b := root.kid("build"); b != nil {
		for _, holder := range []*xnode{b.kid("pluginManagement"), b} {
			if holder == nil {
				continue
			}
			if pls := holder.kid("plugins"); pls != nil {
				for _, pl := range pls.kidsNamed("plugin") {
					m.extractDeps(fi, pl.kid("dependencies"), join("plugin", pl.kid("groupId").text()+":"+pl.kid("artifactId").text()), "")
				}
			}
		}
	}
}

func (m *pomModel) isDepOrPropSlot(n *xnode) bool {
	for _, d := range m.deps {
		if d.VerNode == n {
			return true
		}
	}
	for _, p := range m.props {
		if p.Node == n {
			return true
		}
	}
	return false
}

var propRef = regexp.MustCompile(`\$\{([^}]*)\}`)

func refsOf(tmpl string) []string {
	var out []string
	for _, mm := range propRef.FindAllStringSubmatch(tmpl, -1) {
		out = append(out, mm[1])
	}
	return out
}

// match finds the model declaration a requirement reported by Read stands for.
func (m *pomModel) match(q readReq) *pdep {
	var cands []*pdep
	for _, d := range m.deps {
		if d.id() == q.ID {
			cands = append(cands, d)
		}
	}
	if len(cands) <= 1 {
		if len(cands) == 1 {
			return cands[0]
		}
		return nil
	}
	// Requirements() holds project-level dependencies / dependencyManagement (of the manifest and its parents);
	// profile and plugin dependencies are in RequirementsForUpdates with origin "" or "management"
	for _, d := range cands {
		direct := d.ProfileID == "" && !strings.HasPrefix(d.Origin, "plugin")
		if direct == q.Direct && strings.HasSuffix(d.Origin, "management") == (q.Origin == "management") {
			return d
		}
	}
	return nil
}

// lookup finds the property definition that is in effect for a dependency: the dependency's own
// profile first, then the project-level properties of the child, its parent, its grandparent.
func (m *pomModel) lookup(d *pdep, name string) *pprop {
	if d.ProfileID != "" {
		for _, p := range m.props {
			if p.File == d.File && p.ProfileID == d.ProfileID && p.Name == name {
				return p
			}
		}
	}
	for fi := range m.roots {
		for _, p := range m.props {
			if p.File == fi && p.ProfileID == "" && p.Name == name {
				return p
			}
		}
	}
	return nil
}

func (m *pomModel) effective(d *pdep) string {
	if d.VerNode == nil && d.ManagedBy != nil {
		return m.effective(d.ManagedBy)
	}
	return propRef.ReplaceAllStringFunc(d.Ver, func(s string) string {
		if p := m.lookup(d, s[2:len(s)-1]); p != nil {
			return p.Val
		}
		return s
	})
}

// ---------------------------------------------------------------------------
// pom case execution + oracle
// ---------------------------------------------------------------------------

type readReq struct {
	ID, Name, Type, Version string
	Direct                  bool // from Manifest.Requirements() (not RequirementsForUpdates)
	Origin                  string
}

func pomReadReqs(rw guidedremediation.VerifReadWriter, fsys scalibrfs.FS, main string) (guidedremediation.VerifManifest, []resolve.RequirementVersion, []readReq, error) {
	var man guidedremediation.VerifManifest
	var err error
	p, stack := ev.Recover(func() { man, err = rw.Read(main, fsys) })
	if p != nil {
		return nil, nil, nil, fmt.Errorf("Read panicked: %v at %s", p, ev.PanicSite(stack))
	}
	if err != nil {
		return nil, nil, nil, err
	}
	all := append([]resolve.RequirementVersion{}, man.Requirements()...)
	// RequirementsForUpdates is a field of the ecosystem-specific struct; reach it without importing the internal package
	if f := reflect.ValueOf(man.EcosystemSpecific()).FieldByName("RequirementsForUpdates"); f.IsValid() {
		if extra, ok := f.Interface().([]resolve.RequirementVersion); ok {
			all = append(all, extra...)
		} else {
			return nil, nil, nil, fmt.Errorf("RequirementsForUpdates has unexpected type %s", f.Type())
		}
	} else {
		return nil, nil, nil, fmt.Errorf("ManifestSpecific has no RequirementsForUpdates field")
	}
	var out []readReq
	var keep []resolve.RequirementVersion
	nDirect := len(man.Requirements())
	for i, q := range all {
		o, _ := q.Type.GetAttr(dep.MavenDependencyOrigin)
		if o == "parent" {
			continue
		}
		keep = append(keep, q)
		out = append(out, readReq{ID: reqID(q), Name: q.Name, Type: q.Type.String(), Version: q.Version, Direct: i < nDirect, Origin: o})
	}
	return man, keep, out, nil
}

// pomInput is everything that depends only on the input files (shared by all update sets of a document).
type pomInput struct {
	inDir  string
	chain  []string
	mIn    *pomModel
	rw     guidedremediation.VerifReadWriter
	fsys   scalibrfs.FS
	man    guidedremediation.VerifManifest
	rawIn  []resolve.RequirementVersion
	reqsIn []readReq
	byName map[string]*pdep
}

func preparePom(cs *caseSpec, dir string) (in *pomInput, discs []disc) {
	bad := func(k, f string, a ...any) { discs = append(discs, disc{k, fmt.Sprintf(f, a...)}) }
	in = &pomInput{inDir: filepath.Join(dir, "in")}
	if err := writeFiles(in.inDir, cs.Files); err != nil {
		bad("harness:io", "%v", err)
		return
	}
	in.chain = cs.Chain
	if len(in.chain) == 0 {
		in.chain = []string{cs.Main}
	}
	var err error
	if in.mIn, err = buildPomModel(cs.Files, in.chain); err != nil {
		bad("harness:pom-generated-document-unparsable", "%v", err)
		return
	}
	if in.rw, err = guidedremediation.VerifMavenReadWriter("http://127.0.0.1:9/unreachable"); err != nil {
		bad("harness:readwriter", "%v", err)
		return
	}
	in.fsys = scalibrfs.DirFS(in.inDir)
	if in.man, in.rawIn, in.reqsIn, err = pomReadReqs(in.rw, in.fsys, cs.Main); err != nil {
		bad("pom:generated-document-unreadable", "%v", err)
		return
	}
	in.byName = map[string]*pdep{}
	for _, d := range in.mIn.deps {
		if in.byName[d.UID] != nil {
			bad("harness:pom-duplicate-artifact", "%s declared twice under one origin", d.UID)
			return
		}
		in.byName[d.UID] = d
	}
	// self-check: the model's interpolation agrees with what Read reports for the input
	for _, q := range in.reqsIn {
		d := in.mIn.match(q)
		if d == nil {
			bad("harness:pom-model-disagrees-with-read", "Read reports %s (origin %q) which the model does not know", q.ID, q.Origin)
			return
		}
		if q.Direct && strings.Contains(q.Version, "${") && !strings.Contains(in.mIn.effective(d), "${") {
			bad("pom:read-not-interpolated", "Read reports the project-level requirement %s as %q; its properties resolve to %q", q.ID, q.Version, in.mIn.effective(d))
			return
		}
		if !strings.Contains(q.Version, "${") && q.Version != in.mIn.effective(d) {
			bad("harness:pom-model-disagrees-with-read", "%s: Read says %q, model says %q", q.Name, q.Version, in.mIn.effective(d))
			return
		}
	}
	return
}

func runPom(cs *caseSpec, dir string) outcome {
	in, discs := preparePom(cs, dir)
	if len(discs) > 0 {
		return outcome{discs: discs}
	}
	return runPomWith(in, cs, filepath.Join(dir, "out"))
}

func runPomWith(in *pomInput, cs *caseSpec, outDir string) (o outcome) {
	bad := func(k, f string, a ...any) { o.discs = append(o.discs, disc{k, fmt.Sprintf(f, a...)}) }
	chain, mIn, rw, fsys, man, rawIn, reqsIn, byName := in.chain, in.mIn, in.rw, in.fsys, in.man, in.rawIn, in.reqsIn, in.byName
	var err error

	// updates
	target := map[string]string{} // dep name -> requested version
	added := map[string]string{}  // requirement that has to be added -> requested version
	var pus []result.PackageUpdate
	for _, u := range cs.Updates {
		if u.Add {
			if byName[u.id()] != nil {
				bad("harness:added-requirement-already-present", "%s", u.id())
				return
			}
			added[u.id()] = u.To
			o.changed = true
			t := dep.NewType()
			if u.ArtifactType != "" && u.ArtifactType != "jar" {
				t.AddAttr(dep.MavenArtifactType, u.ArtifactType)
			}
			if u.Classifier != "" {
				t.AddAttr(dep.MavenClassifier, u.Classifier)
			}
			t.AddAttr(dep.MavenDependencyOrigin, "management")
			pus = append(pus, result.PackageUpdate{Name: u.Name, VersionFrom: "", VersionTo: u.To, Type: t, Transitive: true})
			continue
		}
		d := byName[u.id()]
		if d == nil {
			bad("harness:update-addresses-unknown-requirement", "%s", u.id())
			return
		}
		target[u.id()] = u.To
		if d.ManagedBy != nil {
			// a version-less dependency and the dependencyManagement entry that supplies its version are one
			// declaration: both requirements are expected to move
			target[d.ManagedBy.UID] = u.To
		}
		if mIn.effective(d) != u.To {
			o.changed = true
		}
		pu := result.PackageUpdate{Name: u.Name, VersionFrom: mIn.effective(d), VersionTo: u.To}
		found := false
		for qi, q := range rawIn {
			if reqID(q) == u.id() && mIn.match(reqsIn[qi]) == d {
				pu.Type = q.Type.Clone()
				pu.VersionFrom = q.Version
				found = true
				break
			}
		}
		if !found {
			// a dependency Read does not report (e.g. inside a profile of a local parent): address it the
			// way Read addresses profile dependencies of the base project
			t := dep.NewType()
			if d.Type != "" && d.Type != "jar" {
				t.AddAttr(dep.MavenArtifactType, d.Type)
			}
			if d.Cls != "" {
				t.AddAttr(dep.MavenClassifier, d.Cls)
			}
			if d.Origin != "" {
				t.AddAttr(dep.MavenDependencyOrigin, d.Origin)
			}
			pu.Type = t
		}
		pus = append(pus, pu)
	}
	var patches []result.Patch
	switch {
	case len(pus) == 1:
		patches = []result.Patch{{PackageUpdates: pus}}
	case len(pus) > 1:
		patches = []result.Patch{{PackageUpdates: pus[:1]}, {PackageUpdates: pus[1:]}}
	}

	outMain := filepath.Join(outDir, filepath.FromSlash(cs.Main))
	var werr error
	p, stack := ev.Recover(func() { werr = rw.Write(man, fsys, patches, outMain) })
	if p != nil {
		site := ev.PanicSite(stack)
		if strings.Contains(site, "generatePropertyPatchesAux") && strings.Contains(fmt.Sprint(p), "slice bounds out of range") {
			bad("pom:property-patch-bounds-panic", "Write panicked in %s: %v", site, p)
		} else {
			bad("pom:panic:"+site, "Write panicked: %v", p)
		}
		return
	}
	if werr != nil {
		o.writeErr = werr.Error()
		// every generated pom update is addressed to a requirement of the file (or is a requirement to add)
		bad("pom:valid-update-rejected", "every update is addressed to a requirement of the manifest, but Write failed: %v", werr)
		return
	}

	// ---- token trees of every written file
	outFiles := map[string]string{}
	for _, pth := range chain {
		b, err := os.ReadFile(filepath.Join(outDir, filepath.FromSlash(pth)))
		if err != nil {
			bad("pom:file-not-written", "Write returned nil but %s was not written: %v", pth, err)
			return
		}
		outFiles[pth] = string(b)
	}
	mOut, err := buildPomModel(outFiles, chain)
	if err != nil {
		bad("pom:output-not-well-formed", "%v", err)
		return
	}
	// elements whose content may change: <version> of targeted dependencies and the definitions of the
	// properties they reference
	free := map[*xnode]bool{}
	targetProps := map[*pprop]bool{}
	for _, d := range mIn.deps {
		if _, ok := target[d.UID]; !ok {
			continue
		}
		if d.VerNode != nil {
			free[d.VerNode] = true
		}
		for _, rn := range refsOf(d.Ver) {
			// only the definition that is in effect for the targeted dependency may change
			if pp := mIn.lookup(d, rn); pp != nil {
				free[pp.Node] = true
				targetProps[pp] = true
			}
		}
	}
	structural := false
	if len(cs.Updates) > 0 {
		stripped := make([][]*xnode, len(chain))
		for fi := range chain {
			accept := target
			if fi == 0 && len(added) > 0 { // new managed requirements belong to the manifest itself
				accept = map[string]string{}
				for k, v := range target {
					accept[k] = v
				}
				for k, v := range added {
					accept[k] = v
				}
			}
			stripped[fi] = stripAppendedDepMgmt(mIn.roots[fi], mOut.roots[fi], mOut.trees[fi], accept, &o)
			if fi == 0 && len(added) > 0 {
				stripped[fi] = stripInsertedManaged(mIn.roots[fi], stripped[fi], added)
			}
		}
		if mOut, err = modelFromTrees(stripped, chain); err != nil {
			bad("harness:pom-model", "%v", err)
			return
		}
	}
	for fi := range chain {
		outTree := mOut.trees[fi]
		var diffs []xdiff
		compareTrees(mIn.trees[fi], outTree, chain[fi], free, mIn.slots, &diffs)
		for _, df := range diffs {
			switch {
			case df.Kind == "attrs" && onlyInventedXmlns(df.In, df.Out):
				bad("pom:nested-prefixed-attribute", "%s", df.What)
			case df.Kind == "slot" && df.In.text() == df.Out.text():
				bad("pom:untargeted-version-element-rewritten", "%s", df.What)
			case df.Kind == "slot" && mIn.isDepOrPropSlot(df.In):
				// the value of an untargeted dependency version / property changed: judged below on effective versions
			default:
				if df.Kind == "structure" {
					structural = true
				}
				if len(cs.Updates) == 0 {
					bad("pom:noop-token-diff", "%s", df.What)
				} else {
					bad("pom:token-diff", "%s", df.What)
				}
			}
		}
	}
	if structural || len(mOut.deps) != len(mIn.deps) || len(mOut.props) != len(mIn.props) {
		if len(o.discs) == 0 {
			bad("pom:token-diff", "output declares %d dependencies / %d properties, input %d / %d", len(mOut.deps), len(mOut.props), len(mIn.deps), len(mIn.props))
		}
		return
	}

	// ---- effective versions according to the model
	flagged := map[string]bool{}
	for i, d := range mIn.deps {
		dOut := mOut.deps[i]
		effIn, effOut := mIn.effective(d), mOut.effective(dOut)
		if to, ok := target[d.UID]; ok {
			if effOut == to {
				continue
			}
			flagged[d.UID] = true
			if effOut != effIn {
				bad("pom:wrong-version-written", "%s: effective version %q, requested %q (was %q)", d.UID, effOut, to, effIn)
				continue
			}
			key := "pom:silent-non-application"
			switch {
			case d.File > 0 && d.ProfileID != "":
				key = "pom:parent-profile-origin-join"
			case refsElsewhere(mIn, d):
				key = "pom:property-defined-in-other-pom"
			}
			bad(key, "Write returned nil but %s (%s, origin %q, version %q) still has effective version %q, requested %q", d.UID, chain[d.File], d.Origin, d.Ver, effOut, to)
			continue
		}
		if effOut != effIn || d.Ver != dOut.Ver {
			flagged[d.UID] = true
			key := "pom:collateral-change"
			if sharesTargetedProperty(mIn, d, target) {
				key = "pom:shared-property-collateral-change"
			}
			bad(key, "%s (%s) was not targeted but its version changed: %q (=%q) -> %q (=%q)", d.UID, chain[d.File], d.Ver, effIn, dOut.Ver, effOut)
		}
	}
	// untargeted properties must keep their value (also those no dependency uses)
	for i, pp := range mIn.props {
		if !targetProps[pp] && pp.Val != mOut.props[i].Val {
			bad("pom:collateral-change", "property %s in %s changed %q -> %q although no targeted dependency references it", pp.Name, chain[pp.File], pp.Val, mOut.props[i].Val)
		}
	}
	// a property referenced by a targeted dependency may change, but only the definition that is in effect
	// for a targeted dependency or one that leaves every untargeted dependency alone (checked above).

	// ---- re-read
	_, _, reqsOut, err := pomReadReqs(rw, scalibrfs.DirFS(outDir), cs.Main)
	if err != nil {
		bad("pom:output-unreadable", "Read(output): %v", err)
		return
	}
	norm := func(qs []readReq, m *pomModel, subst bool) []string {
		var out []string
		for _, q := range qs {
			v, uid := q.Version, q.ID
			if d := m.match(q); d != nil {
				uid = d.UID
				if strings.Contains(v, "${") {
					v = m.effective(d)
				}
			}
			if to, ok := target[uid]; ok && subst {
				v = to
			}
			out = append(out, uid+" | "+q.Type+" | "+v)
		}
		sort.Strings(out)
		return out
	}
	// added requirements: exactly one managed requirement each, in Requirements(), at the requested version
	if len(added) > 0 {
		var rest []readReq
		seen := map[string]int{}
		for _, q := range reqsOut {
			to, isAdded := added[q.ID]
			if !isAdded {
				rest = append(rest, q)
				continue
			}
			seen[q.ID]++
			if q.Version != to || !q.Direct || q.Origin != "management" {
				bad("pom:wrong-version-written", "added requirement %s read back as version %q origin %q (in Requirements(): %v), requested managed %q", q.ID, q.Version, q.Origin, q.Direct, to)
			}
		}
		ids := make([]string, 0, len(added))
		for id := range added {
			ids = append(ids, id)
		}
		sort.Strings(ids)
		for _, id := range ids {
			switch seen[id] {
			case 1:
			case 0:
				bad("pom:silent-non-application", "Write returned nil but the requirement %s -> %s that had to be added to dependencyManagement is not in Read(output)", id, added[id])
			default:
				bad("pom:wrong-version-written", "added requirement %s appears %d times in Read(output)", id, seen[id])
			}
		}
		reqsOut = rest
	}
	want, got := norm(reqsIn, mIn, true), norm(reqsOut, mOut, false)
	if strings.Join(want, "\n") != strings.Join(got, "\n") {
		// explained by an already flagged dependency?
		unexplained := diffNames(want, got)
		var rest []string
		for _, n := range unexplained {
			if !flagged[n] {
				rest = append(rest, n)
			}
		}
		if len(rest) > 0 || len(o.discs) == 0 {
			bad("pom:reread-mismatch", "Read(output) differs for %v: got %v want %v", rest, got, want)
		}
	}
	return
}

func diffNames(a, b []string) []string {
	cnt := map[string]int{}
	for _, s := range a {
		cnt[s]++
	}
	for _, s := range b {
		cnt[s]--
	}
	set := map[string]bool{}
	for s, c := range cnt {
		if c != 0 {
			set[strings.SplitN(s, " | ", 2)[0]] = true
		}
	}
	var out []string
	for n := range set {
		out = append(out, n)
	}
	sort.Strings(out)
	return out
}

// refsElsewhere: does d reference a property whose effective definition is not in d's own file?
func refsElsewhere(m *pomModel, d *pdep) bool {
	for _, rn := range refsOf(d.Ver) {
		if p := m.lookup(d, rn); p != nil && p.File != d.File {
			return true
		}
	}
	return false
}

func sharesTargetedProperty(m *pomModel, d *pdep, target map[string]string) bool {
	mine := map[*pprop]bool{}
	for _, rn := range refsOf(d.Ver) {
		if p := m.lookup(d, rn); p != nil {
			mine[p] = true
		}
	}
	for _, t := range m.deps {
		if _, ok := target[t.UID]; !ok {
			continue
		}
		for _, rn := range refsOf(t.Ver) {
			if p := m.lookup(t, rn); p != nil && mine[p] {
				return true
			}
		}
	}
	return false
}

// stripAppendedDepMgmt accepts (and removes for the comparison) one <dependencyManagement> block that the
// writer appended to <project>, provided it declares only targeted requirements at their requested version.
func stripAppendedDepMgmt(inRoot, outRoot *xnode, outTree []*xnode, target map[string]string, o *outcome) []*xnode {
	nIn, nOut := len(inRoot.kidsNamed("dependencyManagement")), len(outRoot.kidsNamed("dependencyManagement"))
	if nOut != nIn+1 {
		return outTree
	}
	// the appended block is the last dependencyManagement child
	idx := -1
	for i, k := range outRoot.Kids {
		if k.K == 'E' && k.Name == "dependencyManagement" {
			idx = i
		}
	}
	blk := outRoot.Kids[idx]
	ok := true
	if ds := blk.kid("dependencies"); ds != nil {
		for _, dn := range ds.kidsNamed("dependency") {
			n := depID(dn.kid("groupId").text()+":"+dn.kid("artifactId").text(), dn.kid("type").text(), dn.kid("classifier").text())
			if to, t := target[n]; !t || dn.kid("version").text() != to {
				ok = false
			}
		}
	} else {
		ok = false
	}
	if !ok {
		return outTree
	}
	// rebuild a copy of the root without the block; merge the whitespace around it
	cp := *outRoot
	cp.Kids = nil
	for i, k := range outRoot.Kids {
		if i == idx {
			continue
		}
		if k.K == 'T' && len(cp.Kids) > 0 && cp.Kids[len(cp.Kids)-1].K == 'T' {
			merged := *cp.Kids[len(cp.Kids)-1]
			merged.Text += k.Text
			cp.Kids[len(cp.Kids)-1] = &merged
			continue
		}
		cp.Kids = append(cp.Kids, k)
	}
	// whitespace-only text next to the removed block is don't-care: copy the input's text when both are blank
	for i, k := range cp.Kids {
		if k.K == 'T' && strings.TrimSpace(k.Text) == "" && i < len(inRoot.Kids) && inRoot.Kids[i].K == 'T' && strings.TrimSpace(inRoot.Kids[i].Text) == "" && i >= idx-1 {
			c := *k
			c.Text = inRoot.Kids[i].Text
			cp.Kids[i] = &c
		}
	}
	var out []*xnode
	for _, n := range outTree {
		if n == outRoot {
			out = append(out, &cp)
		} else {
			out = append(out, n)
		}
	}
	return out
}

// stripInsertedManaged accepts (and removes for the comparison) <dependency> elements that the writer
// inserted into the existing project-level <dependencyManagement><dependencies> for requirements that
// had to be added, at their requested version. Whitespace-only text next to them is don't-care.
func stripInsertedManaged(inRoot *xnode, outTree []*xnode, added map[string]string) []*xnode {
	var outRoot *xnode
	for _, n := range outTree {
		if n.K == 'E' {
			outRoot = n
		}
	}
	if outRoot == nil {
		return outTree
	}
	inDM, outDM := inRoot.kid("dependencyManagement"), outRoot.kid("dependencyManagement")
	if inDM == nil || outDM == nil {
		return outTree
	}
	inDeps, outDeps := inDM.kid("dependencies"), outDM.kid("dependencies")
	if inDeps == nil || outDeps == nil {
		return outTree
	}
	present := map[string]bool{}
	for _, dn := range inDeps.kidsNamed("dependency") {
		present[depID(dn.kid("groupId").text()+":"+dn.kid("artifactId").text(), dn.kid("type").text(), dn.kid("classifier").text())] = true
	}
	cp := *outDeps
	cp.Kids = nil
	removed := false
	for _, k := range outDeps.Kids {
		if k.K == 'E' && k.Name == "dependency" {
			id := depID(k.kid("groupId").text()+":"+k.kid("artifactId").text(), k.kid("type").text(), k.kid("classifier").text())
			if to, ok := added[id]; ok && !present[id] && k.kid("version").text() == to {
				removed = true
				continue
			}
		}
		if k.K == 'T' && len(cp.Kids) > 0 && cp.Kids[len(cp.Kids)-1].K == 'T' {
			merged := *cp.Kids[len(cp.Kids)-1]
			merged.Text += k.Text
			cp.Kids[len(cp.Kids)-1] = &merged
			continue
		}
		cp.Kids = append(cp.Kids, k)
	}
	if !removed {
		return outTree
	}
	for i, k := range cp.Kids { // whitespace around the inserted elements is free
		if k.K == 'T' && strings.TrimSpace(k.Text) == "" && i < len(inDeps.Kids) && inDeps.Kids[i].K == 'T' && strings.TrimSpace(inDeps.Kids[i].Text) == "" {
			c := *k
			c.Text = inDeps.Kids[i].Text
			cp.Kids[i] = &c
		}
	}
	replace := func(parent *xnode, old, nw *xnode) *xnode {
		c := *parent
		c.Kids = append([]*xnode{}, parent.Kids...)
		for i, k := range c.Kids {
			if k == old {
				c.Kids[i] = nw
			}
		}
		return &c
	}
	newDM := replace(outDM, outDeps, &cp)
	newRoot := replace(outRoot, outDM, newDM)
	var out []*xnode
	for _, n := range outTree {
		if n == outRoot {
			out = append(out, newRoot)
		} else {
			out = append(out, n)
		}
	}
	return out
}
