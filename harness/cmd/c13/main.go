// C13 — manifest writers change exactly the requested requirements.
//
// Bounded-exhaustive enumeration of generated package.json / pom.xml documents x
// all update sets (size <= 3) addressed to requirements present in them, driven
// through the real ReadWriters (guidedremediation.VerifNpmReadWriter /
// VerifMavenReadWriter). Oracles (npm.go, pom.go) are computed from the INPUT BYTES
// by independent scanners (a JSON span scanner, an XML raw-token tree), never from
// the implementation's own output.
//
// What is demanded (and nothing more):
//   - no panic;
//   - Write returns an error, or every update has been applied;
//   - re-reading the output yields the input's requirements with the requested
//     versions substituted, and no other requirement changed;
//   - package.json: every byte outside the value literal of a targeted entry is
//     preserved; pom.xml: the raw token tree (elements, attributes as
//     (prefix,local,value), character data, comments, directives, processing
//     instructions) is preserved outside the targeted <version>/property elements;
//   - empty update list => package.json bytes identical, pom.xml token trees equal.
//
// DON'T-CARE CELLS (every behaviour accepted):
//   - Write returning a non-nil error is accepted only when the update list contains a stale update
//     (VersionFrom differs from the file: it MUST be rejected or applied) or an update of a package that
//     is not in the file. A list of valid updates (VersionFrom = what Read reported) must be applied:
//     an error is npm:valid-update-rejected / pom:valid-update-rejected.
//   - package.json: how the new version string is JSON-escaped inside its literal
//     (only the decoded value is compared).
//   - package.json: a key that also occurs in a lower-precedence section
//     (dev > optional > prod, the order Read uses) may be updated there too or left
//     alone, whether or not its version equals the effective one. peerDependencies are
//     not requirements (Read ignores them) and must be preserved.
//   - package.json: an update of a package that is not in the file at all is outside the property's
//     quantifier ("updates addressed to requirements present in the file"): nothing is demanded for
//     it, it is only mixed into update lists to perturb the writer's state. A STALE update (package
//     present, VersionFrom different from the file) must either make Write fail or be applied.
//     For one multiset of updates every order of the list must give the same outcome class.
//   - pom.xml: whether a property-based version is changed by patching the property or
//     by replacing the <version> text with a literal, provided the effective
//     (interpolated) version is the requested one and nothing else changed.
//   - pom.xml: text layout inside a targeted <version>/property element; exact
//     whitespace/indentation of a newly appended <dependencyManagement> block (and of the
//     whitespace-only character data around it).
//   - pom.xml: adjacent character-data/CDATA runs are compared as one concatenated string;
//     <a/> and <a></a> are the same; attribute quoting style; encoding of character
//     references. Attribute order is compared (the property says "same sequence").
//   - pom.xml: a property may only change where it is in effect for a targeted dependency (own
//     profile first, then project level child -> parent -> grandparent); which of several
//     equivalent places is patched is otherwise free.
//   - pom.xml: a requirement that is not in the file ("added" update, origin management) must show up
//     in Read(output).Requirements() as a managed requirement at the requested version; it may be
//     inserted into the existing project-level <dependencyManagement><dependencies> or arrive in an
//     appended <dependencyManagement> block; position among siblings and surrounding whitespace free.
//   - Updates to the <parent> reference itself are not generated (a local parent with a
//     changed version is no longer found locally; re-reading would need the network).
//   - One groupId:artifactId:type:classifier declared under two origins IS generated (literal in
//     <dependencies>, property expression in dependencyManagement / profile / plugin), but updates only
//     address the first declaration (the one both result.PackageUpdate's type and the writer's lookup
//     name); the other declaration must keep its effective version. Updates addressed to a later
//     declaration of the same key are not generated (ambiguous addressing). A dependency without
//     <version> and the dependencyManagement entry that supplies its version count as ONE declaration:
//     an update addressed to the dependency is expected to move both requirements. Dependencies
//     without <version>, import-scoped BOMs, active-by-default profiles, remote parents:
//     not generated (addressing of such updates is ambiguous in result.PackageUpdate).
//   - package.json documents in which two keys of devDependencies/optionalDependencies resolve
//     to one real package (alias + real name) are not generated: Read itself is map-order
//     dependent there, which is not a writer matter.
//
// Cause keys (root causes, not inputs):
//
//	npm:unescaped-key-path                   failure disappears when keys with gjson/sjson path characters are renamed
//	npm:silent-non-application, npm:wrong-value-written, npm:untargeted-entry-changed,
//	npm:bytes-outside-targets-changed, npm:noop-not-identical, npm:reread-mismatch, npm:panic:<site>
//	pom:property-patch-bounds-panic          slice-bounds panic inside generatePropertyPatchesAux
//	pom:parent-profile-origin-join           dependency inside a profile of a local parent not patched
//	pom:property-defined-in-other-pom        property-versioned dependency whose property lives in another local pom
//	pom:shared-property-collateral-change    untargeted dependency changed because it shares a patched property
//	pom:untargeted-version-element-rewritten comment/whitespace inside an untargeted <version> lost
//	pom:nested-prefixed-attribute            xmlns:P="P" invented for a prefixed attribute of a nested element
//	pom:silent-non-application, pom:wrong-version-written, pom:collateral-change, pom:token-diff,
//	pom:noop-token-diff, pom:reread-mismatch, pom:output-unreadable, pom:file-not-written, pom:panic:<site>
//	harness:*                                the harness' own self-checks (generator/model disagree with Read)
package main

import (
	"crypto/sha256"
	"encoding/hex"
	"encoding/json"
	"fmt"
	"os"
	"path/filepath"
	"runtime/pprof"
	"sort"
	"strings"
	"sync"
	"sync/atomic"
	"time"

	"deps.dev/util/resolve/dep"
	scalog "github.com/google/osv-scalibr/log"
	"verif/ev"
)

// updSpec addresses one requirement of the manifest (by the name Read reports, plus the
// npm alias key) and gives the requested new version.
type updSpec struct {
	Name         string `json:"name"`
	KnownAs      string `json:"knownAs,omitempty"`      // npm alias key
	ArtifactType string `json:"artifactType,omitempty"` // maven <type> when not jar
	Classifier   string `json:"classifier,omitempty"`   // maven <classifier>
	To           string `json:"to"`
	// From (npm): a VersionFrom that differs from the version in the file (a stale update).
	From string `json:"from,omitempty"`
	// Absent (npm): the package is not in the file at all.
	Absent bool `json:"absent,omitempty"`
	// Add: the requirement is NOT in the manifest and has to be added to the project's
	// dependencyManagement (the way override patches for transitive dependencies arrive).
	Add bool `json:"add,omitempty"`
}

// caseSpec is one self-contained case: files, the manifest to read, the updates.
type caseSpec struct {
	Kind    string            `json:"kind"` // "npm" | "pom"
	Files   map[string]string `json:"files"`
	Main    string            `json:"main"`
	Chain   []string          `json:"chain,omitempty"` // pom: child, parent, grandparent paths
	Updates []updSpec         `json:"updates"`
	Family  string            `json:"family,omitempty"`
	// OrderCheck (npm): also run every other order of Updates and demand the same outcome class
	// (Write error vs. success).
	OrderCheck bool `json:"orderCheck,omitempty"`
}

// disc is one discrepancy between implementation and oracle.
type disc struct{ Key, What string }

type outcome struct {
	discs    []disc
	changed  bool // >= 1 requirement was requested to change and the case was executed
	writeErr string
}

type silentLogger struct{}

func (silentLogger) Errorf(string, ...any) {}
func (silentLogger) Error(...any)          {}
func (silentLogger) Warnf(string, ...any)  {}
func (silentLogger) Warn(...any)           {}
func (silentLogger) Infof(string, ...any)  {}
func (silentLogger) Info(...any)           {}
func (silentLogger) Debugf(string, ...any) {}
func (silentLogger) Debug(...any)          {}

var stopProf = func() {}

var (
	tmpRoot   string
	dirSeq    atomic.Int64
	writeErrs atomic.Int64
	npmCases  atomic.Int64
	pomCases  atomic.Int64
	noopCases atomic.Int64
	errMu     sync.Mutex
	errEx     []string
)

func newCaseDir() string {
	d := filepath.Join(tmpRoot, fmt.Sprintf("c%d", dirSeq.Add(1)))
	_ = os.MkdirAll(d, 0o755)
	return d
}

func writeFiles(root string, files map[string]string) error {
	for p, c := range files {
		fp := filepath.Join(root, filepath.FromSlash(p))
		if err := os.MkdirAll(filepath.Dir(fp), 0o755); err != nil {
			return err
		}
		if err := os.WriteFile(fp, []byte(c), 0o644); err != nil {
			return err
		}
	}
	return nil
}

func runCase(cs *caseSpec) outcome {
	dir := newCaseDir()
	defer os.RemoveAll(dir)
	switch cs.Kind {
	case "npm":
		return runNpm(cs, dir)
	case "pom":
		return runPom(cs, dir)
	}
	return outcome{discs: []disc{{"harness:bad-kind", cs.Kind}}}
}

func caseKey(cs *caseSpec) string {
	h := sha256.New()
	paths := make([]string, 0, len(cs.Files))
	for p := range cs.Files {
		paths = append(paths, p)
	}
	sort.Strings(paths)
	for _, p := range paths {
		fmt.Fprintf(h, "%s\x00%s\x00", p, cs.Files[p])
	}
	for _, u := range cs.Updates {
		fmt.Fprintf(h, "%s\x01%s\x01%s\x01%s\x01%s\x01%v\x01%s\x01%v\x02", u.Name, u.KnownAs, u.ArtifactType, u.Classifier, u.To, u.Add, u.From, u.Absent)
	}
	return hex.EncodeToString(h.Sum(nil)[:12])
}

// execute runs one case, counts it and records violations.
var famCount sync.Map // family -> *atomic.Int64

func countFamily(f string) {
	v, _ := famCount.LoadOrStore(f, new(atomic.Int64))
	v.(*atomic.Int64).Add(1)
}

func execute(r *ev.Run, cs *caseSpec, run func() outcome) {
	countFamily(cs.Kind + ":" + cs.Family)
	var o outcome
	if run != nil {
		o = run()
	} else {
		o = runCase(cs)
	}
	r.Evals.Add(1)
	if cs.Kind == "npm" {
		npmCases.Add(1)
	} else {
		pomCases.Add(1)
	}
	if len(cs.Updates) == 0 {
		noopCases.Add(1)
	}
	if o.writeErr != "" {
		writeErrs.Add(1)
		errMu.Lock() // keep the 4 lexicographically smallest examples (deterministic)
		errEx = append(errEx, fmt.Sprintf("%s %s: %s", cs.Kind, fmtUpdates(cs.Updates), o.writeErr))
		sort.Strings(errEx)
		if len(errEx) > 4 {
			errEx = errEx[:4]
		}
		errMu.Unlock()
	}
	if o.changed {
		r.Distinct(caseKey(cs))
	}
	seen := map[string]bool{}
	for _, d := range o.discs {
		if seen[d.Key] {
			continue
		}
		seen[d.Key] = true
		r.Violation(d.Key, d.What+" | updates="+fmtUpdates(cs.Updates)+" main="+cs.Main, cs)
	}
}

// recordSamples executes six fixed cases (first, middle and last document of each kind, first
// single update) on the main goroutine and writes them out as the evidence samples.
func recordSamples(r *ev.Run, npmDocs []*npmDoc, pomDocs []*pomDoc) {
	keys := func(o outcome) []string {
		ks := []string{}
		for _, d := range o.discs {
			ks = append(ks, d.Key)
		}
		return ks
	}
	verdict := func(o outcome) string {
		switch {
		case len(o.discs) > 0:
			return "discrepancy"
		case o.writeErr != "":
			return "Write returned an error"
		}
		return "output = input with exactly the requested requirement substituted; re-read agrees"
	}
	n := 0
	for _, i := range []int{0, len(npmDocs) / 2, len(npmDocs) - 1} {
		for ; i >= 0 && i < len(npmDocs); i++ { // first document at or after i that has a requirement
			files := map[string]string{"package.json": npmDocs[i].render()}
			reqs, err := npmReadReqs(files)
			if err != nil || len(reqs) == 0 {
				continue
			}
			ka, _ := reqs[0].Type.GetAttr(dep.KnownAs)
			cs := &caseSpec{Kind: "npm", Files: files, Main: "package.json", Family: npmDocs[i].Family, Updates: []updSpec{{Name: reqs[0].Name, KnownAs: ka, To: npmTargets[0]}}}
			o := runCase(cs)
			r.Sample(map[string]any{"kind": "npm", "family": cs.Family, "input": files["package.json"], "updates": cs.Updates, "verdict": verdict(o), "discrepancy_keys": keys(o)})
			n++
			break
		}
	}
	for _, i := range []int{0, len(pomDocs) / 2, len(pomDocs) - 1} {
		for ; i >= 0 && i < len(pomDocs); i++ {
			files, chain := pomDocs[i].Opt.render()
			m, err := buildPomModel(files, chain)
			if err != nil || len(m.deps) == 0 {
				continue
			}
			cs := &caseSpec{Kind: "pom", Files: files, Main: chain[0], Chain: chain, Family: pomDocs[i].Family, Updates: []updSpec{m.deps[len(m.deps)-1].upd(pomTargets[0])}}
			o := runCase(cs)
			r.Sample(map[string]any{"kind": "pom", "family": cs.Family, "options": fmt.Sprintf("%+v", pomDocs[i].Opt), "files": chain, "input": files[chain[0]], "updates": cs.Updates, "verdict": verdict(o), "discrepancy_keys": keys(o)})
			n++
			break
		}
	}
	_ = n
}

func fmtUpdates(us []updSpec) string {
	var p []string
	for _, u := range us {
		n := u.Name
		if u.KnownAs != "" {
			n = u.KnownAs + "=>" + n
		}
		if u.ArtifactType != "" || u.Classifier != "" {
			n += "|" + u.ArtifactType + "|" + u.Classifier
		}
		if u.Add {
			n = "+" + n
		}
		if u.Absent {
			n = "absent:" + n
		}
		if u.From != "" {
			n += "(stale from " + u.From + ")"
		}
		p = append(p, n+"->"+u.To)
	}
	return "[" + strings.Join(p, ", ") + "]"
}

// subsets returns all non-empty subsets of {0..n-1} of size <= k, smallest first.
func subsets(n, k int) [][]int {
	var out [][]int
	var rec func(start int, cur []int, size int)
	for size := 1; size <= k && size <= n; size++ {
		rec = func(start int, cur []int, size int) {
			if len(cur) == size {
				out = append(out, append([]int{}, cur...))
				return
			}
			for i := start; i < n; i++ {
				rec(i+1, append(cur, i), size)
			}
		}
		rec(0, nil, size)
	}
	return out
}

func permutations(n int) [][]int {
	var out [][]int
	a := make([]int, n)
	for i := range a {
		a[i] = i
	}
	var rec func(k int)
	rec = func(k int) {
		if k == n {
			out = append(out, append([]int{}, a...))
			return
		}
		for i := k; i < n; i++ {
			a[k], a[i] = a[i], a[k]
			rec(k + 1)
			a[k], a[i] = a[i], a[k]
		}
	}
	rec(0)
	return out
}

func main() {
	scalog.SetLogger(silentLogger{})
	var err error
	tmpRoot, err = os.MkdirTemp("/dev/shm", "c13-")
	if err != nil {
		fmt.Fprintln(os.Stderr, "tmp:", err)
		os.Exit(3)
	}
	cleanup := func() { os.RemoveAll(tmpRoot) }
	if p := os.Getenv("VERIF_REPLAY"); p != "" {
		code := replayCode(p)
		cleanup()
		os.Exit(code)
	}

	if pf := os.Getenv("VERIF_C13_PROF"); pf != "" { // debugging aid
		f, _ := os.Create(pf)
		_ = pprof.StartCPUProfile(f)
		defer pprof.StopCPUProfile()
		stopProf = pprof.StopCPUProfile
	}
	r := ev.Start("C13", "exploration", 5*time.Minute, 45*time.Minute)

	npmDocs := genNpmDocs(r.Thorough())
	pomDocs := genPomDocs(r.Thorough())
	switch os.Getenv("VERIF_C13_ONLY") { // debugging aid; the evidence then says exhaustive=false
	case "npm":
		pomDocs = nil
		r.Cap("VERIF_C13_ONLY=npm")
	case "pom":
		npmDocs = nil
		r.Cap("VERIF_C13_ONLY=pom")
	}
	r.Set("npm_documents", len(npmDocs))
	r.Set("pom_documents", len(pomDocs))

	// interleave pom and npm work so that a deadline cuts both proportionally; simplest first within each
	type item struct {
		npm *npmDoc
		pom *pomDoc
	}
	var items []item
	for i := 0; i < len(npmDocs) || i < len(pomDocs); i++ {
		if i < len(npmDocs) {
			items = append(items, item{npm: npmDocs[i]})
		}
		if i < len(pomDocs) {
			items = append(items, item{pom: pomDocs[i]})
		}
	}
	if r.Seed != 0 {
		// VERIF_SEED only rotates the work order
		k := r.Seed % len(items)
		if k < 0 {
			k += len(items)
		}
		items = append(items[k:], items[:k]...)
	}
	recordSamples(r, npmDocs, pomDocs)
	done := r.ParallelFor(len(items), func(i int) {
		it := items[i]
		if it.npm != nil {
			exploreNpmDoc(r, it.npm)
		} else {
			explorePomDoc(r, it.pom)
		}
	})
	r.Set("work_items_done", done)
	r.Set("work_items", len(items))
	r.Set("npm_cases", npmCases.Load())
	r.Set("pom_cases", pomCases.Load())
	r.Set("no_update_cases", noopCases.Load())
	r.Set("write_errors_accepted", writeErrs.Load())
	fams := map[string]int64{}
	famCount.Range(func(k, v any) bool { fams[k.(string)] = v.(*atomic.Int64).Load(); return true })
	r.Set("cases_per_family", fams)
	r.Set("write_error_examples", append([]string{}, errEx...))
	r.Assume("a Write error is accepted only for update lists that contain a stale update or an update of an absent package")
	r.Assume("updates address the first declaration of a groupId:artifactId:type:classifier; updates never target the <parent> reference")
	r.Assume("Maven registry is never contacted: only local parents are generated")
	cleanup()
	stopProf()
	r.Finish("for every generated manifest and every update set (<=3) addressed to requirements present in it: Write does not panic; if it returns nil every update is applied; Read(output) = Read(input) with the requested versions substituted; package.json bytes outside targeted value literals and pom.xml raw tokens outside targeted version/property elements are unchanged; no updates => output = input", done == len(items))
}

func replayCode(p string) (code int) {
	b, err := os.ReadFile(p)
	if err != nil {
		fmt.Fprintln(os.Stderr, "replay:", err)
		return 3
	}
	var f struct {
		Key    string   `json:"key"`
		What   string   `json:"what"`
		Replay caseSpec `json:"replay"`
	}
	if err := json.Unmarshal(b, &f); err != nil {
		fmt.Fprintln(os.Stderr, "replay:", err)
		return 3
	}
	fmt.Printf("replaying %s case, recorded key %s\n  updates %s\n", f.Replay.Kind, f.Key, fmtUpdates(f.Replay.Updates))
	o := runCase(&f.Replay)
	if o.writeErr != "" {
		fmt.Printf("  Write returned error: %s\n", o.writeErr)
	}
	if len(o.discs) == 0 {
		fmt.Println("  no discrepancy observed: property holds on this case")
		return 0
	}
	for _, d := range o.discs {
		fmt.Printf("  DISCREPANCY %s: %s\n", d.Key, d.What)
	}
	return 1
}
