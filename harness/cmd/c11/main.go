// C11 — guided remediation only upgrades, and only as far as the policy allows.
//
// Bounded-exhaustive exploration: every (universe, manifest, vulnerability set,
// upgrade configuration) tuple produced by verif/universe (GenFix for npm/relax
// and Maven/override, GenUpdate for Maven/Update; full products of the parameter
// lists printed in the rule text) is run against the real implementation, fully
// offline (in-memory resolve client built from deps.dev schema text, in-memory
// matcher over generated OSV records that uses the repository's own IsAffected).
//
// Per tuple
//
//	candidates  all patches of override/relax.ComputePatches (through the verif hook)
//	applied     the patches FixVulns (MaxUpgrades=0) / Update reports, and the manifest file it wrote
//
// Oracle, for every PackageUpdate u of every candidate patch P, and for every u of
// the union A of the applied patches:
//
//	(1) level(u.Name) != none (level computed here from the tuple, not by upgrade.Config)
//	(2) v0 = version u.Name resolves to in manifest+(P-u), v1 = in manifest+P. Both manifests are
//	    written by the real manifest writer and parsed/resolved by the real reader/resolver
//	    (hook). For the applied set v1 comes from the file FixVulns/Update wrote itself.
//	    v1 > v0 in the reference order (3 integers + optional -rc.N, written in verif/universe)
//	(3) the most significant numeric component that differs between v0 and v1 is allowed by the
//	    level: major anything, minor only minor/patch, patch only patch
//	(4) a direct requirement of a package configured `none` has the same requirement string in the
//	    written manifest as in the original
//	(4b) every other direct requirement (not among the reported updates) resolves, in the manifest files on disk after
//	    the run (child pom and local parent pom), to the same version as before, or moved upward within its level
//	(5) the tuple terminates (120 s watchdog per tuple; normal cost < 5 ms) and does not panic
//
// Don't-care cells (accepted whatever the implementation does; counted in the evidence):
//   - u.Name does not resolve to exactly one version in manifest+(P-u) or manifest+P (package absent,
//     ambiguous, resolution error): "the version it would resolve to" is undefined, only (1) is checked.
//     Exception, Maven: a plain soft requirement `x.y.z` on a version the registry does not have
//     denotes x.y.z itself (that is what Maven would try to fetch), so v0 = x.y.z.
//   - versions that differ only in the pre-release tag (2.0.0-rc.1 -> 2.0.0) are below "patch" and are
//     allowed by every level except none; they must still move upward.
//   - packages whose resolved version changes only as a side effect (transitive dependencies of a
//     relaxed direct dependency) are not PackageUpdates and are not constrained by the property.
//   - which patches are proposed/chosen, Fixed/Introduced lists, errors returned by FixVulns/Update
//     (C12/C13 territory); a patch the manifest writer refuses to apply is skipped.
//   - requirements written with one shared Maven property are one textual change: for an update u of such a
//     requirement, v0 is taken from the manifest without u AND without the updates of the packages sharing the property.
//   - a Maven package required more than once by the manifest (jar + classifier/type variant) has no single resolved
//     version: each update is judged against its own requirement (plain version = itself, range = highest matching
//     registry version), before and after.
//   - npm aliases ("<alias>": "npm:<real>@<req>"): the level that applies is the one configured for the REAL package
//     name (options: "Allowed upgrade levels per package"; PackageUpdate.Name is the real name). An entry keyed by the
//     alias configures nothing for the oracle (the default level applies); the update is judged on the root edge with
//     the same KnownAs attribute.
//   - package names: the level that applies is the one configured under the byte-identical registry name; whether a
//     differently-cased key should also apply is not demanded (no such configuration is generated).
//   - one Maven artifact declared under two origins is generated as <dependencies> + <dependencyManagement> only. When the
//     second declaration sits in a profile (active or not, dependencies or dependencyManagement) the manifest reader
//     merges active profiles and drops the profile origin, and an inactive profile never takes part in resolution, so
//     "the version it would resolve to without that change" cannot be attributed to a declaration: not demanded
//     (VERIF_C11_ORIGIN=... runs them for inspection only; such a run is capped, never a deciding run).
//   - FixVulns combining independently computed patches with DISJOINT fixed sets where one patch moves a package that
//     another pins lower (key <strategy>:independent-patches-combined-downgrade) is an open known finding.
//   - IgnoreDev of Update is not exercised.
//
// Cause keys: <strategy>:updates-none-package, :downgrade, :no-upward-move, :exceeds-level,
// :none-requirement-changed, :hang, :panic:<site>; pom:shared-property-collateral-change;
// Maven Update additionally maven-update:downgrade-when-current-missing, maven-update:nil-newreq,
// maven-update:nil-current; npm-relax:prerelease-step-relaxed-to-caret; maven-update:equal-version-respelled;
// maven:artifact-declared-under-two-origins; <strategy>:independent-patches-combined-downgrade.
package main

import (
	"context"
	"encoding/json"
	"fmt"
	"os"
	"path/filepath"
	"runtime/debug"
	"strconv"
	"strings"
	"sync/atomic"
	"time"

	"deps.dev/util/resolve/dep"
	"github.com/google/osv-scalibr/guidedremediation"
	"github.com/google/osv-scalibr/guidedremediation/options"
	"github.com/google/osv-scalibr/guidedremediation/result"
	"verif/ev"
	u "verif/universe"
)

const (
	stRelax    = "npm-relax"
	stOverride = "maven-override"
	stUpdate   = "maven-update"
)

type finding struct{ Key, What string }

type tupleOut struct {
	findings []finding
	patches  int // candidate + applied patches seen
	updates  int // PackageUpdates checked
	multi    int // patches with >= 2 PackageUpdates checked
	dontcare map[string]int
	log      []string
}

func (o *tupleOut) dc(k string) {
	if o.dontcare == nil {
		o.dontcare = map[string]int{}
	}
	o.dontcare[k]++
}
func (o *tupleOut) add(key, format string, a ...any) {
	o.findings = append(o.findings, finding{key, fmt.Sprintf(format, a...)})
}
func (o *tupleOut) logf(format string, a ...any) { o.log = append(o.log, fmt.Sprintf(format, a...)) }

var levelName = []string{"major", "minor", "patch", "none"}

// sharedProp: the other manifest packages whose requirement is written with the same
// property as name's (one textual change moves all of them).
func sharedProp(c *u.Case, name string) map[string]bool {
	all := append([]u.Req{}, c.Manifest...)
	if c.Parent != nil {
		all = append(all, c.Parent.Reqs...)
	}
	prop := ""
	for _, q := range all {
		if c.Full(q.Name) == name {
			prop = q.Prop
		}
	}
	out := map[string]bool{}
	if prop == "" {
		return out
	}
	for _, q := range all {
		if q.Prop == prop && c.Full(q.Name) != name {
			out[c.Full(q.Name)] = true
		}
	}
	return out
}

// without removes update i, and with it the updates of packages that share its property.
func without(c *u.Case, ups []result.PackageUpdate, i int) []result.PackageUpdate {
	grp := sharedProp(c, ups[i].Name)
	out := make([]result.PackageUpdate, 0, len(ups)-1)
	same := func(a, b result.PackageUpdate) bool {
		return a.Name == b.Name && a.VersionFrom == b.VersionFrom && a.VersionTo == b.VersionTo && a.Type.Compare(b.Type) == 0
	}
	for j, x := range ups {
		// an update listed twice (identical name, type, from, to) is one change
		if j != i && !grp[x.Name] && !same(x, ups[i]) {
			out = append(out, x)
		}
	}
	return out
}

// softLiteral: Maven plain soft requirement of name in the manifest, if any.
func softLiteral(c *u.Case, r *u.Resolved, name string) (string, bool) {
	if c.Eco != u.Maven {
		return "", false
	}
	for _, q := range u.Requirements(r.Manifest) {
		if q.Name == name && q.Origin == "" {
			if _, ok := u.ParseV(q.Version); ok {
				return q.Version, true
			}
		}
	}
	return "", false
}

// checkUpdates applies the oracle to one set of package updates. full is the
// manifest with all of ups applied (nil: materialise it here).
func checkUpdates(st string, c *u.Case, dir string, base u.Files, ups []result.PackageUpdate, full *u.Files, kind string, out *tupleOut) {
	if len(ups) == 0 {
		return
	}
	if len(ups) > 1 {
		out.multi++
	}
	for _, up := range ups {
		if c.Level(up.Name) == 3 {
			out.add(st+":updates-none-package", "%s patch updates %s (%q -> %q) although its level is none; cfg=%v", kind, up.Name, up.VersionFrom, up.VersionTo, c.Cfg)
		}
	}
	if full == nil {
		f, err := c.MaterialiseFiles(filepath.Join(dir, "full"), base, ups)
		full = &f
		if err != nil {
			out.dc("writer-refused-patch")
			out.logf("%s: writer refused %v: %v", kind, ups, err)
			return
		}
	}
	rFull, err := c.ResolveFiles(filepath.Join(dir, "full"), *full)
	if rFull == nil {
		out.dc("patched-manifest-unreadable")
		out.logf("%s: patched manifest %v cannot be read: %v", kind, ups, err)
		return
	}
	if err != nil {
		// only updates of a package that is required more than once can still be judged (per requirement)
		out.dc("patched-manifest-unresolvable")
		out.logf("%s: patched manifest %v does not resolve: %v", kind, ups, err)
	}
	for i, up := range ups {
		out.updates++
		part, err := c.MaterialiseFiles(filepath.Join(dir, "part"), base, without(c, ups, i))
		if err != nil {
			out.dc("writer-refused-partial-patch")
			continue
		}
		rPart, err := c.ResolveFiles(filepath.Join(dir, "part"), part)
		if rPart == nil {
			out.dc("partial-manifest-unreadable")
			continue
		}
		if err != nil {
			out.dc("partial-manifest-unresolvable") // v0 can still be a Maven soft literal
		}
		var v0, v1 string
		var n0, n1 int
		missing := false
		if upOrigin, _ := up.Type.GetAttr(dep.MavenDependencyOrigin); c.Eco == u.Maven && (u.CountAll(rFull.Manifest, up.Name) >= 2 || upOrigin != "") && u.CountDirect(rFull.Manifest, up.Name) < 2 && u.CountAll(rPart.Manifest, up.Name) >= 1 && declaredTwice(c, up.Name) {
			// The artifact is declared under two origins (e.g. <dependencies> and <dependencyManagement>): an update
			// belongs to ONE declaration (the origin recorded in its type) and is judged against that requirement,
			// before and after (plain version = itself, range = highest matching registry version).
			cl, _ := up.Type.GetAttr(dep.MavenClassifier)
			at, _ := up.Type.GetAttr(dep.MavenArtifactType)
			if q, n := u.RequirementAt(rPart.Manifest, up.Name, cl, at, upOrigin); n == 1 {
				if v, ok := c.Denoted(up.Name, q); ok {
					v0, n0 = v, 1
				}
			}
			if q, n := u.RequirementAt(rFull.Manifest, up.Name, cl, at, upOrigin); n == 1 {
				if v, ok := c.Denoted(up.Name, q); ok {
					v1, n1 = v, 1
				}
			}
		} else if c.Eco == u.Maven && u.CountDirect(rFull.Manifest, up.Name) >= 2 {
			// The package is required more than once (jar + classifier/type variants): the graph has no single
			// version for it, so each update is judged against ITS OWN requirement: the version that requirement
			// denotes taken alone (plain version = itself, range = highest matching registry version), before/after.
			cl, _ := up.Type.GetAttr(dep.MavenClassifier)
			at, _ := up.Type.GetAttr(dep.MavenArtifactType)
			if q, n := u.RequirementOf(rPart.Manifest, up.Name, cl, at); n == 1 {
				if v, ok := c.Denoted(up.Name, q); ok {
					v0, n0 = v, 1
					if reg, _ := c.Denoted(up.Name, "["+v+"]"); reg != v {
						missing = true
					}
				}
			}
			if q, n := u.RequirementOf(rFull.Manifest, up.Name, cl, at); n == 1 {
				if v, ok := c.Denoted(up.Name, q); ok {
					v1, n1 = v, 1
				}
			}
		} else if ka, _ := up.Type.GetAttr(dep.KnownAs); c.Eco == u.NPM && (ka != "" || u.CountDirect(rFull.Manifest, up.Name) >= 2) {
			// npm: an aliased dependency, or a package required both plainly and through an alias: the update is
			// judged on the root edge of ITS requirement (same KnownAs), the real resolver's choice for that edge.
			if rFull.Graph == nil {
				continue
			}
			v0, n0 = u.DirectVersionOf(rPart.Graph, up.Name, ka)
			v1, n1 = u.DirectVersionOf(rFull.Graph, up.Name, ka)
		} else {
			if rFull.Graph == nil {
				continue
			}
			v0, n0 = u.VersionOf(rPart.Graph, up.Name)
			if n0 == 0 {
				if lit, ok := softLiteral(c, rPart, up.Name); ok {
					v0, n0, missing = lit, 1, true
				}
			}
			v1, n1 = u.VersionOf(rFull.Graph, up.Name)
		}
		out.logf("%s: %s %q->%q: resolves %q (n=%d, softLiteral=%v) without the update, %q (n=%d) with it; level=%s", kind, up.Name, up.VersionFrom, up.VersionTo, v0, n0, missing, v1, n1, levelName[c.Level(up.Name)])
		if n0 != 1 {
			out.dc("base-version-undefined")
			continue
		}
		if n1 != 1 {
			out.dc("new-version-undefined")
			continue
		}
		parse := u.ParseV
		if c.Eco == u.Maven {
			parse = u.ParseVLoose // also the equal-ordered Maven spellings (1.0 = 1.0.0 = 1.0-ga = 1.0.Final)
		}
		p0, ok0 := parse(v0)
		p1, ok1 := parse(v1)
		if !ok0 || !ok1 {
			out.dc("version-outside-reference-order")
			continue
		}
		lvl := c.Level(up.Name)
		desc := fmt.Sprintf("%s patch: %s requirement %q -> %q moves the resolved version %s -> %s (level %s, cfg=%v)", kind, up.Name, up.VersionFrom, up.VersionTo, v0, v1, levelName[lvl], c.Cfg)
		switch cmp := u.CmpV(p1, p0); {
		case cmp < 0:
			key := st + ":downgrade"
			if st == stUpdate && missing {
				key = "maven-update:downgrade-when-current-missing"
			}
			out.add(key, "%s", desc)
		case cmp == 0:
			key := st + ":no-upward-move"
			if v0 != v1 {
				key = st + ":equal-version-respelled" // the "update" goes to another spelling of the same version
			}
			out.add(key, "%s", desc)
		default:
			if lvl < 3 && u.DiffLevel(p0, p1) < lvl {
				key := st + ":exceeds-level"
				if st == stRelax && p0.Pre >= 0 && strings.HasPrefix(up.VersionTo, "^") {
					// leaving a pre-release is a step below "patch", yet the relaxer writes a caret range
					key = "npm-relax:prerelease-step-relaxed-to-caret"
				}
				out.add(key, "%s", desc)
			}
		}
	}
}

// noneRequirementsKept: direct requirements of packages configured none keep their requirement string.
func noneRequirementsKept(st string, c *u.Case, dir string, base, written u.Files, out *tupleOut) {
	rw, err := c.ReadWriter()
	if err != nil {
		return
	}
	read := func(sub string, data u.Files) []u.ReqView {
		p, err := c.PutFiles(filepath.Join(dir, sub), data)
		if err != nil {
			return nil
		}
		m, err := guidedremediation.VerifParseManifest(p, rw)
		if err != nil {
			return nil
		}
		return u.Requirements(m)
	}
	a, b := read("full", base), read("part", written)
	if a == nil || b == nil {
		out.dc("manifest-unreadable")
		return
	}
	for _, q := range a {
		if c.Level(q.Name) != 3 {
			continue
		}
		found := false
		for _, w := range b {
			if w.Name == q.Name && w.Origin == q.Origin && w.Version == q.Version {
				found = true
			}
		}
		if !found {
			key := st + ":none-requirement-changed"
			if len(sharedProp(c, q.Name)) > 0 {
				key = "pom:shared-property-collateral-change"
			}
			out.add(key, "requirement %s %q (level none) is not in the written manifest any more: %v", q.Name, q.Version, b)
		}
	}
}

// unlistedMoves: the manifest(s) on disk after FixVulns/Update also bind every direct requirement that is NOT one of
// the reported updates: its package must still resolve to the same version, or have moved strictly upward within
// its level (the property covers every dependency change "applied", listed or not).
func unlistedMoves(st string, c *u.Case, dir string, base, written u.Files, applied []result.PackageUpdate, out *tupleOut) {
	rBase, err := c.ResolveFiles(filepath.Join(dir, "full"), base)
	if err != nil || rBase == nil {
		return
	}
	rNew, err := c.ResolveFiles(filepath.Join(dir, "part"), written)
	if err != nil || rNew == nil {
		return
	}
	listed := map[string]bool{}
	for _, up := range applied {
		o, _ := up.Type.GetAttr(dep.MavenDependencyOrigin)
		if o == "" || !declaredTwice(c, up.Name) {
			listed[up.Name] = true // an update of another declaration (management, profile) does not list the direct one
		}
	}
	seen := map[string]bool{}
	for _, q := range u.Requirements(rBase.Manifest) {
		if q.Origin != "" || listed[q.Name] || seen[q.Name] {
			continue
		}
		seen[q.Name] = true
		if u.CountDirect(rBase.Manifest, q.Name) != 1 {
			continue
		}
		v0, n0 := u.VersionOf(rBase.Graph, q.Name)
		v1, n1 := u.VersionOf(rNew.Graph, q.Name)
		if n0 != 1 || n1 != 1 || v0 == v1 {
			continue
		}
		p0, ok0 := u.ParseV(v0)
		p1, ok1 := u.ParseV(v1)
		if !ok0 || !ok1 {
			continue
		}
		lvl := c.Level(q.Name)
		desc := fmt.Sprintf("applied manifest: %s is not among the reported updates %v but its resolved version moved %s -> %s on disk (level %s, cfg=%v)", q.Name, applied, v0, v1, levelName[lvl], c.Cfg)
		key := ""
		switch {
		case len(sharedProp(c, q.Name)) > 0:
			key = "pom:shared-property-collateral-change"
		case lvl == 3:
			key = st + ":none-requirement-changed"
		case u.CmpV(p1, p0) < 0:
			key = st + ":downgrade"
		case u.DiffLevel(p0, p1) < lvl:
			key = st + ":exceeds-level"
		}
		if key != "" && (key != "pom:shared-property-collateral-change" || lvl == 3 || u.CmpV(p1, p0) < 0 || u.DiffLevel(p0, p1) < lvl) {
			out.add(key, "%s", desc)
		}
	}
}

// declaredTwice: the case's manifest declares the package under more than one origin.
func declaredTwice(c *u.Case, fullName string) bool {
	origins := map[string]bool{}
	for _, q := range c.Manifest {
		if c.Full(q.Name) == fullName {
			origins[q.Origin] = true
		}
	}
	return len(origins) > 1
}

func classifyPanic(st string, p any, stack string) string {
	site := ev.PanicSite(stack)
	if st == stUpdate && strings.Contains(site, "suggestMavenVersion") {
		switch {
		case strings.Contains(stack, "semver.(*Version).String"):
			return "maven-update:nil-newreq" // every known version filtered by the level
		case strings.Contains(stack, "semver.(*Version).Difference"):
			return "maven-update:nil-current" // range requirement that no known version satisfies
		}
	}
	return st + ":panic:" + site
}

func runFix(st string, c *u.Case, dir string, out *tupleOut) {
	base := c.BaseFiles()
	ctx := context.Background()
	// candidates through the hook
	var cands []result.Patch
	p, stack := ev.Recover(func() {
		path, err := c.PutFiles(filepath.Join(dir, "m"), base)
		if err != nil {
			panic(err)
		}
		rw, err := c.ReadWriter()
		if err != nil {
			panic(err)
		}
		m, err := guidedremediation.VerifParseManifest(path, rw)
		if err != nil {
			out.dc("manifest-parse-error")
			return
		}
		cl, err := c.Client()
		if err != nil {
			panic(err)
		}
		vm := c.NewMatcher()
		ro := c.RemediationOptions()
		resolved, err := guidedremediation.VerifResolveManifest(ctx, cl, vm, m, &ro)
		if err != nil {
			out.dc("manifest-resolve-error")
			out.logf("resolve: %v", err)
			return
		}
		if c.Eco == u.Maven {
			cands, err = guidedremediation.VerifOverrideComputePatches(ctx, cl, vm, resolved, &ro)
		} else {
			cands, err = guidedremediation.VerifRelaxComputePatches(ctx, cl, vm, resolved, &ro)
		}
		if err != nil {
			out.dc("compute-patches-error")
			out.logf("ComputePatches: %v", err)
		}
	})
	if p != nil {
		out.add(classifyPanic(st, p, stack), "ComputePatches panics: %v", p)
		out.logf("%s", stack)
		return
	}
	out.patches += len(cands)
	for i, pt := range cands {
		checkUpdates(st, c, dir, base, pt.PackageUpdates, nil, fmt.Sprintf("candidate#%d", i), out)
	}
	// applied
	var res result.Result
	var ferr error
	var written *u.Files
	p, stack = ev.Recover(func() {
		path, err := c.PutFiles(filepath.Join(dir, "m"), base)
		if err != nil {
			panic(err)
		}
		o, err := c.FixOptions(path, 0)
		if err != nil {
			panic(err)
		}
		res, ferr = guidedremediation.FixVulns(o)
		if w, err := c.ReadFiles(filepath.Join(dir, "m")); err == nil {
			written = &w
		}
	})
	if p != nil {
		out.add(classifyPanic(st, p, stack), "FixVulns panics: %v", p)
		out.logf("%s", stack)
		return
	}
	if ferr != nil {
		out.dc("fixvulns-error")
		out.logf("FixVulns: %v", ferr)
		return
	}
	var applied []result.PackageUpdate
	for _, pt := range res.Patches {
		applied = append(applied, pt.PackageUpdates...)
	}
	out.patches += len(res.Patches)
	out.logf("FixVulns applied %d patches: %v", len(res.Patches), applied)
	nBefore := len(out.findings)
	checkUpdates(st, c, dir, base, applied, written, "applied", out)
	// Root cause split for downgrades of the combined application: choosePatches only refuses to combine patches that
	// change the same package or share a fixed vulnerability. If the applied patches fix pairwise DISJOINT sets and one of
	// them moves a package another one pins, that is a limit of that rule (own key); with overlapping sets the rule itself
	// was not honoured (plain :downgrade).
	if len(res.Patches) > 1 {
		seen, overlap := map[string]bool{}, false
		for _, pt := range res.Patches {
			for _, v := range pt.Fixed {
				if seen[v.ID] {
					overlap = true
				}
				seen[v.ID] = true
			}
		}
		if !overlap {
			for i := nBefore; i < len(out.findings); i++ {
				if out.findings[i].Key == st+":downgrade" {
					out.findings[i].Key = st + ":independent-patches-combined-downgrade"
				}
			}
			// <strategy>:independent-patches-combined-downgrade is an OPEN known finding (known_findings.json):
			// it is reported under its own key, which a broken choosePatches rule (key :downgrade) does not share.
		}
	}
	if written != nil {
		noneRequirementsKept(st, c, dir, base, *written, out)
		unlistedMoves(st, c, dir, base, *written, applied, out)
	}
}

func runUpdate(c *u.Case, dir string, out *tupleOut) {
	base := c.BaseFiles()
	var res result.Result
	var uerr error
	var written *u.Files
	p, stack := ev.Recover(func() {
		path, err := c.PutFiles(filepath.Join(dir, "m"), base)
		if err != nil {
			panic(err)
		}
		cl, err := c.Client()
		if err != nil {
			panic(err)
		}
		res, uerr = guidedremediation.Update(options.UpdateOptions{Manifest: path, ResolveClient: cl, UpgradeConfig: c.UpgradeConfig()})
		if w, err := c.ReadFiles(filepath.Join(dir, "m")); err == nil {
			written = &w
		}
	})
	if p != nil {
		out.add(classifyPanic(stUpdate, p, stack), "Update panics: %v", p)
		out.logf("%s", stack)
		return
	}
	if uerr != nil {
		out.dc("update-error")
		out.logf("Update: %v", uerr)
		return
	}
	var applied []result.PackageUpdate
	for _, pt := range res.Patches {
		applied = append(applied, pt.PackageUpdates...)
	}
	if len(applied) > 0 {
		out.patches++
	}
	out.logf("Update proposes %v", applied)
	checkUpdates(stUpdate, c, dir, base, applied, written, "applied", out)
	if written != nil {
		noneRequirementsKept(stUpdate, c, dir, base, *written, out)
		unlistedMoves(stUpdate, c, dir, base, *written, applied, out)
	}
}

func runTuple(st string, c *u.Case, dir string) *tupleOut {
	out := &tupleOut{}
	if st == stUpdate {
		runUpdate(c, dir, out)
	} else {
		runFix(st, c, dir, out)
	}
	// one root cause for every level/direction finding on an artifact that is declared under two origins
	for i, f := range out.findings {
		for _, q := range c.Manifest {
			if declaredTwice(c, c.Full(q.Name)) && !strings.Contains(f.Key, ":panic") && !strings.Contains(f.Key, ":hang") {
				out.findings[i].Key = "maven:artifact-declared-under-two-origins"
			}
		}
	}
	return out
}

type replayData struct {
	Strategy string `json:"strategy"`
	Case     u.Case `json:"case"`
}

const watchdog = 120 * time.Second

var scratchRoot = "/dev/shm/verif-c11"

func main() {
	r := ev.Start("C11", "exploration", 6*time.Minute, 45*time.Minute)
	scratchRoot = fmt.Sprintf("%s-%d", scratchRoot, os.Getpid())
	debug.SetGCPercent(400) // allocation-heavy XML/JSON parsing; memory is not the constraint

	if f := os.Getenv("VERIF_REPLAY"); f != "" {
		code := replay(f)
		os.RemoveAll(scratchRoot)
		os.Exit(code)
	}

	b := u.BoundsFor(r.Thorough())
	var dirSeq atomic.Int64
	dirs := make(chan string, 64)
	newDir := func() string { return filepath.Join(scratchRoot, fmt.Sprintf("w%d", dirSeq.Add(1))) }
	getDir := func() string {
		select {
		case d := <-dirs:
			return d
		default:
			return newDir()
		}
	}
	putDir := func(d string) {
		select {
		case dirs <- d:
		default:
		}
	}

	dcTotals := map[string]*atomic.Int64{}
	for _, k := range []string{"writer-refused-patch", "patched-manifest-unresolvable", "writer-refused-partial-patch", "partial-manifest-unresolvable", "partial-manifest-unreadable", "patched-manifest-unreadable", "candidate:independent-patches-combined-downgrade", "base-version-undefined", "new-version-undefined", "version-outside-reference-order", "manifest-unreadable", "manifest-parse-error", "manifest-resolve-error", "compute-patches-error", "fixvulns-error", "update-error"} {
		dcTotals[k] = &atomic.Int64{}
	}
	perStrategy := map[string]map[string]int64{}
	var updatesChecked, multiChecked atomic.Int64
	exhaustive := true
	// development aid only: VERIF_DEBUG_STRIDE=k executes every k-th generated tuple (smoke test of the
	// thorough bounds); such a run is never reported as exhaustive.
	stride, genSeq := 0, 0
	if k, err := strconv.Atoi(os.Getenv("VERIF_DEBUG_STRIDE")); err == nil && k > 1 {
		stride = k
		r.Cap("VERIF_DEBUG_STRIDE=%d: only every %d-th tuple executed", k, k)
	}

	runAll := func(st string, gen func(emit func(*u.Case))) {
		var tuples, withPatch atomic.Int64
		const chunkSize = 1 << 16
		chunk := make([]u.Case, 0, chunkSize)
		base := 0
		flush := func() {
			if len(chunk) == 0 {
				return
			}
			if r.Expired() {
				exhaustive = false
				r.Cap("deadline: %s stopped after %d tuples", st, tuples.Load())
				base += len(chunk)
				chunk = chunk[:0]
				return
			}
			cur := chunk
			off := base
			done := r.ParallelFor(len(cur), func(i int) {
				c := &cur[i]
				dir := getDir()
				var out *tupleOut
				var out1 *tupleOut
				ok := u.Watchdog(watchdog, func() { out1 = runTuple(st, c, dir) })
				if ok {
					out = out1
				} else {
					// A stall of the whole process (machine overload) also trips a wall-clock watchdog: a hang is
					// only reported if a second, fresh attempt in a new scratch directory does not terminate either.
					// (out1 and dir stay with the abandoned goroutine.)
					dir2 := getDir()
					var out2 *tupleOut
					if ok = u.Watchdog(watchdog, func() { out2 = runTuple(st, c, dir2) }); ok {
						out, dir = out2, dir2
					}
				}
				r.Evals.Add(1)
				tuples.Add(1)
				if !ok {
					r.Violation(st+":hang", fmt.Sprintf("tuple #%d did not terminate within %v (twice)", off+i, watchdog), replayData{st, *c})
					return // the scratch dir stays with the abandoned goroutine
				}
				putDir(dir)
				updatesChecked.Add(int64(out.updates))
				multiChecked.Add(int64(out.multi))
				for k, n := range out.dontcare {
					if a, ok := dcTotals[k]; ok {
						a.Add(int64(n))
					}
				}
				if out.patches > 0 {
					withPatch.Add(1)
					r.Nontrivial.Add(1) // tuples are pairwise distinct by construction
					if off+i < 1<<20 && r.SampleN() < 6 && (withPatch.Load()%1500) == 1 {
						r.Sample(map[string]any{"strategy": st, "case": *c, "observed": out.log})
					}
				}
				for _, f := range out.findings {
					r.Violation(f.Key, fmt.Sprintf("[%s tuple #%d] %s", st, off+i, f.What), replayData{st, *c})
				}
			})
			if done < len(cur) {
				exhaustive = false
			}
			base += len(chunk)
			chunk = chunk[:0]
		}
		gen(func(c *u.Case) {
			if genSeq++; stride > 1 && genSeq%stride != 0 {
				return
			}
			chunk = append(chunk, *c)
			if len(chunk) == chunkSize {
				flush()
			}
		})
		flush()
		ps := perStrategy[st]
		if ps == nil {
			ps = map[string]int64{}
			perStrategy[st] = ps
		}
		ps["generated"] += int64(base)
		ps["executed"] += tuples.Load()
		ps["with_patch"] += withPatch.Load()
	}

	// simplest first across strategies: Update, then shape by shape override and relax
	runAll(stUpdate, func(emit func(*u.Case)) { b.GenUpdate(emit) })
	runAll(stUpdate, func(emit func(*u.Case)) { b.GenUpdateDup(emit) })
	// equal-ordered Maven spellings (1.0 = 1.0.0 = 1.0.0.0 = 1.0-ga = 1.0.Final) in the registry and the manifest
	runAll(stUpdate, func(emit func(*u.Case)) { b.GenCandidateShapes("equal-update", emit) })
	runAll(stOverride, func(emit func(*u.Case)) { b.GenCandidateShapes("equal-override", emit) })
	// one artifact declared twice: <dependencies> + <dependencyManagement>. The profile-based second declarations
	// (VERIF_C11_ORIGIN=profile|profile-management|profile-inactive|all) are a don't-care cell, see the header.
	only := os.Getenv("VERIF_C11_ORIGIN")
	if only == "" {
		only = u.OriginManagement
	} else {
		r.Cap("VERIF_C11_ORIGIN=%s: unsettled profile-based double declarations included, not a deciding run", only)
	}
	keep := func(emit func(*u.Case)) func(*u.Case) {
		return func(c *u.Case) {
			if only == "all" || (len(c.Manifest) > 1 && c.Manifest[1].Origin == only) {
				emit(c)
			}
		}
	}
	runAll(stUpdate, func(emit func(*u.Case)) { b.GenCandidateShapes("origins-update", keep(emit)) })
	for _, sh := range u.OriginShapes {
		runAll(stOverride, func(emit func(*u.Case)) { b.GenOriginShape(sh, keep(emit)) })
	}
	for i, sh := range u.FixShapes {
		runAll(stOverride, func(emit func(*u.Case)) { b.GenFixShape(u.Maven, sh, emit) })
		runAll(stRelax, func(emit func(*u.Case)) { b.GenFixShape(u.NPM, sh, emit) })
		if i == 0 {
			// after solo: the same shape over the ladder with interleaved pre-releases, and with npm aliases
			runAll(stOverride, func(emit func(*u.Case)) { b.GenPreShape(u.Maven, emit) })
			runAll(stRelax, func(emit func(*u.Case)) { b.GenPreShape(u.NPM, emit) })
			runAll(stRelax, func(emit func(*u.Case)) { b.GenAliasShape(emit) })
			// two candidate patches that overlap in the vulnerabilities they fix (bump d1, which moves t1 / change t1 alone)
			runAll(stOverride, func(emit func(*u.Case)) { b.GenOverlapShape(u.Maven, emit) })
			runAll(stRelax, func(emit func(*u.Case)) { b.GenOverlapShape(u.NPM, emit) })
			// Maven projects with a local parent pom sharing a property between two packages
			runAll(stOverride, func(emit func(*u.Case)) { b.GenParentShape(emit) })
			runAll(stUpdate, func(emit func(*u.Case)) { b.GenParentShape(emit) })
			// every construction route / spelling of the same upgrade configuration
			runAll(stUpdate, func(emit func(*u.Case)) { b.GenCfgRouteShape(u.Maven, "cfgroute-update", emit) })
			runAll(stOverride, func(emit func(*u.Case)) { b.GenCfgRouteShape(u.Maven, "cfgroute-solo", emit) })
			runAll(stRelax, func(emit func(*u.Case)) { b.GenCfgRouteShape(u.NPM, "cfgroute-solo", emit) })
			// mixed-case / separator-rich registry names, upgrade config built through both construction routes
			runAll(stUpdate, func(emit func(*u.Case)) { b.GenNameShape(u.Maven, "name-update", emit) })
			for _, nsh := range []string{"name-solo", "name-chain"} {
				runAll(stOverride, func(emit func(*u.Case)) { b.GenNameShape(u.Maven, nsh, emit) })
				runAll(stRelax, func(emit func(*u.Case)) { b.GenNameShape(u.NPM, nsh, emit) })
			}
		}
	}

	dc := map[string]int64{}
	for k, a := range dcTotals {
		if n := a.Load(); n > 0 {
			dc[k] = n
		}
	}
	r.Set("tuples_per_strategy", perStrategy)
	r.Set("package_updates_checked", updatesChecked.Load())
	r.Set("patches_with_2plus_updates_checked", multiChecked.Load())
	r.Set("dont_care_cells_hit", dc)
	r.Assume("the in-memory deps.dev LocalClient and the npm/Maven resolvers of deps.dev/util/resolve are the resolution semantics (the same ones the repository's own tests use)")
	r.Assume("vulnerability matching uses the repository's IsAffected (decided separately by C18)")
	rule := "For every tuple (universe, manifest, vulnerability set, upgrade config) of the bounded product below, for npm/relax and Maven/override (all candidate patches of ComputePatches and the patches FixVulns applies) and Maven/Update: every PackageUpdate u of a patch P has level(u.Name) != none; with v0 = version u.Name resolves to in manifest+(P-u) and v1 = in manifest+P (real writer, reader and resolver), v1 > v0 in the reference order and the most significant differing component of v0->v1 is allowed by the level (major: any, minor: minor/patch, patch: patch); direct requirements of `none` packages are textually unchanged in the written manifest and every direct requirement that is not a reported update still resolves, from the files on disk, to the same version or moved upward within its level; no tuple panics or runs longer than 120 s. " +
		"Bound (" + r.Tier + "): " + b.Describe() + "; shapes " + strings.Join(u.FixShapes, ", ") + " (FixVulns; sharedprop Maven only) plus alias-solo, alias-plain, alias-chain (GenAliasShape, npm: a direct dependency declared as \"<alias>\": \"npm:<real>@<req>\", alone / next to a plain requirement of the same package / constraining a vulnerable transitive package; levels keyed by the real name, alias-keyed entries as controls) overlap (GenOverlapShape: bumping d1 moves its transitive t1 from x to z while t1 can also be changed alone; vulnerabilities on d1 and on t1, one of them fixed only by the middle version y, so that independently computed patches overlap in what they fix) parent-req, parent-rev, parent-prop (GenParentShape, Maven: local parent pom parent.xml defining a property shared by the vulnerable d1 and another package d2, requirements split between parent and child) cfgroute-solo, cfgroute-update (GenCfgRouteShape: the same upgrade configuration built by Config.Set and by NewConfigFromStrings with the default spelled \"level\" or \":level\", per-package \"pkg:level\" / \"group:artifact:level\", default first or last) and name-solo, name-chain, name-update (GenNameShape: registry names from " + fmt.Sprint(u.NameAlphabet) + " instead of d1/t1, upgrade config built by Config.Set and by NewConfigFromStrings, keyed by the exact name) and prerelease (GenPreShape: solo over the ladder " + strings.Join(u.LadderPre, " ") + " with interleaved pre-releases) and equal-update, equal-override (Maven registry/manifest versions from the equal-ordered spellings " + strings.Join(u.EqualSpellings, " ") + "), origins-update and origin-direct, origin-transitive (one artifact declared in <dependencies> and in <dependencyManagement>, versions v,w over its published versions) and update-solo, update-pair, update-dup (Update; update-dup = one package required twice, jar a1 and tests/test-jar a2, a1,a2 over the ladder) as defined in verif/universe/gen.go, each the full product of its lists, enumerated simplest first."
	os.RemoveAll(scratchRoot)
	r.Finish(rule, exhaustive)
}

func replay(file string) int {
	b, err := os.ReadFile(file)
	if err != nil {
		fmt.Fprintln(os.Stderr, err)
		return 3
	}
	var rec struct {
		Key    string     `json:"key"`
		What   string     `json:"what"`
		Replay replayData `json:"replay"`
	}
	if err := json.Unmarshal(b, &rec); err != nil {
		fmt.Fprintln(os.Stderr, err)
		return 3
	}
	c := &rec.Replay.Case
	fmt.Printf("replaying %s tuple (recorded key %s)\nregistry:\n%s\nmanifest:\n%s\nvulns: %+v\ncfg: %v\n", rec.Replay.Strategy, rec.Key, c.SchemaText(), string(c.ManifestBytes())+string(c.ParentBytes()), c.Vulns, c.Cfg)
	var out *tupleOut
	if !u.Watchdog(watchdog, func() { out = runTuple(rec.Replay.Strategy, c, filepath.Join(scratchRoot, "replay")) }) {
		fmt.Println("HANG: tuple did not terminate within", watchdog)
		return 1
	}
	for _, l := range out.log {
		fmt.Println("  ", l)
	}
	for k, n := range out.dontcare {
		fmt.Printf("   don't-care cell %s x%d\n", k, n)
	}
	if len(out.findings) == 0 {
		fmt.Println("replay: property holds on this tuple")
		return 0
	}
	for _, f := range out.findings {
		fmt.Printf("VIOLATION key=%s: %s\n", f.Key, f.What)
	}
	return 1
}
