package main

import (
	"context"
	"encoding/json"
	"fmt"
	"os"
	"time"

	"github.com/google/osv-scalibr/guidedremediation"
	"github.com/google/osv-scalibr/guidedremediation/options"
	u "verif/universe"
)

func show(v any) { b, _ := json.Marshal(v); fmt.Println(string(b)) }

func main() {
	dir := "/dev/shm/c11-spike"
	defer os.RemoveAll(dir)
	for _, eco := range []string{u.NPM, u.Maven} {
		c := &u.Case{Eco: eco,
			Pkgs: []u.Pkg{
				{Name: "d1", Vers: []u.Ver{{V: "1.0.0", Deps: []u.Dep{{Name: "t1", Req: "1.0.0"}}}, {V: "1.1.0", Deps: []u.Dep{{Name: "t1", Req: "1.0.1"}}}, {V: "2.0.0", Deps: []u.Dep{{Name: "t1", Req: "2.0.0"}}}}},
				{Name: "t1", Vers: []u.Ver{{V: "1.0.0"}, {V: "1.0.1"}, {V: "2.0.0"}}},
			},
			Manifest: []u.Req{{Name: "d1", Req: "1.0.0"}},
			Vulns:    []u.Vuln{{ID: "V1", Pkg: "t1", Introduced: "0", Fixed: "1.0.1"}},
			Cfg:      []string{"major"},
		}
		fmt.Print(c.SchemaText())
		t0 := time.Now()
		var n int
		for i := 0; i < 200; i++ {
			p, err := c.PutManifest(dir, c.ManifestBytes())
			if err != nil {
				panic(err)
			}
			o, err := c.FixOptions(p, 0)
			if err != nil {
				panic(err)
			}
			res, err := guidedremediation.FixVulns(o)
			if err != nil {
				panic(err)
			}
			n += len(res.Patches)
			if i == 0 {
				show(res)
				b, _ := os.ReadFile(p)
				fmt.Println(string(b))
				rw, _ := c.ReadWriter()
				m, err := guidedremediation.VerifParseManifest(p, rw)
				if err != nil {
					panic(err)
				}
				show(u.Requirements(m))
				cl, _ := c.Client()
				ro := c.RemediationOptions()
				p2, _ := c.PutManifest(dir+"/b", c.ManifestBytes())
				m2, _ := guidedremediation.VerifParseManifest(p2, rw)
				rm, err := guidedremediation.VerifResolveManifest(context.Background(), cl, c.NewMatcher(), m2, &ro)
				if err != nil {
					panic(err)
				}
				var ps any
				if eco == u.Maven {
					ps, err = guidedremediation.VerifOverrideComputePatches(context.Background(), cl, c.NewMatcher(), rm, &ro)
				} else {
					ps, err = guidedremediation.VerifRelaxComputePatches(context.Background(), cl, c.NewMatcher(), rm, &ro)
				}
				show(ps)
				fmt.Println(err)
				r, err := c.ResolveBytes(dir+"/c", b)
				fmt.Println(err)
				fmt.Println(u.VersionOf(r.Graph, u.FullName(eco, "t1")))
				fmt.Println(u.VersionOf(r.Graph, u.FullName(eco, "d1")))
			}
		}
		fmt.Println("per FixVulns:", time.Since(t0)/200, n)
	}
	// Update
	c := &u.Case{Eco: u.Maven,
		Pkgs:     []u.Pkg{{Name: "d1", Vers: []u.Ver{{V: "1.0.0"}, {V: "1.1.0"}, {V: "2.0.0"}}}},
		Manifest: []u.Req{{Name: "d1", Req: "2.0.1"}},
		Cfg:      []string{"patch"},
	}
	p, _ := c.PutManifest(dir, c.ManifestBytes())
	cl, _ := c.Client()
	res, err := guidedremediation.Update(options.UpdateOptions{Manifest: p, ResolveClient: cl, UpgradeConfig: c.UpgradeConfig()})
	show(res)
	fmt.Println(err)
	b, _ := os.ReadFile(p)
	fmt.Println(string(b))
}
