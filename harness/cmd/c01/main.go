// C01 — every required file is extracted exactly once, and nothing else is.
//
// Bounded-exhaustive exploration: every tree with <= N nodes over a small labelled
// alphabet x every scan-option vector with <= D deviations from the defaults x a
// fixed list of extractor sets, run through the real scalibr.Scanner.Scan over an
// in-memory file system, and compared with an independent reference dispatch model.
//
// Don't-care cells (the model accepts every behaviour):
//   - symlinks (ReadSymlinks on) whose target is not a regular file (dangling, or a
//     directory): the extractor may or may not be invoked;
//   - IgnoreSubDirs without PathsToExtract (not generated);
//   - explicitly requested paths that the whole-tree scan would not reach (inside a
//     skipped / git-ignored directory, or themselves excluded) (not generated);
//   - gitignore negation patterns (not in the alphabet).
package main

import (
	"context"
	"encoding/json"
	"fmt"
	"github.com/google/osv-scalibr/detector"
	fslist "github.com/google/osv-scalibr/extractor/filesystem/list"
	"github.com/google/osv-scalibr/packageindex"
	"os"
	"path"
	"reflect"
	"regexp"
	"sort"
	"strconv"
	"strings"
	"time"

	"github.com/gobwas/glob"
	scalibr "github.com/google/osv-scalibr"
	"github.com/google/osv-scalibr/extractor/filesystem"
	scalibrfs "github.com/google/osv-scalibr/fs"
	"github.com/google/osv-scalibr/plugin"
	"verif/ev"
	"verif/memfs"
	"verif/scankit"
)

// ---------- tree alphabet ----------

type label struct {
	name string
	kind memfs.Kind
	data string
	perm uint32
	tgt  string // symlink target kind: "file", "dir", "dangling"
}

// the first four bodies are in the quick tier: plain name, rooted, directory-only, and a wildcard
// followed by a negation of one of its matches (the last matching line of a file decides)
// (the rooted pattern is written with CRLF line ends: git strips the CR, so must the scanner)
// (a leading space is part of a pattern: " -x" and " #c" name files that start with a space, they neither
// ignore "-x" nor are they comments)
var gitBodies = []string{"b.txt\n", "/a\r\n", "a/\n -x\n #c\n", "*.txt\n!b.txt\n", "*.txt\n", "# c\n\nb.txt", "/a\n", "*.txt\r\n!b.txt\r\n"}

func labels(thorough bool) []label {
	ls := []label{
		{name: "a", kind: memfs.Dir},
		{name: "a", kind: memfs.File, data: "x"},
		{name: "a.d", kind: memfs.Dir}, // "a" is a string prefix of "a.d": separator-unaware prefix matching would confuse them
		{name: "b.txt", kind: memfs.File, data: "x"},
		{name: "b.txt", kind: memfs.File, data: "xxxxx"},
		{name: "b.txt", kind: memfs.Dir},
		{name: "d e", kind: memfs.Dir},
		{name: "-x", kind: memfs.File, data: "xxxxx", perm: 0o755},
		{name: "-x", kind: memfs.Special},
		{name: "-x", kind: memfs.Symlink, tgt: "file"},
		{name: "-x", kind: memfs.Symlink, tgt: "dangling"},
		{name: "pkg.json", kind: memfs.File, data: "x"},
	}
	for i, b := range gitBodies {
		if !thorough && i >= 4 {
			// quick keeps the four structurally different bodies
			continue
		}
		ls = append(ls, label{name: ".gitignore", kind: memfs.File, data: b})
	}
	if thorough {
		ls = append(ls,
			label{name: "b.txt", kind: memfs.File, data: ""},
			label{name: "d e", kind: memfs.File, data: "x"},
			label{name: "-x", kind: memfs.Symlink, tgt: "dir"},
		)
	}
	return ls
}

// genTrees enumerates every tree with exactly n non-root nodes: children of a
// directory are a set of labels with distinct names, listed in label order.
func genTrees(ls []label, n int) []*memfs.Node {
	// forests(k, from): all lists of sibling sub-trees using k nodes in total, labels with index >= from, distinct names
	type key struct{ k, from int }
	memo := map[key][][]*memfs.Node{}
	var forests func(k, from int) [][]*memfs.Node
	forests = func(k, from int) [][]*memfs.Node {
		if k == 0 {
			return [][]*memfs.Node{nil}
		}
		if v, ok := memo[key{k, from}]; ok {
			return v
		}
		var out [][]*memfs.Node
		for i := from; i < len(ls); i++ {
			l := ls[i]
			// next sibling must have a different name: skip labels with the same name
			next := i + 1
			for next < len(ls) && ls[next].name == l.name {
				next++
			}
			// labels are grouped by name? ensure by construction below (sorted by name)
			maxSub := 0
			if l.kind == memfs.Dir {
				maxSub = k - 1
			}
			for sub := 0; sub <= maxSub; sub++ {
				for _, children := range forests(sub, 0) {
					for _, rest := range forests(k-1-sub, next) {
						nd := &memfs.Node{Name: l.name, Kind: l.kind, Data: l.data, Perm: osPerm(l.perm), Target: l.tgt}
						nd.Children = children
						out = append(out, append([]*memfs.Node{nd}, rest...))
					}
				}
			}
		}
		memo[key{k, from}] = out
		return out
	}
	var trees []*memfs.Node
	for _, f := range forests(n, 0) {
		root := &memfs.Node{Name: "", Kind: memfs.Dir, Children: f}
		trees = append(trees, root.Clone())
	}
	return trees
}

// fixSymlinks turns the symbolic target kinds into real targets inside the tree;
// returns false when the tree cannot provide such a target.
func fixSymlinks(root *memfs.Node) bool {
	var files, dirs []string
	memfs.Walk(root, func(p string, n *memfs.Node) {
		switch n.Kind {
		case memfs.File:
			files = append(files, p)
		case memfs.Dir:
			dirs = append(dirs, p)
		}
	})
	ok := true
	memfs.Walk(root, func(p string, n *memfs.Node) {
		if n.Kind != memfs.Symlink {
			return
		}
		switch n.Target {
		case "file":
			if len(files) == 0 {
				ok = false
				return
			}
			n.Target = "/" + files[0]
		case "dir":
			if len(dirs) == 0 {
				ok = false
				return
			}
			n.Target = "/" + dirs[0]
		case "dangling":
			n.Target = "/nowhere"
		}
	})
	return ok
}

// ---------- options ----------

type opts struct {
	Skip     []string `json:"skip,omitempty"`
	Regex    string   `json:"regex,omitempty"`
	Glob     string   `json:"glob,omitempty"`
	Git      bool     `json:"gitignore,omitempty"`
	Paths    []string `json:"paths,omitempty"`
	NoSub    bool     `json:"ignore_sub_dirs,omitempty"`
	MaxSize  int      `json:"max_file_size,omitempty"`
	Symlinks bool     `json:"read_symlinks,omitempty"`
	AbsPath  bool     `json:"store_absolute_path,omitempty"`
	NoRDF    bool     `json:"no_readdirfile,omitempty"`
	RealRoot bool     `json:"real_path_root,omitempty"` // the scan root has a host path (/r); skip list and requested paths are given as absolute paths
}

func (o opts) active() string {
	var a []string
	if len(o.Skip) > 0 {
		a = append(a, "skip")
	}
	if o.Regex != "" {
		a = append(a, "regex")
	}
	if o.Glob != "" {
		a = append(a, "glob")
	}
	if o.Git {
		a = append(a, "gitignore")
	}
	if len(o.Paths) > 0 {
		a = append(a, "paths")
	}
	if o.NoSub {
		a = append(a, "nosub")
	}
	if o.MaxSize > 0 {
		a = append(a, "maxsize")
	}
	if o.Symlinks {
		a = append(a, "symlinks")
	}
	if o.AbsPath {
		a = append(a, "abspath")
	}
	if o.NoRDF {
		a = append(a, "noreaddirfile")
	}
	if o.RealRoot {
		a = append(a, "realroot")
	}
	return strings.Join(a, "+")
}

// a deviation sets one option dimension to a non-default value
type deviation struct {
	dim   string
	apply func(o *opts)
}

func deviationsFor(root *memfs.Node) []deviation {
	var dirs, files []string
	memfs.Walk(root, func(p string, n *memfs.Node) {
		if n.Kind == memfs.Dir {
			dirs = append(dirs, p)
		} else if n.Kind == memfs.File {
			files = append(files, p)
		}
	})
	nodes := 0
	memfs.Walk(root, func(string, *memfs.Node) { nodes++ })
	small := nodes <= 3
	var ds []deviation
	for _, d := range dirs {
		d := d
		ds = append(ds, deviation{"skip", func(o *opts) { o.Skip = []string{d} }})
	}
	for _, re := range []string{"^a$", "b"} {
		re := re
		ds = append(ds, deviation{"regex", func(o *opts) { o.Regex = re }})
	}
	for _, g := range []string{"a", "*/a", "d*"} {
		g := g
		ds = append(ds, deviation{"glob", func(o *opts) { o.Glob = g }})
	}
	ds = append(ds, deviation{"git", func(o *opts) { o.Git = true }})
	for _, d := range dirs {
		d := d
		ds = append(ds, deviation{"paths", func(o *opts) { o.Paths = []string{d} }})
		ds = append(ds, deviation{"paths", func(o *opts) { o.Paths = []string{d}; o.NoSub = true }})
		for _, f := range files {
			f := f
			inside := strings.HasPrefix(f, d+"/")
			// a directory followed by a file inside it; for small trees also a file anywhere else,
			// the reverse order, and two unrelated directories
			if inside || small {
				ds = append(ds, deviation{"paths", func(o *opts) { o.Paths = []string{d, f} }})
			}
			if !inside && small {
				ds = append(ds, deviation{"paths", func(o *opts) { o.Paths = []string{f, d} }})
			}
		}
		for _, d2 := range dirs {
			d2 := d2
			if small && d2 != d && !strings.HasPrefix(d2, d+"/") && !strings.HasPrefix(d, d2+"/") {
				ds = append(ds, deviation{"paths", func(o *opts) { o.Paths = []string{d, d2} }})
			}
		}
	}
	for _, f := range files {
		f := f
		ds = append(ds, deviation{"paths", func(o *opts) { o.Paths = []string{f} }})
	}
	ds = append(ds, deviation{"paths", func(o *opts) { o.Paths = []string{"."} }})
	ds = append(ds, deviation{"paths", func(o *opts) { o.Paths = []string{"."}; o.NoSub = true }})
	for _, s := range []int{1, 5} {
		s := s
		ds = append(ds, deviation{"maxsize", func(o *opts) { o.MaxSize = s }})
	}
	ds = append(ds, deviation{"symlinks", func(o *opts) { o.Symlinks = true }})
	ds = append(ds, deviation{"abspath", func(o *opts) { o.AbsPath = true }})
	ds = append(ds, deviation{"nordf", func(o *opts) { o.NoRDF = true }})
	ds = append(ds, deviation{"realroot", func(o *opts) { o.RealRoot = true }})
	return ds
}

// optionVectors: all vectors with <= maxDev deviations in distinct dimensions.
func optionVectors(root *memfs.Node, maxDev int) []opts {
	ds := deviationsFor(root)
	var out []opts
	var rec func(start int, cur opts, used map[string]bool, left int)
	rec = func(start int, cur opts, used map[string]bool, left int) {
		out = append(out, cur)
		if left == 0 {
			return
		}
		for i := start; i < len(ds); i++ {
			if used[ds[i].dim] {
				continue
			}
			n := cur
			ds[i].apply(&n)
			used[ds[i].dim] = true
			rec(i+1, n, used, left-1)
			used[ds[i].dim] = false
		}
	}
	rec(0, opts{}, map[string]bool{}, maxDev)
	return out
}

// ---------- extractor sets ----------

type exSpec struct {
	name string
	req  string // "base", "always", "never", "exec"
}

var exSets = [][]exSpec{
	{{"e-base", "base"}},
	{{"e-base", "base"}, {"e-always", "always"}},
	{{"e-exec", "exec"}, {"e-base", "base"}},
	{{"e-never", "never"}, {"e-always", "always"}},
}

func reqFn(kind string) func(filesystem.FileAPI) bool {
	switch kind {
	case "base":
		return scankit.ReqBase("b.txt", "pkg.json", "-x")
	case "always":
		return scankit.ReqAlways
	case "exec":
		return scankit.ReqExec
	}
	return scankit.ReqNever
}

// ---------- reference model ----------

type gitRule struct {
	base    string // directory holding the .gitignore ("." for the root)
	pat     string
	dirOnly bool
	rooted  bool
	neg     bool // "!pattern": re-includes what an earlier line of the same file excluded
}

// gitVerdict applies the rules to one path. Within one .gitignore file the LAST matching line
// decides (git's rule, and the reason negations exist). When one file excludes the path and a
// deeper file's negation re-includes it, git would include it; whether the scanner honours a
// negation across files is not fixed by the property text: such cells are don't-cares.
func gitVerdict(rules []gitRule, p string, isDir bool) (ignored, dontcare bool) {
	perFile := map[string]int{} // base -> 0 none, 1 ignore, 2 include
	var order []string
	for _, r := range rules {
		if _, ok := perFile[r.base]; !ok {
			order = append(order, r.base)
			perFile[r.base] = 0
		}
		if r.matches(p, isDir) {
			if r.neg {
				perFile[r.base] = 2
			} else {
				perFile[r.base] = 1
			}
		}
	}
	ign, inc := false, false
	for _, b := range order {
		switch perFile[b] {
		case 1:
			ign = true
		case 2:
			inc = true
		}
	}
	return ign, ign && inc
}

func parseGit(base, body string) []gitRule {
	var rs []gitRule
	for _, l := range strings.Split(body, "\n") {
		l = strings.TrimSuffix(l, "\r")
		if strings.HasPrefix(l, "#") || strings.TrimSpace(l) == "" {
			continue
		}
		r := gitRule{base: base, pat: l}
		if strings.HasPrefix(r.pat, "!") {
			r.neg = true
			r.pat = strings.TrimPrefix(r.pat, "!")
		}
		if strings.HasSuffix(r.pat, "/") {
			r.dirOnly = true
			r.pat = strings.TrimSuffix(r.pat, "/")
		}
		if strings.HasPrefix(r.pat, "/") {
			r.rooted = true
			r.pat = strings.TrimPrefix(r.pat, "/")
		}
		rs = append(rs, r)
	}
	return rs
}

// matches: git semantics for the small pattern alphabet (no slash in the middle).
func (g gitRule) matches(p string, isDir bool) bool {
	if g.dirOnly && !isDir {
		return false
	}
	rel := p
	if g.base != "." {
		if !strings.HasPrefix(p, g.base+"/") {
			return false
		}
		rel = strings.TrimPrefix(p, g.base+"/")
	}
	if g.rooted {
		ok, _ := path.Match(g.pat, rel)
		return ok
	}
	ok, _ := path.Match(g.pat, path.Base(rel))
	return ok
}

type model struct {
	root  *memfs.Node
	o     opts
	exs   []exSpec
	re    *regexp.Regexp
	gl    glob.Glob
	calls []string // "ex|path" in model order
	// dc marks (ex|path) pairs whose invocation count is a don't-care
	dc map[string]bool
}

func (m *model) node(p string) *memfs.Node {
	if p == "." {
		return m.root
	}
	cur := m.root
	for _, part := range strings.Split(p, "/") {
		var nx *memfs.Node
		for _, c := range cur.Children {
			if c.Name == part {
				nx = c
			}
		}
		if nx == nil {
			return nil
		}
		cur = nx
	}
	return cur
}

func (m *model) gitFor(dir string) []gitRule {
	n := m.node(dir)
	if n == nil {
		return nil
	}
	for _, c := range n.Children {
		if c.Name == ".gitignore" && c.Kind == memfs.File {
			return parseGit(dir, c.Data)
		}
	}
	return nil
}

func (m *model) skipDir(p string, rules []gitRule) bool {
	for _, s := range m.o.Skip {
		if s == p {
			return true
		}
	}
	if m.o.NoSub {
		in := false
		for _, q := range m.o.Paths {
			if q == p {
				in = true
			}
		}
		if !in {
			return true
		}
	}
	if m.o.Git {
		if ign, dc := gitVerdict(rules, p, true); dc {
			m.markSubtreeDC(p)
			return true
		} else if ign {
			return true
		}
	}
	if m.re != nil && m.re.MatchString(p) {
		return true
	}
	if m.gl != nil && m.gl.Match(p) {
		return true
	}
	return false
}

// markSubtreeDC makes every (extractor, file below p) pair a don't-care.
func (m *model) markSubtreeDC(p string) {
	var walk func(q string, n *memfs.Node)
	walk = func(q string, n *memfs.Node) {
		for _, c := range n.Children {
			cq := join(q, c.Name)
			if c.Kind == memfs.Dir {
				walk(cq, c)
				continue
			}
			for _, e := range m.exs {
				m.dc[e.name+"|"+cq] = true
			}
		}
	}
	if n := m.node(p); n != nil {
		walk(p, n)
	}
}

func join(d, n string) string {
	if d == "." {
		return n
	}
	return d + "/" + n
}

func (m *model) walkDir(p string, rules []gitRule) {
	if m.skipDir(p, rules) {
		return
	}
	if m.o.Git {
		rules = append(append([]gitRule{}, rules...), m.gitFor(p)...)
	}
	for _, c := range m.node(p).Children {
		q := join(p, c.Name)
		if c.Kind == memfs.Dir {
			m.walkDir(q, rules)
		} else {
			m.file(q, c, rules)
		}
	}
}

// resolveTarget returns the node a symlink finally points to (nil if dangling).
func (m *model) resolveTarget(n *memfs.Node) *memfs.Node {
	for i := 0; n != nil && n.Kind == memfs.Symlink && i < 10; i++ {
		n = m.node(strings.TrimPrefix(n.Target, "/"))
	}
	return n
}

func (m *model) file(p string, n *memfs.Node, rules []gitRule) {
	dontcare := false
	eff := n
	switch n.Kind {
	case memfs.File:
	case memfs.Symlink:
		if !m.o.Symlinks {
			return
		}
		eff = m.resolveTarget(n)
		if eff == nil || eff.Kind != memfs.File {
			dontcare = true
		}
	default:
		return
	}
	if m.o.Git {
		if ign, dc := gitVerdict(rules, p, false); dc {
			for _, e := range m.exs {
				m.dc[e.name+"|"+p] = true
			}
			return
		} else if ign {
			return
		}
	}
	for _, e := range m.exs {
		req := false
		switch e.req {
		case "always":
			req = true
		case "base":
			b := path.Base(p)
			req = b == "b.txt" || b == "pkg.json" || b == "-x"
		case "exec":
			req = eff != nil && eff.Kind == memfs.File && eff.Perm&0o111 != 0
		}
		if !req {
			continue
		}
		if dontcare {
			m.dc[e.name+"|"+p] = true
			// a dangling / directory symlink also makes the size check a don't-care for this file
			continue
		}
		if m.o.MaxSize > 0 && len(eff.Data) > m.o.MaxSize {
			return
		}
		m.calls = append(m.calls, e.name+"|"+p)
	}
}

func (m *model) run() {
	if len(m.o.Paths) == 0 {
		m.walkDir(".", nil)
		return
	}
	for _, p := range m.o.Paths {
		n := m.node(p)
		if n == nil {
			continue
		}
		if n.Kind == memfs.Dir {
			var rules []gitRule
			if m.o.Git && p != "." {
				// gitignore files of every ancestor directory, root included
				comps := strings.Split(p, "/")
				rules = append(rules, m.gitFor(".")...)
				for i := 1; i < len(comps); i++ {
					rules = append(rules, m.gitFor(strings.Join(comps[:i], "/"))...)
				}
			}
			m.walkDir(p, rules)
		} else {
			m.file(p, n, nil)
		}
	}
}

// reaches reports whether the default whole-tree scan (same skip options, no
// requested paths) visits path p (a directory it descends into, or a file it offers).
func reachedByWholeTree(root *memfs.Node, o opts, re *regexp.Regexp, gl glob.Glob) map[string]bool {
	o2 := o
	o2.Paths, o2.NoSub = nil, false
	reached := map[string]bool{".": true}
	m := &model{root: root, o: o2, re: re, gl: gl, dc: map[string]bool{}, exs: []exSpec{{"probe", "always"}}}
	var walk func(p string, rules []gitRule)
	walk = func(p string, rules []gitRule) {
		if m.skipDir(p, rules) {
			return
		}
		reached[p] = true
		if o2.Git {
			rules = append(append([]gitRule{}, rules...), m.gitFor(p)...)
		}
		for _, c := range m.node(p).Children {
			q := join(p, c.Name)
			if c.Kind == memfs.Dir {
				walk(q, rules)
				continue
			}
			ign := false
			if o2.Git {
				ign, _ = gitVerdict(rules, q, false)
			}
			if !ign {
				reached[q] = true
			}
		}
	}
	walk(".", nil)
	return reached
}

// ---------- one case ----------

type caseT struct {
	Tree string   `json:"tree"`
	Opts opts     `json:"options"`
	Exs  []exSpec `json:"-"`
	ExS  string   `json:"extractors"`
	root *memfs.Node
	// again: scan a second time with the very same ScanConfig, extractor instances and file system
	// object; the second scan must do what the first one did (no state carried between scans)
	again bool
}

type outcome struct {
	calls    []string
	pkgs     []string
	statuses []string
	status   string
	absBase  string // host path of the scan root without a trailing separator ("/r", or "" for the root /)
}

func runImpl(c *caseT) (outcome, any) {
	var out outcome
	rec := &scankit.Rec{}
	var exs []filesystem.Extractor
	for _, e := range c.Exs {
		x := &scankit.Ex{N: e.name, Rec: rec, Req: reqFn(e.req), EmitFinding: true}
		if len(exs) == 0 {
			// the first extractor hands over packages that already name another extractor: the
			// result must still attribute them to the extractor that produced them
			x.Preset = &scankit.Ex{N: "stale-attribution"}
		}
		if len(exs) == 1 {
			// the second extractor of a set returns findings only (no package): what it returns is
			// inventory all the same
			x.OnlyFinding = true
		}
		exs = append(exs, x)
	}
	m := memfs.New(c.root)
	m.NoReadDirFile = c.Opts.NoRDF
	rootPath := ""
	abs := func(ps []string) []string { return ps }
	scanRootPath := ""
	if c.Opts.RealRoot {
		rootPath = "/r"
		// the root itself is spelled in turn clean and in four unclean but equivalent ways (the
		// requested and skipped paths stay clean): the scan must not depend on the spelling
		spell := []string{"/r", "/r/", "/r/.", "/r/x/..", "//r", "/"}
		h := 0
		for _, ch := range c.Tree + c.Opts.active() + strings.Join(c.Opts.Paths, ",") + strings.Join(c.Opts.Skip, ",") {
			h = (h*31 + int(ch)) % 1000003
		}
		scanRootPath = spell[h%len(spell)]
		if scanRootPath == "/" {
			// the file-system root itself as scan root: requested and skipped paths are /<path>
			rootPath = ""
		}
		out.absBase = rootPath
		abs = func(ps []string) []string {
			var out []string
			for _, p := range ps {
				if p == "." {
					if rootPath == "" {
						out = append(out, "/")
						continue
					}
					out = append(out, rootPath)
				} else {
					out = append(out, rootPath+"/"+p)
				}
			}
			return out
		}
	}
	cfg := &scalibr.ScanConfig{
		FilesystemExtractors: exs,
		Capabilities:         &plugin.Capabilities{},
		ScanRoots:            []*scalibrfs.ScanRoot{{FS: m, Path: scanRootPath}},
		PathsToExtract:       abs(c.Opts.Paths),
		IgnoreSubDirs:        c.Opts.NoSub,
		DirsToSkip:           abs(c.Opts.Skip),
		MaxFileSize:          c.Opts.MaxSize,
		UseGitignore:         c.Opts.Git,
		ReadSymlinks:         c.Opts.Symlinks,
		StoreAbsolutePath:    c.Opts.AbsPath,
		Stats:                &scankit.Collector{Rec: rec},
	}
	if c.Opts.Regex != "" {
		cfg.SkipDirRegex = regexp.MustCompile(c.Opts.Regex)
	}
	if c.Opts.Glob != "" {
		cfg.SkipDirGlob = glob.MustCompile(c.Opts.Glob)
	}
	var res *scalibr.ScanResult
	p, stack := ev.Recover(func() { res = scalibr.New().Scan(context.Background(), cfg) })
	if p != nil {
		return out, fmt.Sprintf("panic: %v at %s", p, ev.PanicSite(stack))
	}
	for _, e := range rec.Of("extract") {
		out.calls = append(out.calls, e.Ex+"|"+e.Path)
	}
	for _, pk := range res.Inventory.Packages {
		en := "<nil>"
		if pk.Extractor != nil {
			en = pk.Extractor.Name()
		}
		out.pkgs = append(out.pkgs, en+"::"+pk.Name+"@"+strings.Join(pk.Locations, ","))
	}
	for _, s := range res.PluginStatus {
		out.statuses = append(out.statuses, s.Name+"="+s.Status.String())
	}
	out.status = res.Status.String()
	// everything an invocation returns is inventory: the finding each Extract call emits next to its
	// package must be in the result exactly once per call
	gotF := map[string]int{}
	for _, f := range res.Inventory.Findings {
		if f.Adv != nil && f.Adv.ID != nil {
			gotF[f.Adv.ID.Reference+"|"+f.Extra]++
		}
	}
	wantF := multiset(out.calls)
	if !reflect.DeepEqual(gotF, wantF) && !(len(gotF) == 0 && len(wantF) == 0) {
		return out, fmt.Sprintf("findings returned by the Extract calls %v, findings in the result %v", wantF, gotF)
	}
	nAfter := len(rec.Of("after-extract"))
	if nAfter != len(out.calls) {
		return out, fmt.Sprintf("AfterExtractorRun called %d times for %d Extract calls", nAfter, len(out.calls))
	}
	if c.again {
		rec.Events = nil
		var res2 *scalibr.ScanResult
		p, stack := ev.Recover(func() { res2 = scalibr.New().Scan(context.Background(), cfg) })
		if p != nil {
			return out, fmt.Sprintf("second scan with the same configuration: panic: %v at %s", p, ev.PanicSite(stack))
		}
		var calls2, pkgs2 []string
		for _, e := range rec.Of("extract") {
			calls2 = append(calls2, e.Ex+"|"+e.Path)
		}
		for _, pk := range res2.Inventory.Packages {
			pkgs2 = append(pkgs2, pk.Name+"@"+strings.Join(pk.Locations, ","))
		}
		var pkgs1 []string
		for _, pk := range res.Inventory.Packages {
			pkgs1 = append(pkgs1, pk.Name+"@"+strings.Join(pk.Locations, ","))
		}
		if strings.Join(calls2, ";") != strings.Join(out.calls, ";") || strings.Join(pkgs1, ";") != strings.Join(pkgs2, ";") || res2.Status.String() != out.status {
			return out, fmt.Sprintf("second scan with the same configuration differs: first extracted %v (%s), second %v (%s)", out.calls, out.status, calls2, res2.Status)
		}
	}
	return out, nil
}

func multiset(xs []string) map[string]int {
	m := map[string]int{}
	for _, x := range xs {
		m[x]++
	}
	return m
}

// check compares implementation and model; returns "" or (kind, detail).
func check(c *caseT) (kind, detail string, nontrivial bool) {
	var re *regexp.Regexp
	var gl glob.Glob
	if c.Opts.Regex != "" {
		re = regexp.MustCompile(c.Opts.Regex)
	}
	if c.Opts.Glob != "" {
		gl = glob.MustCompile(c.Opts.Glob)
	}
	m := &model{root: c.root, o: c.Opts, exs: c.Exs, re: re, gl: gl, dc: map[string]bool{}}
	m.run()
	out, harnessErr := runImpl(c)
	if harnessErr != nil {
		if strings.HasPrefix(fmt.Sprint(harnessErr), "findings returned") {
			return "extractor-findings-not-in-result", fmt.Sprint(harnessErr), false
		}
		if strings.HasPrefix(fmt.Sprint(harnessErr), "second scan") {
			return "second-scan-with-same-configuration-differs", fmt.Sprint(harnessErr), false
		}
		return "panic-or-stats", fmt.Sprint(harnessErr), false
	}
	want := multiset(m.calls)
	got := multiset(out.calls)
	var missing, extra, dup []string
	for k, n := range want {
		if m.dc[k] {
			continue
		}
		if got[k] < n {
			missing = append(missing, k)
		} else if got[k] > n {
			dup = append(dup, k)
		}
	}
	for k := range got {
		if m.dc[k] {
			continue
		}
		if want[k] == 0 {
			extra = append(extra, k)
		}
	}
	sort.Strings(missing)
	sort.Strings(extra)
	sort.Strings(dup)
	nontrivial = len(m.calls) > 0 && c.Opts.active() != ""
	if strings.HasPrefix(out.status, "FAILED") {
		return "scan-failed", out.status, nontrivial
	}
	if len(missing)+len(extra)+len(dup) > 0 {
		k := ""
		if len(missing) > 0 {
			k += "missing"
		}
		if len(extra) > 0 {
			k += "extra"
		}
		if len(dup) > 0 {
			k += "dup"
		}
		return k, fmt.Sprintf("missing=%v extra=%v duplicated=%v (model %v, impl %v)", missing, extra, dup, m.calls, out.calls), nontrivial
	}
	// inventory = union of what the invocations returned, attributed to the producer
	var wantPk []string
	for _, cl := range out.calls {
		ex, p, _ := strings.Cut(cl, "|")
		if len(c.Exs) > 1 && ex == c.Exs[1].name {
			continue // findings only
		}
		loc := p
		if c.Opts.RealRoot && c.Opts.AbsPath {
			loc = out.absBase + "/" + p
		}
		wantPk = append(wantPk, ex+"::"+ex+"|"+p+"@"+loc)
	}
	gp, wp := multiset(out.pkgs), multiset(wantPk)
	if len(gp) != len(wp) {
		return "inventory", fmt.Sprintf("packages %v, want %v", out.pkgs, wantPk), nontrivial
	}
	for k, n := range wp {
		if gp[k] != n {
			return "inventory", fmt.Sprintf("packages %v, want %v", out.pkgs, wantPk), nontrivial
		}
	}
	// one status per extractor, all succeeded (no faults are injected here)
	if len(out.statuses) != len(c.Exs) {
		return "plugin-status-count", fmt.Sprintf("statuses %v for %d extractors", out.statuses, len(c.Exs)), nontrivial
	}
	return "", "", nontrivial
}

func osPerm(p uint32) os.FileMode { return os.FileMode(p) }

func exStr(es []exSpec) string {
	var s []string
	for _, e := range es {
		s = append(s, e.name)
	}
	return strings.Join(s, ",")
}

// validOptions filters out the don't-care option vectors.
func validOptions(root *memfs.Node, o opts) bool {
	if o.NoSub && len(o.Paths) == 0 {
		return false
	}
	if len(o.Paths) > 0 {
		var re *regexp.Regexp
		var gl glob.Glob
		if o.Regex != "" {
			re = regexp.MustCompile(o.Regex)
		}
		if o.Glob != "" {
			gl = glob.MustCompile(o.Glob)
		}
		reached := reachedByWholeTree(root, o, re, gl)
		for _, p := range o.Paths {
			if !reached[p] {
				return false
			}
		}
	}
	return true
}

func main() {
	scankit.Quiet()
	r := ev.Start("C01", "exploration", 7*time.Minute, 45*time.Minute)
	if rp := os.Getenv("VERIF_REPLAY"); rp != "" {
		replay(r, rp)
		return
	}
	maxNodes := ev.Pick(r, 4, 6)
	if v, err := strconv.Atoi(os.Getenv("VERIF_C01_MAXNODES")); err == nil {
		maxNodes = v // development aid: smaller trees for a fast run of the side families (the evidence then says exhaustive for that bound only)
	}
	maxDev := ev.Pick(r, 2, 3)
	ls := labels(r.Thorough())
	sort.SliceStable(ls, func(i, j int) bool { return ls[i].name < ls[j].name })
	// the bounded side families first: the tree enumeration below may use up the thorough deadline
	phase := map[string]float64{}
	t0 := time.Now()
	lap := func(name string) { phase[name] = time.Since(t0).Seconds(); t0 = time.Now() }
	twoRealRoots(r, ls)
	lap("two-real-roots")
	twoDifferentRoots(r, ls)
	lap("two-different-roots")
	twoRootsWithOptions(r, ls)
	lap("two-roots-with-options")
	requiredExtractors(r)
	deepGitignore(r)
	symlinkedRoot(r)
	wideDirectories(r)
	lap("wide-directories")
	defer func() {}()
	completedNodes := -1
	for n := 0; n <= maxNodes && !r.Expired(); n++ {
		trees := genTrees(ls, n)
		var valid []*memfs.Node
		for _, t := range trees {
			if fixSymlinks(t) {
				valid = append(valid, t)
			}
		}
		dev := maxDev
		if n >= 5 {
			dev = 2
		}
		done := r.ParallelFor(len(valid), func(i int) {
			root := valid[i]
			ts := root.String()
			for _, o := range optionVectors(root, dev) {
				if !validOptions(root, o) {
					// a don't-care cell of the model (e.g. a requested file that a parent .gitignore
					// excludes). One law still holds there without any model: the extractions for two
					// requested paths do not depend on the order in which they are listed.
					if len(o.Paths) == 2 && !o.NoSub {
						c1 := &caseT{Tree: ts, Opts: o, Exs: exSets[1], ExS: exStr(exSets[1]), root: root}
						o2 := o
						o2.Paths = []string{o.Paths[1], o.Paths[0]}
						c2 := &caseT{Tree: ts, Opts: o2, Exs: exSets[1], ExS: exStr(exSets[1]), root: root}
						out1, e1 := runImpl(c1)
						out2, e2 := runImpl(c2)
						r.Evals.Add(2)
						if e1 == nil && e2 == nil {
							a, b := append([]string{}, out1.calls...), append([]string{}, out2.calls...)
							sort.Strings(a)
							sort.Strings(b)
							if strings.Join(a, ";") != strings.Join(b, ";") {
								r.Violation("requested-path-order-changes-result:"+o.active(), fmt.Sprintf("tree %s options %+v: PathsToExtract %v extracts %v, reversed order extracts %v", ts, o, o.Paths, a, b), c1)
							} else if len(a) > 0 {
								r.Nontrivial.Add(1)
							}
						}
					}
					continue
				}
				for ei, es := range exSets {
					if n == 4 && !r.Thorough() && (ei == 0 || ei == 3) {
						continue // quick: the largest trees with the two extractor sets that subsume the others
					}
					c := &caseT{Tree: ts, Opts: o, Exs: es, ExS: exStr(es), root: root, again: n <= 3}
					kind, detail, nt := check(c)
					r.Evals.Add(1)
					if nt {
						r.Nontrivial.Add(1) // the enumeration is duplicate-free by construction: (tree, option vector, extractor set) triples are pairwise different
					}
					if kind != "" {
						r.Violation(kind+":"+o.active(), fmt.Sprintf("tree %s options %+v extractors %s: %s", ts, o, c.ExS, detail), c)
					} else if nt && r.SampleN() < 4 && len(o.active()) > 8 {
						r.Sample(map[string]any{"tree": ts, "options": o, "extractors": c.ExS})
					}
				}
			}
		})
		if done == len(valid) {
			completedNodes = n
		}
		r.Set(fmt.Sprintf("trees_with_%d_nodes", n), len(valid))
		lap(fmt.Sprintf("trees-with-%d-nodes", n))
		r.Set("phase_seconds", phase)
	}
	r.Set("bound", map[string]any{"max_nodes_completed": completedNodes, "max_option_deviations": maxDev, "extractor_sets": len(exSets)})
	r.Assume("reference dispatch model (this file, ~200 lines) states git's .gitignore semantics for the 5-pattern alphabet and the skip rules of the property text")
	r.Assume("regular-expression and glob *matching* are taken from the same libraries the implementation uses; only the dispatch logic is under test")
	r.Finish(fmt.Sprintf("every tree with <=%d labelled nodes (names a, a.d, b.txt, 'd e', -x, .gitignore(8 bodies incl. a negation and CRLF line ends; 4 in quick), pkg.json; dirs, files of size 0/1/5, exec bit, symlinks to file/dir/dangling, named pipe) x every option vector with <=%d deviations from the defaults (skip list, regex, glob, gitignore, requested paths incl. dir+file and '.', sub-dir cut-off, max size 1/5, symlinks, absolute paths, ReadDirFile on/off, virtual root vs. root with a host path - spelled /r, /r/, /r/., /r/x/.., //r, or being / itself, in rotation - and absolute skip/request paths) x %d extractor sets (quick: 2 of them on 4-node trees); Scanner.Scan over memfs vs reference dispatch model (trees <=3 nodes: scanned twice with the same configuration and plugin instances, second scan must equal the first); plus two virtual roots with different content (the tree and the tree without its top-level .gitignore / with other sizes, both orders) under every option vector with <=2 deviations, each root judged by the model on its own; plus directory chains 1..4 deep with a .gitignore in every subset of levels and each level requested explicitly; a scan root reached through a symbolic link; plus EnableRequiredExtractors for every list of 1..3 detectors requiring the same / different / no extractors; plus one directory of W entries for every W<=%d and 2^k-1,2^k,2^k+1,1.5*2^k up to %d x 3 placements x 5 directory-listing behaviours (ReadDir, ReadDirFile full batches, short batches of 1/3/100); non-trivial = some option active and >=1 extraction expected", maxNodes, maxDev, len(exSets), ev.Pick(r, 40, 300), ev.Pick(r, 1024, 4096)), completedNodes == maxNodes)
}

func replay(r *ev.Run, p string) {
	b, err := os.ReadFile(p)
	if err != nil {
		fmt.Println(err)
		os.Exit(3)
	}
	var doc struct {
		Key    string `json:"key"`
		Replay struct {
			Tree string `json:"tree"`
			Opts opts   `json:"options"`
			ExS  string `json:"extractors"`
		} `json:"replay"`
	}
	if err := json.Unmarshal(b, &doc); err != nil {
		fmt.Println(err)
		os.Exit(3)
	}
	// regenerate the tree by searching the enumeration for its canonical string
	ls := labels(true)
	sort.SliceStable(ls, func(i, j int) bool { return ls[i].name < ls[j].name })
	for n := 0; n <= 5; n++ {
		for _, t := range genTrees(ls, n) {
			if !fixSymlinks(t) || t.String() != doc.Replay.Tree {
				continue
			}
			for _, es := range exSets {
				if exStr(es) != doc.Replay.ExS {
					continue
				}
				c := &caseT{Tree: doc.Replay.Tree, Opts: doc.Replay.Opts, Exs: es, ExS: doc.Replay.ExS, root: t}
				kind, detail, _ := check(c)
				fmt.Printf("replay: tree %s options %+v extractors %s\n  verdict: %q %s\n", c.Tree, c.Opts, c.ExS, kind, detail)
				if kind != "" {
					fmt.Printf("VIOLATION property=C01 replay=%s\n", p)
					os.Exit(1)
				}
				os.Exit(0)
			}
		}
	}
	fmt.Println("replay: tree not found in the enumeration")
	os.Exit(3)
}

// variantOf returns a copy of the tree in which every regular file has the other mode and another
// size, so that the same relative path means something different in the second root.
func variantOf(t *memfs.Node) *memfs.Node {
	c := t.Clone()
	memfs.Walk(c, func(_ string, nd *memfs.Node) {
		if nd.Kind == memfs.File && nd.Name != ".gitignore" {
			if nd.Perm&0o111 != 0 {
				nd.Perm = 0o644
			} else {
				nd.Perm = 0o755
			}
			if len(nd.Data) >= 5 {
				nd.Data = "x"
			} else {
				nd.Data = "xxxxxx"
			}
		}
	})
	return c
}

// twoDifferentRoots: each root must be judged by its own files (the walker caches one lazy Stat
// per file and shares its context between roots). Expected calls = the model run on each root.
func twoDifferentRoots(r *ev.Run, ls []label) {
	es := exSets[2] // e-exec (FileRequired calls Stat) and e-base
	for n := 1; n <= 3; n++ {
		for _, t := range genTrees(ls, n) {
			if !fixSymlinks(t) {
				continue
			}
			v := variantOf(t)
			for _, ms := range []int{0, 1, 5} {
				for _, order := range [][2]*memfs.Node{{t, v}, {v, t}} {
					rec := &scankit.Rec{}
					var exs []filesystem.Extractor
					for _, e := range es {
						exs = append(exs, &scankit.Ex{N: e.name, Rec: rec, Req: reqFn(e.req)})
					}
					cfg := &scalibr.ScanConfig{FilesystemExtractors: exs, Capabilities: &plugin.Capabilities{}, MaxFileSize: ms,
						ScanRoots: []*scalibrfs.ScanRoot{{FS: memfs.New(order[0]), Path: "/r"}, {FS: memfs.New(order[1]), Path: "/r2"}}}
					res := scalibr.New().Scan(context.Background(), cfg)
					r.Evals.Add(1)
					var want, got []string
					for i, root := range order {
						m := &model{root: root, o: opts{MaxSize: ms}, exs: es, dc: map[string]bool{}}
						m.run()
						for _, c := range m.calls {
							want = append(want, []string{"/r", "/r2"}[i]+"|"+c)
						}
					}
					for _, e := range rec.Of("extract") {
						got = append(got, e.Root+"|"+e.Ex+"|"+e.Path)
					}
					sort.Strings(want)
					sort.Strings(got)
					if len(want) > 0 {
						r.Nontrivial.Add(1)
					}
					if strings.HasPrefix(res.Status.String(), "FAILED") || strings.Join(want, ";") != strings.Join(got, ";") {
						r.Violation("two-different-roots:extractions-differ", fmt.Sprintf("roots /r=%s /r2=%s MaxFileSize=%d extractors %s: extracted %v, each root alone gives %v (%s)", order[0], order[1], ms, exStr(es), got, want, res.Status),
							map[string]any{"root1": order[0].String(), "root2": order[1].String(), "max_file_size": ms})
					}
				}
			}
		}
	}
}

// twoRealRoots: two scan roots with host paths where one root's path is a string prefix of the
// other's ("/r" and "/r2"), the same tree under both, and a skip-list entry addressed to a
// directory of the second root. The directory must be skipped in the root it was addressed to;
// what happens to the directory of the same relative path in the other root is a don't-care.
func twoRealRoots(r *ev.Run, ls []label) {
	for n := 1; n <= 3; n++ {
		for _, t := range genTrees(ls, n) {
			if !fixSymlinks(t) {
				continue
			}
			var dirs []string
			memfs.Walk(t, func(p string, nd *memfs.Node) {
				if nd.Kind == memfs.Dir {
					dirs = append(dirs, p)
				}
			})
			for _, d := range dirs {
				for _, skipRoot := range []string{"/r", "/r2"} {
					rec := &scankit.Rec{}
					ex := &scankit.Ex{N: "e-always", Rec: rec, Req: scankit.ReqAlways}
					cfg := &scalibr.ScanConfig{
						FilesystemExtractors: []filesystem.Extractor{ex},
						Capabilities:         &plugin.Capabilities{},
						ScanRoots:            []*scalibrfs.ScanRoot{{FS: memfs.New(t), Path: "/r"}, {FS: memfs.New(t), Path: "/r2"}},
						DirsToSkip:           []string{skipRoot + "/" + d},
					}
					res := scalibr.New().Scan(context.Background(), cfg)
					r.Evals.Add(1)
					r.Nontrivial.Add(1)
					rp := map[string]any{"tree": t.String(), "roots": []string{"/r", "/r2"}, "dirs_to_skip": []string{skipRoot + "/" + d}}
					if strings.HasPrefix(res.Status.String(), "FAILED") {
						r.Violation("two-roots-skip:scan-failed", fmt.Sprintf("tree %s roots /r,/r2 skip %s/%s: %s", t, skipRoot, d, res.Status), rp)
						continue
					}
					got := map[string]bool{}
					for _, e := range rec.Of("extract") {
						got[e.Root+"|"+e.Path] = true
						if e.Root == skipRoot && (e.Path == d || strings.HasPrefix(e.Path, d+"/")) {
							r.Violation("two-roots-skip:skipped-directory-scanned", fmt.Sprintf("tree %s roots /r,/r2 DirsToSkip=[%s/%s]: %s extracted from root %s", t, skipRoot, d, e.Path, e.Root), rp)
						}
					}
					// every regular file outside d is extracted from both roots
					memfs.Walk(t, func(p string, nd *memfs.Node) {
						if nd.Kind != memfs.File || p == d || strings.HasPrefix(p, d+"/") {
							return
						}
						for _, root := range []string{"/r", "/r2"} {
							if !got[root+"|"+p] {
								r.Violation("two-roots-skip:unrelated-file-missing", fmt.Sprintf("tree %s roots /r,/r2 DirsToSkip=[%s/%s]: %s not extracted from root %s", t, skipRoot, d, p, root), rp)
							}
						}
					})
				}
			}
		}
	}
}

// wideDirectories: the tree enumeration above has directories of at most 6 entries. This phase
// enumerates the *width* dimension on its own: one directory of W entries (every W up to a bound,
// then every power of two and its neighbours up to 4096), at the root or nested, with a
// sub-directory and a required file placed after the wide run, for each way the file system hands
// out directory entries (one ReadDir(-1), a directory handle that serves full batches, one that
// serves short batches of 1 / 3 / 100). Expected calls = the dispatch model.
func wideDirectories(r *ev.Run) {
	var widths []int
	for w := 0; w <= ev.Pick(r, 40, 300); w++ {
		widths = append(widths, w)
	}
	for p := 64; p <= ev.Pick(r, 1024, 4096); p *= 2 {
		widths = append(widths, p-1, p, p+1, p+p/2)
	}
	type fsMode struct {
		noRDF    bool
		maxBatch int
	}
	modes := []fsMode{{true, 0}, {false, 0}, {false, 1}, {false, 3}, {false, 100}}
	type cell struct {
		w, shape int
		m        fsMode
	}
	var cells []cell
	for _, w := range widths {
		for shape := 0; shape < 3; shape++ {
			for _, m := range modes {
				cells = append(cells, cell{w, shape, m})
			}
		}
	}
	done := r.ParallelFor(len(cells), func(i int) {
		c := cells[i]
		var wide []*memfs.Node
		for k := 0; k < c.w; k++ {
			wide = append(wide, memfs.F(fmt.Sprintf("f%05d.txt", k), "x"))
		}
		// entries that sort after the wide run: a sub-directory with a file, and a base-required file
		tail := []*memfs.Node{memfs.D("zdir", memfs.F("pkg.json", "x")), memfs.F("zz-b.txt", "x")}
		var root *memfs.Node
		switch c.shape {
		case 0: // wide run directly in the root
			root = memfs.D("", append(wide, tail...)...)
		case 1: // nested, a sibling after the wide directory
			root = memfs.D("", memfs.D("a", append(wide, tail...)...), memfs.F("pkg.json", "x"))
		case 2: // the wide run consists of directories (each with one file)
			var ds []*memfs.Node
			for k := 0; k < c.w; k++ {
				ds = append(ds, memfs.D(fmt.Sprintf("d%05d", k), memfs.F("pkg.json", "x")))
			}
			root = memfs.D("", append(ds, tail...)...)
		}
		es := exSets[1]
		m := &model{root: root, o: opts{}, exs: es, dc: map[string]bool{}}
		m.run()
		rec := &scankit.Rec{}
		var exs []filesystem.Extractor
		for _, e := range es {
			exs = append(exs, &scankit.Ex{N: e.name, Rec: rec, Req: reqFn(e.req)})
		}
		mf := memfs.New(root)
		mf.NoReadDirFile, mf.MaxBatch = c.m.noRDF, c.m.maxBatch
		cfg := &scalibr.ScanConfig{FilesystemExtractors: exs, Capabilities: &plugin.Capabilities{}, ScanRoots: []*scalibrfs.ScanRoot{{FS: mf, Path: ""}}}
		var res *scalibr.ScanResult
		p, stack := ev.Recover(func() { res = scalibr.New().Scan(context.Background(), cfg) })
		r.Evals.Add(1)
		desc := map[string]any{"width": c.w, "shape": c.shape, "no_readdirfile": c.m.noRDF, "max_batch": c.m.maxBatch}
		if p != nil {
			r.Violation("wide-directory:panic", fmt.Sprintf("%v: panic %v at %s", desc, p, ev.PanicSite(stack)), desc)
			return
		}
		want := multiset(m.calls)
		got := map[string]int{}
		for _, e := range rec.Of("extract") {
			got[e.Ex+"|"+e.Path]++
		}
		var missing, extra []string
		for k, n := range want {
			if got[k] < n {
				missing = append(missing, k)
			}
		}
		for k, n := range got {
			if want[k] < n {
				extra = append(extra, k)
			}
		}
		sort.Strings(missing)
		sort.Strings(extra)
		if c.w > 0 {
			r.Nontrivial.Add(1)
		}
		if len(missing)+len(extra) > 0 || strings.HasPrefix(res.Status.String(), "FAILED") {
			if len(missing) > 3 {
				missing = append(missing[:3], fmt.Sprintf("... %d more", len(missing)-3))
			}
			if len(extra) > 3 {
				extra = append(extra[:3], fmt.Sprintf("... %d more", len(extra)-3))
			}
			kind := "missing"
			if len(missing) == 0 {
				kind = "extra-or-failed"
			}
			r.Violation("wide-directory:"+kind, fmt.Sprintf("directory of %d entries (shape %d, ReadDirFile=%v, batch cap %d): never extracted %v, extracted too often %v, status %s", c.w, c.shape, !c.m.noRDF, c.m.maxBatch, missing, extra, res.Status), desc)
		}
	})
	r.Set("wide_directory_cells", map[string]any{"cells": len(cells), "completed": done, "max_width": widths[len(widths)-1]})
	if done < len(cells) {
		r.Cap("wide-directory phase cut by the deadline")
	}
}

// twoRootsWithOptions: two virtual scan roots with DIFFERENT content under every option vector
// with <=2 deviations that does not address one root only (skip list/regex/glob, gitignore, size
// limit, symlinks, ReadDirFile). The second root is the first one without its top-level
// .gitignore (or, if it has none, its variant with other file sizes and modes), in both orders.
// Nothing may leak from one root's walk into the next: expected calls = the dispatch model run on
// each root separately.
func twoRootsWithOptions(r *ev.Run, ls []label) {
	es := exSets[1]
	for n := 1; n <= ev.Pick(r, 3, 4); n++ {
		var trees []*memfs.Node
		for _, t := range genTrees(ls, n) {
			if fixSymlinks(t) {
				trees = append(trees, t)
			}
		}
		r.ParallelFor(len(trees), func(i int) {
			t := trees[i]
			second := t.Clone()
			kept := second.Children[:0]
			hadGit := false
			for _, c := range second.Children {
				if c.Name == ".gitignore" {
					hadGit = true
					continue
				}
				kept = append(kept, c)
			}
			second.Children = kept
			if !hadGit {
				second = variantOf(t)
			}
			dev := 2
			if n == 4 {
				dev = 1
			}
			for _, o := range optionVectors(t, dev) {
				if len(o.Paths) > 0 || o.NoSub || o.RealRoot || o.AbsPath {
					continue
				}
				if n == 4 && !o.Git && !hadGit {
					continue
				}
				for _, order := range [][2]*memfs.Node{{t, second}, {second, t}} {
					if !validOptions(order[0], o) || !validOptions(order[1], o) {
						continue
					}
					rec := &scankit.Rec{}
					var exs []filesystem.Extractor
					for _, e := range es {
						exs = append(exs, &scankit.Ex{N: e.name, Rec: rec, Req: reqFn(e.req)})
					}
					var roots []*scalibrfs.ScanRoot
					for _, rt := range order {
						m := memfs.New(rt)
						m.NoReadDirFile = o.NoRDF
						roots = append(roots, &scalibrfs.ScanRoot{FS: m, Path: ""})
					}
					cfg := &scalibr.ScanConfig{FilesystemExtractors: exs, Capabilities: &plugin.Capabilities{}, ScanRoots: roots,
						DirsToSkip: o.Skip, MaxFileSize: o.MaxSize, UseGitignore: o.Git, ReadSymlinks: o.Symlinks}
					var re *regexp.Regexp
					var gl glob.Glob
					if o.Regex != "" {
						re = regexp.MustCompile(o.Regex)
						cfg.SkipDirRegex = re
					}
					if o.Glob != "" {
						gl = glob.MustCompile(o.Glob)
						cfg.SkipDirGlob = gl
					}
					var res *scalibr.ScanResult
					p, stack := ev.Recover(func() { res = scalibr.New().Scan(context.Background(), cfg) })
					r.Evals.Add(1)
					desc := fmt.Sprintf("roots [%s] [%s] options %+v", order[0], order[1], o)
					rp := map[string]any{"root1": order[0].String(), "root2": order[1].String(), "options": o}
					if p != nil {
						r.Violation("two-roots:panic", fmt.Sprintf("%s: panic %v at %s", desc, p, ev.PanicSite(stack)), rp)
						continue
					}
					want := map[string]int{}
					dc := map[string]bool{}
					for _, rt := range order {
						m := &model{root: rt, o: o, exs: es, re: re, gl: gl, dc: map[string]bool{}}
						m.run()
						for _, c := range m.calls {
							want[c]++
						}
						for k := range m.dc {
							dc[k] = true
						}
					}
					got := map[string]int{}
					for _, e := range rec.Of("extract") {
						got[e.Ex+"|"+e.Path]++
					}
					var diff []string
					for k, nw := range want {
						if !dc[k] && got[k] != nw {
							diff = append(diff, fmt.Sprintf("%s: %d calls, want %d", k, got[k], nw))
						}
					}
					for k, ng := range got {
						if !dc[k] && want[k] == 0 {
							diff = append(diff, fmt.Sprintf("%s: %d calls, want 0", k, ng))
						}
					}
					sort.Strings(diff)
					if len(want) > 0 && o.active() != "" {
						r.Nontrivial.Add(1)
					}
					if len(diff) > 0 || strings.HasPrefix(res.Status.String(), "FAILED") {
						r.Violation("two-roots:"+o.active(), fmt.Sprintf("%s: %v (%s)", desc, diff, res.Status), rp)
					}
				}
			}
		})
	}
}

// requiredExtractors: "enabled" also means enabled on behalf of a detector. For every list of 1..3
// detectors over {requires python/requirements, requires python/requirements + javascript/packagejson,
// requires nothing} and every initial extractor list (empty / python/requirements already there),
// EnableRequiredExtractors followed by Scan reports each package of the tree once and one status
// per plugin: an extractor required twice still runs once per file.
func requiredExtractors(r *ev.Run) {
	reqs := [][]string{{"python/requirements"}, {"python/requirements", "javascript/packagejson"}, nil}
	tree := memfs.D("", memfs.F("requirements.txt", "flask==1.0\n"), memfs.D("a", memfs.F("package.json", `{"name":"n","version":"1.0.0"}`)))
	var lists [][]int
	for a := 0; a < 3; a++ {
		lists = append(lists, []int{a})
		for b := 0; b < 3; b++ {
			lists = append(lists, []int{a, b})
			for c := 0; c < 3; c++ {
				lists = append(lists, []int{a, b, c})
			}
		}
	}
	for _, l := range lists {
		for _, pre := range []bool{false, true} {
			var dets []detector.Detector
			for i, k := range l {
				dets = append(dets, &scankit.Det{N: fmt.Sprintf("det-%d", i), Required: reqs[k], Fn: func(context.Context, *scalibrfs.ScanRoot, *packageindex.PackageIndex) ([]*detector.Finding, error) {
					return nil, nil
				}})
			}
			cfg := &scalibr.ScanConfig{Detectors: dets, Capabilities: &plugin.Capabilities{OS: plugin.OSLinux, Network: plugin.NetworkOffline}, ScanRoots: []*scalibrfs.ScanRoot{{FS: memfs.New(tree), Path: ""}}}
			if pre {
				ex, err := fslist.ExtractorFromName("python/requirements")
				if err != nil {
					r.Violation("required-extractors:registry", err.Error(), nil)
					return
				}
				cfg.FilesystemExtractors = []filesystem.Extractor{ex}
			}
			r.Evals.Add(1)
			desc := map[string]any{"detector_requirements": l, "requirements_extractor_preconfigured": pre}
			if err := cfg.EnableRequiredExtractors(); err != nil {
				r.Violation("required-extractors:error", fmt.Sprintf("detectors %v preconfigured %v: %v", l, pre, err), desc)
				continue
			}
			res := scalibr.New().Scan(context.Background(), cfg)
			seen := map[string]int{}
			for _, p := range res.Inventory.Packages {
				seen[p.Name+"@"+p.Version+"@"+strings.Join(p.Locations, ",")]++
			}
			st := map[string]int{}
			for _, s := range res.PluginStatus {
				st[s.Name]++
			}
			needReq, needJS := pre, false
			for _, k := range l {
				needReq = needReq || k <= 1
				needJS = needJS || k == 1
			}
			want := map[string]int{}
			if needReq {
				want["flask@1.0@requirements.txt"] = 1
			}
			if needJS {
				want["n@1.0.0@a/package.json"] = 1
			}
			r.Nontrivial.Add(1)
			dup := false
			for _, n := range st {
				dup = dup || n > 1
			}
			if !reflect.DeepEqual(seen, want) || dup {
				r.Violation("required-extractor-runs-more-than-once", fmt.Sprintf("detectors requiring %v, python/requirements preconfigured %v: packages %v (want %v), status entries %v", l, pre, seen, want, st), desc)
			}
		}
	}
}

// deepGitignore: explicitly requested directories 1..4 levels down a chain a/a.d/d e/a (the tree
// enumeration stops at 4-6 nodes), with a .gitignore in every subset of the levels above and at the
// requested directory, the ignored file name at the bottom; UseGitignore, with and without the
// sub-directory cut-off. Expected = the dispatch model (patterns of every ancestor apply).
func deepGitignore(r *ev.Run) {
	names := []string{"a", "a.d", "d e", "a"}
	for depth := 1; depth <= 4; depth++ {
		for mask := 0; mask < 1<<(depth+1); mask++ { // bit l: a .gitignore in the directory at level l (0 = root)
			var build func(level int) []*memfs.Node
			build = func(level int) []*memfs.Node {
				var kids []*memfs.Node
				if mask&(1<<level) != 0 {
					kids = append(kids, memfs.F(".gitignore", "b.txt\n"))
				}
				if level == depth {
					kids = append(kids, memfs.F("b.txt", "x"), memfs.F("pkg.json", "x"))
					return kids
				}
				kids = append(kids, memfs.D(names[level], build(level+1)...))
				return kids
			}
			root := memfs.D("", build(0)...)
			for req := 1; req <= depth; req++ {
				for _, nosub := range []bool{false, true} {
					o := opts{Git: true, Paths: []string{strings.Join(names[:req], "/")}, NoSub: nosub}
					if !validOptions(root, o) {
						continue // a don't-care cell: the whole-tree scan would not reach the requested directory
					}
					c := &caseT{Tree: root.String(), Opts: o, Exs: exSets[1], ExS: exStr(exSets[1]), root: root}
					kind, detail, _ := check(c)
					r.Evals.Add(1)
					r.Nontrivial.Add(1)
					if kind != "" {
						r.Violation(kind+":deep:"+o.active(), fmt.Sprintf("tree %s options %+v: %s", c.Tree, o, detail), map[string]any{"tree": c.Tree, "options": o})
					}
				}
			}
		}
	}
}

// symlinkedRoot: the scan root is given by a host path that contains a symbolic link (a real
// temporary directory reached through a link); requested and skipped paths are spelled through the
// same link. The result must be that of the plain root.
func symlinkedRoot(r *ev.Run) {
	base, err := os.MkdirTemp("", "c01-root-")
	if err != nil {
		return
	}
	defer os.RemoveAll(base)
	if os.Mkdir(base+"/real", 0o755) != nil || os.Symlink("real", base+"/link") != nil {
		return
	}
	tree := memfs.D("", memfs.D("a", memfs.F("b.txt", "x"), memfs.F("pkg.json", "x")), memfs.F("b.txt", "x"))
	link := base + "/link"
	for _, v := range []struct {
		name  string
		paths []string
		skip  []string
		want  []string
	}{
		{"whole tree", nil, nil, []string{"a/b.txt", "a/pkg.json", "b.txt"}},
		{"requested directory", []string{link + "/a"}, nil, []string{"a/b.txt", "a/pkg.json"}},
		{"skipped directory", nil, []string{link + "/a"}, []string{"b.txt"}},
	} {
		rec := &scankit.Rec{}
		ex := &scankit.Ex{N: "e-always", Rec: rec, Req: reqFn("always")}
		cfg := &scalibr.ScanConfig{FilesystemExtractors: []filesystem.Extractor{ex}, Capabilities: &plugin.Capabilities{},
			ScanRoots: []*scalibrfs.ScanRoot{{FS: memfs.New(tree), Path: link}}, PathsToExtract: v.paths, DirsToSkip: v.skip}
		res := scalibr.New().Scan(context.Background(), cfg)
		r.Evals.Add(1)
		r.Nontrivial.Add(1)
		var got []string
		for _, e := range rec.Of("extract") {
			got = append(got, e.Path)
		}
		sort.Strings(got)
		if strings.Join(got, ";") != strings.Join(v.want, ";") || strings.HasPrefix(res.Status.String(), "FAILED") {
			r.Violation("root-through-symlink:"+v.name, fmt.Sprintf("scan root %s (a symbolic link to a directory), %s %v%v: extracted %v, want %v (%s)", link, v.name, v.paths, v.skip, got, v.want, res.Status), map[string]any{"variant": v.name})
		}
	}
}
