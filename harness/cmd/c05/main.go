// C05 — packages are attributed to the layer that introduced them.
//
// Engine B: explicit-state breadth-first search. A state is a layer history; a
// transition appends one layer operation. Every new state is rebuilt from scratch as
// a real image (image.FromV1Image), scanned with the real Scanner.ScanContainer and
// the attribution of every reported package is compared with a brute-force oracle
// that extracts the file independently from every image-up-to-layer view.
//
// State key (deduplication): per layer (is-empty-history-entry, file-present-in-diff
// per file, content of each file in the view after the layer). Attribution is a function
// of exactly these (the sequence of views, and which layer diffs contain the file), so
// two histories with the same key have the same futures.
//
// Don't care: same-layer whiteout+re-create (open C04 finding) is not in the alphabet.
package main

import (
	"context"
	"encoding/json"
	"errors"
	"fmt"
	"io"
	"os"
	"sort"
	"strings"
	"sync"
	"time"

	scalibr "github.com/google/osv-scalibr"
	"github.com/google/osv-scalibr/artifact/image/layerscanning/image"
	"github.com/google/osv-scalibr/extractor"
	"github.com/google/osv-scalibr/extractor/filesystem"
	"github.com/google/osv-scalibr/inventory"
	"github.com/google/osv-scalibr/plugin"
	"github.com/google/osv-scalibr/purl"
	"verif/ev"
	"verif/imgkit"
	"verif/scankit"
)

// ---- harness extractor: "name version" per line in *.list files ----

type listEx struct {
	name string
	typ  string
}

func (e *listEx) Name() string                       { return e.name }
func (e *listEx) Version() int                       { return 1 }
func (e *listEx) Requirements() *plugin.Capabilities { return &plugin.Capabilities{} }
func (e *listEx) FileRequired(api filesystem.FileAPI) bool {
	return strings.HasSuffix(api.Path(), ".list")
}

// unparsable marks a file version on which Extract fails (a truncated write, conflict markers...).
const unparsable = "<<<<<<<"

func parseList(b []byte, loc string) []*extractor.Package {
	var out []*extractor.Package
	if strings.Contains(string(b), unparsable) {
		return nil
	}
	for _, l := range strings.Split(string(b), "\n") {
		n, v, ok := strings.Cut(strings.TrimSpace(l), " ")
		if ok {
			out = append(out, &extractor.Package{Name: n, Version: v, Locations: []string{loc}})
		}
	}
	return out
}
func (e *listEx) Extract(_ context.Context, in *filesystem.ScanInput) (inventory.Inventory, error) {
	b, err := io.ReadAll(in.Reader)
	if err != nil {
		return inventory.Inventory{}, err
	}
	if strings.Contains(string(b), unparsable) {
		// a version of the file the extractor cannot parse: it reports nothing, so the view holds no package
		return inventory.Inventory{}, errors.New("malformed package list")
	}
	return inventory.Inventory{Packages: parseList(b, in.Path)}, nil
}
func (e *listEx) ToPURL(p *extractor.Package) *purl.PackageURL {
	return &purl.PackageURL{Type: e.typ, Name: p.Name, Version: p.Version}
}
func (e *listEx) Ecosystem(*extractor.Package) string { return "generic" }

// ---- operations ----

// Op is one layer of the history.
type Op struct {
	Kind string            `json:"kind"`          // "write", "delete", "delete-parent", "touch", "empty"
	Set  map[string]string `json:"set,omitempty"` // file -> content (for write; several files may be written)
	File string            `json:"file,omitempty"`
}

func (o Op) String() string {
	switch o.Kind {
	case "write":
		var ks []string
		for f, c := range o.Set {
			ks = append(ks, f+"={"+strings.ReplaceAll(strings.TrimSpace(c), "\n", ",")+"}")
		}
		sort.Strings(ks)
		return "write " + strings.Join(ks, " ")
	case "opaque-write":
		var ks []string
		for f, c := range o.Set {
			ks = append(ks, f+"={"+strings.ReplaceAll(strings.TrimSpace(c), "\n", ",")+"}")
		}
		sort.Strings(ks)
		return "recreate-directory(opaque) " + strings.Join(ks, " ")
	case "delete", "delete-parent":
		return o.Kind + " " + o.File
	}
	return o.Kind
}

func content(pkgs []string) string {
	var b strings.Builder
	for _, p := range pkgs {
		b.WriteString(p + "\n")
	}
	return b.String()
}

func subsets(pool []string) [][]string {
	var out [][]string
	for m := 0; m < 1<<len(pool); m++ {
		var s []string
		for i, p := range pool {
			if m&(1<<i) != 0 {
				s = append(s, p)
			}
		}
		out = append(out, s)
	}
	return out
}

func alphabet(files []string, pool []string) []Op {
	ops := []Op{{Kind: "touch"}, {Kind: "empty"}}
	for _, f := range files {
		for _, s := range subsets(pool) {
			ops = append(ops, Op{Kind: "write", Set: map[string]string{f: content(s)}})
		}
		ops = append(ops, Op{Kind: "delete", File: f})
	}
	ops = append(ops, Op{Kind: "delete-parent", File: files[0]})
	return ops
}

func entriesFor(o Op, idx int) []imgkit.Entry {
	switch o.Kind {
	case "touch":
		return []imgkit.Entry{imgkit.File(fmt.Sprintf("var/unrelated-%d", idx), "x")}
	case "write":
		var es []imgkit.Entry
		var fs []string
		for f := range o.Set {
			fs = append(fs, f)
		}
		sort.Strings(fs)
		for _, f := range fs {
			es = append(es, imgkit.File(f, o.Set[f]))
		}
		return es
	case "opaque-write":
		// the directory is re-created: an opaque marker hides what lower layers put there, the
		// layer's own files are added (rm -rf dir && mkdir dir && write)
		var es []imgkit.Entry
		var fs []string
		for f := range o.Set {
			fs = append(fs, f)
		}
		sort.Strings(fs)
		for i, f := range fs {
			if i == 0 {
				es = append(es, imgkit.Opaque(strings.Split(f, "/")[0]))
			}
			es = append(es, imgkit.File(f, o.Set[f]))
		}
		return es
	case "delete":
		return []imgkit.Entry{imgkit.Whiteout(o.File)}
	case "delete-parent":
		return []imgkit.Entry{imgkit.Whiteout(strings.Split(o.File, "/")[0])}
	}
	return nil
}

type built struct {
	img   *image.Image
	light *imgkit.Image
	// layerOf[i] = index into the non-empty layer list for chain layer i, or -1 for an empty history entry
	layerOf []int
	hist    []imgkit.Hist
}

func build(ops []Op) (*built, error) {
	var tars [][]byte
	var hist []imgkit.Hist
	var layerOf []int
	for i, o := range ops {
		if o.Kind == "empty" {
			hist = append(hist, imgkit.Hist{CreatedBy: fmt.Sprintf("cmd-%d", i), Empty: true})
			layerOf = append(layerOf, -1)
			continue
		}
		if o.Kind == "phantom" {
			// a history entry that is NOT flagged empty although no layer belongs to it (some build
			// tools write such histories): the history is inconsistent with the layer list
			hist = append(hist, imgkit.Hist{CreatedBy: fmt.Sprintf("cmd-%d", i)})
			layerOf = append(layerOf, -2)
			continue
		}
		hist = append(hist, imgkit.Hist{CreatedBy: fmt.Sprintf("cmd-%d", i)})
		layerOf = append(layerOf, len(tars))
		tars = append(tars, imgkit.TarBytes(entriesFor(o, i)))
	}
	light := imgkit.NewImage(tars, hist)
	img, err := image.FromV1Image(light, image.DefaultConfig())
	if err != nil {
		return nil, err
	}
	return &built{img, light, layerOf, hist}, nil
}

type pkgKey struct{ purl, loc string }

// verdict scans the image and compares attributions; also returns the state key.
func verdict(ops []Op, exs []*listEx, files []string) (key string, stateKey string, detail string, pkgs int) {
	b, err := build(ops)
	if err != nil {
		// an image that consists only of empty history entries etc. cannot be loaded: not a state
		return "", "", "unloadable: " + err.Error(), -1
	}
	defer b.img.CleanUp()
	cls, err := b.img.ChainLayers()
	if err != nil || len(cls) == 0 {
		return "", "", "no chain layers", -1
	}
	if len(cls) != len(ops) {
		return "chain-layer-count", "", fmt.Sprintf("%d chain layers for %d history entries", len(cls), len(ops)), 0
	}
	// brute-force oracle: independent extraction of every file from every view
	present := make([]map[pkgKey]bool, len(cls))
	var sk strings.Builder
	// the history's own account of each file (what the layers wrote), independent of the views
	hist := map[string]string{}
	for i, cl := range cls {
		present[i] = map[pkgKey]bool{}
		fmt.Fprintf(&sk, "|%v", ops[i].Kind == "empty")
		switch ops[i].Kind {
		case "write":
			for f, c := range ops[i].Set {
				hist[f] = c
			}
		case "opaque-write":
			for f := range hist {
				delete(hist, f) // all package files live in the re-created directory
			}
			for f, c := range ops[i].Set {
				hist[f] = c
			}
		case "delete":
			delete(hist, ops[i].File)
		case "delete-parent":
			top := strings.Split(ops[i].File, "/")[0] + "/"
			for f := range hist {
				if strings.HasPrefix(f, top) {
					delete(hist, f)
				}
			}
		}
		for _, f := range files {
			// the view after layer i must show exactly what the history up to layer i says
			wantData, wantThere := hist[f]
			gotData, gotThere := "", false
			if fh, err := cl.FS().Open(f); err == nil {
				if _, serr := fh.Stat(); serr == nil {
					b, _ := io.ReadAll(fh)
					gotData, gotThere = string(b), true
				}
				fh.Close()
			}
			if gotThere != wantThere || gotData != wantData {
				return "view-disagrees-with-history", sk.String(), fmt.Sprintf("view after layer %d: %s present=%v %q, the history says present=%v %q", i, f, gotThere, gotData, wantThere, wantData), 0
			}
		}
		for _, f := range files {
			inDiff := false
			if ops[i].Kind == "write" || ops[i].Kind == "opaque-write" {
				_, inDiff = ops[i].Set[f]
			}
			var data []byte
			if fh, err := cl.FS().Open(f); err == nil {
				if _, serr := fh.Stat(); serr == nil {
					data, _ = io.ReadAll(fh)
				} else {
					data = nil
					err = serr
				}
				fh.Close()
				if err == nil {
					for _, e := range exs {
						for _, p := range parseList(data, f) {
							present[i][pkgKey{e.ToPURL(p).String(), f}] = true
						}
					}
					fmt.Fprintf(&sk, ";%s:%v:%q", f, inDiff, data)
					continue
				}
			}
			fmt.Fprintf(&sk, ";%s:%v:absent", f, inDiff)
		}
	}
	var fexs []filesystem.Extractor
	for _, e := range exs {
		fexs = append(fexs, e)
	}
	cfg := &scalibr.ScanConfig{FilesystemExtractors: fexs, Capabilities: &plugin.Capabilities{}}
	var res *scalibr.ScanResult
	p, stack := ev.Recover(func() { res, err = scalibr.New().ScanContainer(context.Background(), b.img, cfg) })
	if p != nil {
		return "panic:" + ev.PanicSite(stack), sk.String(), fmt.Sprint(p), 0
	}
	if err != nil {
		return "scan-container-error", sk.String(), err.Error(), 0
	}
	n := len(cls)
	// the result must hold exactly the packages of the final view
	got := map[pkgKey]int{}
	for _, pk := range res.Inventory.Packages {
		got[pkgKey{pk.Extractor.ToPURL(pk).String(), pk.Locations[0]}]++
	}
	for k := range present[n-1] {
		if got[k] != 1 {
			return "final-view-package-missing-or-duplicated", sk.String(), fmt.Sprintf("%v reported %d times", k, got[k]), len(got)
		}
	}
	for k := range got {
		if !present[n-1][k] {
			return "package-not-in-final-view", sk.String(), fmt.Sprint(k), len(got)
		}
	}
	for _, pk := range res.Inventory.Packages {
		k := pkgKey{pk.Extractor.ToPURL(pk).String(), pk.Locations[0]}
		L := n - 1
		for L > 0 && present[L-1][k] {
			L--
		}
		ld := pk.LayerDetails
		if ld == nil {
			return "no-layer-details", sk.String(), fmt.Sprintf("%v has no LayerDetails", k), len(got)
		}
		wantDiff := ""
		if b.layerOf[L] >= 0 {
			wantDiff = strings.TrimPrefix(b.light.DiffID(b.layerOf[L]), "sha256:")
		}
		wantCmd := b.hist[L].CreatedBy
		if ld.Index != L {
			dir := "later"
			if ld.Index < L {
				dir = "earlier"
			}
			return "wrong-layer-index:" + dir, sk.String(), fmt.Sprintf("%v attributed to layer %d, introduced by layer %d (present in views %v)", k, ld.Index, L, presentIn(present, k)), len(got)
		}
		if ld.DiffID != wantDiff {
			return "wrong-diff-id", sk.String(), fmt.Sprintf("%v layer %d: diff id %q want %q", k, L, ld.DiffID, wantDiff), len(got)
		}
		if ld.Command != wantCmd {
			return "wrong-command", sk.String(), fmt.Sprintf("%v layer %d: command %q want %q", k, L, ld.Command, wantCmd), len(got)
		}
	}
	return "", sk.String(), "", len(got)
}

func presentIn(present []map[pkgKey]bool, k pkgKey) []int {
	var out []int
	for i, m := range present {
		if m[k] {
			out = append(out, i)
		}
	}
	return out
}

func histStr(ops []Op) string {
	var s []string
	for i, o := range ops {
		s = append(s, fmt.Sprintf("L%d:%s", i, o))
	}
	return strings.Join(s, " | ")
}

type phase struct {
	name  string
	files []string
	pool  []string
	depth int
	exs   []*listEx
	bad   bool // the alphabet also has a write of a version the extractor fails on
	// opaque: the alphabet also has "re-create the directory" layers (opaque marker + the file): they
	// act on the views from that layer on and must leave earlier views alone
	opaque bool
}

func bfs(r *ev.Run, ph phase) (complete bool, maxDepth int) {
	ops := alphabet(ph.files, ph.pool)
	if ph.bad {
		for _, f := range ph.files {
			ops = append(ops, Op{Kind: "write", Set: map[string]string{f: unparsable + "\nA 1\n"}})
		}
	}
	if ph.opaque {
		for _, f := range ph.files {
			for _, sub := range subsets(ph.pool) {
				ops = append(ops, Op{Kind: "opaque-write", Set: map[string]string{f: content(sub)}})
			}
		}
	}
	type state struct{ hist []Op }
	frontier := []state{{nil}}
	seen := map[string]bool{}
	var mu sync.Mutex
	for d := 1; d <= ph.depth; d++ {
		// successors of the whole frontier
		type succ struct {
			hist []Op
		}
		var work []succ
		for _, s := range frontier {
			for _, o := range ops {
				h := append(append([]Op{}, s.hist...), o)
				work = append(work, succ{h})
			}
		}
		var next []state
		done := r.ParallelFor(len(work), func(i int) {
			h := work[i].hist
			key, sk, detail, npk := verdict(h, ph.exs, ph.files)
			r.Trans.Add(1)
			if npk < 0 {
				return // not a loadable image (e.g. only empty layers): no state
			}
			r.Traces.Add(1)
			r.Evals.Add(1)
			if key != "" {
				r.Violation(key, fmt.Sprintf("[%s] history %s: %s", ph.name, histStr(h), detail), map[string]any{"phase": ph.name, "history": h})
			}
			mu.Lock()
			if !seen[sk] {
				seen[sk] = true
				next = append(next, state{h})
				r.States.Add(1)
				if npk > 0 && len(h) >= 3 {
					r.Nontrivial.Add(1)
					if r.SampleN() < 4 && len(h) == ph.depth {
						r.Sample(map[string]any{"phase": ph.name, "history": histStr(h), "reported_packages": npk})
					}
				}
			}
			mu.Unlock()
		})
		if done < len(work) {
			return false, d - 1
		}
		// deterministic frontier order
		sort.Slice(next, func(i, j int) bool { return histStr(next[i].hist) < histStr(next[j].hist) })
		frontier = next
		maxDepth = d
	}
	return true, maxDepth
}

func main() {
	scankit.Quiet()
	r := ev.Start("C05", "model_checking", 4*time.Minute, 40*time.Minute)
	base, err := os.MkdirTemp("/dev/shm", "c05-")
	if err != nil {
		base, _ = os.MkdirTemp("", "c05-")
	}
	os.Setenv("TMPDIR", base)
	defer os.RemoveAll(base)
	one := []*listEx{{"list-ex", purl.TypeGeneric}}
	two := []*listEx{{"list-ex", purl.TypeGeneric}, {"list-ex-2", purl.TypeDebian}}
	if rp := os.Getenv("VERIF_REPLAY"); rp != "" {
		b, _ := os.ReadFile(rp)
		var doc struct {
			Replay struct {
				Phase   string `json:"phase"`
				History []Op   `json:"history"`
			} `json:"replay"`
		}
		if json.Unmarshal(b, &doc) != nil {
			os.Exit(3)
		}
		exs := one
		if strings.Contains(doc.Replay.Phase, "two-extractors") {
			exs = two
		}
		var k, d string
		if doc.Replay.Phase == "inconsistent-history" {
			k, d, _ = phantomVerdict(doc.Replay.History, exs, []string{"etc/f.list"})
		} else {
			k, _, d, _ = verdict(doc.Replay.History, exs, []string{"etc/f.list", "etc/g.list"})
		}
		fmt.Printf("replay %s: key=%q %s\n", histStr(doc.Replay.History), k, d)
		os.RemoveAll(base)
		if k != "" {
			fmt.Printf("VIOLATION property=C05 replay=%s\n", rp)
			os.Exit(1)
		}
		os.Exit(0)
	}
	phases := []phase{
		{"one-file", []string{"etc/f.list"}, []string{"A 1", "B 2"}, ev.Pick(r, 5, 7), one, false, false},
		// the same package name in two versions: an in-place upgrade / downgrade of one package
		{"one-file-two-versions", []string{"etc/f.list"}, []string{"A 1", "A 2"}, ev.Pick(r, 5, 6), one, false, false},
		{"two-files", []string{"etc/f.list", "etc/g.list"}, []string{"A 1", "B 2"}, ev.Pick(r, 3, 5), one, false, false},
		{"one-file-two-extractors", []string{"etc/f.list"}, []string{"A 1", "B 2"}, ev.Pick(r, 4, 5), two, false, false},
		// a layer may hold a version of the file on which extraction FAILS: that view has no package,
		// so the layer that repairs the file introduces it
		{"one-file-with-unparsable-version", []string{"etc/f.list"}, []string{"A 1"}, ev.Pick(r, 5, 6), one, true, false},
		{"one-file-directory-recreated", []string{"etc/f.list"}, []string{"A 1", "B 2"}, ev.Pick(r, 4, 5), one, false, true},
	}
	if r.Thorough() {
		phases = append(phases, phase{"one-file-three-packages", []string{"etc/f.list"}, []string{"A 1", "B 2", "C 3"}, 5, one, false, false})
	}
	allComplete := true
	bounds := map[string]int{}
	for _, ph := range phases {
		if r.Expired() {
			allComplete = false
			break
		}
		c, d := bfs(r, ph)
		bounds[ph.name] = d
		if !c {
			allComplete = false
		}
	}
	if !r.Expired() {
		if !phantomPhase(r, ev.Pick(r, 3, 4), one) {
			allComplete = false
		}
	}
	os.RemoveAll(base)
	r.Set("depth_completed_per_phase", bounds)
	r.Assume("the oracle extracts each file independently from the image-up-to-layer views (the property is stated over them); since round 10 every view is first compared with the history's own account of the package files (what the layers wrote, deleted, re-created), so a view that shows a file the history does not is reported here too (the full view semantics remain C04's subject)")
	r.Finish("BFS over layer histories: per layer one of {touch unrelated file, empty history entry, write file with each subset of the package pool, delete file (whiteout), delete parent directory}; phases: one file x 2 packages, one file x 2 versions of one package, two files (same package in both = same PURL at two locations), one file read by two extractors, one file with a version on which extraction fails, one file whose directory is re-created by layers with an opaque marker, (thorough) one file x 3 packages; plus every one-file history of depth <=3/4 with one surplus history entry that is not flagged empty (inconsistent history: numbering and presence of the command are don't-care, but diff id, index in the implementation's own chain and the identity of a reported command are checked); every history rebuilt as a real image, scanned by ScanContainer and compared with brute-force attribution; states = distinct (views, diffs) keys, transitions = histories executed, non-trivial = states of depth >=3 reporting >=1 package", allComplete)
}

// phantomVerdict: histories that are inconsistent with the layer list (one surplus entry that is not
// flagged empty). How chain layers are numbered then is a don't-care, and so is whether a command is
// reported at all; but the diff ID must be the introducing layer's, the index must be that layer's
// position in the implementation's own chain, and a reported command must be the command of THAT layer.
func phantomVerdict(ops []Op, exs []*listEx, files []string) (key, detail string, npk int) {
	b, err := build(ops)
	if err != nil {
		return "", "unloadable: " + err.Error(), -1
	}
	defer b.img.CleanUp()
	cls, err := b.img.ChainLayers()
	if err != nil || len(cls) == 0 {
		return "", "no chain layers", -1
	}
	// true command per diff id
	cmdOf := map[string]string{}
	for i, lo := range b.layerOf {
		if lo >= 0 {
			cmdOf[strings.TrimPrefix(b.light.DiffID(lo), "sha256:")] = b.hist[i].CreatedBy
		}
	}
	present := make([]map[pkgKey]bool, len(cls))
	for i, cl := range cls {
		present[i] = map[pkgKey]bool{}
		for _, f := range files {
			fh, err := cl.FS().Open(f)
			if err != nil {
				continue
			}
			if _, serr := fh.Stat(); serr == nil {
				data, _ := io.ReadAll(fh)
				for _, e := range exs {
					for _, p := range parseList(data, f) {
						present[i][pkgKey{e.ToPURL(p).String(), f}] = true
					}
				}
			}
			fh.Close()
		}
	}
	var fexs []filesystem.Extractor
	for _, e := range exs {
		fexs = append(fexs, e)
	}
	var res *scalibr.ScanResult
	p, stack := ev.Recover(func() {
		res, err = scalibr.New().ScanContainer(context.Background(), b.img, &scalibr.ScanConfig{FilesystemExtractors: fexs, Capabilities: &plugin.Capabilities{}})
	})
	if p != nil {
		return "panic:" + ev.PanicSite(stack), fmt.Sprint(p), 0
	}
	if err != nil {
		return "scan-container-error", err.Error(), 0
	}
	n := len(cls)
	for _, pk := range res.Inventory.Packages {
		k := pkgKey{pk.Extractor.ToPURL(pk).String(), pk.Locations[0]}
		L := n - 1
		for L > 0 && present[L-1][k] {
			L--
		}
		ld := pk.LayerDetails
		if ld == nil {
			return "no-layer-details", fmt.Sprintf("%v has no LayerDetails", k), len(res.Inventory.Packages)
		}
		wantDiff := strings.TrimPrefix(cls[L].Layer().DiffID().String(), "sha256:")
		if ld.Index != L {
			return "inconsistent-history:wrong-layer-index", fmt.Sprintf("%v attributed to chain layer %d, introduced by %d", k, ld.Index, L), len(res.Inventory.Packages)
		}
		if ld.DiffID != wantDiff {
			return "inconsistent-history:wrong-diff-id", fmt.Sprintf("%v: diff id %q want %q", k, ld.DiffID, wantDiff), len(res.Inventory.Packages)
		}
		if ld.Command != "" && ld.Command != cmdOf[wantDiff] {
			return "inconsistent-history:command-of-another-layer", fmt.Sprintf("%v introduced by the layer with diff id %.12s (command %q) is reported with command %q", k, wantDiff, cmdOf[wantDiff], ld.Command), len(res.Inventory.Packages)
		}
	}
	return "", "", len(res.Inventory.Packages)
}

// phantomPhase: every one-file history of depth <= maxDepth (no empty entries) with one surplus
// unflagged history entry inserted at every position.
func phantomPhase(r *ev.Run, maxDepth int, exs []*listEx) bool {
	files := []string{"etc/f.list"}
	var ops []Op
	for _, o := range alphabet(files, []string{"A 1", "B 2"}) {
		if o.Kind != "empty" {
			ops = append(ops, o)
		}
	}
	var hists [][]Op
	var rec func(cur []Op)
	rec = func(cur []Op) {
		if len(cur) > 0 {
			for pos := 0; pos <= len(cur); pos++ {
				h := append(append(append([]Op{}, cur[:pos]...), Op{Kind: "phantom"}), cur[pos:]...)
				hists = append(hists, h)
			}
		}
		if len(cur) == maxDepth {
			return
		}
		for _, o := range ops {
			rec(append(append([]Op{}, cur...), o))
		}
	}
	rec(nil)
	done := r.ParallelFor(len(hists), func(i int) {
		key, detail, npk := phantomVerdict(hists[i], exs, files)
		r.Trans.Add(1)
		if npk < 0 {
			return
		}
		r.Traces.Add(1)
		r.Evals.Add(1)
		r.States.Add(1)
		if npk > 0 {
			r.Nontrivial.Add(1)
		}
		if key != "" {
			r.Violation(key, fmt.Sprintf("[inconsistent-history] history %s: %s", histStr(hists[i]), detail), map[string]any{"phase": "inconsistent-history", "history": hists[i]})
		}
	})
	return done == len(hists)
}
