// C04 — each image-up-to-layer view equals the OCI overlay of its layers.
//
// Bounded-exhaustive: every sequence of 1..k layers, each a set of <= m entries
// over a small path universe (regular files with two contents, directories,
// symlinks, whiteouts, opaque markers), every entry order within a layer, three
// name styles, history arrangements with empty layers, requirer configurations.
// Each image is loaded by the real image.FromV1Image and every view is queried
// (Stat, Open+Read, ReadDir, WalkDir on every universe path and two absent
// paths) and compared with an independent overlay model (imgkit.Model).
//
// Don't-care cells:
//   - permission bits of directories that exist only because a child entry implies them;
//   - lookups *through* a symlinked directory component (C17 covers final-component links);
//   - non-required files in intermediate views under a restricted load (only the
//     final view is compared; the property allows either reading);
//   - layers that are not well-formed change sets (a path that is both a non-directory
//     and has children in the same layer; the same name twice in one layer).
package main

import (
	"encoding/json"
	"errors"
	"fmt"
	"io"
	"io/fs"
	"os"
	"path"
	"path/filepath"
	"reflect"
	"sort"
	"strings"
	"time"

	"github.com/google/go-containerregistry/pkg/name"
	"github.com/google/go-containerregistry/pkg/v1/tarball"
	"github.com/google/osv-scalibr/artifact/image/layerscanning/image"
	"github.com/google/osv-scalibr/artifact/image/require"
	"github.com/google/osv-scalibr/artifact/image/unpack"
	scalibrfs "github.com/google/osv-scalibr/fs"
	"verif/ev"
	"verif/imgkit"
	"verif/scankit"
)

type caseT struct {
	Layers  [][]imgkit.Entry `json:"layers"`
	Style   string           `json:"name_style"`
	History []imgkit.Hist    `json:"history,omitempty"`
	NoCfg   bool             `json:"no_config,omitempty"`
	Req     string           `json:"requirer"` // "all", "none", or a path
	U       []string         `json:"universe,omitempty"`
	Unpack  string           `json:"unpacker_config,omitempty"` // "", "zero-is-default", "negative-is-default"
}

func styled(es []imgkit.Entry, style string) []imgkit.Entry {
	out := make([]imgkit.Entry, len(es))
	for i, e := range es {
		switch style {
		case "dot":
			e.Name = "./" + e.Name
		case "abs":
			e.Name = "/" + e.Name
		}
		out[i] = e
	}
	return out
}

// ---- entry alphabet ----

func entryOptions(universe []string, thorough bool) []imgkit.Entry {
	var out []imgkit.Entry
	for _, p := range universe {
		// the second file is setuid, the directory sticky: the special bits are part of the mode
		out = append(out, imgkit.File(p, "1"), imgkit.Entry{Name: p, Kind: "file", Data: "22", Mode: 0o4700})
		out = append(out, imgkit.Entry{Name: p, Kind: "dir", Mode: 0o1750})
		out = append(out, imgkit.Whiteout(p))
		out = append(out, imgkit.Opaque(p))
	}
	// symlinks: absolute to a (possibly missing) file, relative to a directory, and two that can take
	// the place of a directory with content below it (a non-directory hides what was beneath)
	out = append(out, imgkit.Sym("a/d", "/e"), imgkit.Sym("e", "a/b"), imgkit.Sym("a/b", "/e"), imgkit.Sym("a", "e"))
	return out
}

// realPath is the path an entry affects ("a/.wh.b" -> "a/b", "a/.wh..wh..opq" -> "a").
func realPath(e imgkit.Entry) (p string, wh, opq bool) {
	n := imgkit.CleanName(e.Name)
	b := path.Base(n)
	d := path.Dir(n)
	if d == "." {
		d = ""
	}
	if b == ".wh..wh..opq" {
		return d, false, true
	}
	if strings.HasPrefix(b, ".wh.") {
		return path.Join(d, strings.TrimPrefix(b, ".wh.")), true, false
	}
	return n, false, false
}

func below(p, q string) bool { return strings.HasPrefix(p, q+"/") }

// wellFormed: distinct tar names; at most one non-whiteout entry per path; no entry
// (whiteout and opaque markers included, by their tar name) below a path that is a
// non-directory in this layer.
func wellFormed(es []imgkit.Entry) bool {
	for i, a := range es {
		pa, wa, oa := realPath(a)
		for j, b := range es {
			if i == j {
				continue
			}
			if a.Name == b.Name {
				return false
			}
			pb, wb, ob := realPath(b)
			if !wa && !oa && a.Kind != "dir" && below(imgkit.CleanName(b.Name), pa) {
				return false
			}
			if pa == pb && !wa && !oa && !wb && !ob {
				return false
			}
		}
	}
	return true
}

// anchored: every whiteout / opaque marker of every layer sits in a directory that exists
// (lower view or same layer); whether a dangling marker creates its parent directories
// is not defined by the property (don't-care) and such images are not generated.
func anchored(layers [][]imgkit.Entry) bool {
	cur := imgkit.Model{"": &imgkit.MNode{Kind: "dir"}}
	for _, l := range layers {
		next := cur.Apply(l)
		for _, e := range l {
			p, wh, opq := realPath(e)
			if !wh && !opq {
				continue
			}
			d := path.Dir(p)
			if opq {
				d = p
			}
			if d == "." {
				d = ""
			}
			// must be a directory after this layer's own additions, or have been one below
			// must be a directory in the view this layer produces (a marker inside a directory
			// that the same layer deletes or hides is redundant; whether it re-creates its
			// parents is a don't-care)
			if n1, ok1 := next[d]; !ok1 || n1.Kind != "dir" {
				return false
			}
		}
		cur = next
	}
	return true
}

func layerSets(opts []imgkit.Entry, max int) [][]imgkit.Entry {
	var out [][]imgkit.Entry
	var rec func(start int, cur []imgkit.Entry)
	rec = func(start int, cur []imgkit.Entry) {
		if len(cur) > 0 && wellFormed(cur) {
			out = append(out, append([]imgkit.Entry{}, cur...))
		}
		if len(cur) == max {
			return
		}
		for i := start; i < len(opts); i++ {
			rec(i+1, append(cur, opts[i]))
		}
	}
	rec(0, nil)
	return out
}

func perms(es []imgkit.Entry) [][]imgkit.Entry {
	if len(es) <= 1 {
		return [][]imgkit.Entry{es}
	}
	var out [][]imgkit.Entry
	idx := make([]int, len(es))
	for i := range idx {
		idx[i] = i
	}
	var rec func(k int)
	rec = func(k int) {
		if k == len(idx) {
			p := make([]imgkit.Entry, len(es))
			for i, j := range idx {
				p[i] = es[j]
			}
			out = append(out, p)
			return
		}
		for i := k; i < len(idx); i++ {
			idx[k], idx[i] = idx[i], idx[k]
			rec(k + 1)
			idx[k], idx[i] = idx[i], idx[k]
		}
	}
	rec(0)
	return out
}

// ---- variant models for attributing open findings ----

// applyVariant: the spec model with some rules switched off.
//
//	noOpaque: opaque markers are ignored.
//	sequential: a whiteout listed before an entry at/below its path in the same layer also
//	            suppresses that entry (the implementation processes a layer in tar order).
func applyVariant(m imgkit.Model, es []imgkit.Entry, noOpaque, sequential bool) imgkit.Model {
	var kept []imgkit.Entry
	present := map[string]bool{} // paths that exist in this layer so far (explicit or implied)
	whited := map[string]bool{}
	ancestors := func(p string) []string {
		var out []string
		parts := strings.Split(p, "/")
		for i := 1; i < len(parts); i++ {
			out = append(out, strings.Join(parts[:i], "/"))
		}
		return out
	}
	for _, e := range es {
		p, wh, opq := realPath(e)
		if opq {
			if !noOpaque {
				kept = append(kept, e)
			}
			continue
		}
		if !sequential {
			kept = append(kept, e)
			continue
		}
		// the implementation handles a layer entry by entry: an entry whose path already has a
		// node in this layer (entry, whiteout or implied directory) is skipped, and so is one
		// below a path whited out earlier in the same layer
		if present[p] || whited[p] {
			continue
		}
		hidden := false
		for _, a := range ancestors(p) {
			if whited[a] {
				hidden = true
			}
		}
		for _, a := range ancestors(p) {
			if whited[a] {
				break // nothing below a path whited out in this layer gets a node
			}
			if !present[a] {
				present[a] = true
				kept = append(kept, imgkit.Entry{Name: a, Kind: "dir", Mode: 0o755, Implied: true})
			}
		}
		if hidden {
			continue
		}
		if wh {
			whited[p] = true
		} else {
			present[p] = true
		}
		kept = append(kept, e)
	}
	return m.Apply(kept)
}

// sameLayerInterference: a layer holds a whiteout whose path equals, contains or lies below the
// path of another entry of the same layer (the situation the sequential variant is about).
func sameLayerInterference(l []imgkit.Entry) bool {
	for i, a := range l {
		pa, wa, oa := realPath(a)
		if !wa || oa {
			continue
		}
		for j, b := range l {
			if i == j {
				continue
			}
			pb, _, ob := realPath(b)
			if ob {
				continue
			}
			if pa == pb || below(pa, pb) || below(pb, pa) {
				return true
			}
		}
	}
	return false
}

// ---- comparing one view ----

type mismatch struct{ kind, detail string }

// squashWithRequirer: "the squashed on-disk unpacking contains the same regular files as the final
// view" also under a restriction to required files. A required symlink keeps its target in the
// view; the unpacker must bring that target to disk as well, however the target is spelled
// (relative and climbing, absolute, same directory, with redundant components), for links at depth
// 1..3 and targets in another / the same / a parent directory.
func squashWithRequirer(r *ev.Run, base string) {
	type tcase struct{ link, target, spelled string }
	var cases []tcase
	for _, link := range []string{"l", "app/l", "app/conf/l"} {
		for _, target := range []string{"t.txt", "etc/t.txt", "app/t.txt", "app/conf/t.txt"} {
			ups := strings.Repeat("../", strings.Count(link, "/"))
			spellings := []string{"/" + target, ups + target}
			if path.Dir(link) == path.Dir(target) {
				spellings = append(spellings, path.Base(target), "./"+path.Base(target))
			}
			if strings.Count(link, "/") >= 1 {
				spellings = append(spellings, ups+"x/../"+target)
			}
			for _, sp := range spellings {
				cases = append(cases, tcase{link, target, sp})
			}
		}
	}
	for _, tc := range cases {
		es := []imgkit.Entry{imgkit.File(tc.target, "target-content"), imgkit.File("unrelated.txt", "u"), imgkit.Sym(tc.link, tc.spelled)}
		for _, split := range []bool{false, true} {
			layers := [][]imgkit.Entry{es}
			if split {
				layers = [][]imgkit.Entry{es[:2], es[2:]} // the link arrives in a later layer than its target
			}
			var tars [][]byte
			for _, l := range layers {
				tars = append(tars, imgkit.TarBytes(l))
			}
			rimg, err := imgkit.RealImage(tars, nil)
			if err != nil {
				continue
			}
			dir, _ := os.MkdirTemp(base, "sqr")
			out := filepath.Join(dir, "out")
			os.Mkdir(out, 0o755)
			req := require.NewFileRequirerPaths([]string{tc.link, "/" + tc.link})
			u, _ := unpack.NewUnpacker(unpack.DefaultUnpackerConfig().WithRequirer(req))
			uerr := u.UnpackSquashed(out, rimg)
			r.Evals.Add(1)
			r.Nontrivial.Add(1)
			got := map[string]string{}
			_ = filepath.Walk(out, func(p string, fi os.FileInfo, err error) error {
				if err == nil && fi.Mode().IsRegular() {
					b, _ := os.ReadFile(p)
					rel, _ := filepath.Rel(out, p)
					got[rel] = string(b)
				}
				return nil
			})
			want := map[string]string{tc.target: "target-content"}
			rp := map[string]any{"link": tc.link, "target": tc.target, "spelled": tc.spelled, "link_in_later_layer": split}
			if uerr != nil {
				r.Violation("squash-error", fmt.Sprintf("link %s -> %s, only the link required: %v", tc.link, tc.spelled, uerr), rp)
			} else if !reflect.DeepEqual(got, want) {
				r.Violation("squashed-unpack-differs", fmt.Sprintf("link %s -> %q (target %s), only the link is required: regular files on disk %v, want %v (the final view under the same requirer keeps the link's target)", tc.link, tc.spelled, tc.target, got, want), rp)
			}
			os.RemoveAll(dir)
		}
	}
}

// handleLaws: "content" also means what a reader gets through the other access paths of a file
// handle, and that one handle does not disturb another: a second Open of the same path while the
// first handle is part-way through yields the whole content again; ReadAt and Seek address the
// same bytes as a sequential read.
func handleLaws(fsys scalibrfs.FS, p, data string) *mismatch {
	f1, err := fsys.Open(p)
	if err != nil {
		return &mismatch{"lookup-misses-present-path", fmt.Sprintf("second Open(%q): %v", p, err)}
	}
	defer f1.Close()
	if len(data) > 0 {
		one := make([]byte, 1)
		if k, _ := f1.Read(one); k != 1 || one[0] != data[0] {
			return &mismatch{"wrong-content", fmt.Sprintf("Open(%q): first byte %q (n=%d), model %q", p, one, k, data[:1])}
		}
	}
	f2, err := fsys.Open(p)
	if err != nil {
		return &mismatch{"lookup-misses-present-path", fmt.Sprintf("Open(%q) while another handle is open: %v", p, err)}
	}
	b2, rerr := io.ReadAll(f2)
	if rerr != nil || string(b2) != data {
		f2.Close()
		return &mismatch{"handles-not-independent", fmt.Sprintf("Open(%q) while another handle on it has consumed 1 byte: read %q (err %v), model %q", p, b2, rerr, data)}
	}
	f2.Close()
	// the first handle continues where it was
	rest, rerr := io.ReadAll(f1)
	if len(data) > 0 && (rerr != nil || string(rest) != data[1:]) {
		return &mismatch{"handles-not-independent", fmt.Sprintf("Open(%q): after another handle was opened, read to its end and closed, the first handle continues with %q (err %v), model %q", p, rest, rerr, data[1:])}
	}
	if ra, ok := f1.(io.ReaderAt); ok && len(data) > 0 {
		for off := 0; off < len(data); off++ {
			buf := make([]byte, len(data)-off)
			k, err := ra.ReadAt(buf, int64(off))
			if k != len(buf) || string(buf) != data[off:] || (err != nil && err != io.EOF) {
				return &mismatch{"wrong-content", fmt.Sprintf("ReadAt(%q, off %d) = %q n=%d err=%v, model %q", p, off, buf, k, err, data[off:])}
			}
		}
	}
	if sk, ok := f1.(io.Seeker); ok && len(data) > 0 {
		if pos, err := sk.Seek(-1, io.SeekEnd); err != nil || pos != int64(len(data)-1) {
			return &mismatch{"wrong-content", fmt.Sprintf("Seek(%q, -1, end) = %d, %v; model %d", p, pos, err, len(data)-1)}
		}
		last, _ := io.ReadAll(f1)
		if string(last) != data[len(data)-1:] {
			return &mismatch{"wrong-content", fmt.Sprintf("Seek(%q, -1, end) then read: %q, model %q", p, last, data[len(data)-1:])}
		}
	}
	return nil
}

// modeBits keeps permission and setuid/setgid/sticky bits of a file mode.
func modeBits(m fs.FileMode) fs.FileMode {
	return m & (fs.ModePerm | fs.ModeSetuid | fs.ModeSetgid | fs.ModeSticky)
}

// tarModeBits translates the mode field of a tar header (Unix bits) into fs.FileMode bits.
func tarModeBits(m int64) fs.FileMode {
	out := fs.FileMode(m & 0o777)
	if m&0o4000 != 0 {
		out |= fs.ModeSetuid
	}
	if m&0o2000 != 0 {
		out |= fs.ModeSetgid
	}
	if m&0o1000 != 0 {
		out |= fs.ModeSticky
	}
	return out
}

func probePaths(universe []string) []string {
	return append(append([]string{}, universe...), "zz", "a/zz")
}

func compareView(fsys scalibrfs.FS, m imgkit.Model, universe []string, requiredOnly func(p string) bool) *mismatch {
	// direct lookups
	for _, p := range probePaths(universe) {
		n := m[p]
		fi, err := fsys.Stat(p)
		// a path below a symlinked directory is a don't-care
		through := false
		for d := path.Dir(p); d != "." && d != "/"; d = path.Dir(d) {
			if x, ok := m[d]; ok && x.Kind == "symlink" {
				through = true
			}
		}
		if through {
			continue
		}
		if requiredOnly != nil && n != nil && n.Kind != "dir" && !requiredOnly(p) {
			n = nil // pruned by the requirer
			if err == nil {
				// symlink targets of required links may be kept; a non-required file that is still present is a violation
				return &mismatch{"restricted-load-keeps-non-required", fmt.Sprintf("Stat(%q) succeeds although the requirer does not need it", p)}
			}
			continue
		}
		if n == nil {
			if err == nil {
				return &mismatch{"lookup-finds-absent-path", fmt.Sprintf("Stat(%q) = %v size %d, model has no such path", p, fi.Mode(), fi.Size())}
			}
			if !errors.Is(err, fs.ErrNotExist) {
				return &mismatch{"absent-path-wrong-error", fmt.Sprintf("Stat(%q) error %v is not ErrNotExist", p, err)}
			}
			if f, oerr := fsys.Open(p); oerr == nil {
				_, serr := f.Stat()
				_, rerr := io.ReadAll(f)
				f.Close()
				if serr == nil || rerr == nil {
					return &mismatch{"lookup-finds-absent-path", fmt.Sprintf("Open(%q) returns a usable handle, model has no such path", p)}
				}
			}
			continue
		}
		switch n.Kind {
		case "symlink":
			// resolution is C17's business; here: the entry must exist in its parent's listing as a symlink (checked below)
			continue
		case "dir":
			if err != nil {
				return &mismatch{"lookup-misses-present-path", fmt.Sprintf("Stat(%q): %v, model has a directory", p, err)}
			}
			if !fi.IsDir() {
				return &mismatch{"wrong-kind", fmt.Sprintf("Stat(%q) mode %v, model has a directory", p, fi.Mode())}
			}
			// the mode of a directory is defined when some layer carried an entry for it (the mode of a
			// directory that only exists as an implied parent is a don't-care)
			if n.Explicit && requiredOnly == nil && modeBits(fi.Mode()) != tarModeBits(n.Mode) {
				return &mismatch{"wrong-dir-mode", fmt.Sprintf("Stat(%q) mode %v, model %v", p, fi.Mode(), tarModeBits(n.Mode)|fs.ModeDir)}
			}
		case "file":
			if err != nil {
				return &mismatch{"lookup-misses-present-path", fmt.Sprintf("Stat(%q): %v, model has file %q", p, err, n.Data)}
			}
			if !fi.Mode().IsRegular() {
				return &mismatch{"wrong-kind", fmt.Sprintf("Stat(%q) mode %v, model has a regular file", p, fi.Mode())}
			}
			if fi.Size() != int64(len(n.Data)) {
				return &mismatch{"wrong-size", fmt.Sprintf("Stat(%q) size %d, model %d", p, fi.Size(), len(n.Data))}
			}
			if modeBits(fi.Mode()) != tarModeBits(n.Mode) {
				return &mismatch{"wrong-mode", fmt.Sprintf("Stat(%q) mode %v, model %v", p, fi.Mode(), tarModeBits(n.Mode))}
			}
			f, err := fsys.Open(p)
			if err != nil {
				return &mismatch{"lookup-misses-present-path", fmt.Sprintf("Open(%q): %v", p, err)}
			}
			b, rerr := io.ReadAll(f)
			f.Close()
			if rerr != nil || string(b) != n.Data {
				return &mismatch{"wrong-content", fmt.Sprintf("Open(%q) read %q err %v, model %q", p, b, rerr, n.Data)}
			}
			if m := handleLaws(fsys, p, n.Data); m != nil {
				return m
			}
		}
	}
	// listings of every model directory
	dirs := []string{""}
	for _, p := range m.Paths() {
		if m[p].Kind == "dir" {
			dirs = append(dirs, p)
		}
	}
	for _, d := range dirs {
		through := false
		for x := path.Dir(d); d != "" && x != "." && x != "/"; x = path.Dir(x) {
			if y, ok := m[x]; ok && y.Kind == "symlink" {
				through = true
			}
		}
		if through {
			continue
		}
		name := d
		if name == "" {
			name = "."
		}
		ents, err := fsys.ReadDir(name)
		if err != nil {
			return &mismatch{"readdir-fails", fmt.Sprintf("ReadDir(%q): %v", name, err)}
		}
		var got, want []string
		for _, e := range ents {
			k := "file"
			if e.IsDir() {
				k = "dir"
			} else if e.Type()&fs.ModeSymlink != 0 {
				k = "symlink"
			}
			got = append(got, e.Name()+":"+k)
		}
		for _, c := range m.Children(d) {
			n := m[path.Join(d, c)]
			if requiredOnly != nil && n.Kind != "dir" && !requiredOnly(path.Join(d, c)) {
				continue
			}
			want = append(want, c+":"+n.Kind)
		}
		if requiredOnly != nil {
			// symlink targets kept for required links make the exact listing a don't-care under a restricted load: only demand want ⊆ got
			gs := map[string]bool{}
			for _, g := range got {
				gs[g] = true
			}
			for _, w := range want {
				if !gs[w] {
					return &mismatch{"restricted-load-listing-lost-entry", fmt.Sprintf("ReadDir(%q) = %v lacks %s", name, got, w)}
				}
			}
			continue
		}
		if !sort.SliceIsSorted(ents, func(i, j int) bool { return ents[i].Name() < ents[j].Name() }) {
			// fs.ReadDirFS demands output sorted by file name
			return &mismatch{"listing-not-sorted", fmt.Sprintf("ReadDir(%q) = %v", name, got)}
		}
		if strings.Join(got, " ") != strings.Join(want, " ") {
			return &mismatch{"listing-differs", fmt.Sprintf("ReadDir(%q) = %v, model %v", name, got, want)}
		}
	}
	if requiredOnly != nil {
		return nil
	}
	// tree walk
	var walked []string
	err := fs.WalkDir(fsys, ".", func(p string, d fs.DirEntry, err error) error {
		if err != nil {
			return err
		}
		if p != "." {
			walked = append(walked, p)
		}
		return nil
	})
	if err != nil {
		return &mismatch{"walk-fails", err.Error()}
	}
	sort.Strings(walked)
	var wantWalk []string
	for _, p := range m.Paths() {
		through := false
		for x := path.Dir(p); x != "." && x != "/"; x = path.Dir(x) {
			if y, ok := m[x]; ok && y.Kind == "symlink" {
				through = true
			}
		}
		if !through {
			wantWalk = append(wantWalk, p)
		}
	}
	if strings.Join(walked, " ") != strings.Join(wantWalk, " ") {
		return &mismatch{"walk-differs", fmt.Sprintf("WalkDir visits %v, model %v", walked, wantWalk)}
	}
	return nil
}

// tarballUniverse is the probe set for the FromTarball phase (a superset of both tiers' universes).
var tarballUniverse = []string{"a", "a/b", "a/b/c", "a/d", "e", "e/f"}

type reqPaths struct{ p map[string]bool }

func (r reqPaths) FileRequired(p string, _ fs.FileInfo) bool {
	return r.p[strings.TrimPrefix(p, "/")]
}

// modelsFor computes the per-chain-layer models (one per history entry incl. empty layers).
func modelsFor(c *caseT, noOpaque, sequential bool) []imgkit.Model {
	var per []imgkit.Model
	cur := imgkit.Model{"": &imgkit.MNode{Kind: "dir", Mode: 0o755}}
	for _, l := range c.Layers {
		cur = applyVariant(cur, l, noOpaque, sequential)
		per = append(per, cur)
	}
	nonEmpty := 0
	for _, h := range c.History {
		if !h.Empty {
			nonEmpty++
		}
	}
	if c.History == nil || c.NoCfg || nonEmpty != len(c.Layers) {
		return per
	}
	var out []imgkit.Model
	li := 0
	prev := imgkit.Model{"": &imgkit.MNode{Kind: "dir", Mode: 0o755}}
	for _, h := range c.History {
		if h.Empty {
			out = append(out, prev)
			continue
		}
		prev = per[li]
		li++
		out = append(out, prev)
	}
	return out
}

func runCase(c *caseT, universe []string) (key, detail string) {
	var tars [][]byte
	for _, l := range c.Layers {
		tars = append(tars, imgkit.TarBytes(styled(l, c.Style)))
	}
	im := imgkit.NewImage(tars, c.History)
	if c.NoCfg {
		im.NoConfig()
	}
	cfg := image.DefaultConfig()
	var reqOnly func(string) bool
	switch c.Req {
	case "all":
	case "none":
		cfg.Requirer = &require.FileRequirerNone{}
		reqOnly = func(string) bool { return false }
	case "empty-path-list":
		// the library's path requirer built from an empty list requires nothing
		cfg.Requirer = require.NewFileRequirerPaths(nil)
		reqOnly = func(string) bool { return false }
	default:
		// the library's own path requirer (it is part of what the property's last clause is about)
		cfg.Requirer = require.NewFileRequirerPaths([]string{c.Req})
		reqOnly = func(p string) bool { return p == c.Req } // refined per model in check()
	}
	var img *image.Image
	var err error
	p, stack := ev.Recover(func() { img, err = image.FromV1Image(im, cfg) })
	if p != nil {
		return "panic:" + ev.PanicSite(stack), fmt.Sprint(p)
	}
	if err != nil {
		return "load-error", err.Error()
	}
	defer img.CleanUp()
	cls, err := img.ChainLayers()
	if err != nil {
		return "chainlayers-error", err.Error()
	}
	spec := modelsFor(c, false, false)
	if len(cls) != len(spec) {
		return "view-count", fmt.Sprintf("%d chain layers, expected %d", len(cls), len(spec))
	}
	check := func(models []imgkit.Model) (int, *mismatch) {
		ro := reqOnly
		if ro != nil && c.Req != "none" {
			// the required path plus the chain of targets of a required symlink (kept by design)
			keep := map[string]bool{c.Req: true}
			final := models[len(models)-1]
			cur := c.Req
			for i := 0; i < 8; i++ {
				n, ok := final[cur]
				if !ok || n.Kind != "symlink" {
					break
				}
				if strings.HasPrefix(n.Target, "/") {
					cur = imgkit.CleanName(n.Target)
				} else {
					cur = imgkit.CleanName(path.Join(path.Dir(cur), n.Target))
				}
				keep[cur] = true
			}
			ro = func(p string) bool { return keep[p] }
		}
		for i, cl := range cls {
			if ro != nil && i != len(cls)-1 {
				continue // intermediate views under a restricted load: don't-care
			}
			var mm *mismatch
			p, stack := ev.Recover(func() { mm = compareView(cl.FS(), models[i], universe, ro) })
			if p != nil {
				return i, &mismatch{"panic:" + ev.PanicSite(stack), fmt.Sprint(p)}
			}
			if mm != nil {
				return i, mm
			}
		}
		return -1, nil
	}
	vi, mm := check(spec)
	if mm == nil {
		return "", ""
	}
	// attribute to an open finding only if the implementation agrees exactly with that variant
	hasOpq, hasSeq := false, false
	for _, l := range c.Layers {
		for _, e := range l {
			if _, _, opq := realPath(e); opq {
				hasOpq = true
			}
		}
		if sameLayerInterference(l) {
			hasSeq = true
		}
	}
	type variant struct {
		o, s bool
		key  string
	}
	for _, v := range []variant{{true, false, "known-variant:opaque-whiteout-ignored"}, {false, true, "known-variant:same-layer-whiteout-and-entry"}, {true, true, "known-variant:opaque-ignored+same-layer-whiteout"}} {
		if (v.o && !hasOpq) || (v.s && !hasSeq) {
			continue
		}
		_, m2 := check(modelsFor(c, v.o, v.s))
		if m2 != nil && os.Getenv("VERIF_DEBUG") != "" {
			fmt.Fprintf(os.Stderr, "variant %s does not match: %s %s\n", v.key, m2.kind, m2.detail)
		}
		if m2 == nil {
			return v.key, fmt.Sprintf("view %d: %s (%s); the implementation agrees exactly with the variant model", vi, mm.kind, mm.detail)
		}
	}
	return mm.kind, fmt.Sprintf("view %d: %s", vi, mm.detail)
}

// squashCheck: the on-disk squashed unpack holds the same regular files as the final model view.
func squashCheck(c *caseT, base string) (key, detail string) {
	var tars [][]byte
	for _, l := range c.Layers {
		tars = append(tars, imgkit.TarBytes(styled(l, c.Style)))
	}
	rimg, err := imgkit.RealImage(tars, nil)
	if err != nil {
		return "", ""
	}
	dir, _ := os.MkdirTemp(base, "sq")
	defer os.RemoveAll(dir)
	// second construction of the same image: saved as a docker tarball and loaded by FromTarball
	tb := filepath.Join(dir, "image.tar")
	if ref, err := name.NewTag("verif/c04:latest"); err == nil {
		if err := tarball.WriteToFile(tb, ref, rimg); err == nil {
			img, err := image.FromTarball(tb, image.DefaultConfig())
			if err != nil {
				os.Remove(tb)
				return "from-tarball-load-error", err.Error()
			}
			cls, _ := img.ChainLayers()
			spec := modelsFor(c, false, false)
			var mm *mismatch
			vi := -1
			if len(cls) == len(spec) {
				for i, cl := range cls {
					if m := compareView(cl.FS(), spec[i], tarballUniverse, nil); m != nil {
						mm, vi = m, i
						break
					}
				}
			} else {
				mm = &mismatch{"view-count", fmt.Sprintf("%d chain layers, expected %d", len(cls), len(spec))}
			}
			img.CleanUp()
			if mm != nil {
				// the directly built image must show the same mismatch (then it is reported there, under its own key)
				if k, _ := runCase(c, tarballUniverse); k == "" {
					os.Remove(tb)
					return "from-tarball-differs-from-v1image:" + mm.kind, fmt.Sprintf("view %d: %s", vi, mm.detail)
				}
			}
		}
		os.Remove(tb)
	}
	os.Mkdir(filepath.Join(dir, "out"), 0o755)
	dir = filepath.Join(dir, "out")
	ucfg := unpack.DefaultUnpackerConfig()
	switch c.Unpack {
	case "zero-is-default":
		ucfg.MaxPass, ucfg.MaxFileBytes = 0, 0 // documented: 0 or less means unset, the default applies
	case "negative-is-default":
		ucfg.MaxPass, ucfg.MaxFileBytes = -1, -1
	}
	u, _ := unpack.NewUnpacker(ucfg)
	if err := u.UnpackSquashed(dir, rimg); err != nil {
		return "squash-error", err.Error()
	}
	spec := modelsFor(c, false, false)
	m := spec[len(spec)-1]
	got := map[string]string{}
	_ = filepath.Walk(dir, func(p string, fi os.FileInfo, err error) error {
		if err != nil || !fi.Mode().IsRegular() {
			return nil
		}
		rel, _ := filepath.Rel(dir, p)
		b, _ := os.ReadFile(p)
		got[filepath.ToSlash(rel)] = string(b)
		return nil
	})
	want := map[string]string{}
	for _, p := range m.Paths() {
		if m[p].Kind != "file" {
			continue
		}
		through := false
		for x := path.Dir(p); x != "." && x != "/"; x = path.Dir(x) {
			if y, ok := m[x]; ok && y.Kind == "symlink" {
				through = true
			}
		}
		if !through {
			want[p] = m[p].Data
		}
	}
	if fmt.Sprint(got) == fmt.Sprint(want) {
		return "", ""
	}
	files := func(m imgkit.Model) map[string]string {
		out := map[string]string{}
		for _, p := range m.Paths() {
			if m[p].Kind == "file" {
				out[p] = m[p].Data
			}
		}
		return out
	}
	// open finding 1: the flattening step does not honour opaque markers
	if v := modelsFor(c, true, false); fmt.Sprint(files(v[len(v)-1])) == fmt.Sprint(got) && fmt.Sprint(files(v[len(v)-1])) != fmt.Sprint(want) {
		return "squash:opaque-whiteout-ignored", fmt.Sprintf("on disk %v, model final view %v (equals the model without the opaque rule)", got, want)
	}
	// open finding 2: a lower-layer file whose path becomes a directory survives on disk
	plus := map[string]string{}
	for k, v := range want {
		plus[k] = v
	}
	for _, m0 := range spec[:len(spec)-1] {
		for p, d := range files(m0) {
			if n, ok := m[p]; ok && n.Kind == "dir" {
				plus[p] = d
			}
		}
	}
	if len(plus) != len(want) && fmt.Sprint(plus) == fmt.Sprint(got) {
		return "squash:file-replaced-by-directory-survives", fmt.Sprintf("on disk %v, model final view %v", got, want)
	}
	return "squashed-unpack-differs", fmt.Sprintf("on disk %v, model final view %v", got, want)
}

func layerStr(ls [][]imgkit.Entry) string {
	var parts []string
	for _, l := range ls {
		var es []string
		for _, e := range l {
			es = append(es, e.String())
		}
		parts = append(parts, "["+strings.Join(es, ", ")+"]")
	}
	return strings.Join(parts, " ")
}

func main() {
	scankit.Quiet()
	r := ev.Start("C04", "exploration", 4*time.Minute, 45*time.Minute)
	base, err := os.MkdirTemp("/dev/shm", "c04-")
	if err != nil {
		base, _ = os.MkdirTemp("", "c04-")
	}
	os.Setenv("TMPDIR", base)
	defer os.RemoveAll(base)

	if rp := os.Getenv("VERIF_REPLAY"); rp != "" {
		b, _ := os.ReadFile(rp)
		var doc struct {
			Replay caseT `json:"replay"`
		}
		if json.Unmarshal(b, &doc) != nil {
			os.Exit(3)
		}
		ru := []string{"a", "a/b", "a/b/c", "a/d", "e", "e/f"}
		if len(doc.Replay.U) > 0 {
			ru = doc.Replay.U
		}
		k, d := runCase(&doc.Replay, ru)
		fmt.Printf("replay %s style=%s req=%s: key=%q %s\n", layerStr(doc.Replay.Layers), doc.Replay.Style, doc.Replay.Req, k, d)
		os.RemoveAll(base)
		if k != "" {
			fmt.Printf("VIOLATION property=C04 replay=%s\n", rp)
			os.Exit(1)
		}
		os.Exit(0)
	}

	universe := ev.Pick(r, []string{"a", "a/b", "a/b/c", "e"}, []string{"a", "a/b", "a/b/c", "a/d", "e", "e/f"})
	opts := entryOptions(universe, r.Thorough())
	maxEntries := ev.Pick(r, 2, 2)
	sets := layerSets(opts, maxEntries)
	r.Set("entry_options", len(opts))
	r.Set("layer_sets", len(sets))

	report := func(c *caseT) bool {
		if !anchored(c.Layers) {
			return false
		}
		k, d := runCase(c, universe)
		r.Evals.Add(1)
		if k != "" {
			r.Violation(k, fmt.Sprintf("layers %s style=%s history=%v req=%s: %s", layerStr(c.Layers), c.Style, c.History, c.Req, d), c)
		}
		return true
	}
	hidden := func(ls [][]imgkit.Entry) bool {
		// non-trivial: some upper-layer entry whites out or replaces something a lower layer provided
		for i := 1; i < len(ls); i++ {
			for _, e := range ls[i] {
				p, _, _ := realPath(e)
				for j := 0; j < i; j++ {
					for _, f := range ls[j] {
						q, wh, opq := realPath(f)
						if !wh && !opq && (q == p || below(q, p) || below(p, q)) {
							return true
						}
					}
				}
			}
		}
		return false
	}

	// Phase 1: one layer, all orders, all styles.
	// Phase 2: two layers (sets x sets), all orders of each layer (plain), canonical order in the two other styles.
	// Phase 3 (thorough): three layers with (<=2,<=2,<=1) entries, canonical order, plain.
	n2 := len(sets) * len(sets)
	complete := true
	done := r.ParallelFor(len(sets)+n2, func(i int) {
		if i < len(sets) {
			for _, o := range perms(sets[i]) {
				for _, st := range []string{"plain", "dot", "abs"} {
					report(&caseT{Layers: [][]imgkit.Entry{o}, Style: st, Req: "all"})
				}
			}
			return
		}
		i -= len(sets)
		l0, l1 := sets[i/len(sets)], sets[i%len(sets)]
		nt := hidden([][]imgkit.Entry{l0, l1})
		for _, o0 := range perms(l0) {
			for _, o1 := range perms(l1) {
				c := &caseT{Layers: [][]imgkit.Entry{o0, o1}, Style: "plain", Req: "all"}
				if report(c) && nt {
					r.Nontrivial.Add(1) // (layer sequence, entry order) pairs are distinct by construction
					if r.SampleN() < 3 && len(o0)+len(o1) == 4 {
						r.Sample(map[string]any{"layers": layerStr(c.Layers), "style": c.Style})
					}
				}
			}
		}
		for _, st := range []string{"dot", "abs"} {
			report(&caseT{Layers: [][]imgkit.Entry{l0, l1}, Style: st, Req: "all"})
		}
		// history arrangements and requirers on the canonical order
		if nt {
			for _, h := range [][]imgkit.Hist{
				{{CreatedBy: "c0"}, {CreatedBy: "c1"}},
				{{CreatedBy: "e", Empty: true}, {CreatedBy: "c0"}, {CreatedBy: "c1"}},
				{{CreatedBy: "c0"}, {CreatedBy: "e", Empty: true}, {CreatedBy: "c1"}},
				{{CreatedBy: "c0"}, {CreatedBy: "c1"}, {CreatedBy: "e", Empty: true}},
				{{CreatedBy: "c0"}},
			} {
				report(&caseT{Layers: [][]imgkit.Entry{l0, l1}, Style: "plain", History: h, Req: "all"})
			}
			report(&caseT{Layers: [][]imgkit.Entry{l0, l1}, Style: "plain", NoCfg: true, Req: "all"})
			// a REAL layer whose tar stream has no entries (not a history-only entry) at every position
			for _, ls := range [][][]imgkit.Entry{{{}, l0, l1}, {l0, {}, l1}, {l0, l1, {}}} {
				report(&caseT{Layers: ls, Style: "plain", Req: "all"})
			}
			for _, rq := range append([]string{"none", "empty-path-list"}, universe...) {
				report(&caseT{Layers: [][]imgkit.Entry{l0, l1}, Style: "plain", Req: rq})
			}
			// restricted loads of images whose history begins or ends with empty (metadata-only) entries
			for _, h := range [][]imgkit.Hist{
				{{CreatedBy: "c0"}, {CreatedBy: "c1"}, {CreatedBy: "e", Empty: true}},
				{{CreatedBy: "e", Empty: true}, {CreatedBy: "c0"}, {CreatedBy: "c1"}, {CreatedBy: "e2", Empty: true}},
			} {
				for _, rq := range []string{"none", universe[0], universe[1]} {
					report(&caseT{Layers: [][]imgkit.Entry{l0, l1}, Style: "plain", History: h, Req: rq})
				}
			}
		}
	})
	if done < len(sets)+n2 {
		complete = false
	}
	// squashed on-disk unpack vs final view, two layers of single entries + all one-layer sets (disk heavy: smaller space)
	var single [][]imgkit.Entry
	for _, s := range sets {
		if len(s) == 1 {
			single = append(single, s)
		}
	}
	r.ParallelFor(len(single)*len(single), func(i int) {
		c := &caseT{Layers: [][]imgkit.Entry{single[i/len(single)], single[i%len(single)]}, Style: "plain", Req: "all"}
		if !anchored(c.Layers) {
			return
		}
		k, d := squashCheck(c, base)
		r.Evals.Add(1)
		if k != "" {
			if os.Getenv("VERIF_DEBUG") != "" {
				fmt.Fprintf(os.Stderr, "SQ %s: %s\n", layerStr(c.Layers), d)
			}
			r.Violation(k, fmt.Sprintf("layers %s: %s", layerStr(c.Layers), d), c)
		}
	})
	// images of ONE layer (squashing still has to apply the whiteout rules inside that layer): every
	// layer set of <=2 entries on its own
	r.ParallelFor(len(sets), func(i int) {
		c := &caseT{Layers: [][]imgkit.Entry{sets[i]}, Style: "plain", Req: "all"}
		if !anchored(c.Layers) || sameLayerInterference(sets[i]) {
			return
		}
		k, d := squashCheck(c, base)
		r.Evals.Add(1)
		if k != "" {
			r.Violation(k, fmt.Sprintf("single layer %s: %s", layerStr(c.Layers), d), c)
		}
	})
	squashWithRequirer(r, base)
	// the unpacker's documented defaults: a limit of 0 or less is "unset", not "none at all"
	for _, one := range single {
		for _, uc := range []string{"zero-is-default", "negative-is-default"} {
			c := &caseT{Layers: [][]imgkit.Entry{one, {imgkit.File("zz", "1")}}, Style: "plain", Req: "all", Unpack: uc}
			if !anchored(c.Layers) {
				continue
			}
			k, d := squashCheck(c, base)
			r.Evals.Add(1)
			r.Nontrivial.Add(1)
			if k != "" {
				r.Violation(k, fmt.Sprintf("layers %s unpacker config %s: %s", layerStr(c.Layers), uc, d), c)
			}
		}
	}
	// Deep pruning: a non-required file (or a whiteout) four levels down whose removal empties
	// several nested directories; the restricted final view must keep every directory.
	deepU := []string{"u", "u/s", "u/s/d", "u/s/d/p", "u/s/d/p/f", "u/keep", "k"}
	for _, variant := range [][][]imgkit.Entry{
		{{imgkit.File("u/s/d/p/f", "1"), imgkit.File("k", "1")}},
		{{imgkit.Dir("u"), imgkit.Dir("u/s"), imgkit.Dir("u/s/d"), imgkit.Dir("u/s/d/p"), imgkit.File("u/s/d/p/f", "1"), imgkit.File("k", "1")}},
		{{imgkit.File("u/s/d/p/f", "1"), imgkit.File("u/keep", "22"), imgkit.File("k", "1")}},
		{{imgkit.File("u/s/d/p/f", "1"), imgkit.File("k", "1")}, {imgkit.Whiteout("u/s/d/p/f")}},
		{{imgkit.File("u/s/d/p/f", ""), imgkit.Sym("u/s/d/l", "/k"), imgkit.File("k", "1")}},
	} {
		for _, rq := range []string{"all", "none", "k", "u/keep", "u/s/d/p/f"} {
			c := &caseT{Layers: variant, Style: "plain", Req: rq}
			k, d := runCase(c, deepU)
			r.Evals.Add(1)
			r.Nontrivial.Add(1)
			if k != "" {
				r.Violation(k, fmt.Sprintf("layers %s req=%s: %s", layerStr(c.Layers), c.Req, d), c)
			}
		}
	}
	// Prefix-sibling family: names that are string prefixes of one another ("a", "ab", "a.b").
	// A whiteout or an opaque marker on "a" must not touch "ab" or "a.b"; any implementation that
	// compares paths as strings rather than component-wise differs from the overlay model here.
	{
		pu := []string{"a", "a/x", "ab", "ab/x", "a.b", "a.wh.b", "hw", ".w", ".WH.a"} // "a.wh.b": the marker prefix inside a name; "hw", ".w": names made of the marker's own characters
		var po []imgkit.Entry
		for _, p := range pu {
			po = append(po, imgkit.File(p, "1"), imgkit.Entry{Name: p, Kind: "dir", Mode: 0o1750}, imgkit.Whiteout(p), imgkit.Opaque(p))
		}
		psets := layerSets(po, ev.Pick(r, 2, 3))
		var p1 [][]imgkit.Entry
		for _, s := range psets {
			if len(s) == 1 {
				p1 = append(p1, s)
			}
		}
		upper := ev.Pick(r, p1, layerSets(po, 2))
		pd := r.ParallelFor(len(psets)*len(upper), func(i int) {
			ls := [][]imgkit.Entry{psets[i/len(upper)], upper[i%len(upper)]}
			for _, rq := range []string{"all", "ab/x"} {
				c := &caseT{Layers: ls, Style: "plain", Req: rq, U: pu}
				if !anchored(c.Layers) {
					continue
				}
				k, d := runCase(c, pu)
				r.Evals.Add(1)
				if hidden(ls) {
					r.Nontrivial.Add(1)
				}
				if k != "" {
					r.Violation(k, fmt.Sprintf("layers %s req=%s: %s", layerStr(c.Layers), c.Req, d), c)
				}
			}
			// a third, empty-ish layer on top: the view after the one that carried the marker
			c := &caseT{Layers: append(append([][]imgkit.Entry{}, ls...), []imgkit.Entry{imgkit.File("zz", "1")}), Style: "plain", Req: "all", U: pu}
			if anchored(c.Layers) {
				k, d := runCase(c, pu)
				r.Evals.Add(1)
				if k != "" {
					r.Violation(k, fmt.Sprintf("layers %s: %s", layerStr(c.Layers), d), c)
				}
			}
		})
		if pd < len(psets)*len(upper) {
			complete = false
		}
		r.Set("prefix_sibling_images", pd*3)
	}
	if r.Thorough() && !r.Expired() {
		var s1 [][]imgkit.Entry
		for _, s := range sets {
			if len(s) == 1 {
				s1 = append(s1, s)
			}
		}
		n3 := len(sets) * len(sets)
		d3 := r.ParallelFor(n3, func(i int) {
			l0, l1 := sets[i/len(sets)], sets[i%len(sets)]
			for _, l2 := range s1 {
				c := &caseT{Layers: [][]imgkit.Entry{l0, l1, l2}, Style: "plain", Req: "all"}
				if report(c) && hidden(c.Layers) {
					r.Nontrivial.Add(1)
				}
			}
		})
		if d3 < n3 {
			complete = false
		}
		r.Set("three_layer_images", d3*len(s1))
	}
	os.RemoveAll(base)
	r.Assume("imgkit.Model.Apply (~60 lines) is the OCI image-spec change-set application: whiteouts act on lower layers only, then the layer's entries are added")
	r.Finish(fmt.Sprintf("universe %v; entry kinds: file(2 contents/modes), dir, whiteout, opaque marker per path + 4 symlinks (%d options); layers = all well-formed sets of <=%d entries (%d); all 1- and 2-layer images, every entry order per layer (plain names), canonical order with './' and '/' name styles; for images where an upper layer touches a lower one: 5 history arrangements incl. empty layers at every position and a short history, a real layer with an entry-less tar stream at every position, missing config, requirer none / empty path list / each path (the library's path requirer), also combined with histories that begin or end with empty entries; deep-pruning family (file 4 levels down x requirers); prefix-sibling family (names a, a/x, ab, ab/x, a.b, a.wh.b, hw, .w, .WH.a (an ordinary name: the marker prefix is lower-case); lower layer <=2 (thorough 3) entries x upper layer 1 (thorough <=2) entry, + a third layer on top); squashed on-disk unpack AND a FromTarball load of the saved tarball for all pairs of single-entry layers, with a requirer that requires only a symlink (3 link depths x 4 target places x 2-5 target spellings x link in the same / a later layer: the target must reach the disk), all one-layer images of <=2 entries (and every single-entry layer with the unpacker's limits set to 0 and to -1, both documented as 'unset'); thorough adds all 3-layer images (<=%d,<=%d,1). Each view: Stat/Open+Read (plus: a second handle opened while the first is part-way through, ReadAt at every offset, Seek from the end) on every universe path + 2 absent paths, ReadDir of every directory, WalkDir. non-trivial = an upper-layer entry overlaps a lower-layer entry", universe, len(opts), maxEntries, len(sets), maxEntries, maxEntries), complete)
}
