// C09 — filesystem faults are contained, surfaced, and fatal only on request.
//
// Engine F: deviation-bounded fault enumeration. For every tree (<= N nodes) x
// option vector x extractor set: run fault-free, take the ordered list of
// operation sites memfs numbered (stat, open, readdir#k, fstat, read#n, ...), then
// inject EVERY single fault (site x error kind) and EVERY pair of faults, and compare
// each faulted scan with the fault-free one.
//
// Oracle, relative to the fault-free run:
//   - the scan returns (no panic);
//   - every Extract call on a file outside the failing directory / other than the failing
//     file happens exactly as in the fault-free run, with the same resulting packages; no
//     call happens that the fault-free run does not have;
//   - a reached open / fstat / read fault on a required file puts the owning extractor in
//     FAILED (no other results) or PARTIALLY_SUCCEEDED (other results); unaffected
//     extractors stay SUCCEEDED;
//   - traversal faults (stat of root, open-dir, readdir#k, lazy stat for the size check):
//     overall status FAILED iff ErrorOnFSErrors; without ErrorOnFSErrors no single fault
//     (and no pair) fails the scan.
//
// Don't care: overall status for file-level (open/fstat/read) faults when ErrorOnFSErrors
// is set; a lazy-stat fault inside a FileRequired predicate (the extractor's own decision);
// which files inside the failing directory are still extracted.
package main

import (
	"context"
	"errors"
	"fmt"
	"io/fs"
	"sort"
	"strings"
	"time"

	scalibr "github.com/google/osv-scalibr"
	"github.com/google/osv-scalibr/extractor"
	"github.com/google/osv-scalibr/extractor/filesystem"
	"github.com/google/osv-scalibr/extractor/standalone"
	scalibrfs "github.com/google/osv-scalibr/fs"
	"github.com/google/osv-scalibr/inventory"
	"github.com/google/osv-scalibr/plugin"
	"verif/ev"
	"verif/memfs"
	"verif/scankit"
)

type label struct {
	name string
	dir  bool
	data string
	perm fs.FileMode
}

var labels = []label{
	{"a", true, "", 0},
	{"b", true, "", 0},
	{"p1.txt", false, "one", 0},
	{"p2.txt", false, "two!!", 0},
	{"x.bin", false, "bin", 0o755},
	{"junk", false, "j", 0},
}

func genTrees(n int) []*memfs.Node {
	type key struct{ k, from int }
	memo := map[key][][]*memfs.Node{}
	var forests func(k, from int) [][]*memfs.Node
	forests = func(k, from int) [][]*memfs.Node {
		if k == 0 {
			return [][]*memfs.Node{nil}
		}
		if v, ok := memo[key{k, from}]; ok {
			return v
		}
		var out [][]*memfs.Node
		for i := from; i < len(labels); i++ {
			l := labels[i]
			maxSub := 0
			if l.dir {
				maxSub = k - 1
			}
			for sub := 0; sub <= maxSub; sub++ {
				for _, ch := range forests(sub, 0) {
					for _, rest := range forests(k-1-sub, i+1) {
						nd := &memfs.Node{Name: l.name, Data: l.data, Kind: memfs.File, Perm: l.perm}
						if l.dir {
							nd.Kind = memfs.Dir
						}
						nd.Children = ch
						out = append(out, append([]*memfs.Node{nd}, rest...))
					}
				}
			}
		}
		memo[key{k, from}] = out
		return out
	}
	var trees []*memfs.Node
	for _, f := range forests(n, 0) {
		trees = append(trees, (&memfs.Node{Kind: memfs.Dir, Children: f}).Clone())
	}
	return trees
}

type cfgT struct {
	Fatal   bool `json:"error_on_fs_errors"`
	MaxSize int  `json:"max_file_size"`
	NoRDF   bool `json:"no_readdirfile"`
	ExSet   int  `json:"extractor_set"`
	// Paths: "" = whole-tree walk; "dir" / "file" = PathsToExtract holds the first directory / the
	// first required file of the tree (the explicit-path mode stats the requested path first)
	Paths string `json:"requested_path_kind,omitempty"`
}

type exDef struct {
	name string
	req  func(filesystem.FileAPI) bool
}

var exSets = [][]exDef{
	{{"ex1", scankit.ReqBase("p1.txt", "p2.txt")}},
	{{"ex1", scankit.ReqBase("p1.txt", "p2.txt")}, {"ex2", scankit.ReqBase("p2.txt")}, {"ex3", scankit.ReqExec}},
}

type callRec struct {
	ex, path string
	err      bool
}

type result struct {
	calls    []callRec
	pkgs     []string
	status   map[string]plugin.ScanStatusEnum
	nStatus  int
	overall  plugin.ScanStatusEnum
	overallS string
	log      []string
	panicked string
}

func run(root *memfs.Node, c cfgT, faults map[string]error) result {
	return runThen(root, c, faults, nil)
}

// runThen is run; if after != nil, the same ScanConfig (same extractor instances, same file system
// object, faults cleared) is scanned a second time and that second result is stored in *after.
func runThen(root *memfs.Node, c cfgT, faults map[string]error, after *result) result {
	var res result
	cur := &res
	m := memfs.New(root)
	m.NoReadDirFile = c.NoRDF
	m.Faults = faults
	var exs []filesystem.Extractor
	for _, d := range exSets[c.ExSet] {
		d := d
		exs = append(exs, &scankit.Ex{N: d.name, Req: d.req, Out: func(e *scankit.Ex, in *filesystem.ScanInput, data []byte, rerr error) (inventory.Inventory, error) {
			cur.calls = append(cur.calls, callRec{e.N, in.Path, rerr != nil})
			if rerr != nil {
				return inventory.Inventory{}, rerr
			}
			return inventory.Inventory{Packages: []*extractor.Package{{Name: e.N + "|" + in.Path + "|" + string(data), Version: "1", Locations: []string{in.Path}}}}, nil
		}})
	}
	cfg := &scalibr.ScanConfig{FilesystemExtractors: exs, Capabilities: &plugin.Capabilities{}, ScanRoots: []*scalibrfs.ScanRoot{{FS: m, Path: ""}},
		MaxFileSize: c.MaxSize, ErrorOnFSErrors: c.Fatal}
	cfg.PathsToExtract = requestedAll(root, c)
	var sr *scalibr.ScanResult
	p, stack := ev.Recover(func() { sr = scalibr.New().Scan(context.Background(), cfg) })
	if p != nil {
		res.panicked = fmt.Sprintf("%v at %s", p, ev.PanicSite(stack))
		return res
	}
	for _, pk := range sr.Inventory.Packages {
		res.pkgs = append(res.pkgs, pk.Name)
	}
	sort.Strings(res.pkgs)
	res.status = map[string]plugin.ScanStatusEnum{}
	for _, s := range sr.PluginStatus {
		res.status[s.Name] = s.Status.Status
		res.nStatus++
	}
	res.overall = sr.Status.Status
	res.overallS = sr.Status.String()
	res.log = m.Log
	if after != nil {
		m.Faults = nil
		m.Reset()
		cur = after
		p, stack := ev.Recover(func() { sr = scalibr.New().Scan(context.Background(), cfg) })
		if p != nil {
			after.panicked = fmt.Sprintf("%v at %s", p, ev.PanicSite(stack))
			return res
		}
		for _, pk := range sr.Inventory.Packages {
			after.pkgs = append(after.pkgs, pk.Name)
		}
		sort.Strings(after.pkgs)
		after.status = map[string]plugin.ScanStatusEnum{}
		for _, s := range sr.PluginStatus {
			after.status[s.Name] = s.Status.Status
			after.nStatus++
		}
		after.overall = sr.Status.Status
		after.overallS = sr.Status.String()
	}
	return res
}

// sameOutcome compares what two scans reported (packages, per-plugin and overall status, calls).
func sameOutcome(a, b result) string {
	if a.panicked != b.panicked {
		return "panic: " + b.panicked
	}
	if strings.Join(a.pkgs, ";") != strings.Join(b.pkgs, ";") {
		return fmt.Sprintf("packages %v vs %v", a.pkgs, b.pkgs)
	}
	if fmt.Sprint(a.status) != fmt.Sprint(b.status) || a.overall != b.overall {
		return fmt.Sprintf("status %v/%s vs %v/%s", a.status, a.overallS, b.status, b.overallS)
	}
	if fmt.Sprint(a.calls) != fmt.Sprint(b.calls) {
		return fmt.Sprintf("extract calls %v vs %v", a.calls, b.calls)
	}
	return ""
}

// requestedAll returns PathsToExtract for this config: one path for "dir"/"file", two for
// "dir+file" / "file+dir" (first directory and first required file OUTSIDE that directory).
func requestedAll(root *memfs.Node, c cfgT) []string {
	if c.Paths == "" {
		return nil
	}
	d := requested(root, cfgT{Paths: "dir"})
	f := ""
	memfs.Walk(root, func(p string, nd *memfs.Node) {
		if f == "" && nd.Kind == memfs.File && nd.Name != "junk" && (d == "" || !under(p, d)) {
			f = p
		}
	})
	switch c.Paths {
	case "dir":
		if d != "" {
			return []string{d}
		}
	case "file":
		if r := requested(root, c); r != "" {
			return []string{r}
		}
	case "dir+file":
		if d != "" && f != "" {
			return []string{d, f}
		}
	case "file+dir":
		if d != "" && f != "" {
			return []string{f, d}
		}
	}
	return nil
}

// requested returns the single path put into PathsToExtract for the kinds "dir" and "file".
func requested(root *memfs.Node, c cfgT) string {
	out := ""
	memfs.Walk(root, func(p string, nd *memfs.Node) {
		if out != "" {
			return
		}
		if c.Paths == "dir" && nd.Kind == memfs.Dir {
			out = p
		}
		if c.Paths == "file" && nd.Kind == memfs.File && nd.Name != "junk" {
			out = p
		}
	})
	return out
}

func inList(l []string, p string) bool {
	for _, x := range l {
		if x == p {
			return true
		}
	}
	return false
}

func under(p, dir string) bool {
	if dir == "." {
		return true
	}
	return p == dir || strings.HasPrefix(p, dir+"/")
}

type fault struct {
	Site string `json:"site"`
	Kind string `json:"kind"`
}

var kinds = map[string]error{"perm": fs.ErrPermission, "io": memfs.ErrInjectedIO, "gone": fs.ErrNotExist}
var kindOrder = []string{"perm", "io", "gone"}

func isDir(root *memfs.Node, p string) bool {
	if p == "." {
		return true
	}
	cur := root
	for _, part := range strings.Split(p, "/") {
		var nx *memfs.Node
		for _, c := range cur.Children {
			if c.Name == part {
				nx = c
			}
		}
		if nx == nil {
			return false
		}
		cur = nx
	}
	return cur.Kind == memfs.Dir
}

// verdict compares a faulted run with the fault-free reference.
func verdict(root *memfs.Node, c cfgT, ref, got result, fs []fault) (key, detail string, reached int) {
	if got.panicked != "" {
		return "panic", got.panicked, 1
	}
	logset := map[string]bool{}
	for _, s := range got.log {
		logset[s] = true
	}
	var exemptDirs []string
	exemptFiles := map[string]bool{}
	traversal := false
	fileLevel := false
	expectFail := map[string]bool{} // extractor names that must not be SUCCEEDED
	predicateStat := false
	for _, f := range fs {
		if !logset[f.Site] {
			continue
		}
		reached++
		op, rest, _ := strings.Cut(f.Site, ":")
		p := rest[:strings.LastIndex(rest, "#")]
		occ := rest[strings.LastIndex(rest, "#")+1:]
		switch {
		case op == "stat" && p == ".":
			traversal = true
			exemptDirs = append(exemptDirs, ".")
		case op == "stat" && inList(requestedAll(root, c), p) && isDir(root, p):
			// stat of an explicitly requested directory (by walkIndividualPaths, then by the walker)
			traversal = true
			exemptDirs = append(exemptDirs, p)
		case op == "stat" && inList(requestedAll(root, c), p) && occ == "0":
			// the stat walkIndividualPaths does on an explicitly requested file
			traversal = true
			exemptFiles[p] = true
		case (op == "open" || op == "readdir" || op == "readdirfs" || op == "readdirfs-mid" || op == "fstat") && isDir(root, p):
			traversal = true
			exemptDirs = append(exemptDirs, p)
		case op == "stat":
			// lazy stat on a file: from a FileRequired predicate (ex3) or from the size check
			exemptFiles[p] = true
			// which one it is follows from the order of stats in the fault-free run: the lazy
			// API caches, so there is one stat per file visit; it is the predicate's if ex3 is
			// enabled (its predicate runs for every file), else the size check's.
			if c.ExSet == 1 {
				predicateStat = true
				// ex3's predicate sees the error and declines the file; if MaxSize is set the cached
				// error also reaches the size check of the other requiring extractors -> traversal-type.
				if c.MaxSize > 0 {
					for _, cl := range ref.calls {
						if cl.path == p && cl.ex != "ex3" {
							traversal = true
							expectFail[cl.ex] = true
						}
					}
				}
			} else if c.MaxSize > 0 {
				traversal = true
				for _, cl := range ref.calls {
					if cl.path == p {
						expectFail[cl.ex] = true
					}
				}
			}
		case op == "open" || op == "fstat":
			fileLevel = true
			exemptFiles[p] = true
			// Each requiring extractor (fault-free order) opens the file, then fstats it if the
			// open succeeded; replay that numbering to find whose operation the fault hit.
			var owners []string
			for _, cl := range ref.calls {
				if cl.path == p {
					owners = append(owners, cl.ex)
				}
			}
			injected := map[string]bool{}
			for _, g := range fs {
				injected[g.Site] = true
			}
			o, st := 0, 0
			for _, ow := range owners {
				if injected[fmt.Sprintf("open:%s#%d", p, o)] {
					expectFail[ow] = true
					o++
					continue
				}
				o++
				if injected[fmt.Sprintf("fstat:%s#%d", p, st)] {
					expectFail[ow] = true
				}
				st++
			}
			_ = occ
		case op == "read":
			fileLevel = true
			exemptFiles[p] = true
			for _, cl := range got.calls {
				if cl.path == p && cl.err {
					expectFail[cl.ex] = true
				}
			}
		}
	}
	if reached == 0 {
		// nothing injected was reached: must equal the reference exactly
		if fmt.Sprint(got.calls) != fmt.Sprint(ref.calls) || fmt.Sprint(got.pkgs) != fmt.Sprint(ref.pkgs) || got.overall != ref.overall {
			return "unreached-fault-changes-result", fmt.Sprintf("calls %v vs %v", got.calls, ref.calls), 0
		}
		return "", "", 0
	}
	exempt := func(p string) bool {
		if exemptFiles[p] {
			return true
		}
		for _, d := range exemptDirs {
			if under(p, d) {
				return true
			}
		}
		return false
	}
	failedOverall := got.overall == plugin.ScanStatusFailed
	// status rules
	if c.Fatal && traversal && !failedOverall {
		return "traversal-fault-not-fatal-on-request", fmt.Sprintf("overall %s", got.overallS), reached
	}
	if !c.Fatal && failedOverall {
		return "fault-fatal-without-request", fmt.Sprintf("overall %s", got.overallS), reached
	}
	if failedOverall {
		if c.Fatal && (traversal || fileLevel || predicateStat) {
			return "", "", reached // requested (or don't-care) failure; results are discarded
		}
		return "unexpected-overall-failure", got.overallS, reached
	}
	// containment: calls
	refCount := map[string]int{}
	for _, cl := range ref.calls {
		refCount[cl.ex+"|"+cl.path]++
	}
	gotCount := map[string]int{}
	for _, cl := range got.calls {
		gotCount[cl.ex+"|"+cl.path]++
	}
	for k, n := range gotCount {
		if n > refCount[k] {
			return "extra-extract-under-fault", fmt.Sprintf("%s called %d times, fault-free %d", k, n, refCount[k]), reached
		}
	}
	for _, cl := range ref.calls {
		if exempt(cl.path) {
			continue
		}
		if gotCount[cl.ex+"|"+cl.path] != refCount[cl.ex+"|"+cl.path] {
			return "unrelated-file-not-extracted", fmt.Sprintf("%s|%s extracted %d times, fault-free %d; calls %v", cl.ex, cl.path, gotCount[cl.ex+"|"+cl.path], refCount[cl.ex+"|"+cl.path], got.calls), reached
		}
	}
	// packages: exactly those of the successful calls, and all reference packages of non-exempt files
	gotPk := map[string]bool{}
	for _, p := range got.pkgs {
		gotPk[p] = true
	}
	refPk := map[string]bool{}
	for _, p := range ref.pkgs {
		refPk[p] = true
		parts := strings.SplitN(p, "|", 3)
		if !exempt(parts[1]) && !gotPk[p] {
			return "unrelated-package-lost", fmt.Sprintf("package %q missing; got %v", p, got.pkgs), reached
		}
	}
	for _, p := range got.pkgs {
		if !refPk[p] {
			return "package-differs-under-fault", fmt.Sprintf("package %q not in fault-free result %v", p, ref.pkgs), reached
		}
	}
	if len(got.pkgs) != len(gotPk) {
		return "duplicate-package-under-fault", fmt.Sprint(got.pkgs), reached
	}
	// per-extractor statuses
	if got.nStatus != len(exSets[c.ExSet]) {
		return "status-count", fmt.Sprintf("%d status entries", got.nStatus), reached
	}
	produced := map[string]bool{}
	for _, p := range got.pkgs {
		produced[strings.SplitN(p, "|", 2)[0]] = true
	}
	for _, d := range exSets[c.ExSet] {
		st := got.status[d.name]
		if expectFail[d.name] {
			want := plugin.ScanStatusFailed
			if produced[d.name] {
				want = plugin.ScanStatusPartiallySucceeded
			}
			if st != want {
				return "extractor-status-does-not-reflect-failure", fmt.Sprintf("%s status %d, want %d (produced other results: %v)", d.name, st, want, produced[d.name]), reached
			}
		} else if st != plugin.ScanStatusSucceeded {
			// an extractor may only be non-succeeded because of a reached fault on one of its files
			return "unaffected-extractor-not-succeeded", fmt.Sprintf("%s status %d", d.name, st), reached
		}
	}
	return "", "", reached
}

// standalonePhase: a standalone extractor reads the files of the scan root itself (stat, open,
// read). Under every single fault on an operation it performs, its status must reflect what it
// reported: SUCCEEDED iff it returned no error — also when it returns the results it got so far
// together with the error — and the other standalone extractor and the scan as a whole carry on.
func standalonePhase(r *ev.Run) {
	for n := 1; n <= 3; n++ {
		for _, root := range genTrees(n) {
			ts := root.String()
			var files []string
			memfs.Walk(root, func(p string, nd *memfs.Node) {
				if nd.Kind == memfs.File {
					files = append(files, p)
				}
			})
			if len(files) == 0 {
				continue
			}
			for _, partial := range []bool{false, true} {
				run1 := func(faults map[string]error) (sawErr bool, status map[string]plugin.ScanStatusEnum, overall plugin.ScanStatusEnum, log []string, panicked string) {
					m := memfs.New(root)
					m.Faults = faults
					reader := &scankit.StEx{N: "st-reader", Fn: func(_ context.Context, in *standalone.ScanInput) (inventory.Inventory, error) {
						var inv inventory.Inventory
						for _, f := range files {
							if _, err := fs.Stat(in.FS, f); err != nil {
								sawErr = true
								if partial {
									return inv, err
								}
								return inventory.Inventory{}, err
							}
							b, err := fs.ReadFile(in.FS, f)
							if err != nil {
								sawErr = true
								if partial {
									return inv, err
								}
								return inventory.Inventory{}, err
							}
							inv.Packages = append(inv.Packages, &extractor.Package{Name: "st|" + f + "|" + string(b), Version: "1"})
						}
						return inv, nil
					}}
					other := &scankit.StEx{N: "st-other", Fn: func(context.Context, *standalone.ScanInput) (inventory.Inventory, error) {
						return inventory.Inventory{Packages: []*extractor.Package{{Name: "other", Version: "1"}}}, nil
					}}
					cfg := &scalibr.ScanConfig{StandaloneExtractors: []standalone.Extractor{reader, other}, Capabilities: &plugin.Capabilities{}, ScanRoots: []*scalibrfs.ScanRoot{{FS: m, Path: ""}}}
					var sr *scalibr.ScanResult
					p, stack := ev.Recover(func() { sr = scalibr.New().Scan(context.Background(), cfg) })
					if p != nil {
						return sawErr, nil, 0, nil, fmt.Sprintf("%v at %s", p, ev.PanicSite(stack))
					}
					status = map[string]plugin.ScanStatusEnum{}
					for _, s := range sr.PluginStatus {
						status[s.Name] = s.Status.Status
					}
					return sawErr, status, sr.Status.Status, m.Log, ""
				}
				_, _, _, log, _ := run1(nil)
				seen := map[string]bool{}
				for _, site := range log {
					if seen[site] {
						continue
					}
					seen[site] = true
					for _, k := range kindOrder {
						sawErr, status, overall, _, panicked := run1(map[string]error{site: kinds[k]})
						r.Evals.Add(1)
						rp := map[string]any{"tree": ts, "standalone_partial_results": partial, "faults": []fault{{site, k}}}
						if panicked != "" {
							r.Violation("standalone:panic", fmt.Sprintf("tree %s fault %s/%s: %s", ts, site, k, panicked), rp)
							continue
						}
						if sawErr {
							r.Nontrivial.Add(1)
						}
						if sawErr != (status["st-reader"] != plugin.ScanStatusSucceeded) {
							r.Violation("standalone-status-does-not-reflect-failure", fmt.Sprintf("tree %s fault %s/%s (extractor returns partial results with the error: %v): the standalone extractor returned an error: %v, its status: %v", ts, site, k, partial, sawErr, status["st-reader"]), rp)
						}
						if status["st-other"] != plugin.ScanStatusSucceeded || overall != plugin.ScanStatusSucceeded {
							r.Violation("standalone-failure-not-contained", fmt.Sprintf("tree %s fault %s/%s: other extractor %v, scan %v", ts, site, k, status["st-other"], overall), rp)
						}
					}
				}
			}
		}
	}
}

// twoRootsFatal: with ErrorOnFSErrors a traversal failure fails the scan - also when it happens in a
// LATER scan root after an earlier root already delivered packages. For every tree (<=3 nodes) as
// second root and every single fault that makes its one-root scan fail, the two-root scan
// [healthy root with a package, that root with the same fault] must report FAILED as well.
func twoRootsFatal(r *ev.Run) {
	healthy := memfs.D("", memfs.F("p1.txt", "1"))
	mkEx := func() []filesystem.Extractor {
		return []filesystem.Extractor{&scankit.Ex{N: "ex1", Req: scankit.ReqBase("p1.txt", "p2.txt")}}
	}
	for n := 1; n <= 3; n++ {
		for _, root := range genTrees(n) {
			ts := root.String()
			ref := memfs.New(root)
			cfg := &scalibr.ScanConfig{FilesystemExtractors: mkEx(), Capabilities: &plugin.Capabilities{}, ScanRoots: []*scalibrfs.ScanRoot{{FS: ref, Path: ""}}, ErrorOnFSErrors: true}
			scalibr.New().Scan(context.Background(), cfg)
			seen := map[string]bool{}
			for _, site := range ref.Log {
				if seen[site] {
					continue
				}
				seen[site] = true
				for _, k := range kindOrder {
					one := memfs.New(root)
					one.Faults = map[string]error{site: kinds[k]}
					c1 := &scalibr.ScanConfig{FilesystemExtractors: mkEx(), Capabilities: &plugin.Capabilities{}, ScanRoots: []*scalibrfs.ScanRoot{{FS: one, Path: ""}}, ErrorOnFSErrors: true}
					r1 := scalibr.New().Scan(context.Background(), c1)
					if r1.Status.Status != plugin.ScanStatusFailed {
						continue // not a traversal failure (e.g. a failing open of a file)
					}
					two := memfs.New(root)
					two.Faults = map[string]error{site: kinds[k]}
					c2 := &scalibr.ScanConfig{FilesystemExtractors: mkEx(), Capabilities: &plugin.Capabilities{}, ErrorOnFSErrors: true,
						ScanRoots: []*scalibrfs.ScanRoot{{FS: memfs.New(healthy), Path: ""}, {FS: two, Path: ""}}}
					var r2 *scalibr.ScanResult
					p, stack := ev.Recover(func() { r2 = scalibr.New().Scan(context.Background(), c2) })
					r.Evals.Add(1)
					r.Nontrivial.Add(1)
					rp := map[string]any{"second_root": ts, "faults": []fault{{site, k}}}
					if p != nil {
						r.Violation("two-roots:panic", fmt.Sprintf("%v at %s", p, ev.PanicSite(stack)), rp)
					} else if r2.Status.Status != plugin.ScanStatusFailed {
						r.Violation("traversal-fault-not-fatal-on-request", fmt.Sprintf("ErrorOnFSErrors, roots [healthy root with a package, %s with fault %s/%s]: the second root alone fails the scan, the two-root scan reports %s", ts, site, k, r2.Status), rp)
					}
				}
			}
		}
	}
}

func faultMap(fs []fault) map[string]error {
	m := map[string]error{}
	for _, f := range fs {
		m[f.Site] = kinds[f.Kind]
	}
	return m
}

func main() {
	scankit.Quiet()
	_ = errors.New
	r := ev.Start("C09", "fault_enumeration", 4*time.Minute, 40*time.Minute)
	maxNodes := ev.Pick(r, 5, 6)
	pairNodes := ev.Pick(r, 4, 5) // pairs of faults for trees up to this size
	var cfgs []cfgT
	for _, fatal := range []bool{false, true} {
		for _, ms := range []int{0, 100} {
			for _, nordf := range []bool{false, true} {
				for es := range exSets {
					cfgs = append(cfgs, cfgT{fatal, ms, nordf, es, ""})
					if !nordf {
						cfgs = append(cfgs, cfgT{fatal, ms, nordf, es, "dir"}, cfgT{fatal, ms, nordf, es, "file"})
						if es == 0 {
							cfgs = append(cfgs, cfgT{fatal, ms, nordf, es, "dir+file"}, cfgT{fatal, ms, nordf, es, "file+dir"})
						}
					}
				}
			}
		}
	}
	completed, completedPairs := -1, -1
	for n := 1; n <= maxNodes && !r.Expired(); n++ {
		var trees []*memfs.Node
		for _, t := range genTrees(n) {
			// at least one required file
			req := 0
			memfs.Walk(t, func(p string, nd *memfs.Node) {
				if nd.Kind == memfs.File && nd.Name != "junk" {
					req++
				}
			})
			if req >= 1 {
				trees = append(trees, t)
			}
		}
		done := r.ParallelFor(len(trees), func(i int) {
			root := trees[i]
			ts := root.String()
			for _, c := range cfgs {
				if c.Paths != "" && requestedAll(root, c) == nil {
					continue
				}
				ref := run(root, c, nil)
				if ref.panicked != "" || ref.overall != plugin.ScanStatusSucceeded {
					r.Violation("fault-free-run-failed", ts+": "+ref.panicked+ref.overallS, nil)
					continue
				}
				// distinct sites of the fault-free run, in order
				var sites []string
				seen := map[string]bool{}
				for _, s := range ref.log {
					if !seen[s] {
						seen[s] = true
						sites = append(sites, s)
					}
				}
				report := func(fs []fault, got result) {
					key, detail, reached := verdict(root, c, ref, got, fs)
					r.Evals.Add(1)
					if reached == len(fs) {
						r.Nontrivial.Add(1) // every injected fault was reached; distinct by construction: (tree, config, fault set) triples differ
					}
					if key != "" {
						r.Violation(key, fmt.Sprintf("tree %s config %+v faults %v: %s", ts, c, fs, detail), map[string]any{"tree": ts, "config": c, "faults": fs})
					} else if reached == len(fs) && len(fs) == 2 && r.SampleN() < 4 {
						r.Sample(map[string]any{"tree": ts, "config": c, "faults": fs, "sites_in_fault_free_run": len(sites)})
					}
				}
				// deviation bound 1: every site x every error kind
				for _, s := range sites {
					for _, k := range kindOrder {
						fs := []fault{{s, k}}
						if n <= 4 {
							// a faulted scan must not leave anything behind: the same configuration and
							// plugin instances, scanned again without the fault, give the fault-free result
							var second result
							report(fs, runThen(root, c, faultMap(fs), &second))
							r.Evals.Add(1)
							if d := sameOutcome(ref, second); d != "" {
								r.Violation("scan-after-faulted-scan-differs", fmt.Sprintf("tree %s config %+v: after a scan with fault %v, a second scan of the same configuration without faults differs from the fault-free scan: %s", ts, c, fs, d), map[string]any{"tree": ts, "config": c, "faults": fs})
							}
							continue
						}
						report(fs, run(root, c, faultMap(fs)))
					}
				}
				// deviation bound 2: every pair of sites x kinds (perm,io),(io,gone),(gone,perm)
				if n <= pairNodes {
					for a := 0; a < len(sites); a++ {
						for b := a + 1; b < len(sites); b++ {
							for ki, k := range kindOrder {
								fs := []fault{{sites[a], k}, {sites[b], kindOrder[(ki+1)%3]}}
								report(fs, run(root, c, faultMap(fs)))
							}
						}
					}
				}
			}
		})
		if done == len(trees) {
			completed = n
			if n <= pairNodes {
				completedPairs = n
			}
		}
		r.Set(fmt.Sprintf("trees_with_%d_nodes", n), len(trees))
	}
	standalonePhase(r)
	twoRootsFatal(r)
	r.Set("bound", map[string]any{"single_faults_complete_up_to_nodes": completed, "fault_pairs_complete_up_to_nodes": completedPairs, "configs": len(cfgs)})
	r.Assume("memfs numbers every FS operation of a scan deterministically; a fault is identified by (operation, path, occurrence)")
	r.Assume("UseGitignore stays off: the property's quantifier lists the operation sites of the plain walk")
	r.Finish(fmt.Sprintf("every tree with <=%d nodes holding >=1 required file (dirs a,b; p1.txt, p2.txt (required by 2 extractors), x.bin (exec, predicate calls Stat), junk) x {ErrorOnFSErrors} x {MaxFileSize 0,100} x {ReadDirFile, fallback} x 2 extractor sets x {whole-tree walk, explicitly requested directory, explicitly requested file, directory then file, file then directory}: every single fault = every operation site of the fault-free run x {permission, I/O, not-exist}; every pair of sites (trees <=%d nodes) with 3 kind combinations; each faulted Scan compared with the fault-free Scan; plus a standalone extractor that reads every file of the root itself (trees <=3 nodes, every single fault, returning nothing or its partial results with the error): its status reflects the error it returned, the next extractor and the scan carry on; plus two roots under ErrorOnFSErrors (a healthy root with a package, then each tree <=3 nodes with each single fault that fails its one-root scan): the two-root scan fails too; for single faults on trees <=4 nodes the same configuration is then scanned again without the fault and must equal the fault-free scan. non-trivial = runs in which every injected fault was actually reached (a first fault can mask the second)", maxNodes, pairNodes), completed == maxNodes)
}
